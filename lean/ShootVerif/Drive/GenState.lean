import ShootVerif.Drive.Common
import ShootVerif.Drive.Ctor
import ShootVerif.Proofs.GenState
import ShootVerif.Proofs.Repair
namespace ShootVerif.Drive
open ShootVerif.GenState

def atoms (s : Option Sexp) : List String := match s with
  | some x => x.args.filterMap Sexp.asAtom?
  | none => []

/-- `(disk (file "name" ("EGetter" (embeds i…) (methods m…)) …) …)` -/
def parseDisk (s : Option Sexp) : Disk :=
  match s with
  | none => []
  | some d => d.args.filterMap (fun f => match f with
    | .list (.atom "file" :: .atom n :: defs) =>
      some { name := n, defs := defs.filterMap (fun d => match d with
        | .list (.atom i :: r) =>
          let x := Sexp.list (.atom "x" :: r)
          some (i, { embeds := atoms (x.field? "embeds"), methods := atoms (x.field? "methods") })
        | _ => none) }
    | _ => none)

/-- `(T "A" "file.go" (tree M…) (gs (name g s)…) [(tdoc g s)])` -/
def parseNType (s : Sexp) : Option NType :=
  match s with
  | .list (.atom "T" :: .atom n :: .atom file :: rest) =>
    let r := Sexp.list (.atom "r" :: rest)
    match r.field? "tree" with
    | some (.list (_ :: ms)) => do
      let tr ← parseMembers ms
      let gs := ((r.field? "gs").map Sexp.args |>.getD []).filterMap (fun g => match g with
        | .list [.atom f, .atom a, .atom b] => some (f, a == "true", b == "true")
        | _ => none)
      let tdoc := match r.field? "tdoc" with
        | some (.list [_, .atom a, .atom b]) => some (a == "true", b == "true")
        | _ => none
      some { name := n, file := file, tree := tr, gs := gs, tdoc := tdoc }
    | _ => none
  | _ => none

def parseSide (s : Sexp) : MSide :=
  { fields := atoms (s.field? "fields"), shootNew := s.hasFlag "new", ctor := atoms (s.field? "ctor"),
    getters := atoms (s.field? "get"), setters := atoms (s.field? "set") }

/-- `(T "A" (src … [(tags (Field Tag)…)]) (dest …)|nodest)` -/
def parseMType (s : Sexp) : Option MType :=
  match s with
  | .list (.atom "T" :: .atom n :: rest) =>
    let r := Sexp.list (.atom "r" :: rest)
    (r.field? "src").map (fun src =>
      { name := n, src := parseSide src, dest := (r.field? "dest").map parseSide,
        tags := ((src.field? "tags").map Sexp.args |>.getD []).filterMap (fun g => match g with
          | .list [.atom f, .atom t] => some (f, t)
          | _ => none) })
  | _ => none

def parseSType (s : Sexp) : Option SType :=
  match s with
  | .list [.atom "T", .atom n, .atom b] => some { name := n, body := if b == "none" then none else some b }
  | _ => none

def csv (xs : List String) : String := if xs.isEmpty then "-" else ",".intercalate xs

def showNOut (n : String) (o : NOut) : List (String × String) :=
  [("nparams:" ++ n, toString o.params.length),
   ("gi:" ++ n, csv (o.getIfaces.map (· ++ "Getter"))), ("si:" ++ n, csv (o.setIfaces.map (· ++ "Setter"))),
   ("gl:" ++ n, csv (o.getList.map Transfer.pascalS)), ("sl:" ++ n, csv (o.setList.map (fun x => "Set" ++ Transfer.pascalS x))),
   ("json:" ++ n, toString o.json),
   ("jget:" ++ n, csv (o.jget.map Transfer.pascalS)), ("jset:" ++ n, csv (o.jset.map (fun x => "Set" ++ Transfer.pascalS x))),
   ("jexp:" ++ n, csv o.jexp),
   ("tags:" ++ n, if o.tags.isEmpty then "-" else ";".intercalate (o.tags.map (fun p => p.1 ++ "=" ++ p.2))), ("opts:" ++ n, csv o.opts), ("defs:" ++ n, csv o.defaults)]

def showOptList : Option (List String) → String
  | none => "none"
  | some xs => csv xs

def showMOut (n : String) (o : MOut) : List (String × String) :=
  [("toctor:" ++ n, showOptList o.toCtor), ("to:" ++ n, csv (o.toWrites.map (fun p => p.1 ++ "=" ++ p.2))),
   ("fromctor:" ++ n, showOptList o.fromCtor), ("from:" ++ n, csv (o.fromWrites.map (fun p => p.1 ++ "=" ++ p.2)))]

/-- model lines = the combined run; spec lines = one process per type; `same:T` = the combined run agrees on T
    with `base` (the separate processes; for a permuted list: the combined run over the original list) -/
def linesOf {τ ω : Type} (nameOf : τ → String) (showO : String → ω → List (String × String))
    (comb sep base : List (τ × ω)) : List (String × String) × List (String × String) :=
  -- two outputs are the same file content iff everything that is printed agrees (what `showO` lists)
  let find (l : List (τ × ω)) (n : String) : Option (List (String × String)) := (l.find? (fun p => nameOf p.1 == n)).map (fun p => showO "" p.2)
  let names := (sep.map (fun p => nameOf p.1) ++ comb.map (fun p => nameOf p.1)).eraseDups
  (comb.flatMap (fun p => showO (nameOf p.1) p.2)
      ++ names.map (fun n => ("same:" ++ n, toString (decide (find comb n = find base n)))),
   sep.flatMap (fun p => showO (nameOf p.1) p.2) ++ names.map (fun n => ("same:" ++ n, "true")))

/-- `(flags getset json opt short (tagcase pascal))` -/
def parseNFlags (p : Sexp) : NFlags :=
  let f := p.field? "flags"
  { getset := f.any (·.hasFlag "getset"), json := f.any (·.hasFlag "json"), opt := f.any (·.hasFlag "opt"),
    short := f.any (·.hasFlag "short"),
    tagcase := match f.bind (·.field? "tagcase") with
      | some (.list [_, .atom c]) => c
      | _ => "camel" }

/-- `(repair none|full)`: default = the code at HEAD (`codeRepair`) -/
def repairOf (p : Sexp) : Repair := match p.field? "repair" with
  | some (.list [_, .atom "none"]) => noRepair
  | some (.list [_, .atom "full"]) => fullRepair
  | _ => codeRepair

def leaksOf (p : Sexp) : Leaks := match p.field? "leaks" with
  | some (.list [_, .atom "none"]) => noLeaks
  | _ => codeToday

/-- first relevant leak along a run of `new` (region name), scanning like `newRunOK` -/
def newRegion (lk : Leaks) (fl : NFlags) (disk : Disk) : LoopSt NSt NType NOut → List NType → String
  | _, [] => "WF"
  | ls, t :: ts =>
    if !assignableSure (effective disk ls.overlay) t || ambiguousNames t then "Out"
    else if lk.hasNew && hasNewRelevant ls.st t then "F_hasNewLeak"
    else if lk.newAcc && accRelevant fl ls.st t then "F_getsetLeak"
    else newRegion lk fl disk (iter (newMachine lk fl) disk ls t ts.isEmpty) ts

def mapRegion (lk : Leaks) (disk : Disk) : LoopSt MSt MType MOut → List MType → String
  | _, [] => "WF"
  | ls, t :: ts =>
    if lk.mapCtor && mapCtorRelevant ls.st t then "F_mapCtorLeak"
    else if lk.mapAcc && mapAccRelevant ls.st t then "F_mapAccLeak"
    else mapRegion lk disk (iter (mapMachine lk) disk ls t ts.isEmpty) ts

/-- embedded struct types of a `new` type, by name -/
def embedNames (t : NType) : List String := ((Ctor.flatten t.tree).filter (·.isEmbeded)).map (·.name)

/-- every listed type that is embedded by a listed type comes before its embedder -/
def depsFirst : List NType → List String → Bool
  | [], _ => true
  | t :: ts, before =>
    (embedNames t).all (fun e => before.contains e || !((t :: ts).map (·.name)).contains e) && depsFirst ts (t.name :: before)

def reorder {τ : Type} (nameOf : τ → String) (ts : List τ) (orig : List String) : List τ :=
  orig.filterMap (fun n => ts.find? (fun t => nameOf t == n))

/-- `(genstate (cmd new|map|simple) (leaks today|none) (flags getset json) (mode combined|solo) (disk …) (types …))` -/
def genstateCase (id : String) (payload : List Sexp) : List String :=
  let p := Sexp.list (.atom "p" :: payload)
  let cmd := (atoms (p.field? "cmd")).headD ""
  let lk := leaksOf p
  let soloMode := (atoms (p.field? "mode")).headD "combined" == "solo"
  let disk := parseDisk (p.field? "disk")
  let tys := (p.field? "types").map Sexp.args |>.getD []
  -- `(orig n1 n2 …)`: this is a permuted `-type` list; the property compares with the run over the original order
  let orig := (p.field? "orig").map (fun o => o.args.filterMap Sexp.asAtom?)
  if cmd == "new" then
    let fl := parseNFlags p
    match tys.mapM parseNType with
    | none => err id "bad-new-types"
    | some ts =>
      let m := newMachine lk fl
      -- separate processes: with -getset each one sees the files the earlier ones wrote; without it the
      -- written files declare nothing that is ever read back
      let rp := repairOf p
      let ots := match orig with | some o => reorder (·.name) ts o | none => ts
      -- one process per type, in list order; with the repair (`depsFirst`): dependencies first, reported in list order
      let sep := if rp.depsFirst && !soloMode then inListOrder ots (oneAtATime m disk (processingOrder rp ots)) else oneAtATime m disk ots
      let comb := if soloMode then oneAtATime m disk ots else generateR rp m .sep disk ts
      -- a permuted list is compared with the combined run over the original list (`same:T`)
      let base := if orig.isSome then generateR rp m .sep disk ots else sep
      let (ml, sl) := linesOf (·.name) showNOut comb sep base
      let crossFlag := !fl.getset && disk.any (fun f => !f.defs.isEmpty)
      let reg0 := if soloMode then (if newRegion noLeaks fl disk { st := {}, overlay := [], outs := [] } ts == "Out" then "Out" else "WF")
        else if crossFlag then "Out"
        else newRegion lk fl disk { st := {}, overlay := [], outs := [] } ts
      let reg1 := if reg0 == "WF" && orig.isSome then newRegion lk fl disk { st := {}, overlay := [], outs := [] } ots else reg0
      let reg := if reg1 == "WF" && orig.isSome && fl.getset && !rp.depsFirst && !(depsFirst ts [] && depsFirst ots []) then "F_embedderFirst" else reg1
      both id ml sl reg
  else if cmd == "map" then
    match tys.mapM parseMType with
    | none => err id "bad-map-types"
    | some ts =>
      let m := mapMachine lk
      let ots := match orig with | some o => reorder (·.name) ts o | none => ts
      let sep := oneAtATime m disk ots
      let comb := if soloMode then sep else generate m disk ts
      let base := if orig.isSome then generate m disk ots else sep
      let (ml, sl) := linesOf (·.name) showMOut comb sep base
      let reg0 := if soloMode then "WF" else mapRegion lk disk { st := {}, overlay := [], outs := [] } ts
      let reg := if reg0 == "WF" && orig.isSome then mapRegion lk disk { st := {}, overlay := [], outs := [] } ots else reg0
      both id ml sl reg
  else if cmd == "simple" then
    match tys.mapM parseSType with
    | none => err id "bad-simple-types"
    | some ts =>
      let ots := match orig with | some o => reorder (·.name) ts o | none => ts
      let sep := oneAtATime simpleMachine disk ots
      let comb := if soloMode then sep else generate simpleMachine disk ts
      let (ml, sl) := linesOf (·.name) (fun n (o : String) => [("out:" ++ n, o)]) comb sep sep
      both id ml sl "WF"
  else err id "bad-genstate-cmd"

end ShootVerif.Drive
