import ShootVerif.Drive.Common
import ShootVerif.Spec.Cli
namespace ShootVerif.Drive
open ShootVerif.Cli

/-!
`(case <id> cli16 (cmd new) (flags (types A B) (file "a.go") sep (cmdline "shoot new -type=A,B"))
   (files (file "a.go" (comments "//go:generate …" …)
      (decls (types (t Alpha struct) (t C (iface rc named univ other)) (t N other (under int) alias (tparams T) nodest))
             (consts (c (Red Green) (typ Color) vals) (c (Blue)))
             (func (tparams A) (locals (t L struct)))
             other)) …))`
-/

def strs (xs : List Sexp) : List String := xs.filterMap Sexp.asAtom?

def parseCmd : String → Option Cmd
  | "new" => some .new | "enum" => some .enum | "rest" => some .rest | "map" => some .map | _ => none

def parseEmbed : String → Option Embed
  | "rc" => some .restClient | "named" => some .named | "univ" => some .universe | "other" => some .other | _ => none

def parseBKind : String → Option BKind
  | "int" => some .int | "uint" => some .uint | "int32" => some .int32 | "uint32" => some .uint32
  | "otherInt" => some .otherInt | "nonInt" => some .nonInt | _ => none

def parseTSpec : Sexp → Option TSpec
  | .list (.atom "t" :: .atom name :: sh :: opts) => do
    let shape ← match sh with
      | .atom "struct" => some Shape.struct
      | .atom "other" => some Shape.other
      | .list (.atom "iface" :: es) => (strs es).mapM parseEmbed |>.map Shape.iface
      | _ => none
    let o := Sexp.list (.atom "o" :: opts)
    let under := match o.field? "under" with
      | some (.list [_, .atom k]) => parseBKind k
      | _ => none
    let tps := match o.field? "tparams" with
      | some (.list (_ :: xs)) => strs xs
      | _ => []
    some { name := name, shape := shape, alias := o.hasFlag "alias", under := under, tparams := tps,
           hasDest := !o.hasFlag "nodest" }
  | _ => none

def parseCSpec : Sexp → Option CSpec
  | .list (.atom "c" :: .list names :: opts) =>
    let o := Sexp.list (.atom "o" :: opts)
    let typ := match o.field? "typ" with
      | some (.list [_, .atom t]) => some t
      | _ => none
    some { names := strs names, typ := typ, hasValues := o.hasFlag "vals" }
  | _ => none

def parseDecl : Sexp → Option Decl
  | .atom "other" => some .other
  | .list (.atom "types" :: ts) => ts.mapM parseTSpec |>.map Decl.types
  | .list (.atom "consts" :: cs) => cs.mapM parseCSpec |>.map Decl.consts
  | s@(.list (.atom "func" :: _)) =>
    let tps := match s.field? "tparams" with
      | some (.list (_ :: xs)) => strs xs
      | _ => []
    let ls := match s.field? "locals" with
      | some (.list (_ :: xs)) => xs.mapM parseTSpec
      | _ => some []
    ls.map (Decl.func tps)
  | _ => none

def parseFile : Sexp → Option File
  | s@(.list (.atom "file" :: .atom name :: _)) => do
    let cs := match s.field? "comments" with
      | some (.list (_ :: xs)) => strs xs
      | _ => []
    let ds ← match s.field? "decls" with
      | some (.list (_ :: xs)) => xs.mapM parseDecl
      | _ => some []
    some { name := name, decls := ds, comments := cs }
  | _ => none

def parseFlags (s : Sexp) : Flags :=
  { types := match s.field? "types" with
      | some (.list (_ :: xs)) => strs xs
      | _ => []
    file := match s.field? "file" with
      | some (.list [_, .atom f]) => f
      | _ => ""
    sep := s.hasFlag "sep"
    cmdline := match s.field? "cmdline" with
      | some (.list [_, .atom c]) => c
      | _ => "" }

def sortStrs (l : List String) : List String := l.mergeSort (fun a b => a ≤ b)

def dash (l : List String) : String := if l.isEmpty then "-" else " ".intercalate l

def showFiles (cmd : Cmd) (w : List (OutName × List String)) : String :=
  dash (sortStrs (w.map (fun f => f.1.render cmd ++ "<-" ++ "+".intercalate (sortStrs f.2))))

/-- names in the order given (the model and the spec sort them as main.go does) -/
def showNames (cmd : Cmd) (l : List OutName) : String := dash (l.map (·.render cmd))

def yn (b : Bool) : String := if b then "yes" else "no"

/-- property-level observables of one outcome of the model -/
def showOutcome (cmd : Cmd) (bad : Option (List String)) : Outcome → List (String × String)
  | .stop .usage => [("exit", "2"), ("files", "-"), ("listed", "-"), ("diag", "usage")]
      ++ (match bad with | some _ => [("baddiag", "no"), ("badgen", "-")] | none => [])
  | .stop .fatal => [("exit", "1"), ("files", "-"), ("listed", "-"), ("diag", "yes")]
      ++ (match bad with | some _ => [("baddiag", "yes"), ("badgen", "-")] | none => [])
  | .stop .panic => [("exit", "panic"), ("files", "-"), ("listed", "-"), ("diag", "no")]
      ++ (match bad with | some _ => [("baddiag", "no"), ("badgen", "-")] | none => [])
  | .done w l warned => [("exit", "0"), ("files", showFiles cmd w), ("listed", showNames cmd l), ("diag", yn warned)]
      ++ (match bad with | some b => [("baddiag", yn warned), ("badgen", dash (sortStrs (holdsBad b w)))] | none => [])

def showSpec (cmd : Cmd) : SpecOut → List (String × String)
  | .files fs => [("exit", "0"), ("files", showFiles cmd fs), ("listed", showNames cmd (sortNames cmd (fs.map (·.1))))]
  | .rejected _ => [("baddiag", "yes"), ("badgen", "-")]

/-- merge the observables of several possible outcomes: agreeing values stay, others become `oneof a | b` -/
def mergeObs (runs : List (List (String × String))) : List (String × String) :=
  match runs with
  | [] => []
  | first :: _ =>
    first.map (fun (k, _) =>
      let vals := (runs.filterMap (fun r => r.lookup k)).eraseDups
      match vals with
      | [v] => (k, v)
      | vs => (k, "oneof " ++ " | ".intercalate (sortStrs vs)))

def cli16Case (id : String) (payload : List Sexp) : List String :=
  let p := Sexp.list (.atom "p" :: payload)
  match p.field? "cmd", p.field? "flags", p.field? "files" with
  | some (.list [_, .atom c]), some fls, some (.list (_ :: fs)) =>
    match parseCmd c, fs.mapM parseFile with
    | some cmd, some pkg =>
      let fl := parseFlags fls
      let reg := region cmd pkg fl
      let sp := spec cmd pkg fl
      let bad := match sp with | some (.rejected b) => some b | _ => none
      let runs := [showOutcome cmd bad (run cmd pkg fl)]
      let model := mergeObs runs
      let specLines := match sp with | some s => showSpec cmd s | none => []
      let info := match bad with | some b => [s!"{id} info bad {",".intercalate b}"] | none => []
      [s!"{id} region {reg.str}"] ++ info ++ model.map (fun (k, v) => line id "model" k v)
        ++ specLines.map (fun (k, v) => line id "spec" k v) ++ [s!"{id} end"]
    | _, _ => err id "bad-cli16-case"
  | _, _, _ => err id "bad-cli16-case"

end ShootVerif.Drive
