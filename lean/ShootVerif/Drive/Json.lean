import ShootVerif.Drive.GetSet
import ShootVerif.Spec.Json
namespace ShootVerif.Drive
open ShootVerif.Ctor ShootVerif.GetSet ShootVerif.Json

def parseTagCase : String → TagCase
  | "pascal" => .pascal
  | "lower" => .lower
  | "upper" => .upper
  | _ => .camel

/-- (leaf path string, index in DFS order, under a pointer embed) of the visible leaf a key's field name selects -/
def targetOf (t : Tree) (vis : Nat → String → Bool) (name : String) : Option (String × Nat × Bool) :=
  let ls := leavesPtr [] false 0 t
  let ix := (List.range ls.length).zip ls
  (ix.find? (fun p => p.2.2.2.1.name = name && !p.2.2.2.1.skip && vis p.2.2.1 name)).map
    (fun p => (pathKey p.2.1 p.2.2.2.1.name, p.1, p.2.2.2.2))

/-- encoding/json's reading of a tag: the key is the text before the first comma; `omitempty` leaves an empty value out -/
def tagName (k : String) : String := (k.splitOn ",").headD ""
def tagOpts (k : String) : List String := (k.splitOn ",").drop 1
def omitEmpty (k : String) : Bool := (tagOpts k).contains "omitempty"

def jsonLines (t : Tree) (vis : Nat → String → Bool) (ks : List JKey) (dockeys : List String) (mirrorPanic : Bool) :
    List (String × String) :=
  let sorted := sortStrs (ks.map (fun k => tagName k.key))
  -- a key whose value is empty is left out under `,omitempty` (the filled value has no empty leaf: only "zero" is empty)
  -- (a struct value is never "empty" for encoding/json; `Inner` is the one struct type of the JSON field-type palette)
  let structTyped (name : String) : Bool :=
    match (leavesPtr [] false 0 t).find? (fun l => l.2.2.1.name = name && !l.2.2.1.skip && vis l.2.1 name) with
    | some l => l.2.2.1.ptype == "Inner" ||
        -- a non-empty ARRAY is never "empty" either (only arrays of length 0 are)
        (match l.2.2.1.ptype.toList with
         | '[' :: c :: _ => c.isDigit && c != '0'
         | _ => false)
    | none => false
  let keep (k : JKey) (v : String) : Option String :=
    if omitEmpty k.key && v == "zero" && !structTyped k.name then none else some (tagName k.key ++ "=" ++ v)
  -- the document of Marshal on the sentinel-filled value, through the model's `marshalO` (Spec/Json.lean): key = name part
  -- of the tag, an entry with `omitempty` is left out when its value is empty (here: "zero"; struct- and array-typed
  -- fields are never empty)
  let st : St String := fun name => match targetOf t vis name with | some (_, i, _) => s!"arg{i}" | none => "?"
  let omFn (tag : String) : Bool := omitEmpty tag &&
    !(match ks.find? (fun k => k.key = tag) with | some k => structTyped k.name | none => false)
  let docM := marshalO "zero" (fun v => v == "zero") tagName omFn ks st
  let mline := sorted.filterMap (fun key => (docM.lookup key).map (fun v => key ++ "=" ++ v))
  let ls := leavesPtr [] false 0 t
  let uline := ls.map (fun l =>
    let p := pathKey l.1 l.2.2.1.name
    let hit := ks.find? (fun k => (k.exported || k.hasSet) && (targetOf t vis k.name).map (·.1) = some p)
    p ++ "=" ++ (match hit with
      | some k => (match idx dockeys (tagName k.key) with | some j => s!"arg{j}" | none => "zero")
      | none => "zero"))
  -- decoding into a USED receiver: a leaf the document governs (exported, or unexported with a setter) ends up exactly as
  -- in a fresh receiver whatever it held before and whether or not its key is present (the shadow struct starts from zero
  -- and every listed field is assigned from it); every other leaf keeps what it held
  let dline := ls.map (fun l =>
    let p := pathKey l.1 l.2.2.1.name
    let hit := ks.find? (fun k => (k.exported || k.hasSet) && (targetOf t vis k.name).map (·.1) = some p)
    p ++ "=" ++ (if hit.isSome then "same" else "dirty"))
  -- one embedded pointer nil, the rest filled: MarshalJSON's guard of a field names exactly the pointer embeds on ITS way
  let lps := leavesPtrs [] [] 0 t
  let ptrsOf (name : String) : List (List String) :=
    match (lps.find? (fun l => l.2.2.1.name = name && !l.2.2.1.skip && vis l.2.1 name)) with
    | some l => if mirrorPanic then allocMapOf (flatten t) name else l.2.2.2.2
    | none => []
  let pembeds := ((lps.map (·.2.2.2.2)).flatten).eraseDups
  let mparts := pembeds.map (fun P =>
    ("mpart:" ++ ".".intercalate P, ";".intercalate (sorted.filterMap (fun key =>
      match ks.find? (fun k => tagName k.key = key) with
      | some k => keep k (if k.exported || k.hasGet then
          (match targetOf t vis k.name with
           | some (_, i, _) => if (ptrsOf k.name).contains P then "zero" else s!"arg{i}"
           | none => "?") else "zero")
      | none => some (key ++ "=?")))))
  -- f531104: UnmarshalJSON allocates, MarshalJSON tests, the embedded pointer structs on the way: no panic any more
  let nilPanic := mirrorPanic && false
  -- the keys of the marshalled object: those not left out
  let present := mline.map (fun kv => (kv.splitOn "=").headD "")
  [("keys", " ".intercalate present), ("marshal", ";".intercalate mline), ("um", ";".intercalate uline),
   ("umdirty", ";".intercalate dline), ("umdirtyp", ";".intercalate dline),
   ("umnil", if nilPanic then "panic" else "ok"), ("mnil", "ok")] ++ mparts

/-- `(json (getset b) (tagcase c) (typedoc …) (facts …) (dockeys k…) (tree M…))` -/
def jsonCase (id : String) (payload : List Sexp) : List String :=
  let p := Sexp.list (.atom "p" :: payload)
  match p.field? "tree" with
  | some (.list (_ :: ms)) =>
    match parseMembers ms with
    | some t =>
      let doc : Option (Bool × Bool) := match p.field? "typedoc" with
        | some (.list [_, .atom g, .atom s]) => some (g == "true", s == "true")
        | _ => none
      let getset := match p.field? "getset" with | some (.list [_, .atom "true"]) => true | _ => false
      let tc := match p.field? "tagcase" with | some (.list [_, .atom c]) => parseTagCase c | _ => .camel
      let dockeys := match p.field? "dockeys" with | some (.list (_ :: ks)) => ks.filterMap Sexp.asAtom? | _ => []
      let factList : List (String × Option (List String) × Option (List String)) := match p.field? "facts" with
        | some (.list (_ :: fs)) => fs.filterMap (fun f => match f with
            | .list (.atom e :: rest) =>
              let r := Sexp.list (.atom "r" :: rest)
              let get (k : String) := (r.field? k).map (fun x => x.args.filterMap Sexp.asAtom?)
              some (e, get "g", get "s")
            | _ => none)
        | _ => []
      let facts : IfaceFacts := fun n => match factList.lookup n with | some x => x | none => (none, none)
      let fs := flatten t
      -- the type-level directive is read only with -getset; the accessors PROMOTED from embedded shoot types count with or
      -- without it (makeGetSet collects them in any case: the embedded types may have been generated by an earlier run)
      let doc := if getset then doc else none
      let sw := typeSwitch doc
      let promG := ((getIfaces sw.1 facts fs).map (·.2)).flatten
      let promS := ((setIfaces sw.2 facts fs).map (·.2)).flatten
      let mk := jsonKeys getset tc sw promG promS fs
      -- spec: promoted accessors of the top-level embedded shoot types
      let embeds := topEmbeds t
      let sG := if typeGetter doc then (embeds.filterMap (fun e => (facts e).1)).flatten else []
      let sS := if typeSetter doc then (embeds.filterMap (fun e => (facts e).2)).flatten else []
      let sk := specKeys getset tc doc sG sS t
      let visM : Nat → String → Bool := fun d n => !genShadow t d n
      let visS : Nat → String → Bool := fun d n => !goShadowed t d n
      -- tag options other than `omitempty` (`string`, unknown ones) change the encoding itself -> Out
      let badTag := sk.any (fun k => tagName k.key = "-" || tagName k.key = "" ||
        (tagOpts k.key).any (fun o => o != "omitempty"))
      let dupKeys := !(sk.map (fun k => tagName k.key)).Nodup || !(sk.map (fun k => Transfer.pascalS k.name)).Nodup
      let clashC03 := (getsetLines t [] [] none none).isEmpty  -- placeholder (never true)
      let sg := (specGetFields doc t).map (fun n => Transfer.pascalS n)
      let ss := (specSetFields doc t).map (fun n => "Set" ++ Transfer.pascalS n)
      -- an own unexported field whose accessor NAME is also a promoted accessor of an embedded shoot type (the field
      -- shadows a field of that type): "its" getter/setter may be the promoted one, of another field and type -> Out
      let allG := (embeds.filterMap (fun e => (facts e).1)).flatten
      let allS := (embeds.filterMap (fun e => (facts e).2)).flatten
      let clash := (sg.any (fun m => sG.contains m) || ss.any (fun m => sS.contains m)) ||
        (leavesTop t).any (fun l => l.top && !l.info.skip && !isExportedName l.info.name &&
          (allG.contains (Transfer.pascalS l.info.name) || allS.contains ("Set" ++ Transfer.pascalS l.info.name)))
      -- an exported field excluded from generation (`new:"-"`): the generated MarshalJSON drops it, the property wants a
      -- key per exported field -> finding region F_jsonSkipExported (when MarshalJSON is generated at all)
      let skippedExp := Json.skippedExported t
      let exportedUnderscore := sk.any (fun k => k.exported && k.name.contains '_')
      -- no MarshalJSON generated (needJSON false): the standard encoding resolves embedded fields by JSON key, not by
      -- Go name, so a hidden exported promoted field may still appear; nothing generated governs that -> Out
      let stdAmbig := !(needJSON getset tc sw promG promS fs) &&
        (leavesTop t).any (fun l => isExportedName l.info.name && goShadowed t l.depth l.info.name)
      let reg :=
        if stdAmbig then "Out" else
        if Ctor.region t != "WF" || !wfOnce t || badTag || dupKeys || clash || clashC03 || exportedUnderscore then "Out"
        else if skippedExp then (if needJSON getset tc sw promG promS fs then "F_jsonSkipExported" else "Out")
        else "WF"
      let aux := [("needjson", toString (needJSON getset tc sw promG promS fs))]
      let tgt := sk.map (fun k => ("target:" ++ tagName k.key, match targetOf t visS k.name with | some (p, _, _) => p | none => "?"))
      let allk := [("allkeys", " ".intercalate (sortStrs (sk.map (fun k => tagName k.key))))]
      both id (jsonLines t visM mk dockeys true ++ aux) (jsonLines t visS sk dockeys false ++ tgt ++ allk) reg
    | none => err id "bad-tree"
  | _ => err id "bad-json-case"

end ShootVerif.Drive
