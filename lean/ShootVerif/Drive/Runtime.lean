import ShootVerif.Drive.Common
import ShootVerif.Spec.Runtime
namespace ShootVerif.Drive.RuntimeD
open ShootVerif.Runtime ShootVerif.Drive

def parseHeaders? : Sexp → Option Headers
  | .atom "nil" => some none
  | .list kvs => (kvs.mapM (fun (kv : Sexp) => match kv with
      | Sexp.list [Sexp.atom k, Sexp.atom v] => some (k, v)
      | _ => none)).map some
  | _ => none

/-- `(base "u")` | `(timeout n)` | `(log true|false)` | `(hdr nil | ((k v)…))` | `(use n)` -/
def parseOpt : Sexp → Option Opt
  | .list [.atom "base", .atom u] => some (.baseURL u)
  | .list [.atom "timeout", d] => d.asInt?.map .timeout
  | .list [.atom "log", .atom b] => some (.enableLogging (b == "true"))
  | .list [.atom "hdr", h] => (parseHeaders? h).map .defaultHeaders
  | .list [.atom "use", m] => m.asNat?.map .use
  | _ => none

def parseOpts : Sexp → Option (List Opt)
  | .list (.atom "opts" :: os) => os.mapM parseOpt
  | _ => none

def showHeaders : Headers → String
  | none => "nil"
  | some kvs => "{" ++ ",".intercalate (kvs.map (fun (k, v) => k ++ "=" ++ v)) ++ "}"

def showMws (ms : List Mw) : String := "[" ++ ",".intercalate (ms.map toString) ++ "]"

/-- observable projection of a round-trip trace: the logging middleware is silent on the way in
    (it only writes its line after the inner round trip returned), the base transport is one event -/
def showEvent : Event → Option String
  | .enter .log => none
  | .exit .log => some "L"
  | .enter (.mw m) => some s!"m{m}>"
  | .exit (.mw m) => some s!"m{m}<"
  | .enter .base => some "B"
  | .exit .base => none

def showTrace (t : List Event) : String := " ".intercalate (t.filterMap showEvent)

def showConf (c : RestConf) : List (String × String) :=
  [("base", Sexp.quoteStr c.baseURL), ("timeout", toString c.timeout), ("logging", toString c.enableLogging),
   ("headers", showHeaders c.defaultHeaders), ("mws", showMws c.mws)]

def showRTOut : RTOut → String
  | .ok => "resp=same err=nil"
  | .fail => "resp=nil err=same"
  | .both => "resp=same err=same"

def confLine (c : RestConf) : String :=
  " ".intercalate ((showConf c).map (fun (k, v) => k ++ "=" ++ v))

end ShootVerif.Drive.RuntimeD

namespace ShootVerif.Drive
open ShootVerif.Runtime ShootVerif.Drive.RuntimeD

/-- `(conf (opts …))`: the RestConf NewWith builds and one round trip through BuildMiddleware() -/
def confCase (id : String) (payload : List Sexp) : List String :=
  match payload with
  | [o] =>
    match parseOpts o with
    | some opts =>
      let c := newWith opts
      let s := specConf opts
      let outs := [("rt.ok", RTOut.ok), ("rt.fail", RTOut.fail), ("rt.both", RTOut.both)]
      both id (showConf c ++ [("trace", showTrace (trace (buildMiddleware c)))]
          ++ outs.map (fun (k, o) => (k, showRTOut (roundTrip (buildMiddleware c) o))))
        (showConf s ++ [("trace", showTrace (specTrace s))]
          ++ outs.map (fun (k, o) => (k, showRTOut (specRoundTrip s o))))
    | none => err id "bad-opts"
  | _ => err id "bad-conf-case"

/-- `(with OPT)` | `(set OPT)` | `build` | `copy` -/
def parseCOp : Sexp → Option COp
  | .atom "build" => some .build
  | .atom "copy" => some .copy
  | .list [.atom "with", o] => (parseOpt o).map .apply
  | .list [.atom "set", o] => (parseOpt o).map .apply
  | _ => none

/-- `(confhist (ops (with (use 1)) build (set (log true)) build copy …))`: the trace of every build -/
def confHistCase (id : String) (payload : List Sexp) : List String :=
  match payload with
  | [.list (.atom "ops" :: ops)] =>
    match ops.mapM parseCOp with
    | some h =>
      let sh (ts : List (List Event)) := (ts.zipIdx).map (fun (t, i) => (s!"b{i}", showTrace t))
      both id (sh (runConf zeroConf h)) (sh (specBuildsFrom [] h))
    | none => err id "bad-ops"
  | _ => err id "bad-confhist-case"

def rtParseOp : Sexp → Option Op
  | .list [.atom "reg", t, k] => do some (.reg (← t.asNat?) (← k.asNat?))
  | .list [.atom "new", t, o] => do some (.new (← t.asNat?) (← parseOpts o))
  | _ => none

def rtShowOutcome : Outcome → String
  | .registered => "registered"
  | .made k c => s!"made:{k} " ++ confLine c
  | .panic (.duplicate t) => s!"panic:dup:{t}"
  | .panic (.unregistered t) => s!"panic:unreg:{t}"

def rtShowHist (os : List Outcome) : List (String × String) :=
  (os.zipIdx).map (fun (o, i) => (s!"op{i}", rtShowOutcome o))

/-- `(registry (ops (reg T K) (new T (opts …)) …))` -/
def registryCase (id : String) (payload : List Sexp) : List String :=
  match payload with
  | [.list (.atom "ops" :: ops)] =>
    match ops.mapM rtParseOp with
    | some h => both id (rtShowHist (runHist [] h)) (rtShowHist (specHist h))
    | none => err id "bad-ops"
  | _ => err id "bad-registry-case"

/-- `(init (timeout d))`: the http.Client the generated init() builds for a configured timeout -/
def initCase (id : String) (payload : List Sexp) : List String :=
  match payload with
  | [.list [.atom "timeout", d]] =>
    match d.asInt? with
    | some d =>
      let c := newWith [.timeout d]
      both id [("client_timeout", toString (initClient c).timeout)]
        [("client_timeout", toString (specClientTimeout c))]
        (if F_timeout c then "F_timeout" else "WF")
    | none => err id "bad-timeout"
  | _ => err id "bad-init-case"

def parseKOp : Sexp → Option KOp
  | .list [.atom "new", t, o] => do some (.new (← t.asNat?) (← parseOpts o))
  | .list [.atom "with", j, o] => do some (.withOpt (← j.asNat?) (← parseOpt o))
  | .list [.atom "again", j] => do some (.again (← j.asNat?))
  | _ => none

def showKOut : KOut → String
  | .made t c => s!"made:{t} " ++ confLine c ++ " trace=" ++ showTrace (trace (buildMiddleware c))
  | .done => "ok"
  | .seen c => "seen " ++ confLine c ++ " trace=" ++ showTrace (trace (buildMiddleware c))
  | .noSuch => "no-such-client"

/-- `(clients (ops (new T (opts …)) (with j OPT) (again j) …))`: clients that keep their RestConf, looked at again later -/
def clientsCase (id : String) (payload : List Sexp) : List String :=
  match payload with
  | [.list (.atom "ops" :: ops)] =>
    match ops.mapM parseKOp with
    | some h =>
      let sh (os : List KOut) := (os.zipIdx).map (fun (o, i) => (s!"op{i}", showKOut o))
      both id (sh (runClients Heap.init [] h)) (sh (specClients [] h))
    | none => err id "bad-ops"
  | _ => err id "bad-clients-case"

end ShootVerif.Drive
