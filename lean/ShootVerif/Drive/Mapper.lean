import ShootVerif.Drive.Common
import ShootVerif.Spec.Mapper
namespace ShootVerif.Drive
open ShootVerif.Mapper

/-- `(b int)` | `(n src "Kind" (b int))` | `(n dest "Sub" (st "N:int"))` | `(p T)` | `(s T)` | `(o "map[string]int")` -/
partial def parseTy : Sexp → Option Ty
  | .list [.atom "b", .atom n] => some (.basic n)
  | .list [.atom "st", .atom s] => some (.struct s)
  | .list [.atom "n", .atom p, .atom n, u] => do
    let u ← parseTy u
    some (.named (if p == "src" then .src else .dest) n u)
  | .list [.atom "p", e] => (parseTy e).map .ptr
  | .list [.atom "s", e] => (parseTy e).map .slice
  | .list [.atom "o", .atom s] => some (.other s)
  | _ => none

abbrev TyTab := List (String × Ty)

/-- members: `(f "Name" t3 [(tag "X")] [get] [set] [new])` | `(e "Base" ptr|val (body M…))` -/
partial def parseMapMembers (tt : TyTab) : List Sexp → Option Tree
  | [] => some .nil
  | m :: rest => do
    let r ← parseMapMembers tt rest
    match m with
    | .list (.atom "f" :: .atom name :: .atom tid :: opts) =>
      let ty ← tt.lookup tid
      let o := Sexp.list (.atom "o" :: opts)
      let tag := match o.field? "tag" with
        | some (.list [_, .atom "-"]) => Tag.skip
        | some (.list [_, .atom t]) => Tag.name t
        | _ => Tag.none
      some (.field { name := name, ty := ty, tag := tag, get := o.hasFlag "get", set := o.hasFlag "set", newMark := o.hasFlag "new", joined := o.hasFlag "join" } r)
    | .list [.atom "e", .atom name, .atom _, .atom "back", .list (.atom "body" :: _)] =>
      some (.embed name true .nil r)          -- a back reference of a cyclic embedding: the unfolding stops
    | .list [.atom "e", .atom name, .atom p, .list (.atom "body" :: ms)] => do
      let b ← parseMapMembers tt ms
      some (.embed name (p == "ptr") b r)
    | _ => none

/-- does some embed of the member list carry the `back` mark -/
partial def hasBack : List Sexp → Bool
  | [] => false
  | .list [.atom "e", _, _, .atom "back", _] :: _ => true
  | .list [.atom "e", _, _, .list (.atom "body" :: ms)] :: rest => hasBack ms || hasBack rest
  | _ :: rest => hasBack rest

structure MapCase where
  inp : Input
  prop : String
  masks : List String
  fmasks : List String
  srcSlots : List String
  destSlots : List String

def atoms (s : Option Sexp) : List String :=
  match s with
  | some x => x.args.filterMap Sexp.asAtom?
  | none => []

def parseMapCase (payload : List Sexp) : Option MapCase := do
  let p := Sexp.list (.atom "p" :: payload)
  let tys ← p.field? "types"
  let tt : TyTab := tys.args.filterMap (fun e => match e with
    | .list [.atom id, t] => (parseTy t).map (fun ty => (id, ty))
    | _ => none)
  let conv := ((p.field? "conv").map Sexp.args |>.getD []).filterMap (fun e => match e with
    | .list [.atom a, .atom b] => do
      let x ← tt.lookup a
      let y ← tt.lookup b
      some (x, y)
    | _ => none)
  let srcF ← p.field? "src"
  let destF ← p.field? "dest"
  let (sk, sms) ← match srcF.args with | .atom k :: ms => some (k, ms) | _ => none
  let (dk, dms) ← match destF.args with | .atom k :: ms => some (k, ms) | _ => none
  let src ← parseMapMembers tt sms
  let dest ← parseMapMembers tt dms
  let flags ← p.field? "flags"
  let way := match flags.field? "way" with
    | some (.list [_, .atom "to"]) => Way.toOnly
    | some (.list [_, .atom "from"]) => Way.fromOnly
    | _ => Way.both
  let ic := match flags.field? "i" with
    | some (.list [_, .atom "true"]) => true
    | _ => false
  let mp ← p.field? "mapper"
  let (mptr, fns) := match mp.args with
    | .atom "none" :: _ => (none, [])
    | .atom k :: _ :: fs => (some (k == "ptr"), fs.filterMap (fun e => match e with
        | .list [.atom "fn", .atom n, .atom a, .atom b] => do
          let x ← tt.lookup a
          let y ← tt.lookup b
          some ({ name := n, param := x, result := y } : Fn)
        | _ => none))
    | _ => (none, [])
  let prop := match p.field? "prop" with
    | some (.list [_, .atom x]) => x
    | _ => "C05"
  let man := p.field? "manual"
  let slots := p.field? "slots"
  some { inp := { way := way, ic := ic, src := src, dest := dest, srcNew := sk == "new", destNew := dk == "new",
                  fns := fns, mapperPtr := mptr, conv := conv,
                  manualW := atoms (man.bind (·.field? "w")), manualR := atoms (man.bind (·.field? "r")),
                  cyclic := hasBack sms || hasBack dms,
                  srcSkipEmbeds := (atoms ((p.field? "skipembeds").bind (fun x => x.field? "src"))).map (fun (x : String) => x.splitOn "."),
                  destSkipEmbeds := (atoms ((p.field? "skipembeds").bind (fun x => x.field? "dest"))).map (fun (x : String) => x.splitOn ".") },
         prop := prop, masks := atoms (p.field? "masks"), fmasks := atoms (p.field? "fmasks"),
         srcSlots := atoms (slots.bind (·.field? "src")), destSlots := atoms (slots.bind (·.field? "dest")) }

def mapCase (id : String) (payload : List Sexp) : List String :=
  match parseMapCase payload with
  | none => err id "bad-map-case"
  | some c =>
    match c.prop with
    | "C05" => both id (obs15 c.inp ++ obsRT c.inp ++ obsPart c.inp c.srcSlots c.destSlots c.masks c.fmasks)
                 (spec15 c.inp ++ specRT c.inp ++ specPart c.inp c.srcSlots c.destSlots c.masks c.fmasks)
                 (region05 c.inp)   -- obs05 + write counts + round trip + partially nil chains
    | "C01" => both id (obs01 c.inp) allOk (region01 c.inp)
    | "C15" => both id (obs15 c.inp ++ obsPart c.inp c.srcSlots c.destSlots c.masks c.fmasks ++ (if modelCompiles c.inp then ctorAlloc c.inp else []))
                 (spec15 c.inp ++ specPart c.inp c.srcSlots c.destSlots c.masks c.fmasks ++ ctorAlloc c.inp)
                 (region15 c.inp)   -- + partially nil plain side, + what the constructor allocates
    | "C09" => both id (obs09 c.inp c.srcSlots c.destSlots c.masks c.fmasks ++ (if modelCompiles c.inp then ctorAlloc c.inp else []))
                 (spec09 c.inp c.srcSlots c.destSlots c.masks c.fmasks ++ ctorAlloc c.inp) (region09n c.inp)
    | _ => err id "unknown-prop"

end ShootVerif.Drive
