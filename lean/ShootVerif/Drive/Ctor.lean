import ShootVerif.Drive.Common
import ShootVerif.Spec.Ctor
import ShootVerif.Model.TParams
namespace ShootVerif.Drive
open ShootVerif.Ctor

/-- members: `(f name ptype [new] [skip] [hasdoc] [get] [set] [(def "e")])` | `(e name ty ptr|val new|nonew (body M…))` -/
partial def parseMembers : List Sexp → Option Tree
  | [] => some .nil
  | m :: rest => do
    let r ← parseMembers rest
    match m with
    | .list (.atom "f" :: .atom name :: .atom pty :: opts) =>
      let o := Sexp.list (.atom "o" :: opts)
      let defv := match o.field? "def" with
        | some (.list [_, .atom e]) => e
        | _ => ""
      let jtag := match o.field? "json" with
        | some (.list [_, .atom e]) => e
        | _ => ""
      some (.field { name := name, ptype := pty, newMark := o.hasFlag "new", skip := o.hasFlag "skip", defv := defv, jsonTag := jtag,
                     hasDoc := o.hasFlag "hasdoc", get := o.hasFlag "get", set := o.hasFlag "set" } r)
    | .list [.atom "e", .atom name, .atom ty, .atom p, .atom nm, .list (.atom "body" :: ms)] => do
      let b ← parseMembers ms
      some (.embed name ty (p == "ptr") (nm == "new") b r)
    | _ => none

def showSrc : Option Src → String
  | none => "zero"
  | some (.arg i) => s!"arg{i}"
  | some (.defx e) => s!"def:{e}"
  | some (.unbound p) => s!"unbound:{p}"

/-- a foreign unexported field carries its package qualifier in the model (`sub.x`); keys are printed without it -/
def bareName (k : String) : String := if k.startsWith "sub." then (k.drop 4).toString else k

def pathKey (π : List String) (k : String) : String := ".".intercalate (π ++ [bareName k])

def ctorModel (t : Tree) (hasNewIn : Bool) : List (String × String) :=
  let g := gen t hasNewIn
  [("nparams", toString g.params.length)]
    ++ (leavesTop t).map (fun l => ("leaf:" ++ pathKey l.path l.info.name, showSrc (g.valueAt l.path l.info.name)))
    ++ ((embedsNested [] t).filter (·.2)).map (fun e => ("alloc:" ++ ".".intercalate e.1, toString (g.body.hasSub e.1)))

def ctorSpec (t : Tree) : List (String × String) :=
  [("nparams", toString (specParams t).length)]
    ++ (leavesTop t).map (fun l => ("leaf:" ++ pathKey l.path l.info.name, showSrc (specLeaf t l)))
    ++ ((embedsNested [] t).filter (·.2)).map (fun e => ("alloc:" ++ ".".intercalate e.1, "true"))
    ++ ((leavesTop t).map (·.info.name)).eraseDups.map (fun n =>
        ("sel:" ++ n, match selectPath t n with | some p => pathKey p n | none => "none"))

/-- `(tparams (g (names K V) "constraint" ident|expr) …)` -/
def parseTParams (p : Sexp) : List TParams.Group :=
  match p.field? "tparams" with
  | some (.list (_ :: gs)) => gs.filterMap (fun g => match g with
      | .list [.atom "g", .list (.atom "names" :: ns), .atom c, .atom k] =>
        some ⟨ns.filterMap Sexp.asAtom?, c, k == "ident"⟩
      | _ => none)
  | _ => []

/-- `(ctor (hasnewin b) (tparams …) (tree M…))` -/
def ctorCase (id : String) (payload : List Sexp) : List String :=
  let p := Sexp.list (.atom "p" :: payload)
  match p.field? "tree" with
  | some (.list (_ :: ms)) =>
    match parseMembers ms with
    | some t =>
      let hin := match p.field? "hasnewin" with
        | some (.list [_, .atom "true"]) => true
        | _ => false
      let gs := parseTParams p
      let base := if hin then "Leak" else regionG t
      let reg := base
      both id (ctorModel t hin ++ [("tparams", TParams.typeParamList gs)]) (ctorSpec t ++ [("tparams", TParams.specList gs)]) reg
    | none => err id "bad-tree"
  | _ => err id "bad-ctor-case"

end ShootVerif.Drive
