import ShootVerif.Drive.Common
import ShootVerif.Drive.Transfer
import ShootVerif.Spec.Rest
namespace ShootVerif.Drive.RestD
open ShootVerif.Rest ShootVerif.Drive

def strArg : Sexp → Option String
  | .atom s => some s
  | _ => none

def pairOf : Sexp → Option (String × String)
  | .list [.atom a, .atom b] => some (a, b)
  | _ => none

def parseVerb : String → Option Verb
  | "get" => some .get | "post" => some .post | "put" => some .put | "patch" => some .patch
  | "delete" => some .delete | _ => none

def isUpperFirst (s : String) : Bool :=
  match s.toList with
  | c :: _ => 'A' ≤ c && c ≤ 'Z'
  | [] => false

def parseField : Sexp → Option Field
  | .list [.atom "f", .atom name, .atom p, .atom tag] => some ⟨name, isUpperFirst name, p == "ptr", tag⟩
  | _ => none

def parseKind : Sexp → Option PKind
  | .atom "ctx" => some .ctx
  | .atom "scalar" => some .scalar
  | .atom "dict" => some .dict
  | .atom "qual" => some .qualOther
  | .atom "unsupported" => some .unsupported
  | .list (.atom "struct" :: fs) => (fs.mapM parseField).map .struct
  | _ => none

def parseParam : Sexp → Option Param
  | .list [.atom "p", .atom name, k, .atom p] => (parseKind k).map (fun k => ⟨name, k, p == "ptr"⟩)
  | _ => none

/-- one `(m …)` form ↦ the model's view (doc text) and the specification's view (intended directive) -/
def parseMethod (s : Sexp) : Option (Method × MethodSpec) :=
  match s with
  | .list (.atom "m" :: .atom name :: _) => do
    let doc ← (s.field? "doc").bind (fun f => f.args.head?.bind strArg)
    let verb ← (s.field? "verb").bind (fun f => f.args.head?.bind strArg) |>.bind parseVerb
    let path ← (s.field? "path").bind (fun f => f.args.head?.bind strArg)
    let alias ← ((s.field? "alias").map (·.args)).getD [] |>.mapM pairOf
    let params ← ((s.field? "params").map (·.args)).getD [] |>.mapM parseParam
    some (⟨name, doc.toList, params⟩, ⟨name, verb, path.toList, alias, params⟩)
  | _ => none

/-- `(g (a b …) kind ptr|val)`: one entry of the parameter list as written (`a, b T`) -/
def parseGroup : Sexp → Option ParamGroup
  | .list [.atom "g", .list ns, k, .atom p] => do
    let names ← ns.mapM strArg
    let kind ← parseKind k
    some ⟨names, kind, p == "ptr"⟩
  | _ => none

def parseResType : String → Option ResType
  | "star" => some .star | "slice" => some .slice | "map" => some .map | "resp" => some .httpResp
  | "err" => some .error | "other" => some .other | _ => none

/-- `(n ty)`: one entry of the result list: number of names, type class -/
def parseRes : Sexp → Option ResGroup
  | .list [n, .atom t] => do some ⟨← n.asNat?, ← parseResType t⟩
  | _ => none

/-- one `(m …)` form as an entry of the interface type: `(groups (g …)…)` (default: one group per parameter of `(params …)`),
    `(results (n ty)…)` (default `(*http.Response, error)`) -/
def parseMethodEntry (s : Sexp) : Option Entry :=
  match s with
  | .list (.atom "m" :: .atom name :: _) => do
    let doc ← (s.field? "doc").bind (fun f => f.args.head?.bind strArg)
    let params ← ((s.field? "params").map (·.args)).getD [] |>.mapM parseParam
    let groups ← match s.field? "groups" with
      | some f => f.args.mapM parseGroup
      | none => some (params.map (fun p => ⟨[p.name], p.kind, p.ptr⟩))
    let results ← match s.field? "results" with
      | some f => f.args.mapM parseRes
      | none => some [⟨0, .httpResp⟩, ⟨0, .error⟩]
    some (.method name (some doc.toList) groups results)
  | _ => none

def parseVal : Sexp → Option Val
  | .atom "nil" => some .nilPtr
  | .list [.atom "s", .atom t] => some (.txt t.toList)
  | _ => none

def parseArg : Sexp → Option Arg
  | .atom "nil" => some (.scalar .nilPtr)
  | .atom "stnil" => some (.struct true [])
  | .list [.atom "s", .atom t] => some (.scalar (.txt t.toList))
  | .list [.atom "ctx", .atom t] => some (.ctx t)
  | .list (.atom "st" :: fs) =>
    (fs.mapM (fun (f : Sexp) => match f with
      | Sexp.list [Sexp.atom n, v] => (parseVal v).map (fun v => (n, v))
      | _ => none)).map (Arg.struct false)
  | .list (.atom "d" :: es) =>
    (es.mapM (fun e => (pairOf e).map (fun (k, v) => (k, v.toList)))).map Arg.dict
  | _ => none

def parseCall : Sexp → Option Call
  | .list (.atom "c" :: .atom name :: as) =>
    (as.mapM (fun (a : Sexp) => match a with
      | Sexp.list [Sexp.atom p, v] => (parseArg v).map (fun v => (p, v))
      | _ => none)).map (fun args => ⟨name, args⟩)
  | _ => none

/-- insertion sort by key (canonical order for printing finite maps) -/
def insertKV {α : Type} (kv : String × α) : List (String × α) → List (String × α)
  | [] => [kv]
  | x :: xs => if kv.1 < x.1 then kv :: x :: xs else x :: insertKV kv xs

def sortKV {α : Type} (l : List (String × α)) : List (String × α) := l.foldr insertKV []

def showPairs (l : List (String × String)) : String :=
  "(" ++ " ".intercalate ((sortKV l).map (fun (k, v) => "(" ++ Sexp.quoteStr k ++ " " ++ Sexp.quoteStr v ++ ")")) ++ ")"

def showQuery (q : Option (List (String × List Char))) : String :=
  showPairs ((q.getD []).map (fun (k, v) => (k, String.ofList v)))

def showRequest (pfx : String) (r : Request) : List (String × String) :=
  [(pfx ++ "out", "sent"), (pfx ++ "verb", r.verb), (pfx ++ "path", Sexp.quoteStr (String.ofList r.path)),
   (pfx ++ "query", showQuery r.query), (pfx ++ "body", r.body.getD "-"), (pfx ++ "hdr", showPairs r.headers),
   (pfx ++ "ctx", r.ctx.getD "-")]

def showOutcome (pfx : String) : Outcome → List (String × String)
  | .sent r => showRequest pfx r
  | .panic => [(pfx ++ "out", "panic")]

def showParsed (i : Iface) : List (String × String) :=
  -- auxiliary (model-only) lines: what the recognisers read from the doc texts
  (i.methods.map (fun m => ("parse." ++ m.name, match parsePath m.doc with
    | .noMatch => "no-match"
    | .fatal => "fatal"
    | .ok d => d.verb.upper ++ " " ++ Sexp.quoteStr (String.ofList d.path) ++ " " ++
        showPairs ((aliasMapOf m.doc)))))
  ++ [("parse.headers", showPairs (setAll [] (strKVs (parseHeaders i.headersDoc))))]

def showIntended (i : IfaceSpec) : List (String × String) :=
  (i.methods.map (fun m => ("parse." ++ m.name,
      m.verb.upper ++ " " ++ Sexp.quoteStr (String.ofList m.path) ++ " " ++ showPairs m.alias)))
  ++ [("parse.headers", showPairs (setAll [] i.headers))]

end ShootVerif.Drive.RestD

namespace ShootVerif.Drive
open ShootVerif.Rest ShootVerif.Drive.RestD

/-- the forms `(hdoc "…") (headers (k v)…) (methods (m …)…)` of one interface ↦ the model's and the specification's view -/
def parseIface (p : Sexp) : Option (Iface × IfaceSpec) :=
  let hdoc := ((p.field? "hdoc").bind (fun f => f.args.head?.bind strArg)).getD ""
  match ((p.field? "headers").map (·.args)).getD [] |>.mapM pairOf,
        ((p.field? "methods").map (·.args)).getD [] |>.mapM parseMethod with
  | some hs, some ms => some (⟨hdoc.toList, ms.map (·.1)⟩, ⟨hs, ms.map (·.2)⟩)
  | _, _ => none

/-- the entries of the interface type: the methods in order, the embedded shoot.RestClient[T] (with the doc text `hdoc`, if
    any) after the first `(embedpos k)` of them -/
def parseEntries (p : Sexp) : Option (List Entry) :=
  let hdoc := ((p.field? "hdoc").bind (fun f => f.args.head?.bind strArg)).getD ""
  let pos := ((p.field? "embedpos").bind (fun f => f.args.head?.bind Sexp.asNat?)).getD 0
  match ((p.field? "methods").map (·.args)).getD [] |>.mapM RestD.parseMethodEntry with
  | some ms => some (ms.take pos ++ Entry.embed (if hdoc == "" then none else some hdoc.toList) :: ms.drop pos)
  | none => none

/-- `(rest-iface (hdoc "…") (embedpos k) (headers (k v)…) (methods (m …)…) (calls (c …)…))` -/
def restIfaceCase (id : String) (payload : List Sexp) : List String :=
  let p := Sexp.list (.atom "p" :: payload)
  match parseIface p, ((p.field? "calls").map (·.args)).getD [] |>.mapM parseCall, parseEntries p with
  | some (iface, ispec), some calls, some entries =>
    let idx := calls.zipIdx
    let reg := region ispec calls
    -- a rejected directive (two parameters with one alias): diagnosed failure, nothing generated
    let specLines := (if reg == "Rejected" then [("gen", "fatal")] else
      [("gen", "ok")] ++ (idx.map (fun (c, k) =>
        match findMethod ispec c.method with
        | some m => showRequest s!"c{k}." (specRequest ispec m c.args)
        | none => [(s!"c{k}.out", "no-such-method")])).flatten)
      ++ showIntended ispec
    -- the model walks the ENTRIES of the interface type (embedded entry where it stands, parameter groups, result lists)
    let modelLines := (match generateAst entries with
      | .fatal => [("gen", "fatal")]
      | .ok _ false => [("gen", "nocompile")]
      | .ok plans true => [("gen", "ok")] ++ (idx.map (fun (c, k) =>
          match plans.find? (fun pl => pl.name == c.method) with
          | some pl => showOutcome s!"c{k}." (send pl c.args)
          | none => [(s!"c{k}.out", "no-such-method")])).flatten)
      ++ showParsed iface
    both id modelLines specLines reg
  | _, _, _ => err id "bad-rest-iface-case"

/-- C01 leg of the rest area: `(c01rest (i (hdoc …) (headers …) (methods …)) …)` — the interfaces one
    `shoot rest` run generates. Property C01: the run exits 0 and what it wrote compiles with the
    package. The model says what the unchanged generator does (Q5: does not compile). -/
def c01RestCase (id : String) (payload : List Sexp) : List String :=
  match payload.mapM (fun (p : Sexp) => parseIface p) with
  | some pairs =>
    let gens := pairs.map (fun x => generate x.1)
    let exit1 := gens.any (fun g => g == GenRes.fatal)
    let nocompile := gens.any GenRes.failsToCompile
    let okLines := [("header", "ok"), ("gofmt", "ok"), ("package", "ok")]
    let modelLines := if exit1 then [("exit", "1")]
      else [("exit", "0"), ("compile", if nocompile then "error" else "ok")] ++ okLines
    let specLines := [("exit", "0"), ("compile", "ok")] ++ okLines
    let specs := pairs.map (·.2)
    let reg :=
      if specs.any (fun i => !structOk i) then "Out"
      else if specs.any F_ptrDict then "F_restPtrDict"
      else "WF"
    both id modelLines specLines reg
  | none => err id "bad-c01rest-case"

/-- `(rest-attempts (body yes|no) (ctx yes|no) (fails n) (cancel k))`: a call through a chain with
    RetryMiddleware whose base transport answers `n` times unacceptably before it is accepted; the caller
    cancels its context right after attempt `k` was answered (k < 0: never). One line set per attempt:
    `a<j>.same` (verb, path, query, headers are the call's), `a<j>.body` (`-` | whole), `a<j>.ctx`
    (background | caller | caller:done). -/
def restAttemptsCase (id : String) (payload : List Sexp) : List String :=
  let p := Sexp.list (.atom "p" :: payload)
  let flag := fun (k : String) => match p.field? k with
    | some (.list [_, .atom "yes"]) => true
    | _ => false
  match (p.field? "fails").bind (fun f => f.args.head?.bind Sexp.asNat?),
        (p.field? "cancel").bind (fun f => f.args.head?.bind Sexp.asInt?) with
  | some n, some k =>
    let r : Request := ⟨"V", ['/', 'p'], some [("q", ['1'])], if flag "body" then some "B" else none,
      [("H", "1")], if flag "ctx" then some "caller" else none⟩
    let ca : Option Nat := if k < 0 then none else some k.toNat
    let showA := fun (a : Attempt) (j : Nat) =>
      [(s!"a{j}.same", toString (decide (a.verb = r.verb ∧ a.path = r.path ∧ a.query = r.query ∧ a.headers = r.headers))),
       (s!"a{j}.body", match a.body with | .absent => "-" | .whole _ => "whole"),
       (s!"a{j}.ctx", match a.ctx with
          | none => "background"
          | some t => if a.ctxDone then t ++ ":done" else t)]
    let js := List.range (n + 1)
    let modelLines := (js.map (fun j => showA (attempt r ca j) j)).flatten
    let specLines := (js.map (fun j => showA (specAttempt r ca j) j)).flatten
    both id modelLines specLines "WF"
  | _, _ => err id "bad-rest-attempts-case"

/-- a Go `map[string]string` built from recogniser output, printed like harness restx does -/
def showDirMap (kvs : List (List Char × List Char)) : String :=
  let m := RestD.sortKV (setAll [] (strKVs kvs))
  "{" ++ ",".intercalate (m.map (fun (k, v) => hexOf k.toList ++ "=" ++ hexOf v.toList)) ++ "}"

/-- `(rest-dir <hex of a doc text> <hex of the value of the shoot struct tag>)`: the five recognisers
    on raw text (bytes as characters), for the in-process differential against the real regexps -/
def restDirCase (id : String) (payload : List Sexp) : List String :=
  match payload with
  | [.atom hx, .atom tx] =>
    match unhex hx.toList, unhex tx.toList with
    | some cs, some tag =>
      let lines := [
        ("alias", match parseAlias cs with
          | none => "nil"
          | some kvs => if kvs.isEmpty then "nil" else showDirMap kvs),
        ("kv", let kvs := parseKV cs; if kvs.isEmpty then "nil" else showDirMap kvs),
        ("headers", showDirMap (parseHeaders cs)),
        ("fieldalias", hexOf (parseFieldAlias tag)),
        ("path", match parsePath cs with
          | .noMatch => "none"
          | .fatal => "fatal"
          | .ok d => d.verb.upper ++ " " ++ hexOf d.path ++ " [" ++ ",".intercalate (d.params.map hexOf) ++ "]")]
      both id lines []
    | _, _ => err id "bad-hex"
  | _ => err id "bad-rest-dir-case"

end ShootVerif.Drive
