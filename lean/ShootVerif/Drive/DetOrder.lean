import ShootVerif.Drive.Common
import ShootVerif.Drive.GenState
import ShootVerif.Spec.DetOrder
namespace ShootVerif.Drive
open ShootVerif.DetOrder ShootVerif.GenState

/-- all orders of a short list (the possible iteration orders of a small map) -/
def perms {α : Type} : List α → List (List α)
  | [] => [[]]
  | a :: l => (perms l).flatMap (fun p => (List.range (p.length + 1)).map (fun k => p.take k ++ a :: p.drop k))

def uniqSorted (l : List String) : List String := (sortStrings l).eraseDups

/-- `(detorder getgofile (want T) (pkglevel f) (defs (name type|other file) …))`
    `(detorder aliasdup (alias (param placeholder) …) (path p …))`
    `(detorder msg (files f …))` -/
def detorderCase (id : String) (payload : List Sexp) : List String :=
  match payload with
  | .atom "getgofile" :: rest =>
    let p := Sexp.list (.atom "p" :: rest)
    let want := (atoms (p.field? "want")).headD ""
    let lvl := (atoms (p.field? "pkglevel")).headD ""
    let defs : List Def := ((p.field? "defs").map Sexp.args |>.getD []).filterMap (fun d => match d with
      | .list [.atom n, .atom k, .atom f] => some { name := n, isTypeName := k == "type", file := f, pkgLevel := f == lvl || k != "type" }
      | _ => none)
    -- since f3054bd: a package-scope look-up; every input is well-formed
    both id [("gofile", let r := getGoFile defs want; if r == "" then "-" else r)] [("gofile", if lvl == "" then "-" else lvl)] "WF"
  | .atom "aliasdup" :: rest =>
    let p := Sexp.list (.atom "p" :: rest)
    let al : Entries String String := ((p.field? "alias").map Sexp.args |>.getD []).filterMap (fun d => match d with
      | .list [.atom a, .atom b] => some (a, b)
      | _ => none)
    let path := atoms (p.field? "path")
    -- since 62d8144: a duplicate alias is a Fatal in every iteration order; otherwise the reversed map is order-free
    let results := (perms al).map (fun o => match realPathParamsChecked o path with
      | some ps => ",".intercalate ps
      | none => "fatal")
    let r := match realPathParamsChecked al path with
      | some ps => ",".intercalate ps
      | none => "fatal"
    both id [("pathparams", "|".intercalate (uniqSorted results)), ("exit", if r == "fatal" then "fail" else "0")]
      [("pathparams", r), ("exit", if r == "fatal" then "fail" else "0")] "WF"
  | .atom "gather" :: rest =>
    -- `(detorder gather (files (name field…) …))`: what each file of the directory contributes for the parameter struct
    let p := Sexp.list (.atom "p" :: rest)
    let fs : Entries String (List String) := ((p.field? "files").map Sexp.args |>.getD []).filterMap (fun d => match d with
      | .list (.atom n :: xs) => some (n, xs.filterMap Sexp.asAtom?)
      | _ => none)
    let results := (perms fs).map (fun o => ",".intercalate (gather o))
    let n := (fs.filter (fun e => !e.2.isEmpty)).length
    both id [("variants", toString (uniqSorted results).length)] [("variants", "1")] (if n ≤ 1 then "WF" else "F_structTwice")
  | .atom "pkgdir" :: rest =>
    -- `(detorder pkgdir (import p) (pkgctx (path dir) …) (cwdctx (path dir) …))`: which directory `getPkgDir` reads the struct from
    -- since eb01b4a: the package's own context, whatever the working directory; every input is well-formed
    let p := Sexp.list (.atom "p" :: rest)
    let ctxOf (k : String) : ModCtx := ((p.field? k).map Sexp.args |>.getD []).filterMap (fun d => match d with
      | .list [.atom a, .atom b] => some (a, b)
      | _ => none)
    let imp := (atoms (p.field? "import")).headD ""
    let show_ (o : Option String) : String := o.getD "fail"
    both id [("struct-from", show_ (getPkgDir (ctxOf "cwdctx") (ctxOf "pkgctx") imp))] [("struct-from", show_ (pkgDirSpec (ctxOf "pkgctx") imp))] "WF"
  | .atom "msg" :: rest =>
    let p := Sexp.list (.atom "p" :: rest)
    let _n := (atoms (p.field? "files")).length
    -- since 376a366 the message is sorted
    both id [("msg-stable", "true")] [("msg-stable", "true")] "WF"
  | _ => err id "bad-detorder-case"

/-! ## run histories of `new` (C07): fresh, repeat, edit with stale output in place, separate → all-in-one → back -/

def visN (outs : List (NType × NOut)) : List (List (String × String)) := outs.map (fun p => showNOut p.1.name p.2)

/-- `(genhist (flags getset json) (mode sep|aio) (aio "t.shootnew.go") (types …) (edited …) (alltypes …) (alledited …))`
    `types`: what this mode processes, in processing order; `edited`: the same after the source edit;
    `alltypes`: what the all-in-one run processes (for the separate → all-in-one → back history) -/
def genhistCase (id : String) (payload : List Sexp) : List String :=
  let p := Sexp.list (.atom "p" :: payload)
  let fl := parseNFlags p
  let aio := (atoms (p.field? "mode")).headD "sep" == "aio"
  let aioName := (atoms (p.field? "aio")).headD "t.shootnew.go"
  let parse (k : String) : Option (List NType) := ((p.field? k).map Sexp.args |>.getD []).mapM parseNType
  if (atoms (p.field? "cmd")).headD "new" != "new" then
    -- map / enum / rest never read generated files back (C07_disk_irrelevant): every history gives the same run
    let all := [("repeat", "true"), ("stale", "true")] ++ (if aio then [] else [("back", "true"), ("back-aio", "true")])
    both id all all "WF"
  else
  match parse "types", parse "edited", parse "alltypes" with
  | some ts, some es, some alls =>
    let m := newMachine codeToday fl
    let rp := repairOf p
    let mode : Mode := if aio then .aio aioName else .sep
    let written (outs : List (NType × NOut)) (a : Bool) : Disk := if a then writtenAio m aioName outs else writtenSep m outs
    let run1 := generateR rp m mode [] ts
    let disk1 := afterRun [] (written run1 aio)
    let run2 := generateR rp m mode disk1 ts
    let run3 := generateR rp m mode disk1 es  -- edited sources, stale output in place
    let run3f := generateR rp m mode [] es    -- edited sources, clean directory
    -- separate → all-in-one → separate again (only meaningful for a `sep` case)
    let sep1 := generateR rp m .sep [] ts
    let dS := afterRun [] (writtenSep m sep1)
    let aioRun := generateR rp m (.aio aioName) dS alls
    let dA := afterRun dS (writtenAio m aioName aioRun)
    let sep2 := generateR rp m .sep dA ts
    let aioFresh := generateR rp m (.aio aioName) [] alls
    let b (x : Bool) : String := toString x
    -- separate → all-in-one → separate: the directory then holds BOTH kinds of output for the same types (a package that
    -- does not compile: every declaration twice).  Asserted only where the model says the legs are unaffected; otherwise
    -- the leg is left out
    let backOk := visN sep2 == visN sep1 && visN aioRun == visN aioFresh
    let model := [("repeat", b (visN run2 == visN run1)), ("stale", b (visN run3 == visN run3f))]
      ++ (if aio || !backOk then [] else [("back", "true"), ("back-aio", "true")])
    let spec := [("repeat", "true"), ("stale", "true")] ++ (if aio || !backOk then [] else [("back", "true"), ("back-aio", "true")])
    let unsure := newRegion noLeaks fl [] { st := {}, overlay := [], outs := [] } ts == "Out"
      || newRegion noLeaks fl disk1 { st := {}, overlay := [], outs := [] } ts == "Out"
      || newRegion noLeaks fl disk1 { st := {}, overlay := [], outs := [] } es == "Out"
      || (!aio && (newRegion noLeaks fl dS { st := {}, overlay := [], outs := [] } alls == "Out"
                  || newRegion noLeaks fl dA { st := {}, overlay := [], outs := [] } ts == "Out"))
    let embFirst := fl.getset && !rp.depsFirst && (!depsFirst ts [] || !depsFirst es [] || (!aio && !depsFirst alls []))
    let reg := if unsure then "Out"
      else if embFirst then "F_embedderFirst"
      else if model.any (fun kv => kv.2 == "false") then "F_staleAllInOne"
      else "WF"
    both id model spec reg
  | _, _, _ => err id "bad-genhist-case"

end ShootVerif.Drive
