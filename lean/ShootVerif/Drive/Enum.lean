import ShootVerif.Drive.Common
import ShootVerif.Spec.Enum
/-
Driver for the enum area: decodes one case, prints the region and the model / spec observation lines.

  (case <id> c04    (type "T" s|u <bits> [int]) (blocks B…) (win v…) (stale (<label> ("Name" v)…)…))
  (case <id> c12    (type …) (flags json text sql gorm) (blocks B…) (target v) (strs "s"…)
                    (jsons (str "s")|null|other …) (sqls (bytes "s")|other …) (ints (<TV kind> v…)…) (encs v…))
  (case <id> c12v   (type …) (blocks B…) (target v) (strs "s"…))
  (case <id> c12t   (type …) (blocks B…) (ints (<TV kind> v…)…))
  (case <id> c14    (type …) (blocks B…) (flags json text sql) (hi N) (neg v…))
  (case <id> c14raw (type …) (blocks B…))
  (case <id> c01enum (flags …) (mode type|list|file|star) (types ("T" <kind> [sel])…) (blocks B…) [(locals B…)] [(idents "n"…)])      -- C01 leg
  B = (b S…)   S = (s (n "A" "B"…) (t "T" [q])|(c)|(e -|"T") (v 1 2…))     q: the type is not a plain identifier
  every enum case may carry (locals B…): the const declarations inside function bodies, and
  (generated B…): the const declarations of generated files already in the package (a re-run)
  c04 / c12 / c14 may carry (hist C…): a history of calls made between the first observations and the re-observation of
  every method (keys h<j>);  C = (str x) (valid x) (values) (strings) (vmap) (smap) (parse "s") (try "s" t) (isenum <TV kind> v)
  (ujson J t) (utext "s" t) (scan Q t) (enc x) (has x f) (add x f) (rem x f)
  (case <id> c04a (type …) (blocks B…) (win v…) (scribble (setv j v)|(sets j "s")|(putvm "s" v)|(delvm "s")|(putsm v "s")|(delsm v) …)):
  a CALLER writes through what the getters returned, then every method is observed (region Out: advisory)
-/
namespace ShootVerif.Drive
open ShootVerif.Enum

def nm (s : String) : Name := s.toList
def showName (n : Name) : String := String.ofList n
def showStr (s : Str) : String := showName s.text
def commaInts (l : List Int) : String := ",".intercalate (l.map toString)
def commaNames (l : List Name) : String := ",".intercalate (l.map showName)

def parseSpec (s : Sexp) : Option VSpec := do
  let names ← (← s.field? "n").args.mapM (fun a => a.asAtom?.map nm)
  let vals ← (← s.field? "v").args.mapM Sexp.asInt?
  if let some t := s.field? "t" then
    match t.args with
    | [.atom ty] => some { names, ty := some (nm ty), hasVals := true, exprTy := none, vals }
    | [.atom ty, .atom "q"] => some { names, ty := some (nm ty), hasVals := true, exprTy := none, vals }   -- `(T)` / `pkg.T`
    | _ => none
  else if (s.field? "c").isSome then
    some { names, ty := none, hasVals := false, exprTy := none, vals }
  else if let some e := s.field? "e" then
    match e.args with
    | [.atom "-"] => some { names, ty := none, hasVals := true, exprTy := none, vals }
    | [.atom ty] => some { names, ty := none, hasVals := true, exprTy := some (nm ty), vals }
    | _ => none
  else none

def parseInput (p : Sexp) : Option Input := do
  let ty ← p.field? "type"
  match ty.args with
  | .atom t :: .atom sg :: bits :: rest =>
    let b ← bits.asNat?
    let blocks ← (← p.field? "blocks").args.mapM (fun bl => bl.args.mapM parseSpec)
    let locals ← match p.field? "locals" with
      | some l => l.args.mapM (fun bl => bl.args.mapM parseSpec)
      | none => some []
    let generated ← match p.field? "generated" with
      | some l => l.args.mapM (fun bl => bl.args.mapM parseSpec)
      | none => some []
    let _ := rest       -- an optional trailing atom (the kind's spelling) is accepted and ignored
    some { T := nm t, kind := ⟨sg == "s", b⟩, blocks, locals, generated }
  | _ => none

/-- kind name ↦ (kind, listed by ListTypes) -/
def kindOfName (k : String) : Option (Kind × Bool) :=
  match k with
  | "int" => some (⟨true, 64⟩, true) | "uint" => some (⟨false, 64⟩, true)
  | "int8" => some (⟨true, 8⟩, false) | "uint8" => some (⟨false, 8⟩, false)
  | "int16" => some (⟨true, 16⟩, false) | "uint16" => some (⟨false, 16⟩, false)
  | "int32" => some (⟨true, 32⟩, true) | "uint32" => some (⟨false, 32⟩, true)
  | "int64" => some (⟨true, 64⟩, false) | "uint64" => some (⟨false, 64⟩, false)
  | _ => none

def intsOf (p : Sexp) (key : String) : List Int :=
  match p.field? key with
  | some f => f.args.filterMap Sexp.asInt?
  | none => []

def insertKV {α} (lt : α → α → Bool) (x : α × String) : List (α × String) → List (α × String)
  | [] => [x]
  | y :: r => if lt y.1 x.1 then y :: insertKV lt x r else x :: y :: r
def sortKV {α} (lt : α → α → Bool) (l : List (α × String)) : List (α × String) :=
  l.foldr (insertKV lt) []

def showVMap (m : List (Name × Int)) : String :=
  ",".intercalate ((sortKV (fun a b => a < b) (m.map (fun e => (showName e.1, toString e.2)))).map (fun e => e.1 ++ "=" ++ e.2))
def showSMap (m : List (Int × Name)) : String :=
  ",".intercalate ((sortKV (fun a b => decide (a < b)) (m.map (fun e => (e.1, showName e.2)))).map (fun e => toString e.1 ++ "=" ++ e.2))

/-- current values of a stale variant -/
def curOf (entries : List Sexp) : Name → Option Int := fun n =>
  entries.findSome? (fun e => match e with
    | .list [.atom a, v] => if nm a = n then v.asInt? else none
    | _ => none)

def staleVariants (p : Sexp) : List (String × (Name → Option Int)) :=
  match p.field? "stale" with
  | some f => f.args.filterMap (fun v => match v with
      | .list (.atom lbl :: es) => some (lbl, curOf es)
      | _ => none)
  | none => []


/-! ### histories of calls against the running program (Model/Enum.lean: Tables, step, run) -/

def showDec (d : Bool × Int) : String := (if d.1 then "ok " else "err ") ++ toString d.2

def enumerate {α} (l : List α) : List (Nat × α) := (List.range l.length).zip l

def showRes : Res → String
  | .str s => showStr s
  | .bool b => toString b
  | .ints l => commaInts l
  | .names l => commaNames l
  | .vmap m => showVMap m
  | .smap m => showSMap m
  | .parsed (some v) => s!"ok {v}"
  | .parsed none => "err"
  | .tried r => s!"{r.1} {r.2}"
  | .decoded r => showDec r
  | .int v => toString v

def parseJsonIn : Sexp → Option JsonIn
  | .atom "null" => some .null
  | .atom "other" => some .other
  | .list [.atom "str", .atom s] => some (.str (nm s))
  | _ => none

def parseSqlIn : Sexp → Option SqlIn
  | .atom "other" => some .other
  | .list [.atom "bytes", .atom s] => some (.bytes (nm s))
  | .list [.atom "str", .atom s] => some (.str (nm s))
  | _ => none

def parseCall : Sexp → Option Call
  | .list [.atom "str", x] => x.asInt?.map .string
  | .list [.atom "valid", x] => x.asInt?.map .isValid
  | .list [.atom "values"] => some .values
  | .list [.atom "strings"] => some .strings
  | .list [.atom "vmap"] => some .valueMap
  | .list [.atom "smap"] => some .stringMap
  | .list [.atom "parse", .atom s] => some (.parseEnum (nm s))
  | .list [.atom "try", .atom s, t] => t.asInt?.map (.tryParse (nm s))
  | .list [.atom "isenum", .atom k, v] => do
      let kk ← kindOfName k
      let v ← v.asInt?
      some (.isEnum kk.1 v)
  | .list [.atom "ujson", d, t] => do
      let d ← parseJsonIn d
      let t ← t.asInt?
      some (.unmarshalJSON d t)
  | .list [.atom "utext", .atom s, t] => t.asInt?.map (.unmarshalText (nm s))
  | .list [.atom "scan", d, t] => do
      let d ← parseSqlIn d
      let t ← t.asInt?
      some (.scan d t)
  | .list [.atom "enc", x] => x.asInt?.map .encode
  | .list [.atom "has", x, f] => do
      let x ← x.asInt?
      let f ← f.asInt?
      some (.has x f)
  | .list [.atom "add", x, f] => do
      let x ← x.asInt?
      let f ← f.asInt?
      some (.add x f)
  | .list [.atom "rem", x, f] => do
      let x ← x.asInt?
      let f ← f.asInt?
      some (.remove x f)
  | _ => none

/-- `(hist C…)`; `none` when a call does not parse -/
def histOf (p : Sexp) : Option (List Call) :=
  match p.field? "hist" with
  | some f => f.args.mapM parseCall
  | none => some []

/-- the history run against the tables: (tables afterwards, `h<j>` lines) -/
def histModel (p : Prog) (st : Tables) (calls : List Call) : Tables × List (String × String) :=
  let r := run p st calls
  (r.1, (enumerate r.2).map (fun (j, x) => (s!"h{j}", showRes x)))

def histSpec (T : Name) (k : Kind) (bit : Bool) (decl : List Const) (calls : List Call) : List (String × String) :=
  (enumerate calls).map (fun (j, c) => (s!"h{j}", showRes (specCall T k bit decl c)))

/-- every getter and, over the window, String / IsValid once more — against the tables as they are NOW -/
def againModel (p : Prog) (st : Tables) (win : List Int) (sfx : String := "2") : List (String × String) :=
  [(s!"values{sfx}", showRes (step p st .values).2), (s!"strings{sfx}", showRes (step p st .strings).2),
   (s!"vmap{sfx}", showRes (step p st .valueMap).2), (s!"smap{sfx}", showRes (step p st .stringMap).2)]
  ++ win.flatMap (fun x => [(s!"str{sfx}:{x}", showRes (step p st (.string x)).2), (s!"valid{sfx}:{x}", showRes (step p st (.isValid x)).2)])

def againSpec (T : Name) (k : Kind) (bit : Bool) (decl : List Const) (win : List Int) (sfx : String := "2") : List (String × String) :=
  [(s!"values{sfx}", showRes (specCall T k bit decl .values)), (s!"strings{sfx}", showRes (specCall T k bit decl .strings)),
   (s!"vmap{sfx}", showRes (specCall T k bit decl .valueMap)), (s!"smap{sfx}", showRes (specCall T k bit decl .stringMap))]
  ++ win.flatMap (fun x => [(s!"str{sfx}:{x}", showRes (specCall T k bit decl (.string x))), (s!"valid{sfx}:{x}", showRes (specCall T k bit decl (.isValid x)))])

def parseScribble : Sexp → Option Scribble
  | .list [.atom "setv", j, v] => do
      let j ← j.asNat?
      let v ← v.asInt?
      some (.setValue j v)
  | .list [.atom "sets", j, .atom s] => j.asNat?.map (fun j => .setString j (nm s))
  | .list [.atom "putvm", .atom s, v] => v.asInt?.map (.putValueMap (nm s))
  | .list [.atom "delvm", .atom s] => some (.delValueMap (nm s))
  | .list [.atom "putsm", v, .atom s] => v.asInt?.map (fun v => .putStringMap v (nm s))
  | .list [.atom "delsm", v] => v.asInt?.map .delStringMap
  | _ => none

/-! ### C04 -/

def c04Model (i : Input) (win : List Int) (stale : List (String × (Name → Option Int))) (calls : List Call) : List (String × String) :=
  match gen i.kind i.T i.scanned with
  | .skipped => [("exit", "0"), ("file", "none")]
  | .file cs =>
    if !compiles false i.T i.decl cs then [("exit", "0"), ("compile", "error")]
    else
      [("exit", "0"), ("compile", "ok"),
       ("values", commaInts (valuesT cs)), ("strings", commaNames (stringsT i.T cs)),
       ("vmap", showVMap (valueMap i.T cs)), ("smap", showSMap (stringMap i.T cs))]
      ++ win.flatMap (fun x => [(s!"str:{x}", showStr (stringOf i.kind i.T cs x)), (s!"valid:{x}", toString (isValid i.T cs x))])
      -- the history of calls against the running program, then every method once more against the tables as they are THEN
      ++ (let p := progOf i.kind false cs
          let r := histModel p (tablesOf i.T cs) calls
          r.2 ++ againModel p r.1 win)
      ++ stale.map (fun (l, cur) => (s!"stale:{l}", if guardOK i.kind cs cur then "accepted" else "rejected"))
      -- the compiler's first complaint in the guard function (a model-only line: the tie of the guard's arithmetic)
      ++ stale.map (fun (l, cur) => (s!"staleErr:{l}", match guardFirst i.kind cs cur with
          | .none => "none" | .undefined => "undefined" | .overflows => "overflows" | .negative => "negative" | .bounds => "bounds"))

def c04Spec (i : Input) (win : List Int) (stale : List (String × (Name → Option Int))) (calls : List Call) : List (String × String) :=
  let d := i.decl
  [("exit", "0"), ("compile", "ok"),
   ("values", commaInts (specValues d)), ("strings", commaNames (specStrings i.T d)),
   ("vmap", showVMap (d.map (fun c => (trim i.T c.name, (specValueOf i.T d (trim i.T c.name)).getD 0)))),
   ("smap", showSMap (d.map (fun c => (c.val, (specNameOf i.T d c.val).getD []))))]
  ++ win.flatMap (fun x => [(s!"str:{x}", showStr (specString i.T d x)), (s!"valid:{x}", toString (specValid d x))])
  ++ histSpec i.T i.kind false d calls ++ againSpec i.T i.kind false d win
  ++ stale.map (fun (l, cur) => (s!"stale:{l}", if specGuard d cur then "accepted" else "rejected"))

def c04Case (id : String) (payload : List Sexp) : List String :=
  let p := Sexp.list (.atom "p" :: payload)
  match parseInput p with
  | none => err id "bad-enum-case"
  | some i =>
    let win := intsOf p "win"
    let st := staleVariants p
    match histOf p with
    | none => err id "bad-history"
    | some calls =>
      both id (c04Model i win st calls) (c04Spec i win st calls) (if calls.all Call.ok then region i else "Out")

/-- a caller writes through the slices / maps the getters handed out, then every method is observed: the
    model applies the writes to the tables (the getters return the tables themselves); outside the property -/
def c04aCase (id : String) (payload : List Sexp) : List String :=
  let p := Sexp.list (.atom "p" :: payload)
  match parseInput p with
  | none => err id "bad-enum-case"
  | some i =>
    let win := intsOf p "win"
    match ((p.field? "scribble").map (·.args)).getD [] |>.mapM parseScribble with
    | none => err id "bad-scribble"
    | some ws =>
      match gen i.kind i.T i.scanned with
      | .file cs =>
        let pr := progOf i.kind false cs
        let st := ws.foldl scribble (tablesOf i.T cs)
        both id (againModel pr st win "A") (againSpec i.T i.kind false i.decl win "A") "Out"
      | _ => both id [] [] "Out"

/-! ### C12 -/

def showCls : Option DecErr → String
  | none => "nil"
  | some .notString => "notstring"
  | some .notFound => "notfound"
  | some .badType => "badtype"


/-- `(ints (int64 1 2 …) (uint8 255 …) …)`: IsEnum probes by the kind of TV -/
def probesOf (p : Sexp) : List (String × Kind × Int) :=
  match p.field? "ints" with
  | some f => f.args.flatMap (fun g => match g with
      | .list (.atom k :: vs) => match kindOfName k with
        | some kk => (vs.filterMap Sexp.asInt?).map (fun v => (k, kk.1, v))
        | none => []
      | _ => [])
  | none => []

structure C12Probes where
  json : Bool
  text : Bool
  sql : Bool
  gorm : Bool
  target : Int
  strs : List Name
  jsons : List JsonIn
  sqls : List SqlIn
  ints : List (String × Kind × Int)
  encs : List Int
  calls : List Call := []

def c12Model (i : Input) (q : C12Probes) : List (String × String) :=
  match gen i.kind i.T i.scanned with
  | .skipped => [("exit", "0"), ("file", "none")]
  | .file cs =>
    if !compiles false i.T i.decl cs then [("exit", "0"), ("compile", "error")]
    else
      let vm := valueMap i.T cs
      let codec (on : Bool) (tag : String) (rt : Int → Dec) : List (String × String) :=
        if !on then [] else
          q.encs.map (fun x => (s!"{tag}.enc:{x}", showStr (encode i.kind i.T cs x)))
          ++ (valuesT cs).map (fun x => (s!"{tag}.rt:{x}", showDec (rt x).obs))
          -- the same again after the caller has scribbled over every byte the encoder handed out: the emitted
          -- encoders have no state (a fresh conversion of String() per call), so nothing changes
          ++ q.encs.map (fun x => (s!"{tag}.enc2:{x}", showStr (encode i.kind i.T cs x)))
          ++ (valuesT cs).map (fun x => (s!"{tag}.rt2:{x}", showDec (rt x).obs))
      [("exit", "0"), ("compile", "ok"),
       ("has.json", toString q.json), ("has.text", toString q.text), ("has.sql", toString q.sql), ("has.gorm", toString q.gorm)]
      ++ codec q.json "json" (fun x => unmarshalJSON vm (.str (encode i.kind i.T cs x).text) q.target)
      ++ codec q.text "text" (fun x => unmarshalText vm (encode i.kind i.T cs x).text q.target)
      ++ codec q.sql "sql" (fun x => scan vm (.bytes (encode i.kind i.T cs x).text) q.target)
      ++ (if q.json then (enumerate q.jsons).flatMap (fun (j, d) =>
            let r := unmarshalJSON vm d q.target
            [(s!"json.dec:{j}", showDec r.obs), (s!"json.cls:{j}", showCls r.1)]) else [])
      ++ (if q.text then (enumerate q.strs).flatMap (fun (j, s) =>
            let r := unmarshalText vm s q.target
            [(s!"text.dec:{j}", showDec r.obs), (s!"text.cls:{j}", showCls r.1)]) else [])
      ++ (if q.sql then (enumerate q.sqls).flatMap (fun (j, d) =>
            let r := scan vm d q.target
            [(s!"sql.dec:{j}", showDec r.obs), (s!"sql.cls:{j}", showCls r.1)]) else [])
      ++ (if q.gorm then [("gorm.dt", "string"),
            ("gorm.dbdt", "ENUM(" ++ ",".intercalate ((gormEnums i.T cs).map (fun n => "'" ++ showName n ++ "'")) ++ ")")] else [])
      ++ (enumerate q.strs).flatMap (fun (j, s) =>
            [(s!"parse:{j}", match parseEnum vm s with | some v => s!"ok {v}" | none => "err"),
             (s!"try:{j}", let r := tryParseEnum vm s q.target; s!"{r.1} {r.2}")])
      ++ q.ints.map (fun (n, kV, v) => (s!"isenum:{n}:{v}", toString (isEnum i.kind kV (valuesT cs) v)))
      -- the history of calls against the running program, then every getter against the tables as they are THEN
      ++ (let p := progOf i.kind false cs
          let r := histModel p (tablesOf i.T cs) q.calls
          r.2 ++ againModel p r.1 q.encs)

def c12Spec (i : Input) (q : C12Probes) : List (String × String) :=
  let d := i.decl
  let T := i.T
  let codec (on : Bool) (tag : String) : List (String × String) :=
    if !on then [] else
      q.encs.map (fun x => (s!"{tag}.enc:{x}", showStr (specString T d x)))
      ++ (specValues d).map (fun x => (s!"{tag}.rt:{x}", showDec (true, x)))
      -- encoders are functions of the value: what a caller did to earlier results is irrelevant
      ++ q.encs.map (fun x => (s!"{tag}.enc2:{x}", showStr (specString T d x)))
      ++ (specValues d).map (fun x => (s!"{tag}.rt2:{x}", showDec (true, x)))
  [("exit", "0"), ("compile", "ok")]
  ++ codec q.json "json" ++ codec q.text "text" ++ codec q.sql "sql"
  ++ (if q.json then (enumerate q.jsons).map (fun (j, x) => (s!"json.dec:{j}", showDec (specDecode T d x.asName q.target))) else [])
  ++ (if q.text then (enumerate q.strs).map (fun (j, s) => (s!"text.dec:{j}", showDec (specDecode T d (some s) q.target))) else [])
  ++ (if q.sql then (enumerate q.sqls).map (fun (j, x) => (s!"sql.dec:{j}", showDec (specDecode T d x.asName q.target))) else [])
  ++ (enumerate q.strs).flatMap (fun (j, s) =>
        [(s!"parse:{j}", match specParse T d s with | some v => s!"ok {v}" | none => "err"),
         (s!"try:{j}", let r := specDecode T d (some s) q.target; s!"{r.1} {r.2}")])
  ++ q.ints.map (fun (n, _, v) => (s!"isenum:{n}:{v}", toString (specIsEnum d v)))
  ++ histSpec T i.kind false d q.calls ++ againSpec T i.kind false d q.encs

def c12Case (id : String) (payload : List Sexp) : List String :=
  let p := Sexp.list (.atom "p" :: payload)
  match parseInput p with
  | none => err id "bad-enum-case"
  | some i =>
    let fl := (p.field? "flags").getD (.list [])
    match histOf p with
    | none => err id "bad-history"
    | some calls =>
    let q : C12Probes := {
      calls := calls,
      json := fl.hasFlag "json", text := fl.hasFlag "text", sql := fl.hasFlag "sql", gorm := fl.hasFlag "gorm",
      target := (intsOf p "target").headD 0,
      strs := ((p.field? "strs").map (·.args)).getD [] |>.filterMap (fun a => a.asAtom?.map nm),
      jsons := ((p.field? "jsons").map (·.args)).getD [] |>.filterMap parseJsonIn,
      sqls := ((p.field? "sqls").map (·.args)).getD [] |>.filterMap parseSqlIn,
      ints := probesOf p, encs := intsOf p "encs" }
    let pr := q.ints.map (fun (_, kV, v) => (kV, v))
    let reg := if WF i && !(probesOK pr && calls.all Call.ok) then "Out" else region i
    both id (c12Model i q) (c12Spec i q) reg

/-- the IsEnum probe matrix of one enum over every integer type TV (separate case so that a finding
    region stays narrow) -/
def c12tCase (id : String) (payload : List Sexp) : List String :=
  let p := Sexp.list (.atom "p" :: payload)
  match parseInput p with
  | none => err id "bad-enum-case"
  | some i =>
    let ints := probesOf p
    let pr := ints.map (fun (_, kV, v) => (kV, v))
    let reg := if !WF i || !probesOK pr then "Out" else "WF"
    match gen i.kind i.T i.scanned with
    | .file cs =>
      both id (ints.map (fun (n, kV, v) => (s!"isenum:{n}:{v}", toString (isEnum i.kind kV (valuesT cs) v))))
        (ints.map (fun (n, _, v) => (s!"isenum:{n}:{v}", toString (specIsEnum i.decl v)))) reg
    | _ => both id [] [] "Out"

/-- `(case <id> c12v (type …) (blocks B…) (target v) (strs "s"…))`: the -sql pair through the very
    driver.Value it produces: Scan(Value(c)) for every declared c (`sql.rtv:<c>`) and Scan(string) -/
def c12vCase (id : String) (payload : List Sexp) : List String :=
  let p := Sexp.list (.atom "p" :: payload)
  match parseInput p with
  | none => err id "bad-enum-case"
  | some i =>
    let target := (intsOf p "target").headD 0
    let strs := ((p.field? "strs").map (·.args)).getD [] |>.filterMap (fun a => a.asAtom?.map nm)
    let reg := if !WF i then "Out" else "WF"
    match gen i.kind i.T i.scanned with
    | .file cs =>
      let vm := valueMap i.T cs
      both id
        ((valuesT cs).map (fun x => (s!"sql.rtv:{x}", showDec (scan vm (.str (encode i.kind i.T cs x).text) target).obs))
          ++ (enumerate strs).map (fun (j, s) => (s!"sql.sdec:{j}", showDec (scan vm (.str s) target).obs)))
        ((specValues i.decl).map (fun x => (s!"sql.rtv:{x}", showDec (true, x)))
          ++ (enumerate strs).map (fun (j, s) => (s!"sql.sdec:{j}", showDec (specDecode i.T i.decl (some s) target))))
        reg
    | _ => both id [] [] "Out"

/-- `(case <id> c12i (type …) (blocks B…) (name "s"))`: ParseEnum of one declared name, evaluated in a
    package-level variable initializer of a file that sorts before the generated file -/
def c12iCase (id : String) (payload : List Sexp) : List String :=
  let p := Sexp.list (.atom "p" :: payload)
  match parseInput p with
  | none => err id "bad-enum-case"
  | some i =>
    let s := match p.field? "name" with
      | some (.list [_, .atom a]) => nm a
      | _ => []
    let sh := fun (r : Option Int) => match r with | some v => s!"ok {v}" | none => "err"
    match gen i.kind i.T i.scanned with
    | .file cs =>
      both id [("init.parse", sh (parseEnumAtInit (valueMap i.T cs) s))] [("init.parse", sh (specParse i.T i.decl s))]
        (if F_init_order i then "F_init_order" else "Out")
    | _ => both id [] [] "Out"

/-! ### C14 -/

def showBV {w} (signed : Bool) (x : BitVec w) : String := toString (Bit.decOf signed x)

def c14Lines {w : Nat} (signed : Bool) (t : Bit.Table w) (strf : BitVec w → Str)
    (has : BitVec w → BitVec w → Bool) (add rem : BitVec w → BitVec w → BitVec w) (hi : Nat) (negs : List Int)
    (hist : List String) (t2 : Bit.Table w) (strf2 : BitVec w → Str) (mid : List (String × String)) : List (String × String) :=
  let xs := (List.range hi).map (fun n => BitVec.ofNat w n)
  let sweep := "|".intercalate (xs.map (fun x => showStr (strf x)))
  let sweep2 := "|".intercalate (xs.map (fun x => showStr (strf2 x)))
  [("strs", sweep)]
  ++ (if negs.isEmpty then [] else [("nstrs", "|".intercalate (negs.map (fun v => showStr (strf (BitVec.ofInt w v)))))])
  -- the history of calls (h<j>) and every getter again
  ++ mid
  -- Values() observed again after the runtime helpers were called on every value: `t2` is the table as it is THEN
  ++ [("vals2", ",".intercalate (t2.map (fun e => showBV signed e.1)))]
  -- call histories (descending sweep, through each encoder, ascending again): String() is a function of the value
  ++ hist.map (fun k => (k, sweep2))
  ++ t.flatMap (fun e =>
      let f := e.1
      [(s!"has:{showBV signed f}", String.ofList (xs.map (fun x => if has x f then '1' else '0'))),
       (s!"add:{showBV signed f}", ",".intercalate (xs.map (fun x => showBV signed (add x f)))),
       (s!"rem:{showBV signed f}", ",".intercalate (xs.map (fun x => showBV signed (rem x f))))])

def c14At (w : Nat) (i : Input) (cs : List Const) (hi : Nat) (negs : List Int) (hist : List String) (calls : List Call) :
    List (String × String) × List (String × String) :=
  let sg := i.kind.signed
  let tm : Bit.Table w := Bit.table i.T cs
  let ts : Bit.Table w := Bit.table i.T (specSorted i.decl)
  -- the running program: the history, then the tables as they are afterwards (`_t_values` zipped with `_t_string_map`)
  let p := progOf i.kind true cs
  let r := histModel p (tablesOf i.T cs) calls
  let tm2 : Bit.Table w := r.1.values.map (fun v => (BitVec.ofInt w v, ((r.1.smap.lookup v).getD [])))
  let specf := if Bit.WFt sg ts then Bit.specString sg ts else Bit.specGeneral sg ts
  (c14Lines sg tm (Bit.string sg tm) Bit.has Bit.add Bit.remove hi negs hist tm2 (Bit.string sg tm2)
     (r.2 ++ againModel p r.1 []),
   c14Lines sg ts specf Bit.specHas Bit.specAdd Bit.specRemove hi negs hist ts specf
     (histSpec i.T i.kind true i.decl calls ++ againSpec i.T i.kind true i.decl []))

def c14Case (id : String) (payload : List Sexp) : List String :=
  let p := Sexp.list (.atom "p" :: payload)
  match parseInput p with
  | none => err id "bad-enum-case"
  | some i =>
    let hi := ((intsOf p "hi").headD 0).toNat
    let negs := intsOf p "neg"
    let fl := (p.field? "flags").getD (.list [])
    let hist := ["strs2"] ++ (if fl.hasFlag "text" then ["tstrs"] else []) ++ (if fl.hasFlag "json" then ["jstrs"] else [])
      ++ (if fl.hasFlag "sql" then ["vstrs"] else []) ++ ["strs3"]
    let hd := [("exit", "0"), ("compile", "ok")]
    match histOf p with
    | none => err id "bad-history"
    | some calls =>
    let reg := if calls.all Call.ok then regionBit i else "Out"
    match gen i.kind i.T i.scanned with
    | .skipped => both id [("exit", "0"), ("file", "none")] hd reg
    | .file cs =>
      -- the copy under observation has the defined table substituted, so it compiles like a plain enum
      if !compiles false i.T i.decl cs then both id [("exit", "0"), ("compile", "error")] hd reg
      else
        let (m, s) := match i.kind.bits with
          | 8 => c14At 8 i cs hi negs hist calls
          | 16 => c14At 16 i cs hi negs hist calls
          | 32 => c14At 32 i cs hi negs hist calls
          | _ => c14At 64 i cs hi negs hist calls
        both id (hd ++ m) (hd ++ s) reg

/-- the emitted -bit file as it is: does it compile? -/
def c14rawCase (id : String) (payload : List Sexp) : List String :=
  let p := Sexp.list (.atom "p" :: payload)
  match parseInput p with
  | none => err id "bad-enum-case"
  | some i =>
    let reg := if !WF i then "Out" else if F_undefined_map true then "F_undefined_map" else "WF"
    match gen i.kind i.T i.scanned with
    | .file cs => both id [("compile", if compiles true i.T i.decl cs then "ok" else "error")] [("compile", "ok")] reg
    | _ => both id [] [] "Out"

/-! ### C01 leg -/

/-- `(case <id> c01enum (flags bit json text sql gorm) (mode type|list|file|star)
      (types ("T" <kind> [sel]) …) (blocks B…))` -/
def c01enumCase (id : String) (payload : List Sexp) : List String :=
  let p := Sexp.list (.atom "p" :: payload)
  let fl := (p.field? "flags").getD (.list [])
  let mode := match p.field? "mode" with
    | some (.list [_, .atom m]) => m
    | _ => ""
  let tys : List ((Name × Kind) × Bool × Bool) := ((p.field? "types").map (·.args)).getD [] |>.filterMap (fun t =>
    match t with
    | .list (.atom n :: .atom k :: rest) => (kindOfName k).map (fun kk => ((nm n, kk.1), kk.2, rest == [.atom "sel"]))
    | _ => none)
  match (p.field? "blocks").bind (fun b => b.args.mapM (fun bl => bl.args.mapM parseSpec)) with
  | none => err id "bad-enum-case"
  | some blocks =>
    let selected := if mode == "file" || mode == "star" then (tys.filter (·.2.1)).map (·.1) else (tys.filter (·.2.2)).map (·.1)
    let wf := blocks.all (fun b => b.all (fun s => s.names.length == s.vals.length)) && !tys.isEmpty
    let locals := match p.field? "locals" with
      | some l => (l.args.mapM (fun (bl : Sexp) => bl.args.mapM parseSpec)).getD []
      | none => []
    let idents := ((p.field? "idents").map (·.args)).getD [] |>.filterMap (fun a => a.asAtom?.map nm)
    let pc : PkgCase := { bit := fl.hasFlag "bit", json := fl.hasFlag "json", text := fl.hasFlag "text",
                          sql := fl.hasFlag "sql", gorm := fl.hasFlag "gorm", idents := idents,
                          types := selected, blocks := blocks, locals := locals, wellFormed := wf }
    let (ex, written, comp) := c01Model pc
    let model : List (String × String) :=
      if ex != 0 then [("exit", toString ex)]
      else [("exit", "0"), ("compile", if comp then "ok" else "error"),
            ("header", if written then "ok" else "none-written"), ("gofmt", "ok"), ("package", "ok")]
    both id model [("exit", "0"), ("compile", "ok"), ("header", "ok"), ("gofmt", "ok"), ("package", "ok")] (c01Region pc)

end ShootVerif.Drive
