import ShootVerif.Drive.Common
import ShootVerif.Model.Transfer
namespace ShootVerif.Drive
open ShootVerif.Transfer

def hexDigit (c : Char) : Option Nat :=
  if '0' ≤ c && c ≤ '9' then some (c.toNat - 48)
  else if 'a' ≤ c && c ≤ 'f' then some (c.toNat - 87)
  else none

def unhex : List Char → Option (List Char)
  | [] => some []
  | a :: b :: rest => do
    let x ← hexDigit a
    let y ← hexDigit b
    let r ← unhex rest
    some (Char.ofNat (x * 16 + y) :: r)
  | _ => none

def hexOf (cs : List Char) : String :=
  let d (n : Nat) : Char := if n < 10 then Char.ofNat (48 + n) else Char.ofNat (87 + n)
  "x" ++ String.ofList (cs.flatMap (fun c => [d (c.toNat / 16), d (c.toNat % 16)]))

/-- `(transfer <hex>)`: ASCII input bytes as hex -/
def transferCase (id : String) (payload : List Sexp) : List String :=
  let h := match payload with | [.atom s] => s | _ => ""
  match unhex h.toList with
  | some cs =>
    let lines := [("pascal", hexOf (pascal cs)), ("camel", hexOf (camel cs)), ("camelgo", hexOf (camelGO cs)),
                  ("firstlower", hexOf (firstLower cs))]
    both id lines lines
  | none => err id "bad-hex"

end ShootVerif.Drive
