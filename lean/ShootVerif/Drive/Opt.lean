import ShootVerif.Drive.Ctor
import ShootVerif.Model.Opt
import ShootVerif.Proofs.CtorMain
import ShootVerif.Model.AllocMap
namespace ShootVerif.Drive
open ShootVerif.Ctor ShootVerif.Opt

/-- (path, depth, info, under a pointer embed) -/
def leavesPtr (path : List String) (under : Bool) (d : Nat) (t : Tree) : List (List String × Nat × FInfo × Bool) :=
  (leavesPtrs path (if under then [[]] else []) d t).map (fun l => (l.1, l.2.1, l.2.2.1, l.2.2.2.1))

def showVal (dirty : Bool) : Val → String
  | .init => if dirty then "dirty" else "zero"
  | .defv e => s!"def:{e}"
  | .opt p => s!"arg{p}"
  | .zero => "zero"

/-- is this leaf the one the selector `t.name` writes (model: not shadowed in the generator's list, not skipped) -/
def isTarget (t : Tree) (d : Nat) (f : FInfo) : Bool := !f.skip && !genShadow t d f.name

def optRun (t : Tree) (names : List String) (dirty : Bool) (seq : List Nat) (mirror : Bool) : String :=
  let fs := flatten t
  let defs := defaultList fs
  -- an entry j ≥ 1000 is option j - 1000 called with the ZERO value of its parameter type (nil for a pointer, slice, map)
  let optNames := seq.map (fun j => names.getD (j % 1000) "?")
  let opts : List (String × Val) := ((List.range seq.length).zip seq).map (fun pj =>
    (names.getD (pj.2 % 1000) "?", if pj.2 ≥ 1000 then Val.zero else Val.opt pj.1))
  let st := withM defs opts (fun _ => .init)
  let ls := leavesPtrs [] [] 0 t
  -- f531104: an option for a promoted field allocates the embedded pointer structs on its way (Model/Alloc.lean)
  let step (acc : Option Alloc.Heap) (n : String) : Option Alloc.Heap :=
    match acc with
    | none => none
    | some h =>
      match ls.find? (fun l => l.2.2.1.name = n && isTarget t l.2.1 l.2.2.1) with
      | some l =>
        -- model side: the chain comes from the generator's own scan (`AllocMap[name]`); spec side: from the struct
        let chain := if mirror then allocMapOf fs n else l.2.2.2.2
        (match Alloc.writeField chain h with | .ok h' => some h' | .panic => none)
      | none => some h
  let heap := optNames.foldl step (some [])
  match heap with
  | none => "panic"
  | some allocated =>
  let shown := if dirty then ls else ls.filter (fun l => l.2.2.2.2.all (fun p => allocated.contains p))
  ";".intercalate (shown.map (fun l =>
    pathKey l.1 l.2.2.1.name ++ "=" ++ showVal dirty (if isTarget t l.2.1 l.2.2.1 then st l.2.2.1.name else .init)))

/-- `(opt (mode nw|with) (short b) (tname T) (tree M…) (seqs (i j …) …))` -/
def optCase (id : String) (payload : List Sexp) : List String :=
  let p := Sexp.list (.atom "p" :: payload)
  match p.field? "tree", p.field? "tname" with
  | some (.list (_ :: ms)), some (.list [_, .atom tname]) =>
    match parseMembers ms with
    | some t =>
      let short := match p.field? "short" with | some (.list [_, .atom "true"]) => true | _ => false
      let dirty := match p.field? "mode" with | some (.list [_, .atom "with"]) => true | _ => false
      let fs := flatten t
      let names := allList fs
      let specNames := ((nonSkipped t).filter (fun l => !goShadowed t l.depth l.info.name)).map (·.info.name)
      let seqs : List (List Nat) := match p.field? "seqs" with
        | some (.list (_ :: ss)) => ss.filterMap (fun s => s.asList?.bind (fun xs => xs.mapM Sexp.asNat?))
        | _ => []
      let key (s : List Nat) := "seq:" ++ "-".intercalate (s.map toString)
      let base := region t
      let reg := if base != "WF" then "Out" else "WF"
      let hdr (ns : List String) := [("optnames", " ".intercalate (ns.map (optName short tname))),
        ("hasdefault", toString (!(defaultList fs).isEmpty))]
      both id
        (hdr names ++ seqs.map (fun s => (key s, optRun t names dirty s true)))
        (hdr specNames ++ seqs.map (fun s => (key s, optRun t names dirty s false)))
        reg
    | none => err id "bad-tree"
  | _, _ => err id "bad-opt-case"

end ShootVerif.Drive
