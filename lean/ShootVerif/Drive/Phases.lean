import ShootVerif.Drive.Common
import ShootVerif.Spec.Phases
import ShootVerif.Drive.Cli
namespace ShootVerif.Drive
open ShootVerif.Phases

/-!
`(case <id> cli18 (cmd map) (damage valueRecv) (outs "a.shootmap.order.go") (stale "z.shootmap.old.go"))`
`(case <id> cli18 (cmd new) (damage unpredicted))`   -- shoot does not diagnose this damage: only the property is evaluated
-/

def parseDamage : String → Option Damage
  | "none" => some .none | "noArgs" => some .noArgs | "unknownSub" => some .unknownSub | "noSelection" => some .noSelection
  | "unknownFlag" => some .unknownFlag | "badFlagValue" => some .badFlagValue | "fileNotGo" => some .fileNotGo
  | "fileMissing" => some .fileMissing | "dirMissing" => some .dirMissing | "gormNoSql" => some .gormNoSql
  | "toNoType" => some .toNoType | "toMisaligned" => some .toMisaligned | "destDirMissing" => some .destDirMissing
  | "twoPackages" => some .twoPackages | "typeMissing" => some .typeMissing | "wrongKind" => some .wrongKind
  | "notInFile" => some .notInFile | "restResults" => some .restResults | "exportedGetFlag" => some .exportedGetFlag
  | "manualBadParam" => some .manualBadParam | "manualTwice" => some .manualTwice | "formatFail" => some .formatFail
  | "restParseFail" => some .restParseFail | "restAliasDup" => some .restAliasDup | "outputBlocked" => some .outputBlocked
  | "cleanGlobBad" => some .cleanGlobBad
  | _ => none

def c18yn (b : Bool) : String := if b then "yes" else "no"

def showRun (r : Exit × List FsOp) : List (String × String) :=
  [("exit", toString r.1.code), ("exit012", c18yn (r.1.code ≤ 2)), ("rtpanic", c18yn (r.1 == .panic)),
   ("changed", c18yn (!r.2.isEmpty)), ("changed-on-failure", c18yn (r.1 != .ok && !r.2.isEmpty)),
   -- every modelled non-zero exit prints a usage text or a logx.Fatal line; a panic prints only a stack trace
   ("silent-failure", c18yn (r.1 == .panic))]

def c18Spec : List (String × String) := [("exit012", "yes"), ("rtpanic", "no"), ("changed-on-failure", "no"), ("silent-failure", "no")]

def cli18Case (id : String) (payload : List Sexp) : List String :=
  let p := Sexp.list (.atom "p" :: payload)
  let strsOf (k : String) : List String := match p.field? k with
    | some (.list (_ :: xs)) => xs.filterMap Sexp.asAtom?
    | _ => []
  match p.field? "cmd", p.field? "damage" with
  | some (.list [_, .atom c]), some (.list (_ :: .atom d :: _)) =>
    match parseCmd c with
    | none => err id "bad-cmd"
    | some cmd =>
      if d == "unpredicted" then both id [] c18Spec "WF"
      else match parseDamage d with
        | none => err id s!"unknown-damage {d}"
        | some dm =>
          let r := run (classify cmd dm (strsOf "outs") (strsOf "stale"))
          both id (showRun r) c18Spec (region dm).str
  | _, _ => err id "bad-cli18-case"

end ShootVerif.Drive
