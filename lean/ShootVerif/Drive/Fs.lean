import ShootVerif.Drive.Common
import ShootVerif.Drive.Cli
import ShootVerif.Spec.Fs
namespace ShootVerif.Drive
open ShootVerif.Fs

/-!
`(case <id> fs17 (cmd new) (pkg "p/") (flags (types "*") (file "") sep) (aiofile "a.go") (genfile "a.shootnew.go")
    (outs (o "a.shootnew.go" "123") …)                       -- output base name, temp suffix
    (listing (f "a.shootnew.go" (line "// Code …")) …)   -- package dir as Clean sees it
    (init (e "p/a.go" 0) (e "p/a.shootnew.go" 1) (e "p/backup.txt" 1) …))             -- path ↦ inode before the run`
The driver also SIMULATES every crash prefix of the op sequence on the given initial directory
(content of inode i = [i]; output j is written in two chunks [1000+j], [2000+j]).
-/

def fsStr (s : Sexp) (k : String) : String := match s.field? k with
  | some (.list [_, .atom v]) => v
  | _ => ""

/-- `(f name (line "…"))`: the first line as the harness read it; `(f name (content "…"))`: the whole content - the MODEL takes
    the first line (`FileInfo.ofContent`) -/
def parseFileInfo : Sexp → Option FileInfo
  | s@(.list (.atom "f" :: .atom name :: _)) =>
    match s.field? "content" with
    | some (.list [_, .atom c]) => some (FileInfo.ofContent name c)
    | _ => some { name := name, firstLine := fsStr s "line" }
  | _ => none

def parseOut (j : Nat) : Sexp → Option (String × List Bytes × String)
  | .list [.atom "o", .atom name, .atom sfx] => some (name, [[1000 + j], [2000 + j]], sfx)
  | _ => none

def parseInit : Sexp → Option (String × Nat)
  | .list [.atom "e", .atom p, n] => n.asNat?.map (fun i => (p, i))
  | _ => none

def mapIdx {α β : Type} (f : Nat → α → Option β) (l : List α) : Option (List β) :=
  (l.zipIdx).mapM (fun (a, i) => f i a)

def initState (es : List (String × Nat)) : State :=
  { dir := fun p => es.lookup p, data := fun i => [i], next := (es.foldl (fun m e => max m (e.2 + 1)) 0) }

def startsWithL (p s : String) : Bool := p.toList.isPrefixOf s.toList

def baseAfter (pre s : String) : String := String.ofList (s.toList.drop pre.toList.length)

def fsyn (b : Bool) : String := if b then "yes" else "no"

def fs17Case (id : String) (payload : List Sexp) : List String :=
  let p := Sexp.list (.atom "p" :: payload)
  let sub (k : String) : List Sexp := match p.field? k with
    | some (.list (_ :: xs)) => xs
    | _ => []
  match parseCmd (fsStr p "cmd"), mapIdx parseOut (sub "outs"), (sub "listing").mapM parseFileInfo, (sub "init").mapM parseInit with
  | some cmd, some outs, some listing, some init =>
    -- `tmpfail`: notedownSrc fails without any fault injection — the temp name exceeds NAME_MAX (os.CreateTemp fails) or the output
    -- name is taken by a directory (os.Rename fails, the temp file is removed): logx.Fatalf, exit 1, the directory is as before
    let tmpfail := p.hasFlag "tmpfail"
    -- the command line as the driver model reads it, and what the go:generate lookup finds: Clean is active iff `cleanActiveWith`
    let fl : ShootVerif.Cli.Flags := match p.field? "flags" with
      | some f => parseFlags f
      | none => {}
    let whole := match ShootVerif.Cli.mode fl with
      | some (.star false) => true
      | _ => false
    let c : Config := { cmd := cmd, pkgPrefix := fsStr p "pkg", outs := if tmpfail then [] else outs,
                        -- (a run whose write fails stops there: Clean comes after the last successful write, `selfRun`)
                        cleanActive := !tmpfail && ShootVerif.Cli.cleanActiveWith fl (fsStr p "aiofile"), genfile := fsStr p "genfile", listing := listing }
    let txns := c.txns
    let rms := c.clean
    let ops := c.ops
    let s0 := initState init
    let tg := targets txns
    let tm := tmps txns
    -- property-level observables of the model
    let confined := tg.all (fun t => startsWithL c.pkgPrefix t && globMatch cmd (baseAfter c.pkgPrefix t)
                                      && !(baseAfter c.pkgPrefix t).toList.contains '/')
      && rms.all (fun r => startsWithL c.pkgPrefix r && globMatch cmd (baseAfter c.pkgPrefix r))
    let cleanonly := (badRemoved c).isEmpty
    -- simulation of every crash prefix
    let ks := List.range (ops.length + 1)
    let atomic := ks.all (fun k =>
      let s := exec s0 (ops.take k)
      txns.all (fun x => rms.contains x.target || read s x.target == read s0 x.target || read s x.target == some x.content))
    let frame := ks.all (fun k =>
      let s := exec s0 (ops.take k)
      init.all (fun e => tg.contains e.1 || rms.contains e.1 || tm.contains e.1 || read s e.1 == read s0 e.1))
    let hardlink := ks.all (fun k =>
      let s := exec s0 (ops.take k)
      init.all (fun e => s.data e.2 == s0.data e.2))
    let sEnd := exec s0 ops
    let notemp := tm.all (fun t => (sEnd.dir t).isNone)
    -- every way a run can end by itself after i completed outputs: no temp path is left
    let faultNoTemp := (List.range txns.length).all (fun i =>
      match txns[i]? with
      | none => true
      | some y =>
        [Ending.writeFailed y 0, Ending.writeFailed y 1, Ending.renameFailed y, Ending.createFailed, Ending.complete 0].all (fun e =>
          let s := exec s0 (selfRun (txns.take i) rms e)
          tm.all (fun t => !(txns.take i).any (fun x => x.tmp == t) && t != y.tmp || (s.dir t).isNone)))
    let model : List (String × String) :=
      [ ("ops", if p.hasFlag "blocked" then "abort" else dash (sortStrs (tg.map (fun t => "txn:" ++ t)) ++ rms.map (fun r => "rm:" ++ r))),
        ("created", dash (sortStrs tg)),
        ("removed", dash (sortStrs rms)),
        ("exit", if tmpfail then "1" else "0"),
        ("confined", fsyn confined), ("outside-untouched", fsyn (tg.all (startsWithL c.pkgPrefix) && rms.all (startsWithL c.pkgPrefix))), ("cleanonly", fsyn cleanonly), ("atomic", fsyn atomic), ("frame", fsyn frame),
        ("hardlink", fsyn hardlink), ("notemp", fsyn notemp), ("reader", "yes"),
        -- something is removed only by a run that regenerates the whole package (C17_clean_only_superseded)
        ("superseded", fsyn (rms.isEmpty || whole)),
        -- I/O errors: a failed write or rename ends in remove(temp) (C17_no_temp_after_any_exit), a failed unlink stops Clean
        ("fault-atomic", "yes"), ("fault-notemp", fsyn faultNoTemp) ]
    let spec : List (String × String) :=
      [ ("confined", "yes"), ("outside-untouched", "yes"), ("cleanonly", "yes"), ("atomic", "yes"), ("frame", "yes"), ("hardlink", "yes"),
        ("notemp", "yes"), ("reader", "yes"), ("superseded", "yes"), ("fault-atomic", "yes"), ("fault-notemp", "yes") ]
    both id model spec (region c).str
  | _, _, _, _ => err id "bad-fs17-case"

/-- `(case <id> clean17 (cmd new) (genfile "a.shootnew.go") (listing (f name (line "…")) …))`: what Clean removes -/
def clean17Case (id : String) (payload : List Sexp) : List String :=
  let p := Sexp.list (.atom "p" :: payload)
  let sub (k : String) : List Sexp := match p.field? k with
    | some (.list (_ :: xs)) => xs
    | _ => []
  match parseCmd (fsStr p "cmd"), (sub "listing").mapM parseFileInfo with
  | some cmd, some listing =>
    both id [("removed", " ".intercalate (cleanLoop cmd (fsStr p "genfile") listing))] [] "WF"
  | _, _ => err id "bad-clean17-case"

/-- `(case <id> glob17 (cmd new) (pkg "w?/mod/p/") (genfile "a.shootnew.go") (outs (o "a.shootnew.go" "1")) (listing …) (flags …) (aiofile "a.go")
     (dirpat wild self (other "w1/mod/p/" (f …) …) …) | (dirpat bad) | (dirpat literal))`: Clean with a `[dir]` that holds glob metacharacters -/
def glob17Case (id : String) (payload : List Sexp) : List String :=
  let p := Sexp.list (.atom "p" :: payload)
  let sub (k : String) : List Sexp := match p.field? k with
    | some (.list (_ :: xs)) => xs
    | _ => []
  match parseCmd (fsStr p "cmd"), mapIdx parseOut (sub "outs"), (sub "listing").mapM parseFileInfo with
  | some cmd, some outs, some listing =>
    let fl : ShootVerif.Cli.Flags := match p.field? "flags" with
      | some f => parseFlags f
      | none => {}
    let c : Config := { cmd := cmd, pkgPrefix := fsStr p "pkg", outs := outs,
                        cleanActive := ShootVerif.Cli.cleanActiveWith fl (fsStr p "aiofile"), genfile := fsStr p "genfile", listing := listing }
    -- (the `dirpat` field describes the other directories the path WOULD match as a pattern: since /repo a3d970c it plays no role)
    let rms := c.clean
    let model : List (String × String) := [("exit", "0"), ("removed", dash (sortStrs rms)), ("removed-outside", fsyn (!removedInside c rms))]
    both id model [("exit", "0"), ("removed-outside", "no")] (region c).str
  | _, _, _ => err id "bad-glob17-case"

/-- `(case <id> dirline (cmdline "shoot new -type=*") (line "//go:generate go tool shoot new -type=*"))`: findCmdLine -/
def dirlineCase (id : String) (payload : List Sexp) : List String :=
  let p := Sexp.list (.atom "p" :: payload)
  both id [("match", toString (ShootVerif.Cli.isDirective (fsStr p "cmdline") (fsStr p "line")))] [] "WF"

end ShootVerif.Drive
