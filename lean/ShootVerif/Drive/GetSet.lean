import ShootVerif.Drive.Ctor
import ShootVerif.Drive.Opt
import ShootVerif.Spec.GetSet
namespace ShootVerif.Drive
open ShootVerif.Ctor ShootVerif.GetSet

def sortStrs (l : List String) : List String := (l.toArray.qsort (· < ·)).toList

def showIface : Option (List String) → String
  | none => "none"
  | some ms => " ".intercalate (sortStrs ms.eraseDups)

/-- round trip of one setter on a receiver whose every leaf is dirty: leaves, then own getters -/
def rtLine (t : Tree) (getterOf : List (String × String)) (target : Option String) : String :=
  let ls := leavesPtr [] false 0 t
  let valOf (top : Bool) (n : String) : String := if top && some n = target then "arg0" else "dirty"
  ";".intercalate (ls.map (fun l => pathKey l.1 l.2.2.1.name ++ "=" ++ valOf (l.2.1 == 0) l.2.2.1.name))
    ++ "|" ++ ";".intercalate (getterOf.map (fun p => p.1 ++ "=" ++ valOf true p.2))

def getsetLines (t : Tree) (getterOf setterOf : List (String × String)) (gi si : Option (List String)) :
    List (String × String) :=
  [("getters", " ".intercalate (getterOf.map (·.1))), ("setters", " ".intercalate (setterOf.map (·.1))),
   ("giface", showIface gi), ("siface", showIface si), ("rt:", rtLine t getterOf none)]
  ++ setterOf.map (fun p => ("rt:" ++ p.1, rtLine t getterOf (some p.2)))

/-- `(getset (typedoc none | g s) (facts (E (g m…) (s m…)) …) (tree M…))` -/
def getsetCase (id : String) (payload : List Sexp) : List String :=
  let p := Sexp.list (.atom "p" :: payload)
  match p.field? "tree" with
  | some (.list (_ :: ms)) =>
    match parseMembers ms with
    | some t =>
      let doc : Option (Bool × Bool) := match p.field? "typedoc" with
        | some (.list [_, .atom g, .atom s]) => some (g == "true", s == "true")
        | _ => none
      let factList : List (String × Option (List String) × Option (List String)) := match p.field? "facts" with
        | some (.list (_ :: fs)) => fs.filterMap (fun f => match f with
            | .list (.atom e :: rest) =>
              let r := Sexp.list (.atom "r" :: rest)
              let get (k : String) := (r.field? k).map (fun x => x.args.filterMap Sexp.asAtom?)
              some (e, get "g", get "s")
            | _ => none)
        | _ => []
      let facts : IfaceFacts := fun n => match factList.lookup n with | some x => x | none => (none, none)
      let g := GetSet.gen doc facts t
      -- spec: the accessor table over own fields; interfaces = embedded shoot types' interfaces + own accessors
      let sg := (specGetFields doc t).map (fun n => (Transfer.pascalS n, n))
      let ss := (specSetFields doc t).map (fun n => ("Set" ++ Transfer.pascalS n, n))
      let embeds := topEmbeds t
      let egi := if typeGetter doc then embeds.filterMap (fun e => (facts e).1) else []
      let esi := if typeSetter doc then embeds.filterMap (fun e => (facts e).2) else []
      let sgi := if egi.isEmpty && sg.isEmpty then none else some (egi.flatten ++ sg.map (·.1))
      let ssi := if esi.isEmpty && ss.isEmpty then none else some (esi.flatten ++ ss.map (·.1))
      -- an own accessor whose name is also a method of an embedded accessor interface (a field that shadows a
      -- field of an embedded shoot type): TGetter would declare the method twice, in general with different
      -- types; no interface can then "list exactly these accessors plus the embedded interfaces" -> Out
      let clash := sg.any (fun p => egi.flatten.contains p.1) || ss.any (fun p => esi.flatten.contains p.1)
      let reg := if Ctor.region t != "WF" then "Out" else if !wfOnce t then "Out" else if clash then "Out" else "WF"
      both id (getsetLines t g.getterOf g.setterOf g.getterIface g.setterIface) (getsetLines t sg ss sgi ssi) reg
    | none => err id "bad-tree"
  | _ => err id "bad-getset-case"

end ShootVerif.Drive
