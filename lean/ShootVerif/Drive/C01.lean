import ShootVerif.Drive.Json
namespace ShootVerif.Drive
open ShootVerif.Ctor ShootVerif.GetSet ShootVerif

/-- region of one type for C01 (`shoot new`): what the property expects is always "ok"; the regions name
    the input classes on which the unchanged generator is known to emit Go that does not build -/
def c01TypeRegion (flags : List String) (generic : Bool) (t : Tree) : String :=
  -- accessor / option / shadow-struct names are Pascal-cased field names: they must be distinct when such code is emitted
  let needPascal := flags.any (fun f => f == "-opt" || f == "-getset" || f == "-json")
  let vis := visibleLeaves t
  if !wfLevels t then "Out"
  else if !wfOnce t then "Out"
  else if needPascal && !((vis.map (fun l => Transfer.pascalS l.info.name)).Nodup) then "Out"
  else if vis.any (fun l => isExportedName l.info.name && l.info.name.contains '_') then "Out"
  else "WF"

/-- `(c01new (flags f…) (mode m) (types (t name (generic b) (tree M…)) …))` -/
def c01newCase (id : String) (payload : List Sexp) : List String :=
  let p := Sexp.list (.atom "p" :: payload)
  let flags := match p.field? "flags" with | some (.list (_ :: fs)) => fs.filterMap Sexp.asAtom? | _ => []
  let types := match p.field? "types" with | some (.list (_ :: ts)) => ts | _ => []
  let regs := types.map (fun ty =>
    let generic := match ty.field? "generic" with | some (.list [_, .atom "true"]) => true | _ => false
    match ty.field? "tree" with
    | some (.list (_ :: ms)) => (match parseMembers ms with | some t => c01TypeRegion flags generic t | none => "Out")
    | _ => "Out")
  -- `-opt -short`: option functions are package-level `Pascal(field)`; two generated types sharing a field name
  -- cannot both have them. Inherent to -short (the user chooses it per package) -> Out, not a finding
  let optNames := types.map (fun ty => match ty.field? "tree" with
    | some (.list (_ :: ms)) => (match parseMembers ms with
        | some t => (Opt.allList (flatten t)).map Transfer.pascalS
        | none => [])
    | _ => [])
  let shortClash := flags.contains "-opt" && flags.contains "-short" && !(optNames.flatten.Nodup)
  let regs := if shortClash then regs.map (fun r => if r == "WF" then "Out" else r) else regs
  let reg := match regs.find? (fun r => r.startsWith "F_") with
    | some r => r
    | none => if regs.any (· == "Out") then "Out" else "WF"
  let exp := [("exit", "0"), ("compile", "ok"), ("header", "ok"), ("gofmt", "ok"), ("package", "ok")]
  both id [] exp reg

end ShootVerif.Drive
