import ShootVerif.Drive.Json
namespace ShootVerif.Drive
open ShootVerif.Ctor ShootVerif.GetSet ShootVerif

/-- region of one type for C01 (`shoot new`): what the property expects is always "ok"; the regions name
    the input classes on which the unchanged generator is known to emit Go that does not build -/
def c01TypeRegion (flags : List String) (generic : Bool) (t : Tree) : String :=
  -- accessor / option / shadow-struct names are Pascal-cased field names: they must be distinct when such code is emitted
  let needPascal := flags.any (fun f => f == "-opt" || f == "-getset" || f == "-json")
  let vis := visibleLeaves t
  if !wfLevels t then "Out"
  else if !wfOnce t then "Out"
  else if needPascal && !((vis.map (fun l => Transfer.pascalS l.info.name)).Nodup) then "Out"
  -- (an exported name that is not PascalCase, `User_name`, was put outside the domain here until round 7; it was a defect of
  -- the -json shadow struct, repaired by bf10dd1)
  else "WF"

def ownFields : Tree → List FInfo
  | .nil => []
  | .field f rest => f :: ownFields rest
  | .embed _ _ _ _ _ rest => ownFields rest

def topEmbeds : Tree → List (String × Tree)
  | .nil => []
  | .field _ rest => topEmbeds rest
  | .embed n _ _ _ body rest => (n, body) :: topEmbeds rest

/-- finding region F_newShadowIface (-getset): an own unexported field of T shadows a field of an embedded struct that is
    itself generated in this run (so `<E>Getter` / `<E>Setter` exist and T's accessor interfaces embed them), the two
    fields have different types and Pascal-case to the same name: `TGetter` declares `Name() A` next to the embedded
    `Name() B` -- `duplicate method` -- although shoot reports success. (The method T really has is the own one; no
    interface embedding `<E>Getter` can be satisfied by *T.) -/
def shadowIface (runTypes : List String) (t : Tree) : Bool :=
  let own := (ownFields t).filter (fun f => !f.skip && !isExportedName f.name)
  (topEmbeds t).any (fun e =>
    runTypes.contains e.1 &&
    (visibleLeaves e.2).any (fun l => !l.info.skip && !isExportedName l.info.name &&
      own.any (fun f => Transfer.pascalS f.name == Transfer.pascalS l.info.name && f.ptype != l.info.ptype)))

/-- `(c01new (flags f…) (mode m) (types (t name (generic b) (tree M…)) …))` -/
def c01newCase (id : String) (payload : List Sexp) : List String :=
  let p := Sexp.list (.atom "p" :: payload)
  let flags := match p.field? "flags" with | some (.list (_ :: fs)) => fs.filterMap Sexp.asAtom? | _ => []
  let types := match p.field? "types" with | some (.list (_ :: ts)) => ts | _ => []
  let runTypes := types.filterMap (fun ty => match ty with
    | .list (.atom "t" :: .atom n :: _) => some n
    | _ => none)
  let regs := types.map (fun ty =>
    let generic := match ty.field? "generic" with | some (.list [_, .atom "true"]) => true | _ => false
    match ty.field? "tree" with
    | some (.list (_ :: ms)) => (match parseMembers ms with
        | some t =>
          let r := c01TypeRegion flags generic t
          if r == "WF" && flags.contains "-getset" && shadowIface runTypes t then "F_newShadowIface" else r
        | none => "Out")
    | _ => "Out")
  -- `-opt -short`: option functions are package-level `Pascal(field)`; two generated types sharing a field name
  -- cannot both have them. Inherent to -short (the user chooses it per package) -> Out, not a finding
  let optNames := types.map (fun ty => match ty.field? "tree" with
    | some (.list (_ :: ms)) => (match parseMembers ms with
        | some t => (Opt.allList (flatten t)).map Transfer.pascalS
        | none => [])
    | _ => [])
  let shortClash := flags.contains "-opt" && flags.contains "-short" && !(optNames.flatten.Nodup)
  let regs := if shortClash then regs.map (fun r => if r == "WF" then "Out" else r) else regs
  let reg := match regs.find? (fun r => r.startsWith "F_") with
    | some r => r
    | none => if regs.any (· == "Out") then "Out" else "WF"
  let exp := [("exit", "0"), ("compile", "ok"), ("header", "ok"), ("gofmt", "ok"), ("package", "ok")]
  both id [] exp reg

end ShootVerif.Drive
