import ShootVerif.Drive.Common
import ShootVerif.Spec.RestCall
import ShootVerif.Model.Retry
namespace ShootVerif.Drive
open ShootVerif.RestCall

def parseShape : String → Option Shape
  | "ptr" => some .ptr | "slice" => some .slice | "map" => some .map | "none" => some .none | _ => none

def parseBody : String → Option Body
  | "empty" => some .empty | "valid" => some .valid | "malformed" => some .malformed
  | "wrongtype" => some .wrongtype | "broken" => some .broken | _ => none

def parseFault : String → Option Fault
  | "refused" => some .refused | "cancelled" => some .cancelled | "timeout" => some .timeout | _ => none

def showFault : Fault → String
  | .refused => "refused" | .cancelled => "cancelled" | .timeout => "timeout"

def showKind : Option ErrKind → String
  | none => "nil"
  | some .client => "client"
  | some .server => "server"
  | some .notSupported => "notsupported"
  | some .decode => "decode"
  | some (.transport f) => "transport:" ++ showFault f
  | some .redirect => "redirect"

def showCls : ResClass → String
  | .absent => "absent" | .zeroish => "zeroish" | .decoded => "decoded"

def showObs (o : Obs) : List (String × String) :=
  [("err", showKind o.err), ("quote", toString o.quote), ("resp", if o.resp then "same" else "nil"),
   ("result", showCls o.result)]

/-- model-only lines (tie the model tighter than the property asks): the exact result form and
    whether a not-supported message carries the status -/
def showAux (r : Ret) : List (String × String) :=
  [("rform", match r.result with | .absent => "absent" | .nil => "nil" | .zero => "zero" | .decoded => "decoded"),
   ("qstatus", match r.err with
      | some ⟨.notSupported, qs, _⟩ => toString qs
      | _ => "-")]

def regionOf (t : Transport) : String :=
  if WF t then "WF" else if F_respWithError t then "F_respWithError" else "Out"

/-- one step of a scripted base transport under RetryMiddleware: `(r <status> <body class>)` | `e` -/
def parseStep : Sexp → Option (ShootVerif.Retry.Outcome × Body)
  | .atom "e" => some (.err, .empty)
  | .list [.atom "r", st, .atom b] => do
    let s ← st.asNat?
    let b ← parseBody b
    some (.resp s, b)
  | _ => none

/-- `(rest-call (shape ptr|slice|map|none) (status n) (body empty|valid|malformed|wrongtype|broken))`
    `(rest-call (shape …) (fault refused|cancelled|timeout))`
    `(rest-call (shape …) (resperr n))`                       client.Do returned the n response AND an error
    `(rest-call (shape …) (retry n) (script (r 503 malformed) e (r 200 valid) …))`
        the client's chain contains RetryMiddleware(n, 0) (model: Retry.retry, C20) in front of a scripted
        base transport; what `client.Do` sees is the retry loop's result -/
def restCallCase (id : String) (payload : List Sexp) : List String :=
  let p := Sexp.list (.atom "p" :: payload)
  let shape := match p.field? "shape" with
    | some (.list [_, .atom s]) => parseShape s
    | _ => none
  match shape, p.field? "retry", p.field? "script" with
  | some sh, some (.list [_, nS]), some (.list (_ :: steps)) =>
    match nS.asNat?, steps.mapM parseStep with
    | some n, some sts =>
      let script : Nat → ShootVerif.Retry.Outcome := fun i => (sts.map (·.1)).getD i .err
      let (tr, ret) := ShootVerif.Retry.retry script (n : Int)
      let t : Transport := effective sts n
      let r := call sh t
      let extra := [("calls", toString (ShootVerif.Retry.calls tr)),
        ("attempt", match ret.err, ret.resp with | none, some i => toString i | _, _ => "-")]
      both id (showObs (obs r) ++ showAux r ++ extra) (showObs (spec sh t) ++ extra) (regionOf t)
    | _, _ => err id "bad-retry-script"
  | _, _, _ =>
  let tr : Option Transport :=
    match p.field? "fault", p.field? "resperr" with
    | some (.list [_, .atom f]), _ => (parseFault f).map .fault
    | _, some (.list [_, st]) => st.asInt?.map .respErr
    | _, _ =>
      match p.field? "status", p.field? "body" with
      | some (.list [_, st]), some (.list [_, .atom b]) =>
        match st.asInt?, parseBody b with
        | some s, some b => some (.resp s b)
        | _, _ => none
      | _, _ => none
  match shape, tr with
  | some sh, some t =>
    let r := call sh t
    both id (showObs (obs r) ++ showAux r) (showObs (spec sh t)) (regionOf t)
  | _, _ => err id "bad-rest-call-case"

end ShootVerif.Drive
