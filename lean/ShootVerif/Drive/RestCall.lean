import ShootVerif.Drive.Common
import ShootVerif.Spec.RestCall
namespace ShootVerif.Drive
open ShootVerif.RestCall

def parseShape : String → Option Shape
  | "ptr" => some .ptr | "slice" => some .slice | "map" => some .map | "none" => some .none | _ => none

def parseBody : String → Option Body
  | "empty" => some .empty | "valid" => some .valid | "malformed" => some .malformed
  | "wrongtype" => some .wrongtype | _ => none

def parseFault : String → Option Fault
  | "refused" => some .refused | "cancelled" => some .cancelled | "timeout" => some .timeout | _ => none

def showFault : Fault → String
  | .refused => "refused" | .cancelled => "cancelled" | .timeout => "timeout"

def showKind : Option ErrKind → String
  | none => "nil"
  | some .client => "client"
  | some .server => "server"
  | some .notSupported => "notsupported"
  | some .decode => "decode"
  | some (.transport f) => "transport:" ++ showFault f

def showCls : ResClass → String
  | .absent => "absent" | .zeroish => "zeroish" | .decoded => "decoded"

def showObs (o : Obs) : List (String × String) :=
  [("err", showKind o.err), ("quote", toString o.quote), ("resp", if o.resp then "same" else "nil"),
   ("result", showCls o.result)]

/-- model-only lines (tie the model tighter than the property asks): the exact result form and
    whether a not-supported message carries the status -/
def showAux (r : Ret) : List (String × String) :=
  [("rform", match r.result with | .absent => "absent" | .nil => "nil" | .zero => "zero" | .decoded => "decoded"),
   ("qstatus", match r.err with
      | some ⟨.notSupported, qs, _⟩ => toString qs
      | _ => "-")]

/-- `(rest-call (shape ptr|slice|map|none) (status n) (body empty|valid|malformed|wrongtype))`
    `(rest-call (shape …) (fault refused|cancelled|timeout))` -/
def restCallCase (id : String) (payload : List Sexp) : List String :=
  let p := Sexp.list (.atom "p" :: payload)
  let shape := match p.field? "shape" with
    | some (.list [_, .atom s]) => parseShape s
    | _ => none
  let tr : Option Transport :=
    match p.field? "fault" with
    | some (.list [_, .atom f]) => (parseFault f).map .fault
    | _ =>
      match p.field? "status", p.field? "body" with
      | some (.list [_, st]), some (.list [_, .atom b]) =>
        match st.asInt?, parseBody b with
        | some s, some b => some (.resp s b)
        | _, _ => none
      | _, _ => none
  match shape, tr with
  | some sh, some t =>
    let r := call sh t
    both id (showObs (obs r) ++ showAux r) (showObs (spec sh t)) (if WF t then "WF" else "Out")
  | _, _ => err id "bad-rest-call-case"

end ShootVerif.Drive
