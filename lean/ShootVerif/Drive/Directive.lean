import ShootVerif.Drive.Transfer
import ShootVerif.Model.Directive
namespace ShootVerif.Drive
open ShootVerif.Directive

/-- `(directive <hex of the doc text or raw tag>)` -/
def directiveCase (id : String) (payload : List Sexp) : List String :=
  let h := match payload with | [.atom s] => s | _ => ""
  match unhex h.toList with
  | some cs =>
    let gs := parseGetSet cs
    let gts := parseGetterSetter cs
    let lines := [("getset", s!"{gs.1} {gs.2}"), ("new", toString (parseNew cs)), ("gettersetter", s!"{gts.1} {gts.2}"),
                  ("def", match parseDef cs with | some v => hexOf v | none => "none"),
                  ("jsontag", hexOf (parseTag "json" cs)), ("newtag", hexOf (parseTag "new" cs))]
    both id lines lines
  | none => err id "bad-hex"

end ShootVerif.Drive
