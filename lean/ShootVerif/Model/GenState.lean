import ShootVerif.Model.Ctor
/-
Model of the generator driver loop `GeneratorBase.Generate` (internal/shoot/generatorbase.go:331-382)
with the long-lived generator state made explicit, per sub-command:

  new  : constructor.Generator  (internal/constructor/generator.go:21-32, MakeData 79-97, getset.go, json.go)
  map  : mapper.Generator       (internal/mapper/generator.go:31-60, MakeData 152-205, ctor.go, methods.go, match.go)
  enum : enumer.Generator, rest : restclient.Generator  (only `data`, re-created per type)

Every field of those structs is classified (see `classify` in Spec/GenState.lean, checked against the
regenerated table `Facts.genStateFields`):
  config  – written before the loop only (flags, subCmd, …)
  reset   – re-initialised by every MakeData before it is read (data, fields, getter, write-sets, …)
  derived – cache / function of the configuration and the loaded package (pkg, tmp, newShooter, …)
  carried – flows from one type to the next: `hasNew`, `getsetMethods` (new); `srcCtorParams`,
            `destCtorParams`, `getsetMethods`, `destGetSetMethods` (map); `overlay` (base, by design)

The carried fields other than `overlay` were defects (C08), repaired by the `fix:` commits 2659527 (new) and
002876f (map).  Whether each one is carried or reset is a PARAMETER of the model (`Leaks`): `codeBeforeFix`
is the code before those commits, `codeToday = noLeaks` the code at HEAD; the theorems are stated for every
value of the parameter.

The package as the analysis sees it is `hand-written files ∪ generated files on disk ∪ overlay`
(generatorbase.go:32, 206-215, 359-363).  Only one kind of fact is ever read back from generated
files: the accessor interfaces `<E>Getter` / `<E>Setter` of an embedded type (getsetiface.go:65-84),
so a generated file is represented by the interface definitions it contributes (`GFile`).
-/
namespace ShootVerif.GenState
open ShootVerif

/-! ## What is carried today -/

structure Leaks where
  hasNew : Bool     -- constructor.Generator.hasNew is not reset by MakeData
  newAcc : Bool     -- constructor.Generator.getsetMethods is only ever appended to
  mapCtor : Bool    -- mapper.Generator.srcCtorParams/destCtorParams keep the previous type's value unless the type has ShootNew
  mapAcc : Bool     -- mapper.Generator.getsetMethods/destGetSetMethods likewise
  mapTag : Bool := false  -- mapper.Generator.srcTagMap is kept and filled further instead of being re-made for every type
  deriving DecidableEq, Repr, Inhabited

def noLeaks : Leaks := { hasNew := false, newAcc := false, mapCtor := false, mapAcc := false, mapTag := false }

/-- the code before the `fix:` commits 2659527 (new) and 002876f (map): all four fields were carried -/
def codeBeforeFix : Leaks := { hasNew := true, newAcc := true, mapCtor := true, mapAcc := true, mapTag := false }

/-- the code at HEAD: `constructor.MakeData` resets `hasNew`/`getsetMethods` (2659527) and `mapper.MakeData` resets
    the constructor-parameter and accessor lists (002876f) for every type.  (A field that starts to leak again is
    caught by `C08_leaks_fixed` over the regenerated facts and by the correspondence.) -/
def codeToday : Leaks := noLeaks

/-! ## Generated files as the analysis sees them -/

/-- a generated accessor interface `type TGetter interface { EGetter; Name() string }`: the interfaces it embeds
    (by name) and the methods it declares itself -/
structure IfaceDef where
  embeds : List String := []
  methods : List String := []
  deriving DecidableEq, Repr, Inhabited

/-- a generated file in the package directory (or in the overlay): its name and the accessor interfaces
    it declares -/
structure GFile where
  name : String
  defs : List (String × IfaceDef)
  deriving DecidableEq, Repr, Inhabited

abbrev Disk := List GFile

/-- the files of the package: overlay entries replace disk files of the same name, the others are added
    (`packages.Config.Overlay`) -/
def effective (disk overlay : Disk) : Disk :=
  overlay ++ disk.filter (fun f => !overlay.any (fun o => o.name = f.name))

/-- go list hands the files over sorted by name; of two declarations of one name go/types keeps the first
    (the redeclaration is a type error, and type errors are not checked – MODEL_NOTES §0).  So an interface
    is read from the file of smallest name among those that declare it. -/
def better (iface : String) (best : Option GFile) (f : GFile) : Option GFile :=
  match f.defs.lookup iface with
  | none => best
  | some _ =>
    match best with
    | none => some f
    | some b => if f.name < b.name then some f else some b

def findDef (files : Disk) (iface : String) : Option IfaceDef :=
  (files.foldl (better iface) none).bind (fun f => f.defs.lookup iface)

/-- the method set of an interface as go/types computes it for the loaded package: own methods and those of
    the embedded interfaces, each looked up among the CURRENT files (fuel = embedding depth) -/
def methodsOf (files : Disk) : Nat → String → List String
  | 0, _ => []
  | fuel + 1, iface =>
    match findDef files iface with
    | none => []
    | some d => d.embeds.flatMap (methodsOf files fuel) ++ d.methods

/-- `FindGetterSetterIfac` + `iface.Method(i)`: none = no such interface in the package scope -/
def lookupIface (files : Disk) (iface : String) : Option (List String) :=
  (findDef files iface).map (fun _ => methodsOf files 16 iface)

/-- `overlay[path] = src` -/
def putOverlay (overlay : Disk) (f : GFile) : Disk := f :: overlay.filter (fun o => o.name ≠ f.name)

/-! ## The driver loop, generic in the sub-command -/

/-- a sub-command: `MakeData` + template as a step function over its long-lived state -/
structure Machine (σ τ ω : Type) where
  init : σ
  /-- `MakeData(typeName)` then `generateOne`: reads the package (`files`), returns the new state and
      the output (none = `data == nil`, the type is skipped) -/
  step : (files : Disk) → σ → τ → σ × Option ω
  /-- second result of MakeData (`isStale`) -/
  stale : ω → Bool
  /-- the per-type file as later loads see it: `fileName(typName)` and its interface definitions -/
  gfile : τ → ω → GFile

structure LoopSt (σ τ ω : Type) where
  st : σ
  overlay : Disk
  outs : List (τ × ω)

/-- one iteration of generatorbase.go:344-370 (`last`: `i == len(TypeNames)-1`) -/
def iter {σ τ ω : Type} (m : Machine σ τ ω) (disk : Disk) (ls : LoopSt σ τ ω) (t : τ) (last : Bool) : LoopSt σ τ ω :=
  match m.step (effective disk ls.overlay) ls.st t with
  | (s', none) => { ls with st := s' }
  | (s', some o) =>
    { st := s',
      overlay := if m.stale o && !last then putOverlay ls.overlay (m.gfile t o) else ls.overlay,
      outs := ls.outs ++ [(t, o)] }

def loop {σ τ ω : Type} (m : Machine σ τ ω) (disk : Disk) : LoopSt σ τ ω → List τ → LoopSt σ τ ω
  | ls, [] => ls
  | ls, [t] => iter m disk ls t true
  | ls, t :: t' :: ts => loop m disk (iter m disk ls t false) (t' :: ts)

/-- `Generate`: the outputs in processing order -/
def generate {σ τ ω : Type} (m : Machine σ τ ω) (disk : Disk) (ts : List τ) : List (τ × ω) :=
  (loop m disk { st := m.init, overlay := [], outs := [] } ts).outs

/-- one type generated on its own by a fresh generator (a separate process) -/
def solo {σ τ ω : Type} (m : Machine σ τ ω) (disk : Disk) (t : τ) : Option ω := (m.step disk m.init t).2

/-! ## `new` -/

structure NFlags where
  getset : Bool := false
  json : Bool := false
  opt : Bool := false          -- -opt / -option
  short : Bool := false        -- -short: option functions without the `Of<Type>` suffix
  tagcase : String := "camel"  -- -tagcase=pascal|camel|lower|upper
  deriving DecidableEq, Repr, Inhabited

/-- entry of `getsetMethods` (shoot.Func): `getter` = no parameter and one result -/
structure Acc where
  name : String
  getter : Bool
  deriving DecidableEq, Repr, Inhabited

/-- `strings.HasPrefix(s, "Set")` / `trimLeftOnce(s, "Set")` on the character list (kernel-reducible) -/
def hasSetPrefix (s : String) : Bool := ['S', 'e', 't'].isPrefixOf s.toList
def trimSet (s : String) : String := if hasSetPrefix s then String.ofList (s.toList.drop 3) else s

def Acc.isSetter (a : Acc) : Bool := !a.getter && hasSetPrefix a.name

structure NType where
  name : String
  file : String                         -- `fileName(typName)`
  tree : Ctor.Tree
  gs : List (String × Bool × Bool)      -- top-level named fields: (isGet, isSet) as parseGetSet returns them
  tdoc : Option (Bool × Bool) := none   -- `getter`/`setter` in the doc comment of the type declaration
  deriving Repr, Inhabited

/-- the long-lived fields of constructor.Generator (flags and GeneratorBase are configuration) -/
structure NSt where
  hasNew : Bool := false                -- carried (defect)
  accs : List Acc := []                 -- getsetMethods: carried (defect)
  getter : Bool := true                 -- reset
  setter : Bool := true                 -- reset
  fields : List Ctor.Field := []        -- reset
  deriving Repr, Inhabited

structure NOut where
  params : List (String × String)       -- NewT's parameter list
  getIfaces : List String               -- interfaces embedded in TGetter
  setIfaces : List String
  getList : List String                 -- own getters
  setList : List String
  json : Bool                           -- the JSON block is emitted
  jget : List String                    -- MarshalJSON reads these through getters
  jset : List String                    -- UnmarshalJSON writes these through setters
  jexp : List String
  tags : List (String × String)         -- `_json_T`: struct field ↦ json tag            (type and flags only)
  opts : List String                    -- -opt: names of the option functions            (type and flags only)
  defaults : List String                -- -opt: fields assigned by SetDefault            (type and flags only)
  ifaceGet : Option IfaceDef            -- the generated TGetter (none: not generated)
  ifaceSet : Option IfaceDef
  deriving DecidableEq, Repr, Inhabited

/-- `onceSet` of makeGetSet: the first entry of every name -/
def onceAux : List Ctor.Field → List String → List Ctor.Field
  | [], _ => []
  | f :: fs, seen => if f.name ∈ seen then onceAux fs seen else f :: onceAux fs (f.name :: seen)

def flagsOf (t : NType) (f : Ctor.Field) : Bool × Bool :=
  if f.depth = 0 ∧ !f.isEmbeded then (t.gs.lookup f.name).getD (false, false) else (false, false)

def exported (n : String) : Bool := match n.toList with
  | c :: _ => Transfer.isUpper c
  | [] => false

def switchOf (fl : NFlags) (t : NType) : Bool × Bool :=
  if fl.getset then
    match t.tdoc with
    | some (g, s) => if g = s then (true, true) else (g, s)
    | none => (true, true)
  else (true, true)

/-- names in `getsetMethods` that count as getters (`get = true`) / setters -/
def accNames (accs : List Acc) (get : Bool) : List String :=
  if get then (accs.filter (·.getter)).map (·.name) else (accs.filter (·.isSetter)).map (·.name)

/-- the accessor name makeJson looks for -/
def accKey (get : Bool) (n : String) : String := if get then Transfer.pascalS n else "Set" ++ Transfer.pascalS n

/-- `f.isGet && g.getter` / `f.isSet && g.setter` (json.go:58-63): the field-level flag gated by the type-level switch -/
def flagOf (get : Bool) (sw : Bool × Bool) (t : NType) (f : Ctor.Field) : Bool :=
  if get then (flagsOf t f).1 && sw.1 else (flagsOf t f).2 && sw.2

/-- makeJson: unexported visible fields read through a getter (`get`) / written through a setter -/
def jpick (get : Bool) (sw : Bool × Bool) (t : NType) (accs : List Acc) (unexp : List Ctor.Field) : List String :=
  (unexp.filter (fun f => flagOf get sw t f || (accNames accs get).contains (accKey get f.name))).map (·.name)

/-- makeGetSet, embedded entries: accessors of the visible `<E>Getter` / `<E>Setter` interfaces -/
def embedAccs (sw : Bool × Bool) (files : Disk) (embeds : List String) : List Acc :=
  embeds.flatMap (fun e =>
    (if sw.1 then ((lookupIface files (e ++ "Getter")).getD []).map (fun m => ({ name := m, getter := true } : Acc)) else [])
    ++ (if sw.2 then ((lookupIface files (e ++ "Setter")).getD []).map (fun m => ({ name := m, getter := false } : Acc)) else []))

def embedIfaces (on : Bool) (files : Disk) (suffix : String) (embeds : List String) : List (String × List String) :=
  if on then embeds.filterMap (fun e => (lookupIface files (e ++ suffix)).map (fun ms => (e, ms))) else []

/-- the struct types a type embeds (any depth), as makeGetSet visits them: not shadowed, once per name -/
def embedsOf (t : NType) : List String :=
  ((onceAux ((Ctor.flatten t.tree).filter (fun f => !f.isShadowed)) []).filter (·.isEmbeded)).map (·.name)

/-- the generated `type <T>Getter interface { <E>Getter…; M()… }` (none: neither embedded interfaces nor own methods) -/
def mkIface (has : Bool) (E : List (String × List String)) (sfx : String) (ms : List String) : Option IfaceDef :=
  if has then some { embeds := E.map (·.1 ++ sfx), methods := ms } else none

/-- MakeData given what the package scope says about the embedded types' accessor interfaces
    (`getE` / `setE`: embedded type ↦ methods of its Getter / Setter interface; `eaccs`: the same as `shoot.Func`s) -/
def newCore (lk : Leaks) (fl : NFlags) (st : NSt) (t : NType)
    (getE setE : List (String × List String)) (eaccs : List Acc) : NSt × Option NOut :=
  -- MakeData: `g.getter = true; g.setter = true; g.data = New…`, then parseFields
  let hasNewIn := lk.hasNew && st.hasNew
  let accsIn := if lk.newAcc then st.accs else []
  let sw := switchOf fl t
  let fields := Ctor.flatten t.tree
  let hasNew := hasNewIn || Ctor.hasNewTop t.tree
  -- makeGetSet: shadowed entries are skipped, then one entry per name
  let once := onceAux (fields.filter (fun f => !f.isShadowed)) []
  let accs := accsIn ++ eaccs
  let plain := once.filter (fun f => !f.isEmbeded)
  let getList := if sw.1 then (plain.filter (fun f => (flagsOf t f).1)).map (·.name) else []
  let setList := if sw.2 then (plain.filter (fun f => (flagsOf t f).2)).map (·.name) else []
  -- makeNew
  let params := (Ctor.gen t.tree hasNewIn).params
  -- makeJson
  let vis := fields.filter (fun f => !f.isShadowed && !f.isEmbeded)
  let unexp := vis.filter (fun f => !exported f.name)
  let jget := jpick true sw t accs unexp
  let jset := jpick false sw t accs unexp
  let jexp := (vis.filter (fun f => exported f.name)).map (·.name)
  -- json.go: `trans` by -tagcase; an explicit json tag is kept verbatim (fd6fe9d)
  let trans : String → String := if fl.tagcase = "pascal" then Transfer.pascalS else if fl.tagcase = "lower" then Transfer.lowerS
    else if fl.tagcase = "upper" then Transfer.upperS else Transfer.camelS
  let tagOf := fun (f : Ctor.Field) => if f.jsonTag ≠ "" then f.jsonTag else trans f.name
  -- 946fee5: an unshadowed embedded-struct entry also asks for the type's own JSON methods (an embedded shoot type's would be promoted)
  let needJSON := fl.json && (vis.any (fun f => exported f.name && f.jsonTag = "" && trans f.name ≠ f.name) || !jget.isEmpty || !jset.isEmpty
    || fields.any (fun f => f.isEmbeded && !f.isShadowed))
  let jsonList := vis.filter (fun f => exported f.name || jget.contains f.name || jset.contains f.name)
  let hasG := fl.getset && (!getE.isEmpty || !getList.isEmpty)
  let hasS := fl.getset && (!setE.isEmpty || !setList.isEmpty)
  let out : NOut :=
    { params := params,
      getIfaces := if fl.getset then getE.map (·.1) else [],
      setIfaces := if fl.getset then setE.map (·.1) else [],
      getList := if fl.getset then getList else [],
      setList := if fl.getset then setList else [],
      json := needJSON,
      jget := if needJSON then jget else [],
      jset := if needJSON then jset else [],
      jexp := if needJSON then jexp else [],
      tags := if needJSON then jsonList.map (fun f => (Transfer.pascalS f.name, tagOf f)) else [],
      -- constructor.tmpl, -opt: one option function per AllList entry, SetDefault over DefaultList
      opts := if fl.opt then vis.map (fun f => Transfer.pascalS f.name ++ (if fl.short then "" else "Of" ++ t.name)) else [],
      defaults := if fl.opt then (vis.filter (fun f => f.defv ≠ "")).map (·.name) else [],
      ifaceGet := mkIface hasG getE "Getter" (getList.map Transfer.pascalS),
      ifaceSet := mkIface hasS setE "Setter" (setList.map (fun n => "Set" ++ Transfer.pascalS n)) }
  ({ hasNew := hasNew, accs := accs, getter := sw.1, setter := sw.2, fields := fields }, some out)

/-- MakeData: the ONLY reads of generated files are the three look-ups below -/
def newStep (lk : Leaks) (fl : NFlags) (files : Disk) (st : NSt) (t : NType) : NSt × Option NOut :=
  newCore lk fl st t
    (embedIfaces (switchOf fl t).1 files "Getter" (embedsOf t))
    (embedIfaces (switchOf fl t).2 files "Setter" (embedsOf t))
    (embedAccs (switchOf fl t) files (embedsOf t))

def newGFile (t : NType) (o : NOut) : GFile :=
  { name := t.file,
    defs := (match o.ifaceGet with | some d => [(t.name ++ "Getter", d)] | none => [])
         ++ (match o.ifaceSet with | some d => [(t.name ++ "Setter", d)] | none => []) }

def newMachine (lk : Leaks) (fl : NFlags) : Machine NSt NType NOut :=
  { init := {}, step := newStep lk fl, stale := fun _ => fl.getset, gfile := newGFile }

/-! ## `map` (restricted to what the carried state can influence: plain exported fields of one common
type, `shoot new` types with constructor and accessors, `map:"Name"` tags on source fields; no mapper funcs, manual
methods, embeds) -/

/-- a member of `exportedFields` / `destExportedFields` after `makeCompatible` -/
structure MField where
  name : String
  backing : String := ""
  isGet : Bool := false
  isSet : Bool := false
  deriving DecidableEq, Repr, Inhabited

def MField.matching (f : MField) : String := if f.backing ≠ "" then f.backing else f.name

/-- a constructor parameter (`srcCtorParams` entry): the `Target` pointer survives in the carried list -/
structure CParam where
  name : String                 -- exported backing field, or "Set"+Pascal(backing)
  backing : String
  target : Option MField := none
  zero : Bool := false          -- `Zero` was filled in (no target at the end of some makeCtorMatch); never cleared
  deriving DecidableEq, Repr, Inhabited

structure MSide where
  fields : List String          -- exported plain fields, declaration order
  shootNew : Bool := false      -- the type has a ShootNew method
  ctor : List String := []      -- backing field of each NewT parameter ([] = no usable constructor)
  getters : List String := []   -- methods of TGetter
  setters : List String := []   -- methods of TSetter
  deriving DecidableEq, Repr, Inhabited

structure MType where
  name : String
  src : MSide
  dest : Option MSide           -- none: no such type in the destination package
  specified : Bool := true      -- `-type=` list (missing dest is fatal) vs `-file=` / `*` (skipped)
  tags : List (String × String) := []   -- `map:"X"` tags of the source struct: (field name, tag), declaration order
  deriving Repr, Inhabited

structure MSt where
  srcCtor : List CParam := []   -- carried (defect)
  destCtor : List CParam := []  -- carried (defect)
  srcAcc : List Acc := []       -- carried (defect)
  destAcc : List Acc := []      -- carried (defect)
  writeSrc : List String := []  -- reset (parseManual)
  writeDest : List String := [] -- reset
  tagMap : List (String × String) := []  -- srcTagMap: reset (parseSrcFields re-makes it for every type)
  deriving Repr, Inhabited

structure MOut where
  toCtor : Option (List String)      -- arguments of dest.NewT(…): source member per parameter ("0" = zero value)
  toWrites : List (String × String)  -- (dest member written, source member read), statement order
  fromCtor : Option (List String)
  fromWrites : List (String × String)
  deriving DecidableEq, Repr, Inhabited

def smartMatch (a b : String) : Bool :=
  a.length = b.length && (a = b || Transfer.camelS a = Transfer.camelS b)

/-- `srcTagMap` after the walk over a struct: `tagMap[ToPascalCase(field)] = ToPascalCase(tag)`, a later field of the
    same key overwrites (assoc list: newest first) -/
def tagTable (tags : List (String × String)) : List (String × String) :=
  (tags.map (fun p => (Transfer.pascalS p.1, Transfer.pascalS p.2))).reverse

/-- `canNameMatch(f1, f2, tagMap, false)`: `f1` is the SOURCE member - its matching name is replaced by its tag -/
def canNameMatch (tags : List (String × String)) (f1 f2 : MField) : Bool :=
  !(f1.isGet && f2.isGet) && !(f1.isSet && f2.isSet) &&
    smartMatch ((tags.lookup (Transfer.pascalS f1.matching)).getD f1.matching) f2.matching

def mkParams (side : MSide) : List CParam :=
  side.ctor.map (fun b => { name := if exported b then b else "Set" ++ Transfer.pascalS b, backing := b })

def mkAccs (side : MSide) : List Acc :=
  side.getters.map (fun m => { name := m, getter := true }) ++ side.setters.map (fun m => { name := m, getter := false })

/-- `compatlize` -/
def pseudo (a : Acc) : MField :=
  if a.getter then { name := a.name, backing := a.name, isGet := true }
  else { name := a.name, backing := trimSet a.name, isSet := true }

/-- `f1, f2 := f, p; if paramIsSrc { f1, f2 = p, f }` (ctor.go): the source member comes first -/
def ctorNameMatch (tags : List (String × String)) (paramIsSrc : Bool) (f : MField) (p : CParam) : Bool :=
  if paramIsSrc then canNameMatch tags { name := p.name, backing := p.backing } f
  else canNameMatch tags f { name := p.name, backing := p.backing }

/-- inner loop of `makeCtorMatch` for one field `f` over the parameters -/
def ctorInner (tags : List (String × String)) (paramIsSrc : Bool) (f : MField) : List CParam → List String → List CParam × List String
  | [], w => ([], w)
  | p :: ps, w =>
    if !f.isSet && ctorNameMatch tags paramIsSrc f p && !w.contains p.name then
      let r := ctorInner tags paramIsSrc f ps (p.name :: w)
      ({ p with target := some f } :: r.1, r.2)
    else
      let r := ctorInner tags paramIsSrc f ps w
      (p :: r.1, r.2)

def ctorMatch (tags : List (String × String)) (paramIsSrc : Bool) : List MField → List CParam → List String → List CParam × List String
  | [], ps, w => (ps, w)
  | f :: fs, ps, w => let r := ctorInner tags paramIsSrc f ps w; ctorMatch tags paramIsSrc fs r.1 r.2

/-- `makeTypeMatch`, both directions at once.  State: write-sets (keyed by member NAME, as in the code), and
    the `Target` pointer of every source / destination member (keyed by the member's position in its list;
    assoc lists, last write wins – the code overwrites the pointer) -/
structure TM where
  wDest : List String
  wSrc : List String
  tgtOfSrc : List (Nat × MField) := []   -- f1.Target (used by ToX)
  tgtOfDest : List (Nat × MField) := []  -- f2.Target (used by FromX)

def tmPair (tags : List (String × String)) (s : TM) (f1 : MField × Nat) (f2 : MField × Nat) : TM :=
  if !canNameMatch tags f1.1 f2.1 then s else
  let s1 := if !s.wDest.contains f2.1.name && !f2.1.isGet
    then { s with wDest := f2.1.name :: s.wDest, tgtOfSrc := (f1.2, f2.1) :: s.tgtOfSrc } else s
  if !s1.wSrc.contains f1.1.name && !f1.1.isGet
    then { s1 with wSrc := f1.1.name :: s1.wSrc, tgtOfDest := (f2.2, f1.1) :: s1.tgtOfDest } else s1

def typeMatch (tags : List (String × String)) (srcL destL : List MField) (s : TM) : TM :=
  srcL.zipIdx.foldl (fun s f1 => destL.zipIdx.foldl (fun s f2 => tmPair tags s f1 f2) s) s

/-- end of `makeCtorMatch`: parameters without a target get their zero literal -/
def fillZero (ps : List CParam) : List CParam := ps.map (fun p => if p.target.isNone then { p with zero := true } else p)

/-- template func `evaluate`: a member read on the right-hand side, `x.F` or `x.F()` for a getter -/
def MField.read (f : MField) : String := if f.isGet then f.name ++ "()" else f.name

/-- mapper.tmpl, ToX: `Zero` wins over the target -/
def argTo (p : CParam) : List String :=
  if p.zero then ["0"] else match p.target with
    | some f => [f.read]
    | none => []

/-- mapper.tmpl, FromX: the zero literal AND the target expression are both written -/
def argFrom (p : CParam) : List String :=
  (if p.zero then ["0"] else []) ++ (match p.target with
    | some f => [f.read]
    | none => [])

/-- parseCtors / parseMethods assign only for ShootNew types (`own`); otherwise the field keeps the previous
    type's value when it leaks, and is empty in a fresh generator -/
def pick {α : Type} (own : Bool) (fresh : List α) (leak : Bool) (carried : List α) : List α :=
  if own then fresh else if leak then carried else []

/-- what `parseSrcFields` leaves in `srcTagMap`: the type's own tags - on top of the entries of the earlier types when the map
    is not re-made (`mapTag`) -/
def tagsIn (lk : Leaks) (st : MSt) (t : MType) : List (String × String) :=
  if lk.mapTag then tagTable t.tags ++ st.tagMap else tagTable t.tags

/-- MakeData from `parseManual` on, given the four lists and the tag map -/
def mapCore (t : MType) (dest : MSide) (tags : List (String × String)) (srcCtor destCtor : List CParam) (srcAcc destAcc : List Acc) : MSt × Option MOut :=
  -- makeCompatible
  let srcL := t.src.fields.map (fun n => ({ name := n } : MField)) ++ srcAcc.map pseudo
  let destL := dest.fields.map (fun n => ({ name := n } : MField)) ++ destAcc.map pseudo
  -- makeCtorMatch (write-sets were emptied by parseManual)
  let r1 := ctorMatch tags false srcL destCtor []
  let r2 := ctorMatch tags true destL srcCtor []
  let destCtor' := fillZero r1.1
  let srcCtor' := fillZero r2.1
  let toCtor := if destCtor'.any (·.target.isSome) then some (destCtor'.flatMap argTo) else none
  let fromCtor := if srcCtor'.any (·.target.isSome) then some (srcCtor'.flatMap argFrom) else none
  -- makeTypeMatch
  let tm := typeMatch tags srcL destL { wDest := r1.2, wSrc := r2.2 }
  let toWrites := srcL.zipIdx.filterMap (fun f => (tm.tgtOfSrc.lookup f.2).map (fun d => (d.name, f.1.read)))
  let fromWrites := destL.zipIdx.filterMap (fun f => (tm.tgtOfDest.lookup f.2).map (fun s => (s.name, f.1.read)))
  ({ srcCtor := srcCtor', destCtor := destCtor', srcAcc := srcAcc, destAcc := destAcc, writeSrc := tm.wSrc, writeDest := tm.wDest,
     tagMap := tags },
   some { toCtor := toCtor, toWrites := toWrites, fromCtor := fromCtor, fromWrites := fromWrites })

def mapStep (lk : Leaks) (_files : Disk) (st : MSt) (t : MType) : MSt × Option MOut :=
  match t.dest with
  | none => (st, none)      -- `-type=` list: fatal (outside this model); otherwise the type is skipped
  | some dest =>
    mapCore t dest (tagsIn lk st t)
      (pick t.src.shootNew (mkParams t.src) lk.mapCtor st.srcCtor)
      (pick dest.shootNew (mkParams dest) lk.mapCtor st.destCtor)
      (pick t.src.shootNew (mkAccs t.src) lk.mapAcc st.srcAcc)
      (pick dest.shootNew (mkAccs dest) lk.mapAcc st.destAcc)

def mapMachine (lk : Leaks) : Machine MSt MType MOut :=
  { init := {}, step := mapStep lk, stale := fun _ => false, gfile := fun t _ => { name := t.name, defs := [] } }

/-! ## `enum`, `rest`: the generator keeps nothing but `data`, which MakeData re-creates -/

/-- the abstract per-type result is the type's own description; `none` = nothing to generate -/
structure SType where
  name : String
  body : Option String
  deriving DecidableEq, Repr, Inhabited

def simpleMachine : Machine Unit SType String :=
  { init := (), step := fun _ _ t => ((), t.body), stale := fun _ => false, gfile := fun t _ => { name := t.name, defs := [] } }

end ShootVerif.GenState
