import ShootVerif.Model.Cli
/-
Model of cmd/shoot/main.go as a phase machine (property C18):

    flags     flag.Parse; no args / unknown sub-command -> usage, os.Exit(2); g.ParseFlags()  (flag errors: exit 2,
              logx.Fatal*: exit 1)
    load      g.LoadPackage()                       (logx.Fatal*: exit 1)
    generate  srcMap := g.Generate(g)               (confirmTypes, MakeData / template / format / merge for ALL types;
                                                     logx.Fatal*: exit 1; a Go runtime panic: exit 2 + stack trace)
    write*    for fname, src := range srcMap { notedownSrc(fname, src) }   (I/O error: logx.Fatalf, exit 1)
              len(srcMap) == 0 -> warning, return (exit 0)
    clean     err := g.Clean(); err != nil -> logx.Fatal(err)   (exit 1 AFTER the writes)

What each phase does on a concrete input is an input of the machine (`Input`); `classify` gives it for the
damage classes shoot itself diagnoses. The file-system effect is recorded as a list of `FsOp`
(a file of the directory created/replaced, or deleted).
-/
namespace ShootVerif.Phases
open ShootVerif.Cli (Cmd)

inductive Exit where
  | ok | fatal | usage | panic
  deriving DecidableEq, Repr

/-- process exit status (a Go runtime panic exits with 2) -/
def Exit.code : Exit → Nat
  | .ok => 0 | .fatal => 1 | .usage => 2 | .panic => 2

inductive FsOp where
  | write (f : String)     -- notedownSrc: temp file + rename onto f
  | remove (f : String)    -- Clean: os.Remove(f)
  deriving DecidableEq, Repr

/-- how a phase that does not touch the file system ends -/
inductive Pre where
  | pass | usage | fatal | panic
  deriving DecidableEq, Repr

structure Input where
  flags : Pre := .pass
  load : Pre := .pass
  gen : Pre := .pass
  outputs : List String := []     -- keys of srcMap (read only when `gen = pass`)
  writeErr : Option Nat := none   -- the k-th notedownSrc hits an I/O error
  removes : List String := []     -- what Clean removes, in order
  cleanErr : Option Nat := none   -- Clean returns an error after that many removals
  deriving Repr

def preExit : Pre → Option Exit
  | .pass => none | .usage => some .usage | .fatal => some .fatal | .panic => some .panic

/-- the write loop: `(ops, failed)` -/
def writeAll : List String → Nat → Option Nat → List FsOp × Bool
  | [], _, _ => ([], false)
  | f :: r, k, err =>
    if err == some k then ([], true)        -- notedownSrc: logx.Fatalf before the rename
    else
      let (ops, failed) := writeAll r (k + 1) err
      (.write f :: ops, failed)

def run (i : Input) : Exit × List FsOp :=
  match preExit i.flags with
  | some e => (e, [])
  | none =>
    match preExit i.load with
    | some e => (e, [])
    | none =>
      match preExit i.gen with
      | some e => (e, [])
      | none =>
        let (ws, failed) := writeAll i.outputs 0 i.writeErr
        if failed then (.fatal, ws)
        else if i.outputs.isEmpty then (.ok, [])          -- "nothing generated", return
        else
          match i.cleanErr with
          | none => (.ok, ws ++ i.removes.map .remove)
          | some k => (.fatal, ws ++ (i.removes.take k).map .remove)   -- logx.Fatal(err) after the writes

/-! ### the damage classes shoot itself diagnoses -/

inductive Damage where
  | none
  -- flags phase, exit 2
  | noArgs | unknownSub | noSelection | unknownFlag | badFlagValue
  -- flags phase, logx.Fatal
  | fileNotGo | fileMissing | dirMissing | gormNoSql | toNoType | toMisaligned | destDirMissing
  -- load phase
  | twoPackages
  -- generate phase
  | typeMissing | wrongKind | notInFile | restResults | restAliasDup | restParseFail | exportedGetFlag | manualBadParam | manualTwice | formatFail
  -- write phase: the first output cannot be put in place without any fault injection (its name is taken by a directory,
  -- or the temp name is too long): an I/O error in the first notedownSrc
  | outputBlocked
  -- the `[dir]` path holds an unclosed `[`: Clean's filepath.Glob used to fail AFTER the writes (former finding F_glob_dir);
  -- since /repo a3d970c the path is literal and this is an ordinary successful run
  | cleanGlobBad
  deriving DecidableEq, Repr

/-- `outs`: the files the command line would write if the damage is not fatal for this sub-command;
    `stale`: files Clean removes -/
def classify (cmd : Cmd) (d : Damage) (outs : List String) (stale : List String) : Input :=
  match d with
  | .none => { outputs := outs, removes := stale }
  | .noArgs | .unknownSub | .noSelection | .unknownFlag | .badFlagValue => { flags := .usage }
  | .fileNotGo | .fileMissing | .dirMissing | .gormNoSql | .toNoType | .toMisaligned | .destDirMissing => { flags := .fatal }
  | .twoPackages => { load := .fatal }
  | .typeMissing | .wrongKind =>
    match cmd with
    | .new | .map | .rest => { gen := .fatal }
    | .enum => { outputs := outs }     -- enum skips the name with a warning and generates the others
  | .notInFile | .restResults | .restAliasDup | .restParseFail | .exportedGetFlag | .manualBadParam | .manualTwice | .formatFail => { gen := .fatal }
  | .outputBlocked => { outputs := outs, removes := stale, writeErr := some 0 }
  | .cleanGlobBad => { outputs := outs, removes := stale }

end ShootVerif.Phases
