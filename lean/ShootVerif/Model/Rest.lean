import ShootVerif.Model.Transfer
import ShootVerif.Model.RestCall
/-
Model of `shoot rest` (internal/restclient): the directive recognisers of cook.go (hand-written for
the five regular expressions, on `List Char`), the parameter classification of paramhandler.go /
cook.go:100-131, and the request assembly emitted by restclient.tmpl:14-92 as a function
`send : Plan → Args → Outcome` whose result mentions the externals symbolically
(`url.JoinPath(base, path)`, the `query_.Set` operations handed to `url.Values.Encode`,
`json.Marshal(param)`).

Quirks of the code are kept (marked Q):
 (Q1, Q2 were repaired in /repo — 230b9e4: the request constructor is chosen per method,
    `{{if index $.CtxParamMap .}}`; de8bb02: a body verb without a struct parameter sends no body,
    `{{if and $p (in $httpmethod $.BodyHTTPMethods)}}` — and the model follows the fixed code.)
 Q3 a pointer-to-struct parameter of a query verb is dereferenced unguarded (`req.Name`);
 Q5 `for k, v := range m` over a `*map[…]…` parameter does not compile;
 (Q4, Q6, Q7, Q9, Q10 were repaired in /repo — 0b978c0: two or more placeholders are replaced by one
    `strings.NewReplacer(…).Replace`; 9050c53: every map parameter is ranged over; d8a8443: a qualified
    non-struct type is a scalar; 05e7f66: a struct is recognised through go/types wherever it is declared;
    98e0bbb: the kv pattern uses `\s*` around the colon — and the model follows.)
 (Q8 — `reversMap` filled from a Go map, two parameters with the same alias ⇒ map order — was repaired by
    62d8144: such a directive is now a Fatal, and the model follows.)
-/
namespace ShootVerif.Rest

/-! ## characters (RE2 classes are ASCII) -/

def isWord (c : Char) : Bool :=
  ('a' ≤ c && c ≤ 'z') || ('A' ≤ c && c ≤ 'Z') || ('0' ≤ c && c ≤ '9') || c == '_'

/-- `strings.TrimSpace` / `\s` on ASCII -/
def isSpace (c : Char) : Bool :=
  c == ' ' || c == '\t' || c == '\n' || c == '\r' || c == '\x0b' || c == '\x0c'

def lowerC (c : Char) : Char := Transfer.toLower c
def upperC (c : Char) : Char := Transfer.toUpper c

/-- `strings.TrimSpace` -/
def trimSpace (s : List Char) : List Char :=
  ((s.dropWhile isSpace).reverse.dropWhile isSpace).reverse

/-- `strings.Trim(s, "\"")` -/
def trimQuotes (s : List Char) : List Char :=
  ((s.dropWhile (· == '"')).reverse.dropWhile (· == '"')).reverse

/-- the doc text cut at '\n' (the patterns are anchored with `(?m)^`; `.` never crosses a newline) -/
def splitLines : List Char → List (List Char)
  | [] => [[]]
  | c :: cs =>
    match splitLines cs with
    | [] => [[]]
    | l :: ls => if c == '\n' then [] :: l :: ls else (c :: l) :: ls

/-- `pre` is a prefix of `s` (exact): the remainder -/
def stripPrefix : (pre s : List Char) → Option (List Char)
  | [], s => some s
  | _ :: _, [] => none
  | p :: ps, c :: cs => if p == c then stripPrefix ps cs else none

/-- case-insensitive prefix (`(?i)`), `pre` given in lower case -/
def stripPrefixCI : (pre s : List Char) → Option (List Char)
  | [], s => some s
  | _ :: _, [] => none
  | p :: ps, c :: cs => if p == lowerC c then stripPrefixCI ps cs else none

/-! ## parsePath: `(?im)^shoot:\W+(get|post|put|patch|delete)\((.*)\)\W*;?\W*$` -/

inductive Verb where
  | get | post | put | patch | delete
  deriving Repr, DecidableEq, Inhabited

def Verb.upper : Verb → String
  | .get => "GET" | .post => "POST" | .put => "PUT" | .patch => "PATCH" | .delete => "DELETE"

def Verb.lowerChars : Verb → List Char
  | .get => "get".toList | .post => "post".toList | .put => "put".toList
  | .patch => "patch".toList | .delete => "delete".toList

/-- BodyHTTPMethods -/
def Verb.hasBody : Verb → Bool
  | .post | .put | .patch => true
  | _ => false

def isAlpha (c : Char) : Bool := ('a' ≤ c && c ≤ 'z') || ('A' ≤ c && c ≤ 'Z')

def verbOfLower (w : List Char) : Option Verb :=
  if w = Verb.get.lowerChars then some .get
  else if w = Verb.post.lowerChars then some .post
  else if w = Verb.put.lowerChars then some .put
  else if w = Verb.patch.lowerChars then some .patch
  else if w = Verb.delete.lowerChars then some .delete
  else none

/-- the alternation `(get|post|put|patch|delete)` followed by `\(`: since `(` is not a letter, an
    alternative matches exactly when the whole run of letters is that verb (case-insensitively) -/
def matchVerb (s : List Char) : Option (Verb × List Char) :=
  match verbOfLower ((s.takeWhile isAlpha).map lowerC), s.dropWhile isAlpha with
  | some v, '(' :: rest => some (v, rest)
  | _, _ => none

/-- `(.*)\)\W*;?\W*$` inside one line: the greedy `.*` ends at the LAST `)` of the line and
    everything after it must be non-word characters -/
def lastParen (r : List Char) : Option (List Char) :=
  match r.reverse.dropWhile (fun c => !isWord c && c != ')') with
  | ')' :: revContent => some revContent.reverse
  | _ => none

def shootColon : List Char := ['s', 'h', 'o', 'o', 't', ':']

/-- the request pattern tried at one line start `r` (= the rest of the doc text from there): verb
    and raw group 2. `\W+` may run over line ends; `(.*)` stays in the verb's line. -/
def matchReqAt (r : List Char) : Option (Verb × List Char) :=
  match stripPrefixCI shootColon r with
  | none => none
  | some r1 =>
    -- `\W+`: at least one non-word character, then the verb starts with a word character
    if (r1.takeWhile (fun c => !isWord c)).isEmpty then none
    else
      match matchVerb (r1.dropWhile (fun c => !isWord c)) with
      | none => none
      | some (v, r3) => (lastParen (r3.takeWhile (· != '\n'))).map (fun c => (v, c))

/-- `(?m)^`: the first line start (start of text or just after a newline) at which `f` matches -/
def firstAtLineStart {α : Type} (f : List Char → Option α) : Bool → List Char → Option α
  | atStart, [] => if atStart then f [] else none
  | atStart, c :: cs =>
    match (if atStart then f (c :: cs) else none) with
    | some x => some x
    | none => firstAtLineStart f (c == '\n') cs

/-- `^("[^"]+"|[^"]+)$` -/
def pathFormatOk (p : List Char) : Bool :=
  match p with
  | [] => false
  | '"' :: rest =>
    match rest.reverse with
    | '"' :: inner => !inner.isEmpty && !inner.contains '"'
    | _ => false
  | _ => !p.contains '"'

/-! ### placeholders: all matches of `{(\w+)}`; the same scanner also cuts the path into tokens -/

inductive Tok where
  | lit (c : Char)
  | ph (name : List Char)
  deriving Repr, DecidableEq, Inhabited

/-- pending text of an attempt that started at a `{`: the word characters read so far (reversed) -/
abbrev Pending := Option (List Char)

def flushPending : Pending → List Tok
  | none => []
  | some acc => Tok.lit '{' :: acc.reverse.map Tok.lit

/-- one left-to-right pass = leftmost, non-overlapping matching of `{\w+}`: an attempt can only
    fail on a non-word character, and everything it had consumed is `{` + word characters, none of
    which can start another match -/
def scanToks : List Char → Pending → List Tok
  | [], pend => flushPending pend
  | c :: cs, none => if c == '{' then scanToks cs (some []) else Tok.lit c :: scanToks cs none
  | c :: cs, some acc =>
    if isWord c then scanToks cs (some (c :: acc))
    else if c == '}' && !acc.isEmpty then Tok.ph acc.reverse :: scanToks cs none
    else if c == '{' then flushPending (some acc) ++ scanToks cs (some [])
    else flushPending (some acc) ++ (Tok.lit c :: scanToks cs none)

def tokenize (p : List Char) : List Tok := scanToks p none

def placeholders (p : List Char) : List (List Char) :=
  (tokenize p).filterMap (fun t => match t with | .ph n => some n | _ => none)

def Tok.render : Tok → List Char
  | .lit c => [c]
  | .ph n => '{' :: (n ++ ['}'])

def renderToks (ts : List Tok) : List Char := (ts.map Tok.render).flatten

structure PathDir where
  verb : Verb
  path : List Char
  params : List (List Char)
  deriving Repr, DecidableEq

inductive PathRes where
  | noMatch                 -- "method … with bad comments will be ignored"
  | fatal                   -- logx.Fatalf("bad path format")
  | ok (d : PathDir)
  deriving Repr, DecidableEq

def firstSome {α β : Type} (f : α → Option β) : List α → Option β
  | [] => none
  | x :: xs => match f x with | some y => some y | none => firstSome f xs

def parsePath (doc : List Char) : PathRes :=
  match firstAtLineStart matchReqAt true doc with
  | none => .noMatch
  | some (v, raw) =>
    let p := trimSpace raw
    if pathFormatOk p then
      let p' := trimQuotes p
      .ok ⟨v, p', placeholders p'⟩
    else .fatal

/-! ## parseKV: all matches of `{([\w|-]+)\s*:\s*([^}]+)}` (`\s` = `[\t\n\f\r ]`)

Exact leftmost-first semantics. At a `{`: the key is the maximal run of `[\w|-]` (a shorter key never
helps: what it gives back are key characters, which `\s*` cannot take). Then all blanks, a `:`, and —
with `S` the maximal run of blanks after it — the second `\s*` takes a prefix of `S`, the longest being
tried first; the value is everything up to the next `}`, which must exist and leave the value
non-empty. -/

def isKeyChar (c : Char) : Bool := isWord c || c == '|' || c == '-'

def isReSpace (c : Char) : Bool := c == ' ' || c == '\t' || c == '\n' || c == '\r' || c == '\x0c'

/-- `([^}]+)}` at the start of `t`: value and remainder -/
def kvValueAt (t : List Char) : Option (List Char × List Char) :=
  match t.dropWhile (· != '}') with
  | '}' :: rest => if (t.takeWhile (· != '}')).isEmpty then none else some (t.takeWhile (· != '}'), rest)
  | _ => none

/-- second `\s*` then the value: `n2Rev` = the part of the blank run still skipped (reversed),
    `given` = what has been given back to the value so far -/
def kvAfterColon : (n2Rev given rest : List Char) → Option (List Char × List Char)
  | n2Rev, given, rest =>
    match kvValueAt (given ++ rest) with
    | some r => some r
    | none =>
      match n2Rev with
      | [] => none
      | c :: more => kvAfterColon more (c :: given) rest

/-- one attempt right after a `{`: key, value and the rest after the closing `}` -/
def matchKV (s : List Char) : Option (List Char × List Char × List Char) :=
  let key := s.takeWhile isKeyChar
  if key.isEmpty then none
  else
    match (s.dropWhile isKeyChar).dropWhile isReSpace with
    | ':' :: r =>
      match kvAfterColon (r.takeWhile isReSpace).reverse [] (r.dropWhile isReSpace) with
      | some (v, rest) => some (key, v, rest)
      | none => none
    | _ => none

def parseKVAux : Nat → List Char → List (List Char × List Char)
  | 0, _ => []
  | _, [] => []
  | fuel + 1, c :: cs =>
    if c == '{' then
      match matchKV cs with
      | some (k, v, rest) => (k, v) :: parseKVAux fuel rest
      | none => parseKVAux fuel cs
    else parseKVAux fuel cs

/-- matches in order of appearance (the code stores them in a Go map: later same key wins) -/
def parseKV (s : List Char) : List (List Char × List Char) := parseKVAux (s.length + 1) s

/-! ## parseAlias: `(?m)^shoot:.*?\Walias=([^;\n]+)(;.*|\s*)$` (case-sensitive) -/

def aliasEq : List Char := ['a', 'l', 'i', 'a', 's', '=']
def headersEq : List Char := ['h', 'e', 'a', 'd', 'e', 'r', 's', '=']

/-- `.*?\Walias=([^;\n]+)`: the first non-word character (the `\W` may be a newline, the `.*?` before it
    may not contain one) followed by `alias=` and a non-empty group; the tail `(;.*|\s*)$` then always matches -/
def findAliasArg : List Char → Option (List Char)
  | [] => none
  | c :: cs =>
    let here :=
      if !isWord c then
        match stripPrefix aliasEq cs with
        | some r =>
          let g := r.takeWhile (fun c => c != ';' && c != '\n')
          if g.isEmpty then none else some g
        | none => none
      else none
    match here with
    | some g => some g
    | none => if c == '\n' then none else findAliasArg cs

def matchAliasAt (r : List Char) : Option (List Char) :=
  match stripPrefix shootColon r with
  | none => none
  | some r1 => findAliasArg r1

/-- param ↦ alias, in order of appearance; `none` = no alias directive (nil map) -/
def parseAlias (doc : List Char) : Option (List (List Char × List Char)) :=
  (firstAtLineStart matchAliasAt true doc).map parseKV

/-! ## parseHeaders: `shoot:.*?\Wheaders=((?:\s*{[^\n]+},?)+)` (not anchored, `\s` = `[\t\n\f\r ]`) -/

/-- one round `\s*{[^\n]+},?` at the start of `t`: the greedy `[^\n]+` ends at the LAST `}` of the line
    (with at least one character before it). Result: the text consumed and the remainder -/
def hdrIter (t : List Char) : Option (List Char × List Char) :=
  match t.dropWhile isReSpace with
  | '{' :: body =>
    let line := body.takeWhile (· != '\n')
    match line.reverse.dropWhile (· != '}') with
    | '}' :: revInner =>
      if revInner.isEmpty then none
      else
        let inner := revInner.reverse
        let used := t.takeWhile isReSpace ++ ('{' :: (inner ++ ['}']))
        match body.drop (inner.length + 1) with
        | ',' :: rest => some (used ++ [','], rest)
        | rest => some (used, rest)
    | _ => none
  | _ => none

/-- further rounds, as many as match -/
def hdrMore : Nat → List Char → List Char
  | 0, _ => []
  | fuel + 1, t =>
    match hdrIter t with
    | some (used, rest) => used ++ hdrMore fuel rest
    | none => []

/-- group 1 at the text right after `headers=` -/
def hdrGroup (t : List Char) : Option (List Char) :=
  match hdrIter t with
  | some (used, rest) => some (used ++ hdrMore rest.length rest)
  | none => none

/-- after a `shoot:`: the first `\Wheaders=` (in the same line; the `\W` itself may be the newline) whose group matches -/
def findHeadersArg : List Char → Option (List Char)
  | [] => none
  | c :: cs =>
    let here :=
      if !isWord c then
        match stripPrefix headersEq cs with
        | some r => hdrGroup r
        | none => none
      else none
    match here with
    | some g => some g
    | none => if c == '\n' then none else findHeadersArg cs

/-- the leftmost `shoot:` from which the pattern matches -/
def findShootHeaders : List Char → Option (List Char)
  | [] => none
  | c :: cs =>
    match (match stripPrefix shootColon (c :: cs) with
      | some r => findHeadersArg r
      | none => none) with
    | some g => some g
    | none => findShootHeaders cs

def parseHeaders (doc : List Char) : List (List Char × List Char) :=
  match findShootHeaders doc with
  | none => []
  | some g => parseKV g

/-! ## parseFieldAlias: `alias=(\w+)` on the value of the `shoot` struct tag -/

def findFieldAlias : List Char → Option (List Char)
  | [] => none
  | c :: cs =>
    match stripPrefix aliasEq (c :: cs) with
    | some r =>
      let w := r.takeWhile isWord
      if w.isEmpty then findFieldAlias cs else some w
    | none => findFieldAlias cs

/-- "" when there is no alias -/
def parseFieldAlias (shootTag : List Char) : List Char := (findFieldAlias shootTag).getD []

/-! ## association lists with Go-map update semantics -/

/-- `m[k] = v`: replace in place, else append -/
def setKV {κ α : Type} [DecidableEq κ] (m : List (κ × α)) (k : κ) (v : α) : List (κ × α) :=
  match m with
  | [] => [(k, v)]
  | (k', v') :: rest => if k' = k then (k, v) :: rest else (k', v') :: setKV rest k v

def setAll {κ α : Type} [DecidableEq κ] (m : List (κ × α)) (kvs : List (κ × α)) : List (κ × α) :=
  kvs.foldl (fun m kv => setKV m kv.1 kv.2) m

def getKV {κ α : Type} [DecidableEq κ] (m : List (κ × α)) (k : κ) : Option α :=
  match m with
  | [] => none
  | (k', v) :: rest => if k' = k then some v else getKV rest k

/-! ## the interface as go/ast + go/types present it -/

structure Field where
  name : String
  exported : Bool
  ptr : Bool            -- `*T` field
  shootTag : String     -- value of the `shoot:"…"` struct tag ("" if none)
  deriving Repr, DecidableEq, Inhabited

/-- how handleExpr sees a parameter type after stripping `*` -/
inductive PKind where
  | ctx                               -- selector, named context.Context
  | scalar                            -- identifier that is not a struct declared in the same file
  | struct (fields : List Field)      -- a named struct type (of this package, any file, or qualified)
  | qualOther                         -- qualified named non-struct type (time.Duration): an ordinary scalar
  | dict                              -- map type
  | unsupported                       -- slice, func, array, …: Fatal
  deriving Repr, DecidableEq, Inhabited

structure Param where
  name : String
  kind : PKind
  ptr : Bool                          -- the parameter type is `*T`
  deriving Repr, DecidableEq, Inhabited

structure Method where
  name : String
  doc : List Char                     -- field.Doc.Text()
  params : List Param
  deriving Repr, DecidableEq, Inhabited

structure Iface where
  headersDoc : List Char              -- doc text of the embedded `shoot.RestClient[T]` ("" if none)
  methods : List Method
  deriving Repr, DecidableEq, Inhabited

/-! ## cookClient + handleExpr -/

/-- a Go expression the template reads a query value from -/
inductive Expr where
  | param (p : String)                          -- `p`
  | field (p f : String) (getter : Bool)        -- `p.F` / `p.Pascal()`
  deriving Repr, DecidableEq, Inhabited

/-- the text used as the key of AliasMap / IsParamPtrMap. It is injective (identifiers contain no
    `.` or `(`), so the model keys those maps by the expression itself. -/
def Expr.text : Expr → String
  | .param p => p
  | .field p f false => p ++ "." ++ f
  | .field p f true => p ++ "." ++ Transfer.pascalS f ++ "()"

inductive CookErr where
  | ambiguousBody       -- "ambiguous body binding of method"
  | unsupportedParam    -- "unsupported param type"
  deriving Repr, DecidableEq

/-- the per-method slices of TmplData that handleExpr fills -/
structure Cooked where
  query : List Expr := []                      -- QueryParamsMap[m]
  aliasMap : List (Expr × String)              -- AliasMap[m] (starts as the directive's map)
  isPtr : List (Expr × Bool) := []             -- IsParamPtrMap[m]
  body : Option String := none                 -- BodyParamMap[m]
  dict : List String := []                     -- QueryDictMap[m]
  ctx : Option String := none                  -- CtxParamMap[m]
  deriving Repr, DecidableEq

/-- key / value of one struct field (handleStruct) -/
def fieldExpr (p : String) (f : Field) : Expr := .field p f.name (!f.exported)

def fieldKey (f : Field) : String :=
  let a := parseFieldAlias f.shootTag.toList
  if !a.isEmpty then String.ofList a
  else if f.exported then Transfer.camelS f.name else f.name

def handleStruct (st : Cooked) (p : String) (fields : List Field) : Cooked :=
  fields.foldl (fun st f =>
    let e := fieldExpr p f
    { st with
      isPtr := if f.ptr then setKV st.isPtr e true else st.isPtr
      query := st.query ++ [e]
      aliasMap := setKV st.aliasMap e (fieldKey f) }) st

def setBody (st : Cooked) (p : String) : Except CookErr Cooked :=
  match st.body with
  | some _ => .error .ambiguousBody
  | none => .ok { st with body := some p }

/-- handleExpr for one parameter, then `IsParamPtrMap[m][name] = true` for a `*T` parameter -/
def handleParam (verb : Verb) (pathParams : List String) (st : Cooked) (p : Param) : Except CookErr Cooked := do
  let st ← match p.kind with
    | .ctx => pure { st with ctx := some p.name }
    | .scalar | .qualOther =>
      pure (if pathParams.contains p.name then st else { st with query := st.query ++ [.param p.name] })
    | .struct fs => do
      let st ← setBody st p.name
      pure (handleStruct st p.name fs)
    | .dict => pure (if verb.hasBody then st else { st with dict := st.dict ++ [p.name] })
    | .unsupported => throw .unsupportedParam
  pure (if p.ptr then { st with isPtr := setKV st.isPtr (.param p.name) true } else st)

def cookParams (verb : Verb) (pathParams : List String) (st : Cooked) : List Param → Except CookErr Cooked
  | [] => pure st
  | p :: ps => do
    let st ← handleParam verb pathParams st p
    cookParams verb pathParams st ps

def strKVs (kvs : List (List Char × List Char)) : List (String × String) :=
  kvs.map (fun kv => (String.ofList kv.1, String.ofList kv.2))

/-- the directive's alias list as the Go map it is stored in -/
def aliasMapOf (doc : List Char) : List (String × String) :=
  match parseAlias doc with
  | none => []
  | some kvs => setAll [] (strKVs kvs)

/-- `reversMap[v] = k` for every pair (a value met twice is a Fatal, see `cookParsed`) -/
def reverseOf (m : List (String × String)) : List (String × String) :=
  setAll [] (m.map (fun kv => (kv.2, kv.1)))

/-- one `strings.Replace(path_, "{key}", fmt.Sprintf("%v", param), 1)` line -/
structure PathSub where
  key : String
  param : String
  deriving Repr, DecidableEq

/-- one emitted query statement: `[if e != nil] query_.Set(key, %v [*]e)` -/
structure QueryOp where
  expr : Expr
  key : String
  guarded : Bool
  deriving Repr, DecidableEq

/-- how the request is created -/
inductive CtxMode where
  | background                 -- http.NewRequest
  | param (p : String)         -- http.NewRequestWithContext(p, …)
  deriving Repr, DecidableEq

/-- everything the template needs for one method -/
structure Plan where
  name : String
  verb : Verb
  path : List Char
  subs : List PathSub
  queryOps : List QueryOp
  dict : List String
  dictIsPtr : Bool
  body : Option String
  ctx : CtxMode
  headers : List (String × String)
  deriving Repr, DecidableEq

/-- the per-verb DefaultHeaders table of cookClient -/
def defaultHeaders : Verb → List (String × String)
  | .get => [("Accept", "application/json")]
  | .delete => []
  | _ => [("Accept", "application/json"), ("Content-Type", "application/json")]

/-- interface-level headers are written into every verb's map -/
def headersFor (ifaceHeaders : List (String × String)) (v : Verb) : List (String × String) :=
  setAll (defaultHeaders v) ifaceHeaders

inductive MethodRes where
  | skipped                    -- no / bad directive: warning, method not generated
  | fatal                      -- logx.Fatalf: exit 1
  | ok (c : Cooked) (d : PathDir) (subs : List PathSub)
  deriving Repr, DecidableEq

/-- placeholder names ↦ parameter names through `reversMap` -/
def realParams (asMap : List (String × String)) (names : List (List Char)) : List String :=
  let rev := reverseOf asMap
  names.map (fun n => let n := String.ofList n; (getKV rev n).getD n)

/-- template lines 24-31: `$key := .`, `$alias := index AliasMap .`, `if $alias { $key = $alias }` -/
def subsOf (aliasMap : List (Expr × String)) (real : List String) : List PathSub :=
  real.map (fun p =>
    match getKV aliasMap (.param p) with
    | some a => if a.isEmpty then ⟨p, p⟩ else ⟨a, p⟩
    | none => ⟨p, p⟩)

/-- cookClient for one method once its two directives are parsed -/
def cookParsed (d : PathDir) (asMap : List (String × String)) (params : List Param) : MethodRes :=
  -- "<method>: parameters a and b have the same alias x" (62d8144)
  if !decide ((asMap.map (·.2)).Nodup) then .fatal else
  let real := realParams asMap d.params
  match cookParams d.verb real { aliasMap := asMap.map (fun kv => (Expr.param kv.1, kv.2)) } params with
  | .error _ => .fatal
  | .ok c => .ok c d (subsOf c.aliasMap real)

def cookMethod (m : Method) : MethodRes :=
  match parsePath m.doc with
  | .noMatch => .skipped
  | .fatal => .fatal
  | .ok d => cookParsed d (aliasMapOf m.doc) m.params

def queryOpsOf (c : Cooked) : List QueryOp :=
  c.query.map (fun e =>
    let key := match getKV c.aliasMap e with
      | some a => if a.isEmpty then e.text else a
      | none => e.text
    ⟨e, key, (getKV c.isPtr e).getD false⟩)

inductive GenRes where
  | fatal                              -- a Fatalf: exit 1, nothing written
  | ok (plans : List Plan) (compiles : Bool)
  deriving Repr, DecidableEq

def collect : List MethodRes → Option (List (Cooked × PathDir × List PathSub))
  | [] => some []
  | .fatal :: _ => none
  | .skipped :: rest => collect rest
  | .ok c d s :: rest => (collect rest).map ((c, d, s) :: ·)

/-- the template's view of one cooked method (`{{if index $.CtxParamMap .}}`: per method) -/
def planOf (hs : List (String × String)) (name : String)
    (c : Cooked) (d : PathDir) (subs : List PathSub) : Plan :=
  let ctx := match c.ctx with
    | some p => CtxMode.param p
    | none => CtxMode.background
  let dictPtr := c.dict.any (fun p => (getKV c.isPtr (.param p)).getD false)
  ⟨name, d.verb, d.path, subs, if d.verb.hasBody then [] else queryOpsOf c,
    if d.verb.hasBody then [] else c.dict, dictPtr, c.body, ctx, headersFor hs d.verb⟩

def cookedOk (m : Method) : Bool := match cookMethod m with | .ok .. => true | _ => false

/-- cookClient + template once the interface-level headers are known: every method is cooked from its own doc comment -/
def generateH (hs : List (String × String)) (ms : List Method) : GenRes :=
  match collect (ms.map cookMethod) with
  | none => .fatal
  | some cooked =>
    let names := (ms.filter cookedOk).map (·.name)
    let plans := (cooked.zip names).map (fun (x, name) => planOf hs name x.1 x.2.1 x.2.2)
    -- Q5: range over a pointer to a map; a skipped method leaves the interface unimplemented
    let bad := plans.any (fun p => !p.dict.isEmpty && p.dictIsPtr)
    .ok plans (!bad && plans.length == ms.length)

/-- the whole generator on one interface -/
def generate (i : Iface) : GenRes :=
  generateH (setAll [] (strKVs (parseHeaders i.headersDoc))) i.methods

/-! ## the interface as go/ast presents it (`iface.Methods.List`) and the glue of cookClient around the methods

cook.go:63-176 walks the entries of the interface type in declaration order: an entry without names is an embedded
interface (shoot.RestClient[T] — or any other): if it has a doc comment, the pairs of its `headers=` directive are written
into the header table of every verb; an entry with a name is a method: without a doc comment, or with one in which no
request directive is found, it is skipped with a warning; else its parameters are walked group by group and name by
name (`for _, param := range ftype.Params.List { for _, name := range param.Names {…} }`: a group `a, b T` is two
parameters, an unnamed parameter is none) and its result list is checked (cook.go:136-171). The template reads the
header tables only after the whole walk. -/

/-- one entry of a parameter list: `a, b T` -/
structure ParamGroup where
  names : List String      -- [] = an unnamed parameter
  kind : PKind
  ptr : Bool
  deriving Repr, DecidableEq, Inhabited

/-- a result type as the checks of cook.go:148-170 see it -/
inductive ResType where
  | star | slice | map      -- `*T`, `[]T`, `map[K]V`
  | httpResp                -- prints as `*http.Response`
  | error                   -- prints as `error`
  | other                   -- anything else (`T`, `chan T`, …)
  deriving Repr, DecidableEq, Inhabited

/-- one entry of a result list: `(a, b T)` has two names, `T` none -/
structure ResGroup where
  nnames : Nat
  ty : ResType
  deriving Repr, DecidableEq, Inhabited

inductive Entry where
  | embed (doc : Option (List Char))
  | method (name : String) (doc : Option (List Char)) (params : List ParamGroup) (results : List ResGroup)
  deriving Repr, DecidableEq, Inhabited

def flattenParams (gs : List ParamGroup) : List Param :=
  gs.flatMap (fun g => g.names.map (fun n => ⟨n, g.kind, g.ptr⟩))

/-- cook.go:136-171: `n := len(Results.List)` (entries, not values); 2 ≤ n ≤ 3; the second to last prints as
    `*http.Response`, the last as `error`; with three the first has no name and is `*T` (IsPtr), `[]T` or `map[K]V`.
    `none` = one of the Fatalf calls -/
def resultShape : List ResGroup → Option RestCall.Shape
  | [r1, r2] => if r1.ty = .httpResp ∧ r2.ty = .error then some .none else none
  | [r0, r1, r2] =>
    if r1.ty = .httpResp ∧ r2.ty = .error ∧ r0.nnames = 0 then
      match r0.ty with
      | .star | .httpResp => some .ptr
      | .slice => some .slice
      | .map => some .map
      | _ => none
    else none
  | _ => none

/-- the header pairs written into the per-verb tables, in the order the embedded entries are met -/
def astHeaders (es : List Entry) : List (String × String) :=
  es.flatMap (fun e => match e with
    | .embed (some d) => strKVs (parseHeaders d)
    | _ => [])

/-- the methods as handleExpr sees them (a missing doc comment reads as the empty text: no directive) -/
def astMethods (es : List Entry) : List Method :=
  es.filterMap (fun e => match e with
    | .method name doc ps _ => some ⟨name, doc.getD [], flattenParams ps⟩
    | .embed _ => none)

/-- a method whose directives were read and whose parameters were cooked but whose result list is rejected -/
def badResults (es : List Entry) : Bool :=
  es.any (fun e => match e with
    | .method name (some d) ps rs => cookedOk ⟨name, d, flattenParams ps⟩ && (resultShape rs).isNone
    | _ => false)

/-- the result shape of every generated method, in order -/
def astShapes (es : List Entry) : List (String × RestCall.Shape) :=
  es.filterMap (fun e => match e with
    | .method name (some d) ps rs =>
      if cookedOk ⟨name, d, flattenParams ps⟩ then (resultShape rs).map (fun s => (name, s)) else none
    | _ => none)

/-- cookClient + template on the entries of the interface type -/
def generateAst (es : List Entry) : GenRes :=
  match generateH (setAll [] (astHeaders es)) (astMethods es) with
  | .fatal => .fatal
  | .ok plans b => if badResults es then .fatal else .ok plans b

/-! ## the emitted method body up to `c.client.Do(req_)` -/

/-- a value as `fmt.Sprintf("%v", ·)` prints it, or a nil pointer -/
inductive Val where
  | txt (s : List Char)
  | nilPtr
  deriving Repr, DecidableEq, Inhabited

inductive Arg where
  | scalar (v : Val)                                         -- scalar or pointer to scalar
  | struct (isNil : Bool) (fields : List (String × Val))     -- struct / pointer to struct (isNil: nil pointer)
  | dict (entries : List (String × List Char))               -- map[string]T, any order (keys unique)
  | ctx (tag : String)
  deriving Repr, DecidableEq, Inhabited

abbrev Args := List (String × Arg)

/-- evaluating a query expression: `none` = nil pointer dereference (panic).
    (An argument of the wrong kind cannot be passed in Go; the model treats it like a nil pointer.) -/
def evalExpr (args : Args) : Expr → Option Val
  | .param p =>
    match getKV args p with
    | some (.scalar v) => some v
    | _ => some .nilPtr
  | .field p f _ =>
    match getKV args p with
    | some (.struct true _) => none                                   -- Q3
    | some (.struct false fs) => some ((getKV fs f).getD .nilPtr)
    | _ => some .nilPtr

/-- `strings.Replace(s, old, new, 1)` for a non-empty `old` -/
def replaceFirst (old new : List Char) : List Char → List Char
  | [] => []
  | c :: cs =>
    match stripPrefix old (c :: cs) with
    | some rest => new ++ rest
    | none => c :: replaceFirst old new cs

def argText (args : Args) (p : String) : List Char :=
  match getKV args p with
  | some (.scalar (.txt s)) => s
  | _ => []

/-- `strings.NewReplacer(old₁, new₁, …).Replace(s)`: one pass; at each position the first pair (in
    argument order) whose `old` is a prefix is replaced and the scan continues behind it; no re-scan -/
def replaceAllAux (pairs : List (List Char × List Char)) : Nat → List Char → List Char
  | 0, s => s
  | _, [] => []
  | fuel + 1, c :: cs =>
    match firstSome (fun (kv : List Char × List Char) => (stripPrefix kv.1 (c :: cs)).map (fun rest => (kv.2, rest))) pairs with
    | some (new, rest) => new ++ replaceAllAux pairs fuel rest
    | none => c :: replaceAllAux pairs fuel cs

def replaceAll (pairs : List (List Char × List Char)) (s : List Char) : List Char :=
  replaceAllAux pairs (s.length + 1) s

def subPair (args : Args) (s : PathSub) : List Char × List Char :=
  ('{' :: (s.key.toList ++ ['}']), argText args s.param)

/-- template lines 23-40: two or more placeholders: one `strings.NewReplacer(…).Replace(path_)`;
    one: `strings.Replace(path_, "{k}", v, 1)` -/
def substPath (args : Args) (path : List Char) (subs : List PathSub) : List Char :=
  if subs.length > 1 then replaceAll (subs.map (subPair args)) path
  else subs.foldl (fun path s => replaceFirst (subPair args s).1 (subPair args s).2 path) path

/-- the `query_.Set` statements that execute, in order; `none` = panic -/
def runQueryOps (args : Args) : List QueryOp → Option (List (String × List Char))
  | [] => some []
  | op :: rest =>
    match evalExpr args op.expr with
    | none => none
    | some v =>
      match runQueryOps args rest with
      | none => none
      | some sets =>
        match v with
        | .nilPtr => some sets                         -- `if e != nil { … }` (unguarded never holds nil)
        | .txt s => some ((op.key, s) :: sets)

def dictOne (args : Args) (p : String) : List (String × List Char) :=
  match getKV args p with
  | some (.dict es) => es
  | _ => []

/-- `for k, v := range d { query_.Set(k, …) }` for every map parameter, in order -/
def dictSets (args : Args) (ds : List String) : List (String × List Char) := ds.flatMap (dictOne args)

structure Request where
  verb : String
  path : List Char                                   -- second argument of url.JoinPath(base, ·)
  query : Option (List (String × List Char))         -- final content of query_ (fed to Encode); none: RawQuery untouched
  body : Option String                               -- json.Marshal(<this parameter>)
  headers : List (String × String)
  ctx : Option String                                -- tag of the attached context; none: context.Background()
  deriving Repr, DecidableEq

inductive Outcome where
  | sent (r : Request)         -- exactly one `c.client.Do(req_)`
  | panic                      -- nil pointer dereference before any request
  deriving Repr, DecidableEq

def ctxTag (args : Args) : CtxMode → Option String
  | .param p =>
    match getKV args p with
    | some (.ctx t) => some t
    | _ => none
  | _ => none

/-- one call of a generated method (for a plan that compiles) -/
def send (pl : Plan) (args : Args) : Outcome :=
  let path := substPath args pl.path pl.subs
  let body := if pl.verb.hasBody then pl.body else none
  if pl.verb.hasBody || (pl.queryOps.isEmpty && pl.dict.isEmpty) then
    .sent ⟨pl.verb.upper, path, none, body, pl.headers, ctxTag args pl.ctx⟩
  else
    match runQueryOps args pl.queryOps with
    | none => .panic
    | some sets =>
      .sent ⟨pl.verb.upper, path, some (setAll [] (sets ++ dictSets args pl.dict)), body, pl.headers, ctxTag args pl.ctx⟩

/-! ## the request on the wire, attempt by attempt, when the client's chain contains RetryMiddleware

middleware/retry.go (since 371dec3) — the first attempt hands the request itself to the next transport;
every later attempt hands it `req.Clone(req.Context())` with `Body = req.GetBody()`: the same verb, URL,
headers and context, and a fresh reader over the same JSON bytes (the generated code builds the request
with `bytes.NewReader`, so `GetBody` is set and cannot fail). Before 371dec3 the same `*http.Request` was
re-sent with its body reader already at its end (former finding F_retryBody). -/

/-- the body as the transport of one attempt reads it -/
inductive WireBody where
  | absent               -- the request has no body
  | whole (b : String)   -- json.Marshal(b), complete
  deriving Repr, DecidableEq

structure Attempt where
  verb : String
  path : List Char
  query : Option (List (String × List Char))
  headers : List (String × String)
  body : WireBody
  ctx : Option String     -- tag of the context the transport receives; none: context.Background()
  ctxDone : Bool          -- that context has already ended when the attempt begins
  deriving Repr, DecidableEq

/-- has the caller, who cancels its context right after attempt `cancelAfter` was answered (none: never),
    done so before attempt `j` begins -/
def cancelledBefore (cancelAfter : Option Nat) (j : Nat) : Bool :=
  match cancelAfter with
  | some k => decide (k < j)
  | none => false

/-- attempt `j` (0-based) of a call whose request is `r`. A call without a context parameter runs under
    context.Background(), which never ends. -/
def attempt (r : Request) (cancelAfter : Option Nat) (j : Nat) : Attempt :=
  { verb := r.verb, path := r.path, query := r.query, headers := r.headers,
    body := (match r.body with
      | none => .absent
      | some b => .whole b),     -- attempt 0: req.Body itself; later attempts: req.GetBody()
    ctx := r.ctx,
    ctxDone := r.ctx.isSome && cancelledBefore cancelAfter j }

end ShootVerif.Rest
