/-
Model of the response-handling half of every method emitted by internal/restclient/restclient.tmpl
(lines 94-131) together with the result classification of cook.go:133-170 / getReturnTypeName.

    resp_, err := c.client.Do(req_)
    if err != nil { return <nil…>, err }                      -- transport error path
    defer resp_.Body.Close()
    switch {
    case resp_.StatusCode >= 500: err = fmt.Errorf("server error %d: %s", status, body)
    case resp_.StatusCode >= 400: err = fmt.Errorf("client error %d: %s", status, body)
    case resp_.StatusCode >= 300 || resp_.StatusCode < 200: err = fmt.Errorf("not supported error %d", status)
    }
    -- no result type:            if err != nil { return resp_, err }; return resp_, nil
    -- result type T (+ IsPtr):   if err != nil { return nil, resp_, err }
    --                            var r_ T; err = json.NewDecoder(resp_.Body).Decode(&r_)
    --                            if err == io.EOF { err = nil }
    --                            if err != nil { return nil, resp_, err }
    --                            return (&)r_, resp_, nil

Externals: `http.Client.Do` is an input (`Transport`): either a response with a status and a body
class, or a fault; `encoding/json` is the function `decodeOf` on body classes (assumption, checked
by the correspondence on every run): empty ⇒ io.EOF, valid ⇒ ok, malformed / wrong-typed ⇒ error,
broken (Read fails in transit) ⇒ that error. The error arms read the body with `io.ReadAll` and ignore
its error: the message quotes whatever arrived.
-/
namespace ShootVerif.RestCall

/-- shape of the first of three results as extracted by `getReturnTypeName` (`none`: two results) -/
inductive Shape where
  | ptr      -- `*T`  : Type = T, IsPtr = true, returns `&r_`
  | slice    -- `[]T` : Type = []T, returns `r_`
  | map      -- `map[K]V`
  | none     -- `(*http.Response, error)` only
  deriving Repr, DecidableEq, Inhabited

/-- body classes of the property's quantifier, and `broken`: the transfer of the body fails after the
    response headers (the body's Read returns an error that is not io.EOF, possibly after some bytes) -/
inductive Body where
  | empty | valid | malformed | wrongtype | broken
  deriving Repr, DecidableEq, Inhabited

inductive Fault where
  | refused | cancelled | timeout
  deriving Repr, DecidableEq, Inhabited

/-- what `c.client.Do(req_)` yields -/
inductive Transport where
  | resp (status : Int) (body : Body)
  | fault (f : Fault)
  | respErr (status : Int)
      -- `client.Do` returned a response AND an error: the documented behaviour when a CheckRedirect
      -- policy refuses a redirect with an error of its own (the 3xx response comes with its body closed)
  deriving Repr, DecidableEq, Inhabited

inductive ErrKind where
  | client | server | notSupported    -- the three `fmt.Errorf` of the switch
  | decode                            -- the json decoder's error, passed on
  | transport (f : Fault)             -- the error of `client.Do`, passed on unchanged
  | redirect                          -- the CheckRedirect policy's error (inside `client.Do`'s *url.Error), passed on unchanged
  deriving Repr, DecidableEq, Inhabited

/-- an error value: its kind and which of status / body text its message carries -/
structure Err where
  kind : ErrKind
  quotesStatus : Bool
  quotesBody : Bool
  deriving Repr, DecidableEq, Inhabited

/-- the first result as the caller sees it -/
inductive Res where
  | absent     -- the method has no result value
  | nil        -- the literal `nil` of an error return (nil pointer / nil slice / nil map)
  | zero       -- `&r_` with `r_` never written: a non-nil pointer to the zero value
  | decoded    -- the decoded body
  deriving Repr, DecidableEq, Inhabited

structure Ret where
  result : Res
  resp : Bool            -- true: the very response produced by the transport; false: nil
  err : Option Err
  deriving Repr, DecidableEq, Inhabited

/-- the emitted `switch` on the status code; `none` = no case taken, err stays nil -/
def classify (s : Int) : Option ErrKind :=
  if s ≥ 500 then some .server
  else if s ≥ 400 then some .client
  else if s ≥ 300 ∨ s < 200 then some .notSupported
  else none

/-- the message built in each arm: server/client quote status and body, not-supported the status only -/
def switchErr (s : Int) : Option Err :=
  match classify s with
  | some .server => some ⟨.server, true, true⟩
  | some .client => some ⟨.client, true, true⟩
  | some k => some ⟨k, true, false⟩
  | none => none

/-- `json.NewDecoder(body).Decode(&r_)` on the body classes (external, assumed); a body whose Read fails
    before a complete JSON value has arrived makes Decode return that Read error -/
inductive Dec where
  | ok | eof | error
  deriving Repr, DecidableEq

def decodeOf : Body → Dec
  | .empty => .eof
  | .valid => .ok
  | .malformed => .error
  | .wrongtype => .error
  | .broken => .error

/-- the `nil` in front of `resp_, err` (ErrReturnMap = "nil, " × (n-1) + "err"): absent when n = 2 -/
def nilResult : Shape → Res
  | .none => .absent
  | _ => .nil

/-- `return (&)r_` with `r_` still the zero value: a pointer to zero for `*T`, the nil slice / map otherwise -/
def zeroResult : Shape → Res
  | .ptr => .zero
  | .none => .absent
  | _ => .nil

/-- the decode tail (template lines 111-130) after the switch left `err == nil` -/
def tail (shape : Shape) (b : Body) : Ret :=
  match shape with
  | .none => ⟨.absent, true, none⟩
  | sh =>
    match decodeOf b with
    | .ok => ⟨.decoded, true, none⟩
    | .eof => ⟨zeroResult sh, true, none⟩              -- `if err == io.EOF { err = nil }`
    | .error => ⟨.nil, true, some ⟨.decode, false, false⟩⟩

/-- one generated method from `c.client.Do` on -/
def call (shape : Shape) : Transport → Ret
  | .fault f => ⟨nilResult shape, false, some ⟨.transport f, false, false⟩⟩
  | .respErr _ => ⟨nilResult shape, false, some ⟨.redirect, false, false⟩⟩   -- `if err != nil { return nil…, err }`: resp_ is dropped
  | .resp s b =>
    match switchErr s with
    | some e => ⟨nilResult shape, true, some e⟩
    | none => tail shape b

end ShootVerif.RestCall
