/-
Model of the type-parameter reconstruction for generic structs (fields.go parseFields:
`typeParamsMap[i] = names of group i`, `typeParams += ExprString(constraint)`; new.go makeNew pairs
`typeParams[i]` with `typeParamsMap[i]`).
-/
namespace ShootVerif.TParams

structure Group where
  names : List String
  constraint : String
  isIdent : Bool         -- the constraint expression is a plain identifier (`any`, `comparable`, `Number`)
  deriving Repr, DecidableEq

/-- `g.typeParams`: every constraint expression, printed (f987a47; before that fix only the identifier
    constraints were kept and the pairing with the groups went wrong) -/
def typeParams (gs : List Group) : List String := gs.map (·.constraint)

/-- makeNew: for i, t in typeParams: `"<names of group i> <t>"` -/
def paramGroups (gs : List Group) : List (String × String) :=
  ((typeParams gs).zip (gs.map (fun g => ", ".intercalate g.names))).map (fun p => (p.2, p.1))

def typeParamList (gs : List Group) : String :=
  ", ".intercalate ((paramGroups gs).map (fun p => p.1 ++ " " ++ p.2))

def typeParamNameList (gs : List Group) : String :=
  ", ".intercalate ((paramGroups gs).map (·.1))

/-! spec: the constructor carries the struct's own type parameters and constraints -/
def specGroups (gs : List Group) : List (String × String) :=
  gs.map (fun g => (", ".intercalate g.names, g.constraint))

def specList (gs : List Group) : String :=
  ", ".intercalate ((specGroups gs).map (fun p => p.1 ++ " " ++ p.2))

theorem filter_all {α : Type} (p : α → Bool) : ∀ l : List α, (∀ x ∈ l, p x = true) → l.filter p = l := by
  intro l
  induction l with
  | nil => intro _; rfl
  | cons x xs ih =>
    intro h
    simp only [List.filter_cons, h x (by simp), ↓reduceIte, ih (fun y hy => h y (by simp [hy]))]

theorem zip_map_self {α β γ : Type} (f : α → β) (g : α → γ) : ∀ l : List α,
    (l.map f).zip (l.map g) = l.map (fun x => (f x, g x)) := by
  intro l
  induction l with
  | nil => rfl
  | cons x xs ih => simp [ih]

end ShootVerif.TParams
