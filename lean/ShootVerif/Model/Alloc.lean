/-
Model of the allocation / guard lines emitted since f531104 for a field promoted through embedded
POINTER structs (new.go: AllocMap; constructor.tmpl: option functions, UnmarshalJSON, MarshalJSON).

A value is seen only through its pointer embeds: the set of allocated embed paths. Evaluating a
selector through a path needs every pointer embed that is a proper prefix of it to be allocated.
`ptrs` is the list of pointer-embed paths on the way to the field, OUTERMOST FIRST.
-/
namespace ShootVerif.Alloc

abbrev Path := List String

/-- the state that matters: which pointer embeds are allocated -/
abbrev Heap := List Path

inductive Outcome (α : Type) where
  | ok : α → Outcome α
  | panic : Outcome α      -- nil pointer dereference
  deriving Repr

/-- `if t.P == nil { t.P = new(E) }` for one pointer embed P whose own outer pointer embeds are `outer` -/
def allocOne (outer : List Path) (p : Path) (h : Heap) : Outcome Heap :=
  if outer.all (fun q => h.contains q) then .ok (if h.contains p then h else p :: h) else .panic

/-- the emitted sequence of allocation lines, in the order of `AllocMap[f]` -/
def allocAll : (done rest : List Path) → Heap → Outcome Heap
  | _, [], h => .ok h
  | done, p :: ps, h =>
    match allocOne done p h with
    | .ok h' => allocAll (done ++ [p]) ps h'
    | .panic => .panic

/-- option function / UnmarshalJSON line for a promoted field: allocation lines, then `t.f = v` -/
def writeField (ptrs : List Path) (h : Heap) : Outcome Heap :=
  match allocAll [] ptrs h with
  | .ok h' => if ptrs.all (fun q => h'.contains q) then .ok h' else .panic
  | .panic => .panic

/-- MarshalJSON: `if t.P1 != nil && t.P1.P2 != nil { data.F = t.F }` with short-circuit `&&`:
    the i-th test is evaluated only when the earlier ones held; returns whether the field is read -/
def guardRead : (done rest : List Path) → Heap → Outcome Bool
  | _, [], _ => .ok true
  | done, p :: ps, h =>
    if done.all (fun q => h.contains q) then
      (if h.contains p then guardRead (done ++ [p]) ps h else .ok false)
    else .panic

end ShootVerif.Alloc
