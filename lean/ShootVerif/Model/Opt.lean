import ShootVerif.Model.Ctor
/-
Model of `shoot new -opt` (new.go makeNew: AllList / DefaultList / TypeMap; constructor.tmpl:
With, one option function per AllList entry, SetDefault) and of the runtime `shoot.NewWith`
(constructor.go): `t := new(T); SetDefault(); for opt := range opts { opt(t) }`.

An option function `<Field>Of<Type>(v)` is `func(t *T) { t.<field> = v }`: it writes through Go's
selector, i.e. the visible leaf of that name. The state is therefore keyed by field name.
-/
namespace ShootVerif.Opt
open ShootVerif.Ctor ShootVerif.Transfer

/-- `AllList`: names of the non-shadowed, non-marker entries, in order -/
def allList (fs : List Field) : List String :=
  (fs.filter (fun f => !f.isShadowed && !f.isEmbeded)).map (·.name)

/-- `DefaultList` + `DefaultValueMap` -/
def defaultList (fs : List Field) : List (String × String) :=
  (fs.filter (fun f => !f.isShadowed && !f.isEmbeded && f.defv ≠ "")).map (fun f => (f.name, f.defv))

/-- option function name: `<Pascal field>Of<Type>` or `<Pascal field>` with -short -/
def optName (short : Bool) (typeName : String) (f : String) : String :=
  if short then pascalS f else pascalS f ++ "Of" ++ typeName

/-- what a field holds -/
inductive Val where
  | init                 -- the receiver's previous content (zero for `new(T)`)
  | defv (e : String)    -- a `def=` value
  | opt (pos : Nat)      -- the value passed to the option at position `pos` of the call
  | zero                 -- the zero value of the field's type (nil, 0, "", false), passed to an option explicitly
  deriving Repr, DecidableEq

abbrev State := String → Val

def set (s : State) (n : String) (v : Val) : State := fun m => if m = n then v else s m

/-- generated `SetDefault`: one assignment per DefaultList entry, in order -/
def setDefault (defs : List (String × String)) (s : State) : State :=
  defs.foldl (fun s d => set s d.1 (.defv d.2)) s

/-- `for _, opt := range opts { opt(t) }` -/
def applyOpts (opts : List (String × Val)) (s : State) : State :=
  opts.foldl (fun s o => set s o.1 o.2) s

/-- generated `With` (calls SetDefault iff DefaultList is non-empty, which is the same fold) and
    runtime `NewWith` (SetDefault iff implemented = iff DefaultList non-empty) -/
def withM (defs : List (String × String)) (opts : List (String × Val)) (s : State) : State :=
  applyOpts opts (setDefault defs s)

def newWith (defs : List (String × String)) (opts : List (String × Val)) : State :=
  withM defs opts (fun _ => .init)

/-- positions are attached to the options of a call -/
def numbered (names : List String) : List (String × Val) :=
  (List.range names.length).zip names |>.map (fun p => (p.2, Val.opt p.1))

/-! ## Specification: the last option for a field wins, else its default, else what was there -/

def lastFor {β : Type} (l : List (String × β)) (n : String) : Option β :=
  (l.reverse.find? (fun o => o.1 = n)).map (·.2)

def specFinal (defs : List (String × String)) (opts : List (String × Val)) (s : State) (n : String) : Val :=
  match lastFor opts n with
  | some v => v
  | none => match lastFor defs n with
    | some e => .defv e
    | none => s n

end ShootVerif.Opt
