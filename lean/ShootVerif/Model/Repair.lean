import ShootVerif.Model.GenState
/-
The proposed repair of F_embedderFirst / F_staleAllInOne (notes/proposed/deps-first-and-shadow-aio.patch) as a
PARAMETER of the driver-loop model, like `Leaks`:

  depsFirst – `Generate` processes every listed type after the listed struct types it embeds (whatever the order
              of the -type list / of the declarations in the file); the outputs are put back into list order
              (the merged all-in-one file keeps the order of the list).
  shadowAio – in all-in-one mode an all-in-one output file of an earlier run is hidden from the loaded package
              (overlaid by an empty file), so that only the fresh per-type sources of the overlay are seen.

`codeRepair` is the code at HEAD (neither); flip it when the patch is committed.
-/
namespace ShootVerif.GenState
open ShootVerif

structure Repair where
  depsFirst : Bool
  shadowAio : Bool
  deriving DecidableEq, Repr, Inhabited

def noRepair : Repair := { depsFirst := false, shadowAio := false }
def fullRepair : Repair := { depsFirst := true, shadowAio := true }

/-- the code at HEAD.  FLIP to `fullRepair` once the proposed patch is in /repo. -/
def codeRepair : Repair := noRepair

/-- number of nodes of a struct tree; a struct is strictly larger than every struct it embeds -/
def treeSize : Ctor.Tree → Nat
  | .nil => 0
  | .field _ rest => 1 + treeSize rest
  | .embed _ _ _ _ body rest => 1 + treeSize body + treeSize rest

def insertBy {α : Type} (key : α → Nat) (a : α) : List α → List α
  | [] => [a]
  | b :: l => if key a ≤ key b then a :: b :: l else b :: insertBy key a l

/-- stable insertion sort -/
def isortBy {α : Type} (key : α → Nat) (l : List α) : List α := l.foldr (insertBy key) []

/-- the order in which `Generate` processes the types.  The patch uses a depth-first topological order; the
    model sorts by tree size, which is another dependencies-first order – by `C08_perm_new` all such orders give
    every type the same output. -/
def processingOrder (rp : Repair) (ts : List NType) : List NType :=
  if rp.depsFirst then isortBy (fun t => treeSize t.tree) ts else ts

inductive Mode where
  | sep                      -- `-type=A,B` / `-sep`
  | aio (file : String)      -- `-file=` / `-type=*`: the name of the all-in-one output file
  deriving DecidableEq, Repr, Inhabited

/-- the generated files the package load sees before the first type is processed -/
def visibleDisk (rp : Repair) (mode : Mode) (disk : Disk) : Disk :=
  match mode with
  | .sep => disk
  | .aio n => if rp.shadowAio then disk.filter (fun f => f.name ≠ n) else disk

/-- outputs back in list order -/
def inListOrder {ω : Type} (ts : List NType) (outs : List (NType × ω)) : List (NType × ω) :=
  ts.filterMap (fun t => outs.find? (fun p => p.1.name == t.name))

/-- `Generate` with the repair -/
def generateR {σ : Type} (rp : Repair) (m : Machine σ NType NOut) (mode : Mode) (disk : Disk) (ts : List NType) :
    List (NType × NOut) :=
  inListOrder ts (generate m (visibleDisk rp mode disk) (processingOrder rp ts))

end ShootVerif.GenState
