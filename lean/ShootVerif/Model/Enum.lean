/-
Model of `shoot enum` (internal/enumer/str.go, make.go, enumer.tmpl) and of the runtime helpers
of /repo/enumer.go.  The model mirrors what the code does, quirks included:

  makeStr      the stringer-style loop over the ValueSpecs of every const block (`typ` carry-down,
               reset on "no type but a value", `_` skipped), the value of each name taken from
               go/types (an input here), stored as its unsigned 64-bit pattern;
  sort.Slice   by `int64(value)` for signed types, by the unsigned pattern for unsigned types;
  tables       NameList, valueof = the value printed by its own signedness (FormatInt(int64(v)),
               parenthesised when negative, for signed types; FormatUint(v) for unsigned), strof = TrimPrefix;
  template     `_ = x[Name-valueof]`, `_t_values`, `_t_strings`, `_t_string_map`, `_t_value_map` (map literals:
               duplicate constant keys do not compile), `_t_max = A | B | …`, String / IsValid /
               Values / Strings / ValueMap / StringMap, the codec methods, and with -bit Has / Add /
               Remove and the composite String loop (which reads the undefined table `_t_map`).

Names are `List Char` (only TrimPrefix transforms them).  Constant values are mathematical integers
bounded by the kind of the underlying type; the -bit methods are modelled on `BitVec w`, any width.
-/
namespace ShootVerif.Enum

abbrev Name := List Char

/-- underlying integer kind of the enum type (int/uint are 64 bit on the platforms the check runs on) -/
structure Kind where
  signed : Bool
  bits : Nat
  deriving DecidableEq, Repr

-- constraints.Integer is `~int8 | ~int16 | ~int32 | ~int | ~int64 | ~uint8 | ~uint16 | ~uint32 | ~uint | ~uint64`
-- (since /repo 1178f7f `int` carries its `~` too): every kind of the grammar instantiates
-- ParseEnum / TryParseEnum / IsEnum, so the kind's spelling (`int` vs `int64`) plays no role in the model.

def Kind.lo (k : Kind) : Int := if k.signed then -((2 : Int) ^ (k.bits - 1)) else 0
def Kind.hi (k : Kind) : Int := if k.signed then (2 : Int) ^ (k.bits - 1) - 1 else (2 : Int) ^ k.bits - 1
/-- `v` is a value of the type -/
def Kind.has (k : Kind) (v : Int) : Bool := decide (k.lo ≤ v) && decide (v ≤ k.hi)

/-- one `ast.ValueSpec` of a const block: `names [ty] [= exprs]`.
    `vals` are the values go/types assigns to the names (external fact, aligned with `names`);
    `exprTy` is the type of the expressions when they are typed although the spec has no type
    (`X = T(5)`), `none` for untyped constant expressions. -/
structure VSpec where
  names : List Name
  ty : Option Name
  hasVals : Bool
  exprTy : Option Name
  vals : List Int
  deriving DecidableEq, Repr

structure Const where
  name : Name
  val : Int
  deriving DecidableEq, Repr

def underscore : Name := ['_']

/-- the type expression, parentheses removed (`ast.Unparen`), is not an identifier but a qualified
    `pkg.T`: the spelling carries a dot -/
def qualified (t : Name) : Bool := t.contains '.'

/-- the inner loop `for _, n := range vspec.Names { if n.Name == "_" { continue } … }` -/
def namesOf (s : VSpec) : List Const :=
  ((s.names.zip s.vals).filter (fun p => p.1 ≠ underscore)).map (fun p => ⟨p.1, p.2⟩)

/-- the loop over `decl.Specs` of one const declaration; `typ = none` is the code's `typ = ""` -/
def collectBlock (T : Name) : Option Name → List VSpec → List Const
  | _, [] => []
  | typ, s :: rest =>
    if s.ty.isNone && s.hasVals then
      collectBlock T none rest                       -- "X = 1": reset the remembered type, skip
    else if (match s.ty with | some t => qualified t | none => false) then
      collectBlock T none rest                       -- "X pkg.T = 1": some other type; remembered type reset, skip
    else
      let typ' := match s.ty with
        | some t => some t                           -- "X T": remember it
        | none => typ                                -- carried down
      if typ' ≠ some T then collectBlock T typ' rest
      else namesOf s ++ collectBlock T typ' rest

/-- all files, all PACKAGE-LEVEL const declarations in source order (the walk does not descend into
    FuncDecl / FuncLit: const declarations inside function bodies are not seen) -/
def collect (T : Name) (blocks : List (List VSpec)) : List Const :=
  blocks.flatMap (collectBlock T none)

/-! ## sort by the unsigned 64-bit key -/

/-- `Value.value`: the bit pattern (`Uint64Val`, or `uint64(int64)` for negatives) -/
def u64 (v : Int) : Nat := (v % 18446744073709551616).toNat

/-- `int64(u)` -/
def toInt64 (u : Nat) : Int := if u < 9223372036854775808 then (u : Int) else (u : Int) - 18446744073709551616

/-- `valueof`: the number the template prints for a constant, by the type's signedness
    (`strconv.FormatInt(int64(v))`, in parentheses when negative, or `strconv.FormatUint(v)`) -/
def printed (k : Kind) (v : Int) : Int := if k.signed then toInt64 (u64 v) else (u64 v : Int)

/-- insertion into a list sorted by `key` (stable: goes before equal keys; `sort.Slice` is an
    insertion sort up to 12 elements and only deterministic beyond, and with distinct keys the result is unique) -/
def insertBy (key : Const → Int) (c : Const) : List Const → List Const
  | [] => [c]
  | d :: r => if key d < key c then d :: insertBy key c r else c :: d :: r

def sortBy (key : Const → Int) : List Const → List Const
  | [] => []
  | c :: r => insertBy key c (sortBy key r)

/-- the key the code sorts by: `int64(value)` when the type is signed, else the uint64 pattern -/
def skey (k : Kind) (c : Const) : Int := if k.signed then toInt64 (u64 c.val) else (u64 c.val : Int)

def sortC (k : Kind) (cs : List Const) : List Const := sortBy (skey k) cs

/-! ## tables -/

/-- `strings.TrimPrefix(name, typeName)` -/
def trim (T n : Name) : Name := if T.isPrefixOf n then n.drop T.length else n

def valuesT (cs : List Const) : List Int := cs.map (·.val)                          -- `_t_values`
def stringsT (T : Name) (cs : List Const) : List Name := cs.map (fun c => trim T c.name)   -- `_t_strings`
def stringMap (T : Name) (cs : List Const) : List (Int × Name) := cs.map (fun c => (c.val, trim T c.name))
def valueMap (T : Name) (cs : List Const) : List (Name × Int) := cs.map (fun c => (trim T c.name, c.val))

/-- `_t_max = A | B | …`, a constant of the type: bitwise OR in the kind's width, read back by the
    kind's signedness (the OR of a negative value with anything is negative) -/
def maxOr (k : Kind) (cs : List Const) : Int :=
  let m : BitVec k.bits := cs.foldl (fun a c => a ||| BitVec.ofInt k.bits c.val) 0
  if k.signed then m.toInt else (m.toNat : Int)

/-- outcome of one `shoot enum -type=T` run -/
inductive Gen where
  | skipped                    -- no constant collected: MakeData returns nil (a warning for a named type), nothing written, exit 0
  | file (cs : List Const)     -- the emitted tables
  deriving DecidableEq, Repr

def gen (k : Kind) (T : Name) (blocks : List (List VSpec)) : Gen :=
  let cs := sortC k (collect T blocks)
  if cs.isEmpty then .skipped else .file cs

/-- table identifiers the emitted file defines / reads (suffix after `_<t>`) -/
def definedSyms : List String := ["_max", "_values", "_strings", "_string_map", "_value_map"]
def usedSyms (bit : Bool) : List String :=
  ["_string_map", "_max", "_values", "_strings", "_value_map"] ++ (if bit then ["_map"] else [])

/-- does the emitted file compile with the package: map literals have no duplicate constant keys,
    every table it reads is defined, and every constant it names is a package-level constant of the
    type (`pkg`, by the Go rule) — a function-local constant is `undefined` at package level and a
    constant of another type cannot be a `T` value -/
def compiles (bit : Bool) (T : Name) (pkg : List Const) (cs : List Const) : Bool :=
  decide (valuesT cs).Nodup && decide (stringsT T cs).Nodup && cs.all (fun c => pkg.contains c) &&
    (usedSyms bit).all (definedSyms.contains ·)

/-! ## emitted methods (no -bit) -/

inductive Str where
  | name (n : Name)             -- a table entry
  | dec (v : Int)               -- fmt.Sprintf("%d", x)
  | joined (ns : List Name)     -- -bit: names joined by ", "
  deriving DecidableEq, Repr

/-- `func (x T) String() string` without -bit: a table hit, else `if x < 0 || x > _max { %d }`, else
    (nothing in between without -bit) `%d` again -/
def stringOf (k : Kind) (T : Name) (cs : List Const) (x : Int) : Str :=
  match (stringMap T cs).lookup x with
  | some s => .name s
  | none => if x < 0 ∨ x > maxOr k cs then .dec x else .dec x

def isValid (T : Name) (cs : List Const) (x : Int) : Bool := ((stringMap T cs).lookup x).isSome

/-- the compile-time stale guard: `_ = x[Name-valueof]` indexes a `[1]struct{}`, so the constant
    index must be 0; `cur` gives the present value of each constant in the package -/
def guardOK (k : Kind) (cs : List Const) (cur : Name → Option Int) : Bool :=
  cs.all (fun c => match cur c.name with
    | some v => decide (v - printed k c.val = 0)
    | none => false)

/-- what the compiler says about one guard line `_ = x[Name-valueof]` (x a `[1]struct{}`): the index is a
    constant expression of type T, so first of all it must be representable in T (`Name - 5 (constant -5 of
    type T) overflows uint8`), then not negative (`must not be negative`), then — an index — representable as an
    `int` (`overflows int`; uint64 / uint differences above MaxInt64), then below 1 (`index 2 out of bounds [0:1]`) -/
inductive GuardErr where
  | none | undefined | overflows | negative | bounds
  deriving DecidableEq, Repr

def guardLine (k : Kind) (printedV : Int) (cur : Option Int) : GuardErr :=
  match cur with
  | .none => .undefined
  | some v =>
    let d := v - printedV
    if !k.has d then .overflows else if d < 0 then .negative else if d = 0 then .none
    else if d > 9223372036854775807 then .overflows else .bounds

/-- the first complaint in the guard function, in table (= source) order -/
def guardFirst (k : Kind) (cs : List Const) (cur : Name → Option Int) : GuardErr :=
  match cs with
  | [] => .none
  | c :: r => if guardLine k (printed k c.val) (cur c.name) = .none then guardFirst k r cur else guardLine k (printed k c.val) (cur c.name)

/-! ## ParseFlags / make* (generator.go, make.go) -/

/-- the enum flags as given on the command line -/
structure FlagArgs where
  bit : Bool
  bitwise : Bool
  json : Bool
  text : Bool
  sql : Bool
  gorm : Bool
  deriving DecidableEq, Repr

/-- `Generator.flags` -/
structure Flags where
  bitwise : Bool
  json : Bool
  text : Bool
  sql : Bool
  gorm : Bool
  deriving DecidableEq, Repr

/-- `ParseFlags`: `-gorm` without `-sql` is fatal ("-gorm only works when -sql is enabled", exit 1, nothing
    generated); `-bit` is an alias of `-bitwise` -/
def parseFlags (a : FlagArgs) : Option Flags :=
  if a.gorm && !a.sql then none else some ⟨a.bitwise || a.bit, a.json, a.text, a.sql, a.gorm⟩

/-- the switches of the template data (`TmplData.Bitwise … Gorm`) -/
structure TSwitches where
  bitwise : Bool
  json : Bool
  text : Bool
  sql : Bool
  gorm : Bool
  deriving DecidableEq, Repr

/-- makeBitwize / makeJson / makeText / makeSQL: each copies its flag; `Gorm` is copied inside the -sql branch only -/
def makeSwitches (f : Flags) : TSwitches := ⟨f.bitwise, f.json, f.text, f.sql, f.sql && f.gorm⟩

/-! ## table identifiers: `_<camelCase T>_values` … (internal/transfer ToCamelCaseGO; ASCII identifiers) -/

def isUpperC (c : Char) : Bool := decide ('A' ≤ c) && decide (c ≤ 'Z')
def isLowerC (c : Char) : Bool := decide ('a' ≤ c) && decide (c ≤ 'z')
def toLowerC (c : Char) : Char := if isUpperC c then Char.ofNat (c.toNat + 32) else c
def toUpperC (c : Char) : Char := if isLowerC c then Char.ofNat (c.toNat - 32) else c

/-- `strings.Split(s, "_")` -/
def splitUnderscore : Name → List Name
  | [] => [[]]
  | c :: r =>
    match splitUnderscore r with
    | [] => [[c]]            -- unreachable: the result is never empty
    | p :: ps => if c = '_' then [] :: p :: ps else (c :: p) :: ps

/-- `transfer.ToPascalCase`: split at `_`, upper-case the first byte of every part, join (the underscores are gone) -/
def pascalCase (s : Name) : Name :=
  (splitUnderscore s).flatMap (fun part => match part with | [] => [] | c :: r => toUpperC c :: r)

/-- `transfer.ToCamelCaseGO` -/
def camelGO (s : Name) : Name :=
  if s.isEmpty then s
  else if s = s.map toUpperC then s.map toLowerC
  else
    let p := pascalCase s
    let i := (p.takeWhile isUpperC).length
    if i ≤ 1 then (match p with | c :: r => toLowerC c :: r | [] => [])
    else (p.take (i - 1)).map toLowerC ++ p.drop (i - 1)

/-! ## runtime helpers (enumer.go) over the emitted tables -/

def parseEnum (vm : List (Name × Int)) (s : Name) : Option Int := vm.lookup s

/-- `ParseEnum[T](s)` evaluated in a package-level variable initializer of the enum's own package
    (`var Default, err = shoot.ParseEnum[Color]("Green")`): Go orders package-level initialization by
    the references it can see INSIDE the package; the read of `_t_value_map` happens behind the generic
    call (`t.ValueMap()` on a type parameter, in package shoot), so the dependency is invisible and the
    variable is initialized in file order — before the map literal of the generated file whenever its
    file sorts first (`a.go` < `a.shootenum.color.go`).  The map is still nil: nothing is found.
    (`_t_values`, a slice literal of constants, is laid out statically, so IsEnum works.) -/
def parseEnumAtInit (_vm : List (Name × Int)) (_s : Name) : Option Int := none

/-- `TryParseEnum(s, &target)`: (result, target afterwards) -/
def tryParseEnum (vm : List (Name × Int)) (s : Name) (target : Int) : Bool × Int :=
  match parseEnum vm s with
  | some v => (true, v)
  | none => (false, target)

/-- Go's integer conversion `T(v)`: wraps into the kind -/
def wrap (k : Kind) (v : Int) : Int :=
  let m : Int := (2 : Int) ^ k.bits
  let r := v % m
  if k.signed && decide (r ≥ (2 : Int) ^ (k.bits - 1)) then r - m else r

/-- `IsEnum[T, TV](value)`, `value` of the integer type TV (kind `kV`):
    `for _, v := range Values() { if v == T(value) && TV(v) == value && (v < 0) == (value < 0) { return true } }` -/
def isEnum (kT kV : Kind) (vals : List Int) (value : Int) : Bool :=
  vals.any (fun v => v == wrap kT value && wrap kV v == value && (decide (v < 0) == decide (value < 0)))

/-! ## codec methods -/

/-- a JSON document as `json.Unmarshal(data, &string)` sees it -/
inductive JsonIn where
  | str (s : Name)     -- a JSON string (decoded)
  | null               -- `null`: Unmarshal into a string succeeds and leaves it ""
  | other              -- number, bool, array, object: Unmarshal into a string fails
  deriving DecidableEq, Repr

/-- a `driver.Value` handed to Scan -/
inductive SqlIn where
  | bytes (s : Name)   -- []byte
  | str (s : Name)     -- string: what the enum's own Value() produces (and what several drivers hand back for text columns)
  | other              -- int64, float64, bool, time.Time, nil
  deriving DecidableEq, Repr

inductive DecErr where
  | notString | notFound | badType
  deriving DecidableEq, Repr

/-- result of a decode method: error (if any) and the receiver afterwards -/
abbrev Dec := Option DecErr × Int

def parseInto (vm : List (Name × Int)) (s : Name) (target : Int) : Dec :=
  match parseEnum vm s with
  | some v => (none, v)
  | none => (some .notFound, target)

def unmarshalJSON (vm : List (Name × Int)) (d : JsonIn) (target : Int) : Dec :=
  match d with
  | .other => (some .notString, target)
  | .null => parseInto vm [] target
  | .str s => parseInto vm s target

def unmarshalText (vm : List (Name × Int)) (s : Name) (target : Int) : Dec := parseInto vm s target

def scan (vm : List (Name × Int)) (d : SqlIn) (target : Int) : Dec :=
  match d with
  | .other => (some .badType, target)
  | .str s => parseInto vm s target         -- `case string: data = []byte(v_)`
  | .bytes s => parseInto vm s target

/-- what the three encoders put on the wire: the text of `String()` (as a JSON string, as bytes,
    as a driver.Value string) -/
def encode (k : Kind) (T : Name) (cs : List Const) (x : Int) : Str := stringOf k T cs x

def Str.text : Str → Name
  | .name n => n
  | .dec v => (toString v).toList
  | .joined ns => (", ".toList).intercalate ns

/-- `GormDBDataType`: `ENUM('a','b')` over the trimmed names in table order -/
def gormEnums (T : Name) (cs : List Const) : List Name := stringsT T cs

/-! ## -bit: Has / Add / Remove and the composite String loop, on `BitVec w` -/
namespace Bit
variable {w : Nat}

def has (x f : BitVec w) : Bool := x &&& f == f          -- `x&flag == flag`
def add (x f : BitVec w) : BitVec w := x ||| f           -- `x | flag`
def remove (x f : BitVec w) : BitVec w := x &&& ~~~f     -- `x &^ flag`

/-- `_t_values` zipped with the name the loop prints for each value (the emitted code reads the
    undefined `_t_map[v]`; with the defined `_t_string_map` substituted this is the trimmed name) -/
abbrev Table (w : Nat) := List (BitVec w × Name)

def maxOf (t : Table w) : BitVec w := t.foldr (fun e a => e.1 ||| a) 0

/-- the `for i_ := 0; i_ < len(values); i_++` loop: remainder and the names written so far -/
def loop : Table w → BitVec w → List Name → BitVec w × List Name
  | [], rem, acc => (rem, acc)
  | (v, n) :: rest, rem, acc =>
    if v = 0 then loop rest rem acc                      -- continue
    else if rem = 0 then (rem, acc)                      -- break
    else if has rem v then loop rest (remove rem v) (acc ++ [n])
    else loop rest rem acc

/-- `x < 0 || x > _max` in the type's own comparison -/
def outside (signed : Bool) (mx x : BitVec w) : Bool :=
  if signed then x.slt 0 || mx.slt x else mx.ult x

def decOf (signed : Bool) (x : BitVec w) : Int := if signed then x.toInt else (x.toNat : Int)

/-- `func (x T) String() string` with -bit -/
def string (signed : Bool) (t : Table w) (x : BitVec w) : Str :=
  match t.lookup x with
  | some s => .name s
  | none =>
    if outside signed (maxOf t) x then .dec (decOf signed x)
    else
      let r := loop t x []
      if r.1 = 0 ∧ r.2 ≠ [] then .joined r.2 else .dec (decOf signed x)

def table (T : Name) (cs : List Const) : Table w := cs.map (fun c => (BitVec.ofInt w c.val, trim T c.name))

end Bit

/-! ## the emitted file as a RUNNING program

The four tables of the emitted file are package-level VARIABLES (two slices, two maps): every method and
every runtime helper reads them at call time, and Go would let any of them write.  A program is a
sequence of calls; `step` is one call against the current tables, `run` a whole history.  In the code
under verification no call writes (the second component of every `step` arm is the state it was given) —
that is what `C04_tables_invariant` states and what the correspondence observes by re-running every
method AFTER a generated history of calls (declared and undeclared values, every helper).
The getters return the table ITSELF, not a copy: what a CALLER can do with that is `scribble` below. -/

/-- the package-level variables of the emitted file; `_t_max` is a constant and not part of the state -/
structure Tables where
  values : List Int                -- `_t_values`
  strings : List Name              -- `_t_strings`
  smap : List (Int × Name)         -- `_t_string_map`
  vmap : List (Name × Int)         -- `_t_value_map`
  deriving DecidableEq, Repr

/-- the tables as the generated file initializes them -/
def tablesOf (T : Name) (cs : List Const) : Tables :=
  ⟨valuesT cs, stringsT T cs, stringMap T cs, valueMap T cs⟩

/-- what is fixed at generation time: the kind of the type, -bit, and the constant `_t_max` (its bit pattern) -/
structure Prog where
  kind : Kind
  bit : Bool
  mx : BitVec kind.bits

def Prog.mxInt (p : Prog) : Int := if p.kind.signed then p.mx.toInt else (p.mx.toNat : Int)

def progOf (k : Kind) (bit : Bool) (cs : List Const) : Prog :=
  ⟨k, bit, cs.foldl (fun a c => a ||| BitVec.ofInt k.bits c.val) 0⟩

namespace Bit
variable {w : Nat}
/-- String() with -bit as it runs: `_t_string_map` (`names`) and `_t_values` (`vals`) are two separate
    variables, `mx` is the constant; the loop walks `vals` and looks every name up in `names`
    (a missing key prints as the empty string) -/
def stringRT (signed : Bool) (names : Table w) (vals : List (BitVec w)) (mx : BitVec w) (x : BitVec w) : Str :=
  match names.lookup x with
  | some s => .name s
  | none =>
    if outside signed mx x then .dec (decOf signed x)
    else
      let r := loop (vals.map (fun v => (v, (names.lookup v).getD []))) x []
      if r.1 = 0 ∧ r.2 ≠ [] then .joined r.2 else .dec (decOf signed x)
end Bit

def Tables.bitNames (st : Tables) (w : Nat) : Bit.Table w := st.smap.map (fun e => (BitVec.ofInt w e.1, e.2))
def Tables.bitVals (st : Tables) (w : Nat) : List (BitVec w) := st.values.map (BitVec.ofInt w)

/-- `func (x T) String() string` against the current tables -/
def Tables.string (p : Prog) (st : Tables) (x : Int) : Str :=
  if p.bit then
    Bit.stringRT p.kind.signed (st.bitNames p.kind.bits) (st.bitVals p.kind.bits) p.mx (BitVec.ofInt p.kind.bits x)
  else
    match st.smap.lookup x with
    | some s => .name s
    | none => if x < 0 ∨ x > p.mxInt then .dec x else .dec x

/-- one call of the emitted methods or of the runtime helpers of enumer.go -/
inductive Call where
  | string (x : Int) | isValid (x : Int) | values | strings | valueMap | stringMap
  | parseEnum (s : Name) | tryParse (s : Name) (target : Int) | isEnum (kV : Kind) (v : Int)
  | unmarshalJSON (d : JsonIn) (target : Int) | unmarshalText (s : Name) (target : Int) | scan (d : SqlIn) (target : Int)
  | encode (x : Int)                 -- MarshalJSON / MarshalText / Value: the text of String()
  | has (x f : Int) | add (x f : Int) | remove (x f : Int)
  deriving DecidableEq, Repr

/-- what a call returns, as the caller sees it -/
inductive Res where
  | str (s : Str) | bool (b : Bool) | ints (l : List Int) | names (l : List Name)
  | vmap (m : List (Name × Int)) | smap (m : List (Int × Name))
  | parsed (r : Option Int) | tried (r : Bool × Int) | decoded (r : Bool × Int) | int (v : Int)
  deriving DecidableEq, Repr

/-- one call: (tables afterwards, result).  `IsEnum` ranges over `Values()` = the table itself, `ParseEnum`
    indexes `ValueMap()` = the map itself; neither they nor any emitted method assigns to a table. -/
def step (p : Prog) (st : Tables) : Call → Tables × Res
  | .string x => (st, .str (st.string p x))
  | .isValid x => (st, .bool (st.smap.lookup x).isSome)
  | .values => (st, .ints st.values)
  | .strings => (st, .names st.strings)
  | .valueMap => (st, .vmap st.vmap)
  | .stringMap => (st, .smap st.smap)
  | .parseEnum s => (st, .parsed (parseEnum st.vmap s))
  | .tryParse s t => (st, .tried (tryParseEnum st.vmap s t))
  | .isEnum kV v => (st, .bool (isEnum p.kind kV st.values v))
  | .unmarshalJSON d t => (st, .decoded ((unmarshalJSON st.vmap d t).1.isNone, (unmarshalJSON st.vmap d t).2))
  | .unmarshalText s t => (st, .decoded ((unmarshalText st.vmap s t).1.isNone, (unmarshalText st.vmap s t).2))
  | .scan d t => (st, .decoded ((scan st.vmap d t).1.isNone, (scan st.vmap d t).2))
  | .encode x => (st, .str (st.string p x))
  | .has x f => (st, .bool (Bit.has (BitVec.ofInt p.kind.bits x) (BitVec.ofInt p.kind.bits f)))
  | .add x f => (st, .int (Bit.decOf p.kind.signed (Bit.add (BitVec.ofInt p.kind.bits x) (BitVec.ofInt p.kind.bits f))))
  | .remove x f => (st, .int (Bit.decOf p.kind.signed (Bit.remove (BitVec.ofInt p.kind.bits x) (BitVec.ofInt p.kind.bits f))))

/-- a history of calls: (tables afterwards, results in call order) -/
def run (p : Prog) : Tables → List Call → Tables × List Res
  | st, [] => (st, [])
  | st, c :: rest =>
    let r := step p st c
    let q := run p r.1 rest
    (q.1, r.2 :: q.2)

/-- `Values()`, `Strings()`, `ValueMap()`, `StringMap()` return the package-level slice / map ITSELF: a
    caller holding the result can write through it -/
inductive Scribble where
  | setValue (j : Nat) (v : Int)          -- `T(0).Values()[j] = v`
  | setString (j : Nat) (s : Name)        -- `T(0).Strings()[j] = s`
  | putValueMap (s : Name) (v : Int)      -- `T(0).ValueMap()[s] = v`
  | delValueMap (s : Name)                -- `delete(T(0).ValueMap(), s)`
  | putStringMap (v : Int) (s : Name)
  | delStringMap (v : Int)
  deriving DecidableEq, Repr

def scribble (st : Tables) : Scribble → Tables
  | .setValue j v => { st with values := st.values.set j v }
  | .setString j s => { st with strings := st.strings.set j s }
  | .putValueMap s v => { st with vmap := (s, v) :: st.vmap.filter (fun e => e.1 ≠ s) }
  | .delValueMap s => { st with vmap := st.vmap.filter (fun e => e.1 ≠ s) }
  | .putStringMap v s => { st with smap := (v, s) :: st.smap.filter (fun e => e.1 ≠ v) }
  | .delStringMap v => { st with smap := st.smap.filter (fun e => e.1 ≠ v) }

end ShootVerif.Enum
