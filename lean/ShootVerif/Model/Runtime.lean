/-
Model of the runtime half of the rest feature:

* restclient.shootnew.restconf.go — RestConf, its option closures and getters;
* constructor.go — `NewWith`: `t := new(T)`; `SetDefault()` if implemented (RestConf does not
  implement it); then every option in order;
* restclient.go — `Use` (append), `BuildMiddleware` (`t = DefaultTransport; for i = len-1 … 0 {
  t = mws[i](t) }; if enableLogging { t = LoggingMiddleware(t) }`), the constructor registry
  (`Register`: present ⇒ panic, else store; `NewRest`: `conf := NewWith(opts…)`; missing ⇒ panic;
  `ctor(*conf)`);
* restclient.tmpl:143-153 — the generated `init()`:
  `&http.Client{Timeout: time.Duration(conf.Timeout()) * time.Second, Transport: conf.BuildMiddleware()}`.

Middlewares, interface types and constructors are opaque tags (`Nat`).
-/
namespace ShootVerif.Runtime

abbrev Mw := Nat
abbrev Headers := Option (List (String × String))   -- `none` = nil map

/-- `shoot.RestConf` (time.Duration = int64 nanoseconds) -/
structure RestConf where
  baseURL : String
  timeout : Int
  enableLogging : Bool
  defaultHeaders : Headers
  mws : List Mw
  deriving Repr, DecidableEq, Inhabited

/-- the functional options: the four generated ones and `Use` -/
inductive Opt where
  | baseURL (u : String)
  | timeout (d : Int)
  | enableLogging (b : Bool)
  | defaultHeaders (h : Headers)
  | use (m : Mw)
  deriving Repr, DecidableEq, Inhabited

/-- the closure each option returns -/
def Opt.apply : Opt → RestConf → RestConf
  | .baseURL u, c => { c with baseURL := u }
  | .timeout d, c => { c with timeout := d }
  | .enableLogging b, c => { c with enableLogging := b }
  | .defaultHeaders h, c => { c with defaultHeaders := h }
  | .use m, c => { c with mws := c.mws ++ [m] }       -- `append(r._middlewares, middleware)`

/-- `new(RestConf)`: RestConf has no `SetDefault`, so the zero value is the start -/
def zeroConf : RestConf := ⟨"", 0, false, none, []⟩

/-- `NewWith(opts...)`: `for _, opt := range opts { opt(t) }` -/
def newWith (opts : List Opt) : RestConf := opts.foldl (fun c o => o.apply c) zeroConf

/-! ## BuildMiddleware -/

inductive Layer where
  | log            -- middleware.LoggingMiddleware
  | mw (m : Mw)    -- a middleware added with Use
  | base           -- http.DefaultTransport
  deriving Repr, DecidableEq, Inhabited

/-- a RoundTripper built by wrapping: which layer it is and what it forwards to -/
inductive RT where
  | base
  | wrap (l : Layer) (next : RT)
  deriving Repr, DecidableEq, Inhabited

/-- `for i := len(mws)-1; i >= 0; i-- { t = mws[i](t) }` — runs over the reversed list -/
def wrapAll (rev : List Mw) (t : RT) : RT := rev.foldl (fun t m => RT.wrap (.mw m) t) t

def buildMiddleware (c : RestConf) : RT :=
  let t := wrapAll c.mws.reverse .base
  if c.enableLogging then .wrap .log t else t

inductive Event where
  | enter (l : Layer)
  | exit (l : Layer)
  deriving Repr, DecidableEq, Inhabited

/-- one round trip through a chain in which every layer calls `next` exactly once -/
def trace : RT → List Event
  | .base => [.enter .base, .exit .base]
  | .wrap l n => .enter l :: (trace n ++ [.exit l])

/-- what a RoundTrip returns: `(resp, nil)`, `(nil, err)`, or both non-nil (a transport that breaks the
    RoundTripper contract; RetryMiddleware passes such a pair on) -/
inductive RTOut where
  | ok | fail | both
  deriving Repr, DecidableEq, Inhabited

/-- the result of one round trip through a chain whose base transport answers `o`.
    LoggingMiddleware: `resp, err := next.RoundTrip(req); if err != nil { log …; return nil, err }; log …; return resp, nil`.
    A middleware added with `Use` is opaque; the tagging middlewares of the check pass the pair on. -/
def roundTrip : RT → RTOut → RTOut
  | .base, o => o
  | .wrap .log n, o =>
    match roundTrip n o with
    | .ok => .ok
    | _ => .fail
  | .wrap _ n, o => roundTrip n o

def enterOrder (t : RT) : List Layer := (trace t).filterMap (fun e => match e with | .enter l => some l | _ => none)
def exitOrder (t : RT) : List Layer := (trace t).filterMap (fun e => match e with | .exit l => some l | _ => none)

/-! ## several steps on ONE RestConf value

`conf.With(opt)` and the generated setters write the same fields as the options; `BuildMiddleware()`
reads the fields and writes nothing; a value copy (`c2 := *conf`) holds the same field values. -/

inductive COp where
  | apply (o : Opt)      -- `conf.With(o)` or the matching setter (`SetEnableLogging(b)`, `SetTimeout(d)`, …)
  | build                -- `conf.BuildMiddleware()` followed by one round trip through the result
  | copy                 -- go on with a value copy of the RestConf
  deriving Repr, DecidableEq, Inhabited

/-- the traces of the round trips through every chain built along a history -/
def runConf : RestConf → List COp → List (List Event)
  | _, [] => []
  | c, .apply o :: r => runConf (o.apply c) r
  | c, .build :: r => trace (buildMiddleware c) :: runConf c r
  | c, .copy :: r => runConf c r

/-! ## the generated init() -/

/-- int64 wrap-around of Go's `*` on time.Duration -/
def wrap64 (x : Int) : Int := Int.bmod x 18446744073709551616   -- 2^64

def second : Int := 1000000000

structure HttpClient where
  timeout : Int
  transport : RT
  deriving Repr, DecidableEq

/-- `&http.Client{Timeout: time.Duration(conf.Timeout()) * time.Second, Transport: conf.BuildMiddleware()}` -/
def initClient (c : RestConf) : HttpClient :=
  ⟨wrap64 (c.timeout * second), buildMiddleware c⟩

/-! ## the registry -/

abbrev TypeId := Nat
abbrev CtorId := Nat

inductive Panic where
  | duplicate (t : TypeId)      -- "ctor of interface … should not be registered multiple times"
  | unregistered (t : TypeId)   -- "ctor of interface … is not regstered"
  deriving Repr, DecidableEq

/-- `ctorRegistry`: reflect.Type of *T ↦ constructor -/
abbrev Registry := List (TypeId × CtorId)

def register (r : Registry) (t : TypeId) (k : CtorId) : Except Panic Registry :=
  match r.lookup t with
  | some _ => .error (.duplicate t)
  | none => .ok ((t, k) :: r)

/-- what NewRest hands back: which constructor ran, on which configuration
    (the type assertion `ctor.(func(RestConf) T)` cannot fail: Register[T] only stores that type under T's key) -/
def newRest (r : Registry) (t : TypeId) (opts : List Opt) : Except Panic (CtorId × RestConf) :=
  let conf := newWith opts
  match r.lookup t with
  | none => .error (.unregistered t)
  | some k => .ok (k, conf)

inductive Op where
  | reg (t : TypeId) (k : CtorId)
  | new (t : TypeId) (opts : List Opt)
  deriving Repr, DecidableEq

inductive Outcome where
  | registered
  | made (k : CtorId) (c : RestConf)
  | panic (p : Panic)
  deriving Repr, DecidableEq

/-- a history of calls, each under `recover()`: a panicking call leaves the registry as it was -/
def runHist : Registry → List Op → List Outcome
  | _, [] => []
  | r, .reg t k :: rest =>
    match register r t k with
    | .ok r' => .registered :: runHist r' rest
    | .error p => .panic p :: runHist r rest
  | r, .new t opts :: rest =>
    match newRest r t opts with
    | .ok (k, c) => .made k c :: runHist r rest
    | .error p => .panic p :: runHist r rest

/-! ## RestConf values in memory: clients that keep their configuration

A constructor receives the RestConf BY VALUE (`typedCtor(*conf)`); the generated one stores a pointer to its copy
(`conf: &conf`). A by-value copy of a RestConf copies the slice HEADER of `_middlewares`, not the array behind it, so
whether two RestConf values are independent is a question about backing arrays. The heap holds those arrays at their
full capacity; `append` (one element, as `Use` does) writes in place while there is room and otherwise moves to a new
array of twice the size (Go's growth rule for small slices of pointer-sized elements: 0 → 1 → 2 → 4 → …). -/

/-- backing arrays at full capacity (unused cells hold 0); array 0 is the empty array every nil slice points to -/
abbrev Heap := List (List Mw)

def Heap.init : Heap := [[]]

/-- a RestConf as it lies in memory: the scalar fields and the slice header (array, length) of `_middlewares` -/
structure MConf where
  baseURL : String
  timeout : Int
  enableLogging : Bool
  defaultHeaders : Headers
  arr : Nat
  len : Nat
  deriving Repr, DecidableEq, Inhabited

/-- `new(RestConf)` -/
def MConf.zero : MConf := ⟨"", 0, false, none, 0, 0⟩

/-- what the getters and BuildMiddleware read from a RestConf in memory -/
def MConf.view (h : Heap) (c : MConf) : RestConf :=
  ⟨c.baseURL, c.timeout, c.enableLogging, c.defaultHeaders, (h.getD c.arr []).take c.len⟩

/-- `r._middlewares = append(r._middlewares, m)` -/
def useM (h : Heap) (c : MConf) (m : Mw) : Heap × MConf :=
  let a := h.getD c.arr []
  if c.len < a.length then (h.set c.arr (a.set c.len m), { c with len := c.len + 1 })
  else (h ++ [a.take c.len ++ m :: List.replicate (c.len - 1) 0], { c with arr := h.length, len := c.len + 1 })

def Opt.applyM : Opt → Heap × MConf → Heap × MConf
  | .baseURL u, (h, c) => (h, { c with baseURL := u })
  | .timeout d, (h, c) => (h, { c with timeout := d })
  | .enableLogging b, (h, c) => (h, { c with enableLogging := b })
  | .defaultHeaders x, (h, c) => (h, { c with defaultHeaders := x })
  | .use m, (h, c) => useM h c m

/-- `NewWith(opts...)` in memory: a fresh zero value, every option in order -/
def newWithM (h : Heap) (opts : List Opt) : Heap × MConf := opts.foldl (fun hc o => o.applyM hc) (h, MConf.zero)

/-- steps of a process in which every interface type is registered (constructor tag = type):
    `NewRest[T](opts…)` — the client keeps the RestConf it was built from —, a later `conf.With(o)` by the owner of
    client `j` on the RestConf it keeps, and a later look at client `j`: the getters of its RestConf and one round trip
    through `conf.BuildMiddleware()` built NOW -/
inductive KOp where
  | new (t : TypeId) (opts : List Opt)
  | withOpt (j : Nat) (o : Opt)
  | again (j : Nat)
  deriving Repr, DecidableEq

inductive KOut where
  | made (t : TypeId) (c : RestConf)
  | done
  | seen (c : RestConf)
  | noSuch
  deriving Repr, DecidableEq

/-- the clients made so far (constructor tag and the RestConf each keeps), on one heap -/
def runClients : Heap → List (CtorId × MConf) → List KOp → List KOut
  | _, _, [] => []
  | h, cs, .new t opts :: r =>
    let (h', c) := newWithM h opts
    .made t (c.view h') :: runClients h' (cs ++ [(t, c)]) r
  | h, cs, .withOpt j o :: r =>
    match cs[j]? with
    | none => .noSuch :: runClients h cs r
    | some (t, c) =>
      let (h', c') := o.applyM (h, c)
      .done :: runClients h' (cs.set j (t, c')) r
  | h, cs, .again j :: r =>
    match cs[j]? with
    | none => .noSuch :: runClients h cs r
    | some (_, c) => .seen (c.view h) :: runClients h cs r

end ShootVerif.Runtime
