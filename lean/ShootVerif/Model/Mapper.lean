import ShootVerif.Model.Transfer
import ShootVerif.Model.Ctor
import ShootVerif.Model.MapSort
/-
Model of `shoot map` (internal/mapper): fields.go (extractTopFiels, expandIfStruct,
extractStructFields, appendOrReplace, tag map), match.go (canNameMatch, smartMatch, matchType,
mayMisConv, makeTypeMatch), mismatch.go (makeFuncMap, makeSubMap, makeSubListMap,
makeTypeMismatch), ctor.go (parseCtors, makeCtorMatch, zero values), methods.go (accessor
pseudo-fields), check.go (prepareReadPaths, nilCheckRead, nilCheckWrite, CoveredBy) and the
statements of mapper.tmpl.

The generator mutates `Field` objects (Target, CanAssign, IsConv, Func, CanMap, CanEachMap, IsPtr)
and two write-sets. The model keeps the write-sets and, instead of the mutable flags, a monotone
log of *claims* per direction; the emitted statement of a reading field is its LAST claim
(`Target` is overwritten), everything else about a claim is fixed when it is made.

go/types facts are inputs: a type is a small term, `TypeEquals` is equality of terms,
`ConvertibleTo` is the relation `conv` supplied by the harness.
-/
namespace ShootVerif.Mapper
open ShootVerif.Transfer

/-! ## Types -/

inductive Pkg where
  | src | dest
  deriving DecidableEq, Repr, Inhabited

inductive Ty where
  | basic (n : String)
  | named (pkg : Pkg) (n : String) (under : Ty)
  | struct (shape : String)           -- underlying type of a named struct
  | ptr (e : Ty)
  | slice (e : Ty)
  | other (s : String)                -- maps etc.: opaque, compared by spelling
  deriving DecidableEq, Repr, Inhabited

def Ty.underlying : Ty → Ty
  | .named _ _ u => u
  | t => t

def isString (t : Ty) : Bool := t.underlying == .basic "string"

def fixedInts : List String := ["int8", "int16", "int32", "int64", "uint8", "uint16", "uint32", "uint64"]

def isFixedWidthInt (t : Ty) : Bool :=
  match t.underlying with
  | .basic n => fixedInts.contains n
  | _ => false

/-- `mayMisConv` -/
def mayMisConv (a b : Ty) : Bool :=
  (isString a && isFixedWidthInt b) || (isString b && isFixedWidthInt a)

/-- go/types `ConvertibleTo` (reflexive; the harness lists the non-identical convertible pairs) -/
def rawConv (conv : List (Ty × Ty)) (a b : Ty) : Bool := a == b || conv.contains (a, b)

/-- `matchType`: (same, conv) -/
def matchType (conv : List (Ty × Ty)) (a b : Ty) : Bool × Bool :=
  let same := a == b
  let c := rawConv conv a b
  (same, if !same && c && mayMisConv a b then false else c)

/-- strip one pointer: (wasPointer, element) -/
def Ty.strip : Ty → Bool × Ty
  | .ptr e => (true, e)
  | t => (false, t)

/-- a named STRUCT type declared in package `p` (what `makeSubMap` accepts: `isStructType`) -/
def Ty.isNamedIn (t : Ty) (p : Pkg) : Bool :=
  match t with
  | .named q _ (.struct _) => q == p
  | _ => false

def Ty.isStructNamed : Ty → Bool
  | .named _ _ (.struct _) => true
  | _ => false

/-- `[]T` / `[]*T` with T a named struct (how the oracle prints such a leaf) -/
def Ty.isStructSlice : Ty → Bool
  | .slice (.ptr e) => e.isStructNamed
  | .slice e => e.isStructNamed
  | _ => false

/-! ## Input structs -/

inductive Tag where
  | none | skip | name (s : String)
  deriving DecidableEq, Repr, Inhabited

structure FDecl where
  name : String
  ty : Ty
  tag : Tag := .none
  get : Bool := false       -- `shoot: get` (accessor mode only)
  set : Bool := false
  newMark : Bool := false
  joined : Bool := false    -- a non-first name of a multi-name declaration `A, B int` (shares type and tag)
  deriving DecidableEq, Repr, Inhabited

inductive Tree where
  | nil
  | field (f : FDecl) (rest : Tree)
  | embed (tname : String) (isPtr : Bool) (body : Tree) (rest : Tree)
  deriving Repr, Inhabited

/-- `Field` of types.go without the mutable flags -/
structure Field where
  name : String
  path : List String
  ty : Ty
  depth : Nat := 0
  backing : String := ""
  isGet : Bool := false
  isSet : Bool := false
  deriving DecidableEq, Repr, Inhabited

def Field.matchingName (f : Field) : String := if f.backing ≠ "" then f.backing else f.name
def Field.isEmbedded (f : Field) : Bool := f.path.length > 1

def isExported (n : String) : Bool :=
  match n.toList with
  | c :: _ => isUpper c
  | [] => false

/-- `appendOrReplace`: a field of the same name is replaced only by a strictly shallower one -/
def appendOrReplace : List Field → Field → List Field
  | [], x => [x]
  | f :: fs, x =>
    if f.name = x.name then
      (if x.depth < f.depth then { f with path := x.path, ty := x.ty, depth := x.depth } :: fs else f :: fs)
    else f :: appendOrReplace fs x

/-- `extractStructFields` (go/types level; the struct tag is read: `map:"-"` leaves the promoted field out) -/
def walkNested (pre : List String) (d : Nat) : Tree → List Field
  | .nil => []
  | .field f rest =>
    (if f.tag = .skip then [] else [{ name := f.name, path := pre ++ [f.name], ty := f.ty, depth := d }]) ++ walkNested pre d rest
  | .embed n _ body rest => walkNested (pre ++ [n]) (d + 1) body ++ walkNested pre d rest

/-- `extractTopFiels` (AST level: `map:"-"` skips the field) -/
def walkTop : Tree → List Field
  | .nil => []
  | .field f rest =>
    (if f.tag = .skip then [] else [{ name := f.name, path := [f.name], ty := f.ty, depth := 0 }]) ++ walkTop rest
  | .embed n _ body rest => walkNested [n] 1 body ++ walkTop rest

/-- names of the top-level fields tagged `map:"-"`: they stay out AND hide promoted fields of the same name -/
def skippedTop : Tree → List String
  | .nil => []
  | .field f rest => (if f.tag = .skip then [f.name] else []) ++ skippedTop rest
  | .embed _ _ _ rest => skippedTop rest

def flatten (t : Tree) : List Field :=
  ((walkTop t).foldl appendOrReplace []).filter (fun f => !(skippedTop t).contains f.name)

/-- `ptrTypeMap` keys: paths of the embedded POINTER structs -/
def ptrPaths (pre : List String) : Tree → List (List String)
  | .nil => []
  | .field _ rest => ptrPaths pre rest
  | .embed n p body rest =>
    (if p then [pre ++ [n]] else []) ++ ptrPaths (pre ++ [n]) body ++ ptrPaths pre rest

/-- `tagMap[Pascal(name)] = Pascal(tag)`: every name of a declaration, promoted fields included -/
def tagMap : Tree → List (String × String)
  | .nil => []
  | .field f rest =>
    (match f.tag with
     | .name t => [(pascalS f.name, pascalS t)]
     | _ => []) ++ tagMap rest
  | .embed _ _ body rest => tagMap body ++ tagMap rest

/-- Go map semantics: a later assignment to the same key wins -/
def mapGet (m : List (String × String)) (k : String) : Option String :=
  (m.reverse.find? (fun e => e.1 == k)).map (·.2)

/-! ## Name matching -/

def smartMatchL (a b : List Char) : Bool :=
  a.length == b.length && (a == b || camel a == camel b)

def smartMatch (a b : String) : Bool := smartMatchL a.toList b.toList

def equalFoldL (a b : List Char) : Bool := a.map toLower == b.map toLower
def equalFold (a b : String) : Bool := equalFoldL a.toList b.toList

/-- `canNameMatch` -/
def canNameMatch (tm : List (String × String)) (ic : Bool) (f1 f2 : Field) : Bool :=
  if f1.isGet && f2.isGet then false
  else if f1.isSet && f2.isSet then false
  else
    let m1 := f1.matchingName
    let m1 := (mapGet tm (pascalS m1)).getD m1
    if ic then equalFold m1 f2.matchingName else smartMatch m1 f2.matchingName

/-! ## Claims -/

inductive Strat where
  | assign
  | conv
  | func (k : Nat)                       -- index of the mapper method
  | sub (rdPtr wrPtr : Bool)             -- `IsPtr` of the reading / written field
  | each (rdPtr wrPtr : Bool)
  deriving DecidableEq, Repr, Inhabited

structure Claim where
  rd : Field
  wr : Field
  strat : Strat
  deriving DecidableEq, Repr, Inhabited

structure Fn where
  name : String
  param : Ty
  result : Ty
  deriving DecidableEq, Repr, Inhabited

/-- planner state: the two write-sets and the claim logs (To: src→dest, From: dest→src) -/
structure St where
  wD : List String := []
  wS : List String := []
  toC : List Claim := []
  fromC : List Claim := []
  deriving Repr, Inhabited

/-- `if !g.writeDestSet.Has(f2.Name) && !f2.IsGet { … Adds }` -/
def claimTo (st : St) (f1 f2 : Field) (s : Strat) : St :=
  if st.wD.contains f2.name || f2.isGet then st
  else { st with wD := f2.name :: st.wD, toC := st.toC ++ [⟨f1, f2, s⟩] }

/-- `if !g.writeSrcSet.Has(f1.Name) && !f1.IsGet { … Adds }` -/
def claimFrom (st : St) (f1 f2 : Field) (s : Strat) : St :=
  if st.wS.contains f1.name || f1.isGet then st
  else { st with wS := f1.name :: st.wS, fromC := st.fromC ++ [⟨f2, f1, s⟩] }

def hasToTarget (st : St) (f1 : Field) : Bool := st.toC.any (fun c => c.rd == f1)
def hasFromTarget (st : St) (f2 : Field) : Bool := st.fromC.any (fun c => c.rd == f2)

/-- every claim site also requires the READING field not to be a setter pseudo-field -/
def funcTo (f1 f2 : Field) (k : Nat) (fn : Fn) (st : St) : St :=
  if fn.param == f1.ty && fn.result == f2.ty && !f1.isSet then claimTo st f1 f2 (.func k) else st

def funcFrom (f1 f2 : Field) (k : Nat) (fn : Fn) (st : St) : St :=
  if fn.param == f2.ty && fn.result == f1.ty && !f2.isSet then claimFrom st f1 f2 (.func k) else st

/-- one iteration of the method loop of `makeFuncMap` -/
def funcStep (f1 f2 : Field) (kf : Nat × Fn) (st : St) : St := funcFrom f1 f2 kf.1 kf.2 (funcTo f1 f2 kf.1 kf.2 st)

/-- `makeFuncMap`: first method with exactly the types, per direction; the loop stops as soon as
    both fields have *some* target (possibly from an earlier pair) -/
def funcLoop (f1 f2 : Field) : List (Nat × Fn) → St → St
  | [], st => st
  | kf :: rest, st =>
    if hasToTarget (funcStep f1 f2 kf st) f1 && hasFromTarget (funcStep f1 f2 kf st) f2 then funcStep f1 f2 kf st
    else funcLoop f1 f2 rest (funcStep f1 f2 kf st)

/-- `makeSubMap`: both (pointer-stripped) types named, the source one declared in the source
    package, the destination one in the destination package — of whatever underlying kind -/
def subTo (f1 f2 : Field) (t1 t2 : Ty) (isSlice : Bool) (st : St) : St :=
  if t1.strip.2.isNamedIn .src && t2.strip.2.isNamedIn .dest && !f1.isSet then
    claimTo st f1 f2 (if isSlice then .each t1.strip.1 t2.strip.1 else .sub t1.strip.1 t2.strip.1) else st

def subFrom (f1 f2 : Field) (t1 t2 : Ty) (isSlice : Bool) (st : St) : St :=
  if t1.strip.2.isNamedIn .src && t2.strip.2.isNamedIn .dest && !f2.isSet then
    claimFrom st f1 f2 (if isSlice then .each t2.strip.1 t1.strip.1 else .sub t2.strip.1 t1.strip.1) else st

def subMap (f1 f2 : Field) (t1 t2 : Ty) (isSlice : Bool) (st : St) : St :=
  subFrom f1 f2 t1 t2 isSlice (subTo f1 f2 t1 t2 isSlice st)

/-- `makeSubListMap` -/
def subListMap (f1 f2 : Field) (st : St) : St :=
  match f1.ty, f2.ty with
  | .slice e1, .slice e2 => subMap f1 f2 e1 e2 true st
  | _, _ => st

def indexed {α} (xs : List α) : List (Nat × α) := (List.range xs.length).zip xs

/-- one name-matched pair in `makeTypeMismatch` -/
def mismatchStep (fns : List Fn) (st : St) (p : Field × Field) : St :=
  subListMap p.1 p.2 (subMap p.1 p.2 p.1.ty p.2.ty false (funcLoop p.1 p.2 (indexed fns) st))

def matchTo (conv : List (Ty × Ty)) (f1 f2 : Field) (st : St) : St :=
  if f1.isSet then st
  else if (matchType conv f1.ty f2.ty).1 then claimTo st f1 f2 .assign
  else if (matchType conv f1.ty f2.ty).2 then claimTo st f1 f2 .conv else st

def matchFrom (conv : List (Ty × Ty)) (f1 f2 : Field) (st : St) : St :=
  if f2.isSet then st
  else if (matchType conv f1.ty f2.ty).1 then claimFrom st f1 f2 .assign
  else if (matchType conv f2.ty f1.ty).2 then claimFrom st f1 f2 .conv else st

/-- one name-matched pair in `makeTypeMatch` -/
def matchStep (conv : List (Ty × Ty)) (st : St) (p : Field × Field) : St :=
  matchFrom conv p.1 p.2 (matchTo conv p.1 p.2 st)

/-- the double loop `for f1 in src { for f2 in dest { if canNameMatch … } }` -/
def pairs (nm : Field → Field → Bool) (fs ds : List Field) : List (Field × Field) :=
  fs.flatMap (fun f1 => (ds.filter (nm f1)).map (fun f2 => (f1, f2)))

/-- `makeTypeMismatch` then `makeTypeMatch` against the same write-sets -/
def planFields (conv : List (Ty × Ty)) (fns : List Fn) (ps : List (Field × Field)) (st0 : St) : St :=
  ps.foldl (matchStep conv) (ps.foldl (mismatchStep fns) st0)

/-! ## Constructor parameters (ctor.go) and accessor pseudo-fields (methods.go) -/

/-- a constructor parameter's claim: the parameter `p` receives the reading field `rd` -/
structure CtorArg where
  p : Field
  rd : Option Field := none
  strat : Strat := .assign
  deriving DecidableEq, Repr, Inhabited

/-- the `for _, fn := range mappingFuncList` of makeCtorMatch: the FIRST method of exactly the types wins (`break`) -/
def ctorFunc (f p : Field) (fns : List (Nat × Fn)) : Option Nat :=
  ((fns.filter (fun kf => kf.2.param == f.ty && kf.2.result == p.ty)).head?).map (·.1)

/-- one (field, parameter) visit of `makeCtorMatch`; `acc.1` is the write-set of the side the ctor builds -/
def ctorVisit (conv : List (Ty × Ty)) (fns : List Fn) (nm : Field → Field → Bool)
    (acc : List String × List CtorArg) (fp : Field × Field) : List String × List CtorArg :=
  if fp.1.isSet then acc
  else if !nm fp.1 fp.2 then acc
  else if acc.1.contains fp.2.name then acc
  else match ctorFunc fp.1 fp.2 (indexed fns) with
    -- like the field loops: a mapper method with exactly the types first, then same / convertible
    | some k => (fp.2.name :: acc.1, acc.2 ++ [⟨fp.2, some fp.1, .func k⟩])
    | none =>
      if (matchType conv fp.1.ty fp.2.ty).1 then (fp.2.name :: acc.1, acc.2 ++ [⟨fp.2, some fp.1, .assign⟩])
      else if (matchType conv fp.1.ty fp.2.ty).2 then (fp.2.name :: acc.1, acc.2 ++ [⟨fp.2, some fp.1, .conv⟩])
      else acc

/-- `for f in fields { for p in params { … } }` -/
def ctorFold (conv : List (Ty × Ty)) (fns : List Fn) (nm : Field → Field → Bool)
    (fields params : List Field) (ws : List String) : List String × List CtorArg :=
  (fields.flatMap (fun f => params.map (fun p => (f, p)))).foldl (ctorVisit conv fns nm) (ws, [])

/-- `makeCtorMatch`: returns the new write-set and, when some parameter found a value, the
    argument list in parameter order (`rd = none`: the zero literal) -/
def ctorMatch (conv : List (Ty × Ty)) (fns : List Fn) (nm : Field → Field → Bool)
    (fields params : List Field) (ws : List String) : List String × Option (List CtorArg) :=
  if params.isEmpty then (ws, none)
  else if (ctorFold conv fns nm fields params ws).2.isEmpty then (ws, none)
  else ((ctorFold conv fns nm fields params ws).1,
        some (params.map (fun p => ((ctorFold conv fns nm fields params ws).2.find? (fun a => a.p == p)).getD ⟨p, none, .assign⟩)))

/-- insertion sort on strings (interface method order; sort.Strings) -/
def insertStr (x : String) : List String → List String
  | [] => [x]
  | y :: ys => if x < y then x :: y :: ys else y :: insertStr x ys

def sortStrs (xs : List String) : List String := xs.foldr insertStr []

/-- what `shoot new -getset` produces for a FLAT struct with unexported fields, as seen by the mapper:
    constructor parameters (C02 model: the `new`-marked fields, or all), getters, setters -/
structure NewView where
  params : List Field
  getters : List Field
  setters : List Field
  deriving Repr, Inhabited

def flatDecls : Tree → List FDecl
  | .nil => []
  | .field f rest => f :: flatDecls rest
  | .embed _ _ _ rest => flatDecls rest

/-- every field declaration, promoted ones included (an accessor-mode type may embed another one: its
    getter/setter interfaces embed the embedded type's, so the promoted accessors are visible too) -/
def allDecls : Tree → List FDecl
  | .nil => []
  | .field f rest => f :: allDecls rest
  | .embed _ _ body rest => allDecls body ++ allDecls rest

/-- the C02 tree of an accessor-mode struct (embedded structs carry no `new` mark of their own) -/
def ctorTreeOf : Tree → Ctor.Tree
  | .nil => .nil
  | .field f rest => .field { name := f.name, ptype := "", newMark := f.newMark } (ctorTreeOf rest)
  | .embed n p body rest => .embed n n p false (ctorTreeOf body) (ctorTreeOf rest)

/-- the C02 tree of a flat accessor-mode struct -/
def ctorTree : List FDecl → Ctor.Tree
  | [] => .nil
  | f :: rest => .field { name := f.name, ptype := "", newMark := f.newMark } (ctorTree rest)

/-- `extractParamToFieldMap` over the keyed literal written by `shoot new` (C02 model): parameter name ↦ (key, dotted path) -/
def litParamMap (pre : List String) : Ctor.Lit → List (String × String × List String)
  | .nil => []
  | .kv n (.param p) rest => (p, n, pre ++ [n]) :: litParamMap pre rest
  | .kv _ (.defx _) rest => litParamMap pre rest
  | .sub n _ _ body rest => litParamMap (pre ++ [n]) body ++ litParamMap pre rest     -- `Base: Base{…}` and `Base: &Base{…}`

/-- directive semantics of `shoot new -getset` on an unexported field: no directive or both ⇒ both -/
def FDecl.hasGet (f : FDecl) : Bool := !isExported f.name && (f.get || !f.set)
def FDecl.hasSet (f : FDecl) : Bool := !isExported f.name && (f.set || !f.get)

def newView (t : Tree) : NewView :=
  let ds := allDecls t
  let g := Ctor.gen (ctorTreeOf t)
  let pm := litParamMap [] g.body
  let tyOf := fun (n : String) => ((ds.find? (fun d => d.name == n)).map (·.ty)).getD (.basic "int")
  let params := g.params.map (fun (pn, _) =>
    match pm.reverse.find? (fun e => e.1 == pn) with
    | some e =>
      let fname := e.2.1
      ({ name := if isExported fname then fname else "Set" ++ pascalS fname,
         backing := fname, path := e.2.2, ty := tyOf fname } : Field)
    | none =>
      -- an unrecovered parameter: `nameMap[pname]` is the zero value, the pseudo-name is "Set" + ""
      ({ name := "Set", backing := "", path := [],
         ty := ((ds.find? (fun d => camelS d.name == pn)).map (·.ty)).getD (.basic "int") } : Field))
  let gs := sortStrs ((ds.filter FDecl.hasGet).map (fun d => pascalS d.name))
  let ss := sortStrs ((ds.filter FDecl.hasSet).map (fun d => "Set" ++ pascalS d.name))
  let tyOfAcc := fun (pn : String) => ((ds.find? (fun d => pascalS d.name == pn)).map (·.ty)).getD (.basic "int")
  { params := params,
    getters := gs.map (fun n => { name := n, path := [n], ty := tyOfAcc n, backing := n, isGet := true }),
    setters := ss.map (fun n => { name := n, path := [n], ty := tyOfAcc (n.drop 3).toString, backing := (n.drop 3).toString, isSet := true }) }

/-! ## The whole generator -/

inductive Way where
  | both | toOnly | fromOnly
  deriving DecidableEq, Repr, Inhabited

structure Input where
  way : Way := .both
  ic : Bool := false
  src : Tree
  dest : Tree
  srcNew : Bool := false          -- the type has `shoot new -getset` output (ShootNew method)
  destNew : Bool := false
  fns : List Fn := []
  mapperPtr : Option Bool := none  -- none: no mapper type embedded; some p: embedded by value / by pointer
  conv : List (Ty × Ty) := []
  manualW : List String := []      -- field paths assigned in the body of the manual write hook (toX/writeX): pre-claimed
  manualR : List String := []      -- … of the manual read hook (fromX/readX)
  /-- some struct embeds a POINTER to a struct it lies inside of (`type T struct{ *T; … }`, or T embeds B and B embeds *T).
      The trees hold the finite unfolding: such an embed is a pointer embed with an empty body — exactly what the field
      walk collects (a struct that is being expanded is not entered again), and all the back reference could promote is
      hidden by the shallower occurrence. The flag itself has no effect on the model -/
  cyclic : Bool := false
  /-- paths of the EMBEDDED members tagged `map:"-"` (source / destination type, any depth). fields.go reads the tag of
      named fields only (extractTopFiels: `len(f.Names) == 0` goes straight to expandIfStruct; extractStructFields: the
      `Embedded()` branch comes before the tag test), so the lists have no effect on the plan: the promoted fields of a
      tagged embedded struct are mapped like those of an untagged one -/
  srcSkipEmbeds : List (List String) := []
  destSkipEmbeds : List (List String) := []
  deriving Repr, Inhabited

/-- parseManual, ref:02: an unexported field the read hook assigns on the receiver of a shoot-new type is keyed `SetX` —
    the name its constructor parameter and its setter share; everything else under its own name -/
def Input.readKeys (inp : Input) : List String :=
  inp.manualR.map (fun n => if inp.srcNew && !isExported n then "Set" ++ pascalS n else n)

/-- `g.exportedFields` after makeCompatible: exported flattened fields, then getters, then setters -/
def sideFields (t : Tree) (isNew : Bool) : List Field :=
  let fs := (flatten t).filter (fun f => isExported f.name)
  if isNew then let v := newView t; fs ++ v.getters ++ v.setters else fs

def sideParams (t : Tree) (isNew : Bool) : List Field := if isNew then (newView t).params else []

structure Plan where
  srcFields : List Field
  destFields : List Field
  st : St
  destCtor : Option (List CtorArg)     -- ToX builds the destination with NewD(args)
  srcCtor : Option (List CtorArg)      -- FromX builds the receiver with NewS(args)
  deriving Repr, Inhabited

def Input.nm (inp : Input) : Field → Field → Bool := canNameMatch (tagMap inp.src) inp.ic

def plan (inp : Input) : Plan :=
  let fs := sideFields inp.src inp.srcNew
  let ds := sideFields inp.dest inp.destNew
  let nm := inp.nm
  -- makeCtorMatch: destination ctor against source fields (tag map), source ctor against destination fields (no tag map)
  let c1 := ctorMatch inp.conv inp.fns nm fs (sideParams inp.dest inp.destNew) inp.manualW
  let c2 := ctorMatch inp.conv inp.fns (fun f p => nm p f) ds (sideParams inp.src inp.srcNew) inp.readKeys
  let st := planFields inp.conv inp.fns (pairs nm fs ds) { wD := c1.1, wS := c2.1 }
  { srcFields := fs, destFields := ds, st := st, destCtor := c1.2, srcCtor := c2.2 }

def lastClaim (cs : List Claim) (rd : Field) : Option Claim := (cs.filter (fun c => c.rd == rd)).getLast?

/-- the statements of ToX in emission order: `range .SrcFieldList`, `$df := $sf.Target` -/
def Plan.toStmts (p : Plan) : List Claim := p.srcFields.filterMap (lastClaim p.st.toC)
/-- the statements of FromX: `range .DestFieldList`, `$sf := $df.Target` -/
def Plan.fromStmts (p : Plan) : List Claim := p.destFields.filterMap (lastClaim p.st.fromC)

/-! ## Path tables (check.go) -/

/-- `prepareReadPaths`: the proper prefixes of the field's path that are embedded pointers -/
def readPaths (pp : List (List String)) (f : Field) : List (List String) :=
  ((List.range f.path.length).filterMap (fun i => if i = 0 then none else some (f.path.take i))).filter pp.contains

/-- `Field.CoveredBy`: the pointer path is the field's path or a proper prefix of it -/
def coveredBy (f : Field) (p : List String) : Bool :=
  f.path == p || (p.isPrefixOf f.path && p.length < f.path.length)

def joinPath (p : List String) : String := ".".intercalate p

/-- the bytes of the dotted path string -/
def strCodes (s : String) : List Nat := s.toList.map Char.toNat

def pathCodes : List String → List Nat
  | [] => []
  | c :: cs => match cs with
    | [] => strCodes c
    | _ => strCodes c ++ 46 :: pathCodes cs

/-- `sort.Strings` of the dotted paths: byte-wise lexicographic order (insertion sort; any correct sort gives the same list) -/
def sortPaths (xs : List (List String)) : List (List String) := MapSort.isort pathCodes xs

/-- `nilCheckWrite` for one side: every pointer path covering a written promoted field, once, sorted -/
def allocPaths (pp : List (List String)) (fields : List Field) (written : Field → Bool) : List (List String) :=
  sortPaths ((pp.filter (fun p => fields.any (fun f => written f && f.isEmbedded && coveredBy f p))).eraseDups)

structure Tables where
  srcPtr : List (List String)
  destPtr : List (List String)
  destAlloc : List (List String)      -- DestPtrPathList (ToX)
  srcAlloc : List (List String)       -- SrcPtrPathList (FromX)
  deriving Repr, Inhabited

def tables (inp : Input) (p : Plan) : Tables :=
  let sp := ptrPaths [] inp.src ++ (match inp.mapperPtr with | some true => [["Mapper"]] | _ => [])
  let dp := ptrPaths [] inp.dest
  -- writeDestMap() = values of readSrcMap = the destination of the LAST to-claim of every source field
  let lastTo := p.toStmts.map (·.wr.name)
  -- writeSrcMap keys = every source field claimed in the from direction
  let wrFrom := p.st.fromC.map (·.wr.name)
  { srcPtr := sp, destPtr := dp,
    destAlloc := allocPaths dp p.destFields (fun f => lastTo.contains f.name),
    srcAlloc := allocPaths sp p.srcFields (fun f => wrFrom.contains f.name) }

/-- the `if a != nil && a.b != nil` guard of a reading field: `nilCheckRead` + `condofread` -/
def readGuard (pp : List (List String)) (rd : Field) : List (List String) :=
  if rd.isEmbedded then sortPaths (readPaths pp rd) else []


/-! ## Meaning of the emitted Go

A selector `x.Name` is resolved by Go, not by the generator's `Path`: the unique shallowest member
called `Name` (fields AND embedded type names take part). Reading through a nil embedded pointer
panics; so does writing through one that was not allocated. Values carry provenance. -/

structure Leaf where
  path : List String
  depth : Nat
  decl : FDecl
  deriving DecidableEq, Repr, Inhabited

def leavesAt (pre : List String) (d : Nat) : Tree → List Leaf
  | .nil => []
  | .field f rest => ⟨pre ++ [f.name], d, f⟩ :: leavesAt pre d rest
  | .embed n _ body rest => leavesAt (pre ++ [n]) (d + 1) body ++ leavesAt pre d rest

def leavesOf (t : Tree) : List Leaf := leavesAt [] 0 t

/-- every member name with its depth; embedded type names are members too -/
def members (d : Nat) : Tree → List (String × Nat)
  | .nil => []
  | .field f rest => (f.name, d) :: members d rest
  | .embed n _ body rest => (n, d) :: (members (d + 1) body ++ members d rest)

/-- Go's selector rule for `x.name`: the path of the unique shallowest member, if it is a field -/
def goResolve (t : Tree) (name : String) : Option Leaf :=
  let ms := (members 0 t).filter (fun m => m.1 == name)
  match ms with
  | [] => none
  | m :: rest =>
    let dmin := rest.foldl (fun a x => min a x.2) m.2
    if (ms.filter (fun x => x.2 == dmin)).length ≠ 1 then none
    else match (leavesOf t).filter (fun l => l.decl.name == name && l.depth == dmin) with
      | [l] => some l
      | _ => none

/-- the struct leaf a (pseudo-)field stands for: accessors reach the backing field -/
def resolveField (t : Tree) (f : Field) : Option Leaf :=
  if f.isGet || f.isSet then (leavesOf t).find? (fun l => pascalS l.decl.name == f.backing)
  else goResolve t f.name

inductive V where
  | zero
  | leaf (path : String) (fn : Option Nat)
  | elems (es : List V)
  deriving Repr, Inhabited

def V.isZero : V → Bool
  | .zero => true
  | _ => false

mutual
def V.show : V → String
  | .zero => "zero"
  | .leaf p none => p
  | .leaf p (some k) => p ++ "+f" ++ toString k
  | .elems es => "[" ++ V.showList es ++ "]"
def V.showList : List V → String
  | [] => ""
  | v :: vs => match vs with
    | [] => v.show
    | _ => v.show ++ "," ++ V.showList vs
end

/-- the content of a reading-side leaf when the slots in `N` are nil (three elements per struct slice: first, middle, last) -/
def readLeaf (N : List String) (l : Leaf) : V :=
  let slot := joinPath l.path
  match l.decl.ty with
  | .ptr _ => if N.contains slot then .zero else .leaf slot none
  | .slice (.ptr e) =>
    if N.contains slot then .zero
    else if e.isStructNamed then
      .elems [if N.contains (slot ++ "#0") then .zero else .leaf slot none,
              if N.contains (slot ++ "#1") then .zero else .leaf slot none,
              if N.contains (slot ++ "#2") then .zero else .leaf slot none]
    else .leaf slot none
  | .slice e =>
    if N.contains slot then .zero
    else if e.isStructNamed then .elems [.leaf slot none, .leaf slot none, .leaf slot none] else .leaf slot none
  | _ => .leaf slot none

def properPrefixes (p : List String) : List (List String) :=
  (List.range p.length).filterMap (fun i => if i = 0 then none else some (p.take i))

/-- the embedded pointers dereferenced by `x.<path>` -/
def hops (pp : List (List String)) (p : List String) : List (List String) := (properPrefixes p).filter pp.contains

def applyFn (k : Nat) : V → V
  | .leaf p _ => .leaf p (some k)
  | v => v

/-- result of one statement body on the value read: `none` = nothing written, `error` = panic.
    `guarded`: the template's own nil test (`if x != nil` / `if _x == nil { continue }`) is present;
    `deref`: the result of ToX/FromX is dereferenced (`*x.ToX()`) -/
def subValue (rdPtr wrPtr : Bool) (v : V) : Except Unit (Option V) :=
  let guarded := rdPtr && !wrPtr          -- mapper.tmpl: `if and $sf.IsPtr (not $df.IsPtr)`
  let deref := !wrPtr                     -- `$deref := cond $df.IsPtr "" "*"`
  if v.isZero then
    if guarded then .ok none
    else if rdPtr && deref then .error ()
    else .ok (some .zero)
  else .ok (some v)

def eachValue (rdPtr wrPtr : Bool) (v : V) : Except Unit (Option V) :=
  match v with
  | .zero => .ok none                     -- `if xs != nil`
  | .elems es =>
    let guarded := rdPtr && !wrPtr
    let deref := !wrPtr
    if es.any (fun e => e.isZero && !guarded && rdPtr && deref) then .error ()
    else .ok (some (.elems es))
  | v => .ok (some v)

/-- written side while a method runs -/
structure WSt where
  alloc : List (List String) := []       -- embedded pointers that are non-nil
  vals : List (String × V) := []
  deriving Repr, Inhabited

def WSt.get (w : WSt) (p : String) : V := ((w.vals.reverse.find? (fun e => e.1 == p)).map (·.2)).getD .zero

/-- one side of a mapping method -/
structure SideSem where
  tree : Tree
  ptrs : List (List String)
  deriving Repr, Inhabited

def nonNil (N : List String) (p : List String) : Bool := !N.contains (joinPath p)

/-- evaluate `x.<path>` for reading: panics on a nil hop -/
def derefOk (pp : List (List String)) (N : List String) (p : List String) : Bool :=
  (hops pp p).all (nonNil N)

/-- the guard `if x.A != nil && x.A.B != nil`: error = panic while evaluating, ok b = its value -/
def evalGuard (pp : List (List String)) (N : List String) : List (List String) → Except Unit Bool
  | [] => .ok true
  | g :: gs =>
    if !derefOk pp N g then .error ()
    else if N.contains (joinPath g) then .ok false
    else evalGuard pp N gs

/-- can the mapper method be called: `s.Fn(x)` is a promoted VALUE-receiver method; through a nil
    embedded pointer it panics -/
def fnCallOk (mapperNil : Bool) (s : Strat) : Bool :=
  match s with
  | .func _ => !mapperNil
  | _ => true

def stratValue (s : Strat) (v : V) : Except Unit (Option V) :=
  match s with
  | .assign | .conv => .ok (some v)
  | .func k => .ok (some (applyFn k v))
  | .sub r w => subValue r w v
  | .each r w => eachValue r w v

/-- what the statement reads: the leaf's content — or, when the "field" is a setter pseudo-field, the
    method value `x.SetF` (only storable in an `any`; shown as `?`) -/
def readVal (N : List String) (c : Claim) (rl : Leaf) : V :=
  if c.rd.isSet then .leaf "?" none else readLeaf N rl

/-- one guarded statement: reading side `rs` with nil slots `N`, written side `ws` -/
def execStmt (rs ws : SideSem) (N : List String) (mapperNil : Bool) (c : Claim) (w : WSt) : Except Unit WSt :=
  match evalGuard rs.ptrs N (readGuard rs.ptrs c.rd) with
  | .error e => .error e
  | .ok false => .ok w
  | .ok true =>
    match resolveField rs.tree c.rd, resolveField ws.tree c.wr with
    | some rl, some wl =>
      if !derefOk rs.ptrs N rl.path then .error ()
      else if !fnCallOk mapperNil c.strat then .error ()
      else match stratValue c.strat (readVal N c rl) with
        | .error e => .error e
        | .ok none => .ok w
        | .ok (some v) =>
          if (hops ws.ptrs wl.path).all w.alloc.contains then .ok { w with vals := w.vals ++ [(joinPath wl.path, v)] }
          else .error ()
    | _, _ => .error ()      -- does not compile (regions exclude it)

/-- `if d.P == nil { d.P = new(T) }` in list order -/
def execAlloc (pp : List (List String)) : List (List String) → WSt → Except Unit WSt
  | [], w => .ok w
  | p :: ps, w =>
    if (hops pp p).all w.alloc.contains then execAlloc pp ps { w with alloc := w.alloc ++ [p] } else .error ()

def execStmts (rs ws : SideSem) (N : List String) (mapperNil : Bool) : List Claim → WSt → Except Unit WSt
  | [], w => .ok w
  | c :: cs, w =>
    match execStmt rs ws N mapperNil c w with
    | .error e => .error e
    | .ok w' => execStmts rs ws N mapperNil cs w'

/-- constructor call `NewD(arg, …)`: arguments are evaluated unguarded; the constructor allocates
    every embedded pointer (C02) -/
def execCtor (rs ws : SideSem) (N : List String) (mapperNil : Bool) : List CtorArg → WSt → Except Unit WSt
  | [], w => .ok { w with alloc := ws.ptrs }
  | a :: as, w =>
    match a.rd with
    | none => execCtor rs ws N mapperNil as w
    | some rd =>
      match resolveField rs.tree rd with
      | none => .error ()
      | some rl =>
        if !derefOk rs.ptrs N rl.path then .error ()
        else if !fnCallOk mapperNil a.strat then .error ()
        else
          let v := match a.strat with
            | .func k => applyFn k (readLeaf N rl)
            | _ => readLeaf N rl
          execCtor rs ws N mapperNil as { w with vals := w.vals ++ [(joinPath a.p.path, v)] }

def isSubStrat : Strat → Bool
  | .sub _ _ | .each _ _ => true
  | _ => false

/-- element type a recursive mapping is called on -/
def elemOf : Ty → Ty
  | .slice x => x.strip.2
  | x => x.strip.2

def isPtrTy : Ty → Bool
  | .ptr _ => true
  | _ => false

/-- the type mentions a named type declared in the source package -/
def Ty.mentionsSrc : Ty → Bool
  | .named p _ _ => p == .src
  | .ptr e => e.mentionsSrc
  | .slice e => e.mentionsSrc
  | _ => false

/-- the selector the generator prints for the field resolves, by Go's rule, to a field of the type the generator
    planned with (it can be another field of that name: a promoted `map:"-"` field hiding the collected one — F_skipShadow) -/
def resolvesAs (t : Tree) (f : Field) : Bool :=
  match resolveField t f with
  | some l => f.isGet || f.isSet || l.decl.ty == f.ty
  | none => false

/-- does the statement type-check: both selectors resolve to fields of the planned types, a setter is not read (but as a
    method value into an `any`), ToX/FromX exist only on the mapped struct types -/
def stmtCompiles (rs ws : Tree) (c : Claim) : Bool :=
  resolvesAs rs c.rd && resolvesAs ws c.wr && (!c.rd.isSet || c.wr.ty == .basic "any") &&
  (match c.strat with
   | .sub _ _ | .each _ _ => (elemOf c.rd.ty).isStructNamed && (elemOf c.wr.ty).isStructNamed
   | _ => true)

def argCompiles (rs : Tree) (a : CtorArg) : Bool :=
  match a.rd with
  | none => true
  | some rd => resolvesAs rs rd && (!rd.isSet || a.p.ty == .basic "any")

inductive Outcome where
  | panic
  | nil
  | value (w : WSt)
  deriving Repr, Inhabited

def ofExcept : Except Unit WSt → Outcome
  | .ok w => .value w
  | .error _ => .panic

def Input.srcSem (inp : Input) : SideSem :=
  ⟨inp.src, ptrPaths [] inp.src ++ (match inp.mapperPtr with | some true => [["Mapper"]] | _ => [])⟩
def Input.destSem (inp : Input) : SideSem := ⟨inp.dest, ptrPaths [] inp.dest⟩

/-- `s.ToX()` on a source value whose slots `N` are nil (`recvNil`: nil receiver); plan and tables precomputed -/
def execToP (inp : Input) (p : Plan) (t : Tables) (N : List String) (recvNil : Bool := false) : Outcome :=
  if recvNil then .nil else
  let mapperNil := inp.mapperPtr == some true && N.contains "Mapper"
  let rs := inp.srcSem
  let ws := inp.destSem
  ofExcept (do
    let w0 ← match p.destCtor with
      | some args => execCtor rs ws N mapperNil args {}
      | none => execAlloc ws.ptrs t.destAlloc {}
    execStmts rs ws N mapperNil p.toStmts w0)

def execTo (inp : Input) (N : List String) (recvNil : Bool := false) : Outcome :=
  execToP inp (plan inp) (tables inp (plan inp)) N recvNil

inductive Recv where
  | nil | clean | dirty
  deriving DecidableEq, Repr, Inhabited

/-- `r.FromX(d)` on a destination value whose slots `N` are nil. Without a constructor the receiver
    is reset first (`*s = T{}` / `s = new(T)`), so whatever `r` held is gone — including an embedded
    `*Mapper`; with one, the arguments are evaluated on the ORIGINAL receiver, before the nil test,
    and the constructor allocates every embedded pointer -/
def execFromP (inp : Input) (p : Plan) (t : Tables) (N : List String) (recv : Recv := .clean) (argNil : Bool := false) : Outcome :=
  if argNil then .nil else
  let rs := inp.destSem
  let ws := inp.srcSem
  ofExcept (do
    match p.srcCtor with
    | some args =>
      -- `s.Fn(x)` on the incoming receiver: nil receiver ⇒ panic; clean receiver ⇒ its *Mapper is nil
      let mNil := recv == .nil || (inp.mapperPtr == some true && recv == .clean)
      let w0 ← execCtor rs ws N mNil args {}
      execStmts rs ws N false p.fromStmts w0
    | none =>
      let w0 ← execAlloc ws.ptrs t.srcAlloc {}
      execStmts rs ws N (inp.mapperPtr == some true) p.fromStmts w0)

/-- mapper.tmpl, both paths of FromX: a non-nil receiver is written THROUGH (`*s = *_s_` after the constructor call, `*s = T{}`
    otherwise) and `s` is returned — so the receiver itself holds the result, the first time and when the object is reused -/
def fromWritesReceiver (_ : Input) : Bool := true

def execFrom (inp : Input) (N : List String) (recv : Recv := .clean) (argNil : Bool := false) : Outcome :=
  execFromP inp (plan inp) (tables inp (plan inp)) N recv argNil

def Outcome.show (leaves : List Leaf) : Outcome → String
  | .panic => "panic"
  | .nil => "nil"
  | .value w => ";".intercalate (leaves.map (fun l => joinPath l.path ++ "=" ++ (w.get (joinPath l.path)).show))

end ShootVerif.Mapper
