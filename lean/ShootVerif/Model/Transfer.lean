/-
Model of internal/transfer/transfer.go on ASCII strings (List Char). Mirrors the byte loops.
-/
namespace ShootVerif.Transfer

def isUpper (c : Char) : Bool := 'A' ≤ c && c ≤ 'Z'
def isLower (c : Char) : Bool := 'a' ≤ c && c ≤ 'z'
def toUpper (c : Char) : Char := if isLower c then Char.ofNat (c.toNat - 32) else c
def toLower (c : Char) : Char := if isUpper c then Char.ofNat (c.toNat + 32) else c

/-- strings.Split(s, "_") -/
def splitUnderscore : List Char → List (List Char)
  | [] => [[]]
  | c :: cs =>
    match splitUnderscore cs with
    | [] => [[]]
    | p :: ps => if c = '_' then [] :: p :: ps else (c :: p) :: ps

def upFirst : List Char → List Char
  | [] => []
  | c :: cs => toUpper c :: cs

/-- ToPascalCase -/
def pascal (s : List Char) : List Char :=
  if s.isEmpty then s else ((splitUnderscore s).map upFirst).flatten

/-- splitCamelTokensASCII: cut before index i ≥ 1 when upper s[i] ∧ (lower s[i-1] ∨ lower s[i+1]) -/
def splitCamelAux : Char → List Char → List Char → List (List Char)
  | _, [], cur => [cur.reverse]
  | prev, c :: cs, cur =>
    let nextLower := match cs with | n :: _ => isLower n | [] => false
    if isUpper c && (isLower prev || nextLower) then cur.reverse :: splitCamelAux c cs [c]
    else splitCamelAux c cs (c :: cur)

def splitCamel : List Char → List (List Char)
  | [] => [[]]
  | c :: cs => splitCamelAux c cs [c]

/-- ToCamelCase -/
def camel (s : List Char) : List Char :=
  if s.isEmpty then s else
  match splitCamel (pascal s) with
  | [] => []
  | t :: ts => (t.map toLower) ++ (ts.map (fun tok => match tok with
      | [] => []
      | c :: cs => toUpper c :: cs.map toLower)).flatten

/-- ToCamelCaseGO -/
def camelGO (s : List Char) : List Char :=
  if s.isEmpty then s
  else if s = s.map toUpper then s.map toLower
  else
    let p := pascal s
    let i := (p.takeWhile isUpper).length
    if i ≤ 1 then
      match p with
      | [] => []
      | c :: cs => toLower c :: cs
    else (p.take (i - 1)).map toLower ++ p.drop (i - 1)

/-- FirstLowerLetter -/
def firstLower (s : List Char) : List Char :=
  match s with
  | [] => []
  | c :: _ => [toLower c]

def camelS (s : String) : String := String.ofList (camel s.toList)
def pascalS (s : String) : String := String.ofList (pascal s.toList)
def camelGOS (s : String) : String := String.ofList (camelGO s.toList)
def firstLowerS (s : String) : String := String.ofList (firstLower s.toList)
def lowerS (s : String) : String := String.ofList (s.toList.map toLower)
def upperS (s : String) : String := String.ofList (s.toList.map toUpper)

end ShootVerif.Transfer
