/-
Model of `MergeSources` / `printDeclWithOwnComments` / `attachCommentsForDecl`
(internal/shoot/source.go:17-139) at the level of parsed files

    file = { package, comment groups (with byte positions), imports, declarations (with positions) }.

What is *not* modelled (externals, DESIGN 3.3): go/parser, go/printer (a declaration is an opaque
printed text), goimports/gofmt (`FormatSrc` after the merge) and `noopFix`.  The correspondence run
(tools/props/c08.py + harness/cmd/declcmp) compares the real merged file with the real one-type
files at exactly this level: package, header, import set, (doc comment, printed declaration)*.
-/
namespace ShootVerif.Merge

/-- `ast.ImportSpec`: optional name and the quoted path literal -/
structure Import where
  name : String := ""      -- "" = no explicit name
  path : String            -- `Path.Value`, quotes included
  deriving DecidableEq, Repr, Inhabited

/-- the de-duplication key of source.go:40-43: `Path.Value + Name.Name` (string concatenation) -/
def Import.key (i : Import) : String := i.path ++ i.name

/-- `ast.CommentGroup` with its byte positions -/
structure Comment where
  pos : Nat
  endp : Nat
  text : String
  deriving DecidableEq, Repr, Inhabited

/-- `ast.Decl`: `pos` is `decl.Pos()` – the keyword (`func`, `type`, `import`), never the doc comment -/
structure Decl where
  isImport : Bool := false
  pos : Nat
  endp : Nat
  text : String            -- printed form of the declaration (comments inside it included)
  docPos : Option Nat := none   -- `decl.Doc` as go/parser set it: the position of the doc comment group, if any
  deriving DecidableEq, Repr, Inhabited

structure File where
  pkg : String
  comments : List Comment  -- `file.Comments`, in position order
  imports : List Import    -- `file.Imports`
  decls : List Decl        -- `file.Decls`
  deriving Repr, Inhabited

/-- one printed declaration of the merged file: the comment groups attached to it, then its text -/
structure Item where
  comments : List String
  text : String
  deriving DecidableEq, Repr, Inhabited

structure Out where
  header : Option String   -- text of the first comment group of the first file
  pkg : String
  imports : List Import
  items : List Item
  deriving Repr, Inhabited

/-! ## imports: the loop of source.go:38-52 with `importSet` and `importDecls` -/

structure ImpAcc where
  seen : List String := []
  out : List Import := []

def impStep (a : ImpAcc) (i : Import) : ImpAcc :=
  if i.key ∈ a.seen then a else { seen := i.key :: a.seen, out := a.out ++ [i] }

def impFile (a : ImpAcc) (f : File) : ImpAcc := f.imports.foldl impStep a

def mergeImports (fs : List File) : List Import := (fs.foldl impFile {}).out

/-! ## declarations: source.go:76-87 and 120-139 -/

/-- `attachCommentsForDecl` (since fix 102a5c2): comment groups starting inside the declaration, and the
    declaration's own doc comment group (`cg == declDoc(decl)`, a group that ends before the declaration).
    Before the fix the second clause was "ends less than 10 bytes before it", which also caught a comment at
    the end of the previous declaration (`attachedBefore`, kept for the record). -/
def attached (d : Decl) (c : Comment) : Bool :=
  (d.pos ≤ c.pos && c.pos ≤ d.endp) || (c.endp ≤ d.pos && d.docPos = some c.pos)

def attachedBefore (d : Decl) (c : Comment) : Bool :=
  (d.pos ≤ c.pos && c.pos ≤ d.endp) || (c.endp ≤ d.pos && d.pos - c.endp < 10)

def attach (f : File) (d : Decl) : List Comment := f.comments.filter (attached d)

def item (f : File) (d : Decl) : Item := { comments := (attach f d).map (·.text), text := d.text }

/-- inner loop: `for _, decl := range f.Decls { if import → continue; print … }` -/
def declLoop (f : File) : List Decl → List Item → List Item
  | [], acc => acc
  | d :: ds, acc => if d.isImport then declLoop f ds acc else declLoop f ds (acc ++ [item f d])

/-- outer loop over the files, one output buffer -/
def fileLoop : List File → List Item → List Item
  | [], acc => acc
  | f :: fs, acc => fileLoop fs (declLoop f f.decls acc)

/-- `printDeclWithOwnComments` dies (`logx.Fatal`) when the printed mini-file does not contain
    `package <name of the FIRST file>`: every file that contributes a declaration must be of that package -/
def pkgClash (pkg : String) (fs : List File) : Bool :=
  fs.any (fun f => f.pkg ≠ pkg && f.decls.any (fun d => !d.isImport))

inductive Res where
  | empty                  -- no sources: `nil, nil`
  | fatal
  | ok (o : Out)
  deriving Repr, Inhabited

def merge : List File → Res
  | [] => .empty
  | f :: fs =>
    if pkgClash f.pkg (f :: fs) then .fatal
    else .ok { header := f.comments.head?.map (·.text), pkg := f.pkg,
               imports := mergeImports (f :: fs), items := fileLoop (f :: fs) [] }

def Res.out? : Res → Option Out
  | .ok o => some o
  | _ => none

end ShootVerif.Merge
