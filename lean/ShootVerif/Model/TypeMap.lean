import ShootVerif.Model.Ctor
/-
`TypeMap` of makeNew (new.go): `typeMap[f.name] = star + f.qualifiedType` for every entry of the flattened field list that
is neither shadowed nor an embedded-struct marker — a Go map keyed by field NAME, the last write wins. The template reads
it for the result type of a getter, the parameter type of a setter and of an option function, and the field types of the
-json shadow struct (`{{index $.TypeMap .}}`).
-/
namespace ShootVerif.Ctor

def typeEntries (fs : List Field) : List (String × String) :=
  fs.filterMap (fun f => if f.isEmbeded || f.isShadowed then none else some (f.name, f.ptype))

def typeMap (fs : List Field) (n : String) : Option String := (typeEntries fs).reverse.lookup n

end ShootVerif.Ctor
