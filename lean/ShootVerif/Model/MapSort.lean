/-
`sort.Strings` on dotted paths, on byte codes (List Nat): lexicographic order, insertion sort, and the
one fact the mapper's path tables need — a proper prefix path sorts before its extensions.
Standalone (no model import): the model's `sortPaths` is an instance of `isort`.
-/
namespace ShootVerif.MapSort

/-- lexicographic `<` on byte strings -/
def ltCodes : List Nat → List Nat → Bool
  | _, [] => false
  | [], _ :: _ => true
  | x :: xs, y :: ys => x < y || (x == y && ltCodes xs ys)

theorem ltCodes_irrefl (a : List Nat) : ltCodes a a = false := by
  induction a with
  | nil => rfl
  | cons x xs ih => simp [ltCodes, ih]

theorem ltCodes_trans (a b c : List Nat) (h1 : ltCodes a b = true) (h2 : ltCodes b c = true) : ltCodes a c = true := by
  induction a generalizing b c with
  | nil =>
    cases c with
    | nil => cases b <;> simp [ltCodes] at h2
    | cons z zs => rfl
  | cons x xs ih =>
    cases b with
    | nil => simp [ltCodes] at h1
    | cons y ys =>
      cases c with
      | nil => simp [ltCodes] at h2
      | cons z zs =>
        simp only [ltCodes, Bool.or_eq_true, decide_eq_true_eq, Bool.and_eq_true, beq_iff_eq] at *
        rcases h1 with h1 | ⟨e1, h1⟩ <;> rcases h2 with h2 | ⟨e2, h2⟩
        · left; omega
        · left; omega
        · left; omega
        · right; exact ⟨e1.trans e2, ih ys zs h1 h2⟩

theorem ltCodes_total (a b : List Nat) : ltCodes a b = true ∨ a = b ∨ ltCodes b a = true := by
  induction a generalizing b with
  | nil =>
    cases b with
    | nil => exact Or.inr (Or.inl rfl)
    | cons y ys => exact Or.inl rfl
  | cons x xs ih =>
    cases b with
    | nil => exact Or.inr (Or.inr rfl)
    | cons y ys =>
      simp only [ltCodes, Bool.or_eq_true, decide_eq_true_eq, Bool.and_eq_true, beq_iff_eq, List.cons.injEq]
      rcases Nat.lt_trichotomy x y with h | h | h
      · exact Or.inl (Or.inl h)
      · rcases ih ys with h' | h' | h'
        · exact Or.inl (Or.inr ⟨h, h'⟩)
        · exact Or.inr (Or.inl ⟨h, h'⟩)
        · exact Or.inr (Or.inr (Or.inr ⟨h.symm, h'⟩))
      · exact Or.inr (Or.inr (Or.inl h))

theorem ltCodes_asymm (a b : List Nat) (h : ltCodes a b = true) : ltCodes b a = false := by
  cases hb : ltCodes b a with
  | false => rfl
  | true => have := ltCodes_trans a b a h hb; rw [ltCodes_irrefl] at this; cases this

/-- a proper prefix is smaller than every extension, whatever the next byte is -/
theorem ltCodes_prefix (a : List Nat) (x : Nat) (r : List Nat) : ltCodes a (a ++ x :: r) = true := by
  induction a with
  | nil => rfl
  | cons y ys ih => simp [ltCodes, ih]

/-! ## insertion sort with a key -/

variable {α : Type} (key : α → List Nat)

def insertBy (x : α) : List α → List α
  | [] => [x]
  | y :: ys => if ltCodes (key x) (key y) then x :: y :: ys else y :: insertBy x ys

def isort (xs : List α) : List α := xs.foldr (insertBy key) []

theorem mem_insertBy (x y : α) (l : List α) : y ∈ insertBy key x l ↔ y = x ∨ y ∈ l := by
  induction l with
  | nil => simp [insertBy]
  | cons z zs ih =>
    simp only [insertBy]
    split
    · simp
    · simp only [List.mem_cons, ih]
      constructor
      · rintro (h | h | h)
        · exact Or.inr (Or.inl h)
        · exact Or.inl h
        · exact Or.inr (Or.inr h)
      · rintro (h | h | h)
        · exact Or.inr (Or.inl h)
        · exact Or.inl h
        · exact Or.inr (Or.inr h)

theorem mem_isort (y : α) (l : List α) : y ∈ isort key l ↔ y ∈ l := by
  induction l with
  | nil => simp [isort]
  | cons x xs ih =>
    have : isort key (x :: xs) = insertBy key x (isort key xs) := rfl
    rw [this, mem_insertBy, ih]
    simp

/-- sorted: no later element is strictly smaller than an earlier one -/
def Sorted (l : List α) : Prop := l.Pairwise (fun a b => ltCodes (key b) (key a) = false)

theorem sorted_insertBy (x : α) (l : List α) (h : Sorted key l) : Sorted key (insertBy key x l) := by
  induction l with
  | nil => simp [insertBy, Sorted]
  | cons y ys ih =>
    simp only [insertBy]
    have hy := List.pairwise_cons.mp h
    split
    · rename_i hlt
      refine List.pairwise_cons.mpr ⟨?_, h⟩
      intro b hb
      rcases List.mem_cons.mp hb with rfl | hb'
      · exact ltCodes_asymm _ _ hlt
      · -- key x < key y and ¬ key b < key y
        cases hbx : ltCodes (key b) (key x) with
        | false => rfl
        | true =>
          have := ltCodes_trans _ _ _ hbx hlt
          rw [hy.1 b hb'] at this
          cases this
    · rename_i hlt
      refine List.pairwise_cons.mpr ⟨?_, ih hy.2⟩
      intro b hb
      rcases (mem_insertBy key x b ys).mp hb with rfl | hb'
      · simpa using hlt
      · exact hy.1 b hb'

theorem sorted_isort (l : List α) : Sorted key (isort key l) := by
  induction l with
  | nil => simp [isort, Sorted]
  | cons x xs ih => exact sorted_insertBy key x _ ih

/-- an already sorted list whose neighbours are strictly increasing stays as it is -/
theorem isort_of_chain (l : List α) (h : l.Pairwise (fun a b => ltCodes (key a) (key b) = true)) : isort key l = l := by
  induction l with
  | nil => rfl
  | cons x xs ih =>
    have hx := List.pairwise_cons.mp h
    have : isort key (x :: xs) = insertBy key x (isort key xs) := rfl
    rw [this, ih hx.2]
    cases xs with
    | nil => rfl
    | cons y ys => simp [insertBy, hx.1 y (by simp)]

/-- in a sorted list a strictly smaller element stands before a larger one -/
theorem before_of_lt (l1 l2 : List α) (p h : α) (hs : Sorted key (l1 ++ p :: l2)) (hm : h ∈ l1 ++ p :: l2)
    (hlt : ltCodes (key h) (key p) = true) : h ∈ l1 := by
  rcases List.mem_append.mp hm with h1 | h2
  · exact h1
  · exfalso
    rcases List.mem_cons.mp h2 with rfl | h3
    · rw [ltCodes_irrefl] at hlt; cases hlt
    · have hp := (List.pairwise_append.mp hs).2.1
      have := (List.pairwise_cons.mp hp).1 h h3
      rw [hlt] at this; cases this

end ShootVerif.MapSort
