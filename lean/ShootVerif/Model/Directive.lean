import ShootVerif.Model.Transfer
/-
Hand-written recognisers for the directive regular expressions of internal/constructor/fields.go
(ASCII input; Go RE2 syntax, flags (?im)):

  get/set/new/getter/setter :  ^shoot:.*?\W<kw>(;.*|\s*)$
  def                       :  ^shoot:.*?\Wdef(ault)?=([^;\n]+)(;.*|\s*)$      (submatch 2, then TrimSpace)
  json / new tags           :  json:"([^"]*)"   new:"([^"]*)"                   (first match, submatch 1)

Tied to the code by the in-process differential `harness/cmd/dirx` (verif hooks) on ~10^5 strings.
-/
namespace ShootVerif.Directive
open ShootVerif.Transfer

def isWord (c : Char) : Bool := isUpper c || isLower c || ('0' ≤ c && c ≤ '9') || c == '_'
/-- RE2 `\s` = [\t\n\f\r ] -/
def isSpace (c : Char) : Bool := c == ' ' || c == '\t' || c == '\n' || c == '\r' || c == Char.ofNat 12

def lowerL (s : List Char) : List Char := s.map toLower

/-- strings.Split(doc, "\n") -/
def splitLines : List Char → List (List Char)
  | [] => [[]]
  | c :: cs =>
    match splitLines cs with
    | [] => [[]]
    | l :: ls => if c = '\n' then [] :: l :: ls else (c :: l) :: ls

def startsWithCI (s pre : List Char) : Bool := lowerL (s.take pre.length) == lowerL pre

/-- `(;.*|\s*)$` on the remainder of the line -/
def tailOK (tail : List Char) : Bool :=
  (match tail with | ';' :: _ => true | _ => false) || tail.all isSpace

def lineRest (s : List Char) : List Char := s.takeWhile (· != '\n')

/-- `.*?\W<kw>(;.*|\s*)$` from just after `shoot:`: `.*?` stays on the line, but the `\W` character may be the
    newline itself, so the keyword may open the NEXT line -/
def scanKw (kw : List Char) : List Char → Bool
  | [] => false
  | w :: rest =>
    (!isWord w && startsWithCI rest kw && rest.length ≥ kw.length && tailOK (lineRest (rest.drop kw.length))) ||
      (w != '\n' && scanKw kw rest)

/-- all suffixes that start a line (`^` with (?m)) -/
def lineStarts : List Char → List (List Char)
  | [] => [[]]
  | c :: cs => (c :: cs) :: (if c = '\n' then lineStarts cs else (lineStarts cs).drop 1)

def fromShoot (s : List Char) : Option (List Char) :=
  if startsWithCI s "shoot:".toList && s.length ≥ 6 then some (s.drop 6) else none

def docHasKw (kw : String) (doc : List Char) : Bool :=
  (lineStarts doc).any (fun s => match fromShoot s with | some r => scanKw kw.toList r | none => false)

def parseGetSet (doc : List Char) : Bool × Bool := (docHasKw "get" doc, docHasKw "set" doc)
def parseNew (doc : List Char) : Bool := docHasKw "new" doc
def parseGetterSetter (doc : List Char) : Bool × Bool := (docHasKw "getter" doc, docHasKw "setter" doc)

/-- submatches (ault-group, value, tail) of `def(ault)?=([^;\n]+)(;.*|\s*)$` at this position -/
def defAt (rest : List Char) : Option (List Char × List Char × List Char) :=
  if startsWithCI rest "def".toList && rest.length ≥ 3 then
    let r := rest.drop 3
    let tryVal (g : List Char) (r : List Char) : Option (List Char × List Char × List Char) :=
      match r with
      | '=' :: v =>
        let val := v.takeWhile (fun c => c != ';' && c != '\n')
        if val.isEmpty then none else some (g, val, lineRest (v.drop val.length))
      | _ => none
    -- `(ault)?` is greedy: first with "ault", then without
    let withAult := if startsWithCI r "ault".toList && r.length ≥ 4 then tryVal (r.take 4) (r.drop 4) else none
    match withAult with
    | some v => some v
    | none => tryVal [] r
  else none

def scanDef : List Char → Option (List Char × List Char × List Char)
  | [] => none
  | w :: rest =>
    match (if !isWord w then defAt rest else none) with
    | some v => some v
    | none => if w != '\n' then scanDef rest else none

/-- the leftmost match of the whole expression in the doc -/
def findDef (doc : List Char) : Option (List Char × List Char × List Char) :=
  (lineStarts doc).findSome? (fun s => (fromShoot s).bind scanDef)

/-- parseDefComment (before TrimSpace), INCLUDING the quirk of its submatch loop
    `for idx, m := range ms { if (m == "" || m == "ault") && idx+1 < len(ms) { return ms[idx+1] } }`:
    the captured `(ault)?` text is compared case-sensitively, so `DEFAULT=` is not recognised (and when
    the value itself is "ault" the TAIL is returned) -/
def parseDef (doc : List Char) : Option (List Char) :=
  match findDef doc with
  | none => none
  | some (g, val, tail) =>
    if g.isEmpty || g == "ault".toList then some val
    else if val.isEmpty || val == "ault".toList then some tail
    else none

/-- first `<key>:"…"` in a raw tag: the text between the quotes -/
def tagValueFrom (key : List Char) : List Char → Option (List Char)
  | [] => none
  | c :: cs =>
    let s := c :: cs
    if s.take key.length == key && (s.drop key.length).take 2 == [':', '"'] then
      let body := s.drop (key.length + 2)
      let v := body.takeWhile (· != '"')
      if (body.drop v.length).head? == some '"' then some v else tagValueFrom key cs
    else tagValueFrom key cs

/-- parseJSONTag / parseNewTag: "" when absent -/
def parseTag (key : String) (tag : List Char) : List Char := (tagValueFrom key.toList tag).getD []

end ShootVerif.Directive
