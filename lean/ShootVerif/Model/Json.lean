import ShootVerif.Model.GetSet
/-
Model of `shoot new -json` (json.go makeJson; constructor.tmpl: shadow struct `_json_T`,
MarshalJSON, UnmarshalJSON). encoding/json on the shadow struct is external: it maps the shadow
struct's fields to keys (their tags) and back.
-/
namespace ShootVerif.Json
open ShootVerif.Ctor ShootVerif.Transfer ShootVerif.GetSet

inductive TagCase where
  | pascal | camel | lower | upper
  deriving Repr, DecidableEq

def trans : TagCase → String → String
  | .pascal => pascalS
  | .camel => camelS
  | .lower => lowerS
  | .upper => upperS

/-- one entry of JSONList -/
structure JKey where
  key : String       -- the json key (shadow-struct tag)
  name : String      -- the field (read / written through the selector of that name)
  exported : Bool
  hasGet : Bool      -- in JSONGetterList: MarshalJSON fills it with `t.Pascal(name)()`
  hasSet : Bool      -- in JSONSetterList: UnmarshalJSON calls `t.SetPascal(name)(x)`
  ownGet : Bool      -- the call targets T's own getter (field-level flag) rather than a promoted one
  ownSet : Bool
  deriving Repr, DecidableEq

/-- makeJson over the generator's list. `sw` = the type-level (getter, setter) switch; `promG`/`promS`:
    names of the accessor methods collected from embedded shoot types (`getsetMethods`).
    Explicit tags are kept verbatim (fd6fe9d); own accessors are gated by the type switch (9314149). -/
def jsonKeys (getset : Bool) (tc : TagCase) (sw : Bool × Bool) (promG promS : List String) (fs : List Field) : List JKey :=
  fs.filterMap (fun f =>
    if f.isShadowed || f.isEmbeded then none
    else
      let tag := if f.jsonTag ≠ "" then f.jsonTag else trans tc f.name
      if isExportedName f.name then some ⟨tag, f.name, true, false, false, false, false⟩
      else
        let og := getset && f.isGet && sw.1
        let os := getset && f.isSet && sw.2
        let g := og || promG.contains (pascalS f.name)
        let s := os || promS.contains ("Set" ++ pascalS f.name)
        if g || s then some ⟨tag, f.name, false, g, s, og, os⟩ else none)

/-- `data.JSON`: are MarshalJSON / UnmarshalJSON emitted at all -/
def needJSON (getset : Bool) (tc : TagCase) (sw : Bool × Bool) (promG promS : List String) (fs : List Field) : Bool :=
  -- a type that embeds a struct always gets its own methods: a MarshalJSON promoted from the embedded struct (an embedded
  -- shoot type generated with -json has one) would encode the embedded part only
  fs.any (fun f => f.isEmbeded && !f.isShadowed) ||
  fs.any (fun f =>
    !f.isShadowed && !f.isEmbeded &&
      (if isExportedName f.name then f.jsonTag = "" && trans tc f.name ≠ f.name
       else (getset && f.isGet && sw.1) || promG.contains (pascalS f.name) ||
            (getset && f.isSet && sw.2) || promS.contains ("Set" ++ pascalS f.name)))

/-- what MarshalJSON puts under each key: the field's value, or zero when there is no getter -/
inductive MVal where
  | field (name : String)
  | zero
  deriving Repr, DecidableEq

def marshalPlan (ks : List JKey) : List (String × MVal) :=
  ks.map (fun k => (k.key, if k.exported || k.hasGet then .field k.name else .zero))

/-- what UnmarshalJSON does with the value found under each key -/
def unmarshalPlan (ks : List JKey) : List (String × Option String) :=
  ks.map (fun k => (k.key, if k.exported || k.hasSet then some k.name else none))

end ShootVerif.Json
