/-
Model of middleware/retry.go: RetryMiddleware(maxRetries, delay)(next).RoundTrip(req)

    var resp, err
    for attempt := 0; attempt <= maxRetries; attempt++ {
        attemptReq := req
        if attempt > 0 {
            log; time.Sleep(delay)
            if req.Body != nil && req.Body != http.NoBody && req.GetBody != nil {     -- since 371dec3
                body, gerr := req.GetBody()
                if gerr != nil { return resp, err }        -- cannot be sent again: the last attempt's outcome stands
                attemptReq = req.Clone(req.Context()); attemptReq.Body = body
            }
        }
        resp, err = next.RoundTrip(attemptReq)
        if err == nil && resp.StatusCode < 500 { return resp, nil }
    }
    return resp, err

The wrapped transport is an outcome script `Nat → Outcome` (what the i-th call returns).
`loop`/`retry` are the loop for a request whose body never makes `GetBody` fail (the property's quantifier);
`loopB`/`retryB` are the whole loop with the request's body kind as a parameter (`ReqBody`), including the early
exit when `GetBody` fails, and `view` says which request object and which body each attempt is handed.
-/
namespace ShootVerif.Retry

/-- what one call of the wrapped transport returns -/
inductive Outcome where
  | err                      -- (nil, err)
  | errResp (status : Nat)   -- (resp, err): both non-nil (allowed by the RoundTripper type)
  | resp (status : Nat)      -- (resp, nil)
  deriving Repr, DecidableEq, Inhabited

/-- the loop's exit test `err == nil && resp.StatusCode < 500` -/
def Outcome.acceptable : Outcome → Bool
  | .resp s => s < 500
  | _ => false

def Outcome.hasResp : Outcome → Bool
  | .err => false
  | _ => true

def Outcome.hasErr : Outcome → Bool
  | .resp _ => false
  | _ => true

inductive Event where
  | sleep            -- time.Sleep(delay) (preceded by the log line)
  | call (i : Nat)   -- the i-th call of the wrapped transport
  deriving Repr, DecidableEq

/-- what RoundTrip returns: which attempt's response object / error object (none = nil) -/
structure Ret where
  resp : Option Nat
  err : Option Nat
  deriving Repr, DecidableEq

def retOf (last : Option (Nat × Outcome)) : Ret :=
  match last with
  | none => ⟨none, none⟩
  | some (i, o) => ⟨if o.hasResp then some i else none, if o.hasErr then some i else none⟩

/-- the `for` loop: `remaining` iterations left, next attempt index `a`,
    `last` = the values currently held by `resp, err` -/
def loop (script : Nat → Outcome) : (remaining a : Nat) → (last : Option (Nat × Outcome)) → List Event × Ret
  | 0, _, last => ([], retOf last)
  | r + 1, a, _ =>
    let pre := if a > 0 then [Event.sleep] else []
    let o := script a
    if o.acceptable then (pre ++ [Event.call a], ⟨some a, none⟩)
    else
      let (t, res) := loop script r (a + 1) (some (a, o))
      (pre ++ [Event.call a] ++ t, res)

/-- `attempt <= maxRetries` from 0: `maxRetries + 1` iterations, none when negative -/
def retry (script : Nat → Outcome) (maxRetries : Int) : List Event × Ret :=
  if maxRetries < 0 then ([], ⟨none, none⟩) else loop script (maxRetries.toNat + 1) 0 none

def calls (t : List Event) : Nat := (t.filter (fun e => e != Event.sleep)).length

/-! ## The request's body (the branch added by 371dec3) -/

/-- what the request carries -/
inductive ReqBody where
  | none                            -- `Body == nil` or `http.NoBody`
  | stream                          -- a body without `GetBody`: it cannot be read a second time
  | replay (failAt : Option Nat)    -- `GetBody` is set; the call made before attempt `k` fails when `failAt = some k`
  deriving Repr, DecidableEq, Inhabited

/-- the attempt before which `GetBody` reports an error (if any) -/
def ReqBody.failAt : ReqBody → Option Nat
  | .replay f => f
  | _ => Option.none

/-- what one attempt is handed: the caller's request object or a clone, and the state of its body -/
inductive View where
  | origNoBody | origFull | origDrained | cloneFull
  deriving Repr, DecidableEq

/-- attempt 0 gets the request itself; later attempts get a clone with a fresh reader when the body can be
    replayed, otherwise the same request again (whose stream the first attempt has read to its end) -/
def view (b : ReqBody) (attempt : Nat) : View :=
  match b with
  | .none => .origNoBody
  | .stream => if attempt = 0 then .origFull else .origDrained
  | .replay _ => if attempt = 0 then .origFull else .cloneFull

/-- the whole `for` loop: as `loop`, plus the early exit `if gerr != nil { return resp, err }` taken before
    attempt `a > 0` when that attempt's `GetBody` call fails (the wait of that attempt has already happened) -/
def loopB (script : Nat → Outcome) (fail : Option Nat) : (remaining a : Nat) → (last : Option (Nat × Outcome)) → List Event × Ret
  | 0, _, last => ([], retOf last)
  | r + 1, a, last =>
    let pre := if a > 0 then [Event.sleep] else []
    if a > 0 ∧ fail = some a then (pre, retOf last)
    else
      let o := script a
      if o.acceptable then (pre ++ [Event.call a], ⟨some a, none⟩)
      else
        let (t, res) := loopB script fail r (a + 1) (some (a, o))
        (pre ++ [Event.call a] ++ t, res)

def retryB (script : Nat → Outcome) (maxRetries : Int) (b : ReqBody) : List Event × Ret :=
  if maxRetries < 0 then ([], ⟨none, none⟩) else loopB script b.failAt (maxRetries.toNat + 1) 0 none

/-- the request views of the calls of a trace, in order -/
def views (b : ReqBody) (t : List Event) : List View :=
  t.filterMap (fun e => match e with | .call i => some (view b i) | .sleep => Option.none)

/-! ## Specification (straight from the property statement) -/

/-- index of the first acceptable outcome among attempts `a, a+1, …, a+k-1` -/
def firstAcceptable (script : Nat → Outcome) : (k a : Nat) → Option Nat
  | 0, _ => none
  | k + 1, a => if (script a).acceptable then some a else firstAcceptable script k (a + 1)

/-- `call 0 (sleep; call i)*` with `m` calls -/
def specTrace : (m : Nat) → List Event
  | 0 => []
  | m + 1 => specTrace m ++ (if m > 0 then [Event.sleep, Event.call m] else [Event.call m])

def spec (script : Nat → Outcome) (n : Nat) : List Event × Ret :=
  match firstAcceptable script (n + 1) 0 with
  | some k => (specTrace (k + 1), ⟨some k, none⟩)
  | none => (specTrace (n + 1), retOf (some (n, script n)))

/-- with a body whose `GetBody` fails before attempt `k` (1 ≤ k ≤ n): the attempts `0 … k-1` run as usual; if none of
    them was acceptable the loop waits once more, cannot rebuild the request and returns the outcome of attempt `k-1` -/
def specB (script : Nat → Outcome) (n : Nat) (b : ReqBody) : List Event × Ret :=
  match b.failAt with
  | some k =>
    if 0 < k ∧ k ≤ n then
      match firstAcceptable script k 0 with
      | some j => (specTrace (j + 1), ⟨some j, none⟩)
      | none => (specTrace k ++ [Event.sleep], retOf (some (k - 1, script (k - 1))))
    else spec script n
  | none => spec script n

end ShootVerif.Retry
