/-
Model of middleware/retry.go: RetryMiddleware(maxRetries, delay)(next).RoundTrip(req)

    var resp, err
    for attempt := 0; attempt <= maxRetries; attempt++ {
        if attempt > 0 { log; time.Sleep(delay) }
        resp, err = next.RoundTrip(req)
        if err == nil && resp.StatusCode < 500 { return resp, nil }
    }
    return resp, err

The wrapped transport is an outcome script `Nat → Outcome` (what the i-th call returns).
-/
namespace ShootVerif.Retry

/-- what one call of the wrapped transport returns -/
inductive Outcome where
  | err                      -- (nil, err)
  | errResp (status : Nat)   -- (resp, err): both non-nil (allowed by the RoundTripper type)
  | resp (status : Nat)      -- (resp, nil)
  deriving Repr, DecidableEq, Inhabited

/-- the loop's exit test `err == nil && resp.StatusCode < 500` -/
def Outcome.acceptable : Outcome → Bool
  | .resp s => s < 500
  | _ => false

def Outcome.hasResp : Outcome → Bool
  | .err => false
  | _ => true

def Outcome.hasErr : Outcome → Bool
  | .resp _ => false
  | _ => true

inductive Event where
  | sleep            -- time.Sleep(delay) (preceded by the log line)
  | call (i : Nat)   -- the i-th call of the wrapped transport
  deriving Repr, DecidableEq

/-- what RoundTrip returns: which attempt's response object / error object (none = nil) -/
structure Ret where
  resp : Option Nat
  err : Option Nat
  deriving Repr, DecidableEq

def retOf (last : Option (Nat × Outcome)) : Ret :=
  match last with
  | none => ⟨none, none⟩
  | some (i, o) => ⟨if o.hasResp then some i else none, if o.hasErr then some i else none⟩

/-- the `for` loop: `remaining` iterations left, next attempt index `a`,
    `last` = the values currently held by `resp, err` -/
def loop (script : Nat → Outcome) : (remaining a : Nat) → (last : Option (Nat × Outcome)) → List Event × Ret
  | 0, _, last => ([], retOf last)
  | r + 1, a, _ =>
    let pre := if a > 0 then [Event.sleep] else []
    let o := script a
    if o.acceptable then (pre ++ [Event.call a], ⟨some a, none⟩)
    else
      let (t, res) := loop script r (a + 1) (some (a, o))
      (pre ++ [Event.call a] ++ t, res)

/-- `attempt <= maxRetries` from 0: `maxRetries + 1` iterations, none when negative -/
def retry (script : Nat → Outcome) (maxRetries : Int) : List Event × Ret :=
  if maxRetries < 0 then ([], ⟨none, none⟩) else loop script (maxRetries.toNat + 1) 0 none

def calls (t : List Event) : Nat := (t.filter (fun e => e != Event.sleep)).length

/-! ## Specification (straight from the property statement) -/

/-- index of the first acceptable outcome among attempts `a, a+1, …, a+k-1` -/
def firstAcceptable (script : Nat → Outcome) : (k a : Nat) → Option Nat
  | 0, _ => none
  | k + 1, a => if (script a).acceptable then some a else firstAcceptable script k (a + 1)

/-- `call 0 (sleep; call i)*` with `m` calls -/
def specTrace : (m : Nat) → List Event
  | 0 => []
  | m + 1 => specTrace m ++ (if m > 0 then [Event.sleep, Event.call m] else [Event.call m])

def spec (script : Nat → Outcome) (n : Nat) : List Event × Ret :=
  match firstAcceptable script (n + 1) 0 with
  | some k => (specTrace (k + 1), ⟨some k, none⟩)
  | none => (specTrace (n + 1), retOf (some (n, script n)))

end ShootVerif.Retry
