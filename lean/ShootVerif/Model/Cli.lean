/-
Model of the command-line driver of `shoot` as far as property C16 is concerned
(internal/shoot/generatorbase.go, the ListTypes/testNode/MakeData filters of the four
sub-commands, cmd/shoot/main.go). The model mirrors the algorithm the code uses, quirks included.

    main:            g.ParseFlags(); g.LoadPackage(); srcMap := g.Generate(g)
                     for fname, src := range srcMap { notedownSrc(fname, src); fileNames += fname }
                     len(srcMap) == 0 -> warn "nothing generated"; else sort.Strings(fileNames); success message lists them
    ParseCommonFlags isTypeSpecified = type != "" && type != "*"; Separate = isTypeSpecified || sep || separate
                     no -type and no -file -> usage, exit 2; -file must end in .go and exist
    LoadPackage      FileName == "" && "*" in TypeNames: first file (Syntax order) having a comment that
                     matches ^//go:generate.*<cmdline>$  ->  allInOneFile
    confirmTypes     specified: for each name gofile = getGoFile(name) (package scope lookup; "" when missing);
                     FileName == "" -> fileNameMap[name] = gofile, else FileName != gofile -> Fatal
                     not specified: TypeNames = ListTypes()
    Generate         for each name: MakeData (nil -> skip, may Fatal); filename = fileName(name);
                     Separate -> srcMap[filename] = src, else srcList += src;
                     srcList non-empty -> srcMap[fileName("")] = merge(srcList)
    fileName(t)      prefix = FileName ?: allInOneFile ?: fileNameMap[t];  t == "" -> prefix.shoot<cmd>.go;
                     unexported t -> "_"+t;  prefix.shoot<cmd>.<lower t>.go

Externals taken as inputs: the result of Go's flag package (`Flags`), go/types facts of each declaration
(underlying basic kind, what an interface embeds, whether the dest package has a struct of the same name),
string functions (ASCII, over `toList`).
-/
namespace ShootVerif.Cli

inductive Cmd where
  | new | enum | rest | map
  deriving DecidableEq, Repr, Inhabited

def Cmd.str : Cmd → String
  | .new => "new" | .enum => "enum" | .rest => "rest" | .map => "map"

/-- underlying basic kind of a declared type (go/types fact) -/
inductive BKind where
  | int | uint | int32 | uint32   -- the four kinds enum's ListTypes accepts
  | otherInt                      -- int8/16/64, uint8/16/64, uintptr
  | nonInt                        -- string, float, bool, ...
  deriving DecidableEq, Repr

def BKind.listed : BKind → Bool
  | .int | .uint | .int32 | .uint32 => true
  | _ => false

def BKind.integer : BKind → Bool
  | .nonInt => false
  | _ => true

/-- one embedded element of an interface type, as restclient.testNode sees it -/
inductive Embed where
  | restClient   -- *types.Named, package github.com/lopolopen/shoot, name RestClient
  | named        -- any other *types.Named with a package
  | universe     -- *types.Named without a package (`error`, `comparable`): obj.Pkg() == nil
  | other        -- not a *types.Named (union, alias, ...)
  deriving DecidableEq, Repr

/-- syntactic form of the type expression of a TypeSpec -/
inductive Shape where
  | struct
  | iface (embeds : List Embed)
  | other          -- identifier, selector, map, func, pointer ...
  deriving DecidableEq, Repr

structure TSpec where
  name : String
  shape : Shape
  alias : Bool := false              -- `type A = ...`
  under : Option BKind := none       -- underlying basic kind, if the underlying type is basic
  tparams : List String := []        -- names of its type parameters (each is a *types.TypeName in Defs)
  hasDest : Bool := true             -- map: the dest package declares a struct of the same name
  deriving DecidableEq, Repr

/-- one ValueSpec of a const declaration -/
structure CSpec where
  names : List String
  typ : Option String := none        -- explicit type identifier
  hasValues : Bool := true
  deriving DecidableEq, Repr

inductive Decl where
  | types (specs : List TSpec)                          -- `type ( ... )`
  | consts (specs : List CSpec)                         -- `const ( ... )`
  | func (tparams : List String) (locals : List TSpec)  -- function/method: type parameters, local type declarations
  | other
  deriving Repr

structure File where
  name : String               -- base name, e.g. "a.go"
  decls : List Decl
  comments : List String      -- text of every `//` comment of the file, in order
  deriving Repr

/-- primary package: files in `Syntax` order -/
abbrev Pkg := List File

/-- what Go's flag package hands to ParseCommonFlags -/
structure Flags where
  types : List String := []   -- `-type` split on ","; [] = flag absent or empty
  file : String := ""         -- `-file`
  sep : Bool := false         -- `-sep` or `-separate`
  cmdline : String := ""      -- "shoot " + strings.Join(args, " ")
  deriving Repr

/-! ### opaque string helpers -/

def underscore (n : String) : Bool :=
  match n.toList with
  | '_' :: _ => true
  | _ => false

/-- ast.IsExported (ASCII identifiers) -/
def exported (n : String) : Bool :=
  match n.toList with
  | c :: _ => c.isUpper
  | [] => false

/-- strings.ToLower (ASCII) -/
def lower (n : String) : String := String.ofList (n.toList.map Char.toLower)

/-- the type component of a per-type output name: unexported -> "_" + name; lower-cased -/
def comp (n : String) : String := (if exported n then "" else "_") ++ lower n

def endsGo (f : String) : Bool := ".go".toList.isSuffixOf f.toList

/-- strings.TrimSuffix(f, ".go") -/
def stem (f : String) : String :=
  if endsGo f then String.ofList (f.toList.take (f.toList.length - 3)) else f

/-- findCmdLine on one `//` comment: `^//go:generate.*<cmdline>$` -/
def isDirective (cmdline line : String) : Bool :=
  "//go:generate".toList.isPrefixOf line.toList && cmdline.toList.isSuffixOf (line.toList.drop 13)

/-- an output file name `<src>.shoot<cmd>[.<ty>].go` (the sub-command is global to a run) -/
structure OutName where
  src : String
  ty : Option String
  deriving DecidableEq, Repr

def OutName.render (cmd : Cmd) (o : OutName) : String :=
  o.src ++ ".shoot" ++ cmd.str ++ (match o.ty with | some t => "." ++ t | none => "") ++ ".go"

/-! ### walking the syntax -/

/-- every TypeSpec node ast.Inspect reaches below a declaration (package level and function-local) -/
def Decl.tspecs : Decl → List TSpec
  | .types ss => ss
  | .func _ ls => ls
  | _ => []

def declsTSpecs : List Decl → List TSpec
  | [] => []
  | d :: r => d.tspecs ++ declsTSpecs r

def File.tspecs (f : File) : List TSpec := declsTSpecs f.decls

def allTSpecs : Pkg → List TSpec
  | [] => []
  | f :: r => f.tspecs ++ allTSpecs r

/-- package-level type declarations of a file, in order -/
def topSpecs : List Decl → List TSpec
  | [] => []
  | .types ss :: r => ss ++ topSpecs r
  | _ :: r => topSpecs r

/-- getGoFile: `pkg.Types.Scope().Lookup(name)` as a *types.TypeName, file of its position; "" when the package scope
    has no such type (type parameters and function-local types are not in the package scope) -/
def getGoFile (n : String) : Pkg → String
  | [] => ""
  | f :: r => if (topSpecs f.decls).any (·.name == n) then f.name else getGoFile n r

/-! ### LoadPackage: the go:generate line lookup -/

def commentsMatch (cmdline : String) : List String → Bool
  | [] => false
  | c :: r => if isDirective cmdline c then true else commentsMatch cmdline r

/-- `end: for i, f := range Syntax { for comments { if findCmdLine { allInOneFile = base(GoFiles[i]); break end } } }` -/
def findAllInOne (cmdline : String) : Pkg → String
  | [] => ""
  | f :: r => if commentsMatch cmdline f.comments then f.name else findAllInOne cmdline r

/-! ### what stops a run before anything is written -/

inductive Stop where
  | usage          -- sub.Usage(); os.Exit(2)
  | fatal          -- logx.Fatal*: diagnostic, exit 1
  | panic          -- Go runtime panic (none is modelled any more: the known ones were repaired in /repo)
  deriving DecidableEq, Repr

/-! ### the four ListTypes filters (TestFile already applied: the list is the tested files' TypeSpecs) -/

/-- restclient.testNode's loop over the embedded elements: a universe type (`error`: obj.Pkg() == nil) is skipped -/
def ifaceTest : List Embed → Bool
  | [] => false
  | .restClient :: _ => true
  | _ :: r => ifaceTest r

def listNew : List TSpec → List String
  | [] => []
  | t :: r => if !underscore t.name && t.shape == .struct then t.name :: listNew r else listNew r

def listMap : List TSpec → List String
  | [] => []
  | t :: r => if t.shape == .struct && exported t.name then t.name :: listMap r else listMap r

def listEnum : List TSpec → List String
  | [] => []
  | t :: r =>
    match t.under with
    | some k => if k.listed then (if t.alias then listEnum r else t.name :: listEnum r) else listEnum r
    | none => listEnum r

def listRest : List TSpec → List String
  | [] => []
  | t :: r =>
    match t.shape with
    | .iface es => if ifaceTest es then t.name :: listRest r else listRest r
    | _ => listRest r

/-- enum's ListTypes warns "alias type … will be ignored" -/
def enumAliasWarn : List TSpec → Bool
  | [] => false
  | t :: r => (match t.under with | some k => k.listed && t.alias | none => false) || enumAliasWarn r

/-- TestFile: all files, or the one named by -file -/
def testedSpecs (file : String) : Pkg → List TSpec
  | [] => []
  | f :: r => (if file == "" || f.name == file then f.tspecs else []) ++ testedSpecs file r

/-- `new` (since /repo 1819261): the walk does not descend into function bodies (*ast.FuncDecl / *ast.FuncLit are cut off),
    so only the package-level TypeSpecs of the tested files are seen -/
def testedTop (file : String) : Pkg → List TSpec
  | [] => []
  | f :: r => (if file == "" || f.name == file then topSpecs f.decls else []) ++ testedTop file r

def listTypes (cmd : Cmd) (pkg : Pkg) (file : String) : Except Stop (List String) :=
  match cmd with
  | .new => pure (listNew (testedTop file pkg))
  | .map => pure (listMap (testedSpecs file pkg))
  | .enum => pure (listEnum (testedSpecs file pkg))
  | .rest => pure (listRest (testedSpecs file pkg))

/-! ### enum: makeStr's walk over const declarations (stringer's type carry-down) -/

/-- names collected from one const block for type `n`; `typ` is the remembered type name
    (`none` = the Go code's `typ == ""`: identifiers are never empty) -/
def carry (n : String) : (typ : Option String) → List CSpec → List String
  | _, [] => []
  | typ, s :: r =>
    match s.typ with
    | none => if s.hasValues then carry n none r      -- "X = 1": untyped, reset
              else (if typ == some n then s.names.filter (· != "_") else []) ++ carry n typ r
    | some t => (if t == n then s.names.filter (· != "_") else []) ++ carry n (some t) r

def declsConsts (n : String) : List Decl → List String
  | [] => []
  | .consts ss :: r => carry n none ss ++ declsConsts n r
  | _ :: r => declsConsts n r

def constsOf (n : String) : Pkg → List String
  | [] => []
  | f :: r => declsConsts n f.decls ++ constsOf n r

/-! ### MakeData (true = template data, false = nil: skipped) -/

def namedSpecs (pkg : Pkg) (n : String) : List TSpec := (allTSpecs pkg).filter (·.name == n)

/-- every package-level TypeSpec of the package -/
def allTop : Pkg → List TSpec
  | [] => []
  | f :: r => topSpecs f.decls ++ allTop r

/-- `new`'s parseFields (since /repo 1819261): function bodies are not entered, a function-local type of that name is not seen -/
def namedTop (pkg : Pkg) (n : String) : List TSpec := (allTop pkg).filter (·.name == n)

/-- `obj.Type().Underlying().(*types.Basic).Info() & IsInteger == 0` -/
def nonIntUnder (t : TSpec) : Bool := match t.under with | some k => !k.integer | none => false

/-- rest: hasClient — some TypeSpec of that name is a RestClient interface -/
def restHas : List TSpec → Bool
  | [] => false
  | t :: r =>
    match t.shape with
    | .iface es => ifaceTest es || restHas r
    | _ => restHas r

/-- a predeclared non-integer type (no declaration of that name in the package): constants typed with it make makeStr stop
    ("can't handle non-integer constant type") -/
def predeclNonInt (n : String) : Bool :=
  ["string", "bool", "float32", "float64", "complex64", "complex128"].contains n

def makeData (cmd : Cmd) (pkg : Pkg) (specified : Bool) (n : String) : Except Stop Bool :=
  let ts := namedSpecs pkg n
  match cmd with
  | .new =>
    -- testNode(name) on the package-level TypeSpecs: one of that name which is not a struct -> Fatal "is not a struct type";
    -- `_`-prefixed -> not found; nothing found (also: declared only inside a function) -> Fatal "type not exists"
    let ts := namedTop pkg n
    if ts.any (fun t => t.shape != .struct) then throw .fatal
    else if ts.any (fun t => !underscore t.name) then pure true
    else throw .fatal
  | .enum =>
    -- makeStr: alias of that name -> Fatal; constants of a non-integer type -> Fatal; no constant -> nil
    -- (with a warning "no constants of type … found" when the type was named: `skipWarn`).
    -- Since /repo 17b8707 makeStr's walk does not enter function bodies: only package-level TypeSpecs are seen
    let ts := namedTop pkg n
    if ts.any (·.alias) then throw .fatal
    else if (constsOf n pkg).isEmpty then pure false
    else if ts.any nonIntUnder || (ts.isEmpty && predeclNonInt n) then throw .fatal
    else pure true
  | .rest =>
    -- hasClient: no RestClient interface of that name -> Fatal "is not an interface embedding shoot.RestClient"
    if restHas ts then pure true else throw .fatal
  | .map =>
    -- src: a struct TypeSpec of that name (exportedness only matters in ListTypes) else Fatal;
    -- dest: missing -> Fatal when specified, nil otherwise
    match ts.find? (fun t => t.shape == .struct) with
    | none => throw .fatal
    | some t => if t.hasDest then pure true else if specified then throw .fatal else pure false

/-- the Generate loop's calls of MakeData: every type is analysed before anything is written -/
def keep (cmd : Cmd) (pkg : Pkg) (specified : Bool) : List String → Except Stop (List String)
  | [] => pure []
  | n :: r =>
    match makeData cmd pkg specified n with
    | .error e => .error e
    | .ok b =>
      match keep cmd pkg specified r with
      | .error e => .error e
      | .ok l => .ok (if b then n :: l else l)

/-! ### confirmTypes, fileName, srcMap -/

def confirm (pkg : Pkg) (file : String) : List String → Except Stop (List (String × String))
  | [] => pure []
  | n :: r =>
    let g := getGoFile n pkg
    if file == "" then
      match confirm pkg file r with
      | .error e => .error e
      | .ok m => .ok ((n, g) :: m)
    else if file != g then .error .fatal     -- "type … is not in the specified file"
    else confirm pkg file r

def fileName (file aio : String) (fnm : List (String × String)) (t : String) : OutName :=
  let fname := if file != "" then file else if aio != "" then aio else (fnm.lookup t).getD ""
  ⟨stem fname, if t == "" then none else some (comp t)⟩

/-- `srcMap[k] = v` -/
def upsert (m : List (OutName × List String)) (k : OutName) (v : List String) : List (OutName × List String) :=
  match m with
  | [] => [(k, v)]
  | (k', v') :: r => if k' == k then (k, v) :: r else (k', v') :: upsert r k v

def upserts (m : List (OutName × List String)) : List (OutName × List String) → List (OutName × List String)
  | [] => m
  | (k, v) :: r => upserts (upsert m k v) r

inductive Outcome where
  | stop (s : Stop)
  /-- `written`: file ↦ the types it holds; `listed`: the names printed after the success line;
      `warned`: some ⚠️ line was printed -/
  | done (written : List (OutName × List String)) (listed : List OutName) (warned : Bool)
  deriving Repr, DecidableEq

/-- byte-wise lexicographic order (sort.Strings on ASCII names) -/
def leChars : List Char → List Char → Bool
  | [], _ => true
  | _ :: _, [] => false
  | a :: r, b :: t => a.toNat < b.toNat || (a.toNat == b.toNat && leChars r t)

def insertName (cmd : Cmd) (x : OutName) : List OutName → List OutName
  | [] => [x]
  | y :: r => if leChars (x.render cmd).toList (y.render cmd).toList then x :: y :: r else y :: insertName cmd x r

/-- `sort.Strings(fileNames)` -/
def sortNames (cmd : Cmd) : List OutName → List OutName
  | [] => []
  | x :: r => insertName cmd x (sortNames cmd r)

/-- main's loop `for fname, src := range srcMap { notedownSrc(dir, fname, src); fileNames = append(fileNames, fname) }` -/
def mainLoop : List (OutName × List String) → List (OutName × List String) × List OutName
  | [] => ([], [])
  | (k, v) :: r => let (w, l) := mainLoop r; ((k, v) :: w, k :: l)

def isStar (ts : List String) : Bool := ts == ["*"]

/-- ParseCommonFlags: what stops the run before the package is loaded -/
def flagCheck (pkg : Pkg) (fl : Flags) : Option Stop :=
  if fl.types.isEmpty && fl.file == "" then some .usage          -- sub.Usage(); os.Exit(2)
  else if fl.file != "" && !endsGo fl.file then some .fatal       -- "file must be a go file"
  else if fl.file != "" && !(pkg.map File.name).contains fl.file then some .fatal   -- "file not exists"
  else none

def specifiedOf (fl : Flags) : Bool := !fl.types.isEmpty && !isStar fl.types

/-- LoadPackage: allInOneFile -/
def aioOf (pkg : Pkg) (fl : Flags) : String :=
  if fl.file == "" && fl.types.contains "*" then findAllInOne fl.cmdline pkg else ""

/-- Clean: it does anything only when `!Separate && allInOneFile != ""`; `aiofile` is what LoadPackage's go:generate lookup finds
    (it is consulted only without -file and with "*" among the type names) -/
def cleanActiveWith (fl : Flags) (aiofile : String) : Bool :=
  !(specifiedOf fl || fl.sep) && (if fl.file == "" && fl.types.contains "*" then aiofile else "") != ""

def cleanActiveOf (pkg : Pkg) (fl : Flags) : Bool := cleanActiveWith fl (findAllInOne fl.cmdline pkg)

/-- confirmTypes: (TypeNames, fileNameMap, a warning was printed) -/
def confirmTypes (cmd : Cmd) (pkg : Pkg) (fl : Flags) : Except Stop (List String × List (String × String) × Bool) :=
  if specifiedOf fl then
    match confirm pkg fl.file fl.types with
    | .error e => .error e
    | .ok m => .ok (fl.types, m, false)
  else
    match listTypes cmd pkg fl.file with
    | .error e => .error e
    | .ok l => .ok (l, [], cmd == .enum && enumAliasWarn (testedSpecs fl.file pkg))

/-- Generate: srcMap from the types that produced a source -/
def srcMapOf (separate : Bool) (file aio : String) (fnm : List (String × String)) (produced : List String) :
    List (OutName × List String) :=
  if separate then upserts [] (produced.map (fun n => (fileName file aio fnm n, [n])))
  else if produced.isEmpty then []
  else [(fileName file aio fnm "", produced)]

/-- enum's MakeData warns for every NAMED type it skips (no typed constants found) -/
def skipWarn (cmd : Cmd) (specified : Bool) (names produced : List String) : Bool :=
  cmd == .enum && specified && names.any (fun n => !produced.contains n)

/-- main after Generate -/
def finish (cmd : Cmd) (srcMap : List (OutName × List String)) (warned : Bool) : Outcome :=
  .done (mainLoop srcMap).1 (sortNames cmd (mainLoop srcMap).2) (warned || srcMap.isEmpty)

def run (cmd : Cmd) (pkg : Pkg) (fl : Flags) : Outcome :=
  match flagCheck pkg fl with
  | some s => .stop s
  | none =>
    match confirmTypes cmd pkg fl with
    | .error e => .stop e
    | .ok (names, fnm, warned) =>
      match keep cmd pkg (specifiedOf fl) names with
      | .error e => .stop e
      | .ok produced =>
        finish cmd (srcMapOf (specifiedOf fl || fl.sep) fl.file (aioOf pkg fl) fnm produced)
          (warned || skipWarn cmd (specifiedOf fl) names produced)

end ShootVerif.Cli
