import ShootVerif.Model.Ctor
import ShootVerif.Model.Alloc
/-
Model of the loop in `makeNew` (new.go, since f531104) that fills `AllocMap`: for every promoted field the
chain of embedded POINTER structs on the way to it. The loop scans the generator's flat field list and
keeps a stack `embeds` of the embedded structs the current position is in; the stack is cut back to the
depth of EVERY entry before the entry is looked at.
-/
namespace ShootVerif.Ctor

/-- the `Alloc.Path`s a stack of embedded structs (outermost first) yields: one per pointer embed -/
def ptrPaths : (pre : List String) → List Field → List (List String)
  | _, [] => []
  | pre, e :: es => (if e.isPtr then [pre ++ [e.name]] else []) ++ ptrPaths (pre ++ [e.name]) es

/-- the scan: `(field, pointer-embed paths on its way)` for every non-marker entry -/
def allocScan : List Field → List Field → List (Field × List (List String))
  | _, [] => []
  | st, f :: fs =>
    let st' := if f.depth < st.length then st.take f.depth else st
    if f.isEmbeded then allocScan (st' ++ [f]) fs
    else (f, ptrPaths [] st') :: allocScan st' fs

/-- `AllocMap[name]`: entries are appended under the NAME of every unshadowed promoted field -/
def allocMapOf (fs : List Field) (name : String) : List (List String) :=
  (((allocScan [] fs).filter (fun e => !e.1.isShadowed && e.1.depth != 0 && e.1.name = name)).map (·.2)).flatten

/-- the same information read off the struct: leaves with the pointer embeds on their path
    (path, depth, info, under a pointer embed, the pointer-embed prefixes outermost first) -/
def leavesPtrs (path : List String) (ptrs : List (List String)) (d : Nat) :
    Tree → List (List String × Nat × FInfo × Bool × List (List String))
  | .nil => []
  | .field f rest => (path, d, f, !ptrs.isEmpty, ptrs) :: leavesPtrs path ptrs d rest
  | .embed n _ p _ body rest =>
    leavesPtrs (path ++ [n]) (if p then ptrs ++ [path ++ [n]] else ptrs) (d + 1) body ++ leavesPtrs path ptrs d rest

/-- the generator's entries for the leaves, paired with the struct-derived pointer embeds -/
def treeAllocs (sh : Shadow) (top inh : Bool) (d : Nat) (path : List String) (ptrs : List (List String)) :
    Tree → List (Field × List (List String))
  | .nil => []
  | .field f rest =>
    (if f.skip then [] else [(mkField sh d (if top then f.newMark else inh) f top, ptrs)])
      ++ treeAllocs sh top inh d path ptrs rest
  | .embed n _ p nm body rest =>
    treeAllocs sh false (if top then nm else inh) (d + 1) (path ++ [n]) (if p then ptrs ++ [path ++ [n]] else ptrs) body
      ++ treeAllocs sh top inh d path ptrs rest

end ShootVerif.Ctor
