/-
C07 — every Go map iteration that can influence what shoot writes, with the iteration order made an
explicit parameter.

Go randomises the order of `for k, v := range m`.  A site is modelled as a function of the list of the
map's entries *in the order this execution happens to visit them*; the possible orders are exactly the
permutations of the entry list (keys are distinct – it is a map).  One model function per site of the
regenerated table `Facts.mapRangeSites` (see `siteTable` in Spec/DetOrder.lean):

  cmd/shoot main                       range srcMap                 → `writeAll`   (files) + `successMessage` (sorted log lines)
  shoot.(*GeneratorBase).LoadPackage   range g.overlay              → `messageOf`  (-v log line only)
  restclient.cookClient                range asMap                  → `reverseMapChecked` (duplicate ⇒ Fatal, else injective)
  restclient.cookClient                range headers                → `putAll`     (distinct keys)
  restclient.cookClient                range g.data.DefaultHeaders  → `eachTable`  (every table gets the same update)
  restclient.parseHeaders              range kvMap                  → `putAll`
  restclient.extractStructFields       range pkgs / range pkg.Files → `gather`     (append what each entry contributes)
  mapper.neverWriteCheck               range writeSrcSet/writeDestSet → `covered`  (existential, warning only)
  mapper.nilCheckWrite                 range src/destPtrTypeMap, writeDestMap() → `collect` then sort
-/
namespace ShootVerif.DetOrder

/-- a map as Go hands it out: its entries in this execution's iteration order -/
abbrev Entries (κ ν : Type) := List (κ × ν)

def keys {κ ν : Type} (m : Entries κ ν) : List κ := m.map (·.1)

/-- a map being written: association list, the newest binding first -/
def get {κ ν : Type} [DecidableEq κ] (m : Entries κ ν) (k : κ) : Option ν := (m.find? (fun e => e.1 = k)).map (·.2)

def put {κ ν : Type} (m : Entries κ ν) (k : κ) (v : ν) : Entries κ ν := (k, v) :: m

/-! ## distinct-key writes: `for k, v := range src { dst[k] = v }` (cookClient `headers`, parseHeaders `kvMap`),
    and `for fname, src := range srcMap { notedownSrc(fname, src) }` (main: the directory is a map name ↦ bytes) -/

def putAll {κ ν : Type} (ord : Entries κ ν) (dst : Entries κ ν) : Entries κ ν :=
  ord.foldl (fun d e => put d e.1 e.2) dst

/-- main.go:75-78: write every file (rename(2) replaces the entry) -/
def writeAll (ord : Entries String String) (dir : Entries String String) : Entries String String := putAll ord dir

/-- generatorbase.go:199-203 (`keys` of the overlay, a debug line printed only with -v): the names in iteration order -/
def messageOf {ν : Type} (ord : Entries String ν) : List String := keys ord

/-! ## every table gets the same update: `for _, headers := range DefaultHeaders { headers[k] = v }` -/

def eachTable {τ κ ν : Type} (ord : Entries τ (Entries κ ν)) (k : κ) (v : ν) : Entries τ (Entries κ ν) :=
  ord.map (fun t => (t.1, put t.2 k v))

/-! ## reversing the alias map (cook.go): `for k, v := range asMap { if dup → Fatal; reversMap[v] = k }`
    Before fix 62d8144 there was no duplicate test and the last writer won (`reverseMap`); now two parameters
    with the same alias stop the run before anything is written (`reverseMapChecked = none`). -/

def reverseMap (ord : Entries String String) : Entries String String :=
  ord.foldl (fun d e => put d e.2 e.1) []

def revStep (d : Option (Entries String String)) (e : String × String) : Option (Entries String String) :=
  match d with
  | none => none
  | some m => if (keys m).contains e.2 then none else some (put m e.2 e.1)

/-- none = `logx.Fatalf` (exit 1, no file written) -/
def reverseMapChecked (ord : Entries String String) : Option (Entries String String) := ord.foldl revStep (some [])

/-- cook.go: path placeholders replaced by the parameter aliased to them (before the fix) -/
def realPathParams (ord : Entries String String) (pathParams : List String) : List String :=
  pathParams.map (fun p => (get (reverseMap ord) p).getD p)

/-- the same at HEAD: none = the run failed on a duplicate alias -/
def realPathParamsChecked (ord : Entries String String) (pathParams : List String) : Option (List String) :=
  (reverseMapChecked ord).map (fun r => pathParams.map (fun p => (get r p).getD p))

/-! ## `getGoFile` (generatorbase.go)

Until fix f3054bd this function ranged over the map `TypesInfo.Defs` and returned the file of the FIRST
`*types.TypeName` of the requested name – type parameters and function-local types included, so the output file
name varied from run to run (`getGoFileBefore`, kept for the record).  Now it is a package-scope look-up: no
iteration, and only the package-level type counts (`getGoFile`). -/

/-- a definition: the defined name, whether the object is a `*types.TypeName`, whether it is declared at
    package level, and the base name of the file that contains it -/
structure Def where
  name : String
  isTypeName : Bool
  file : String
  pkgLevel : Bool := true
  deriving DecidableEq, Repr, Inhabited

/-- before f3054bd: first match in map order -/
def getGoFileBefore (ord : List Def) (typeName : String) : String :=
  match ord.find? (fun d => d.isTypeName && d.name = typeName) with
  | some d => d.file
  | none => ""

/-- `pkg.Types.Scope().Lookup(typeName)`: package-level names are unique, the scope is not iterated -/
def getGoFile (scope : List Def) (typeName : String) : String :=
  match scope.find? (fun d => d.pkgLevel && d.isTypeName && d.name = typeName) with
  | some d => d.file
  | none => ""

/-! ## gather: `for _, pkg := range pkgs { for _, file := range pkg.Files { …append fields… } }`
    (cook.go:354-355; `parser.ParseDir` returns maps) -/

def gather {κ α : Type} (ord : Entries κ (List α)) : List α := ord.flatMap (·.2)

/-! ## existential: `for path := range set { if f.CoveredBy(path) { c = true; break } }` (check.go:63-68, 84-89) -/

def covered {κ ν : Type} (ord : Entries κ ν) (p : κ → Bool) : Bool := ord.any (fun e => p e.1)

/-! ## collect then sort: `nilCheckWrite` (check.go:167-210)
    `for p, t := range ptrTypeMap { if _, ok := data[p]; ok { continue }; if f.CoveredBy(p) { list = append(list, p); data[p] = t } }`
    executed for several fields `f`; afterwards `sort.Strings(list)` -/

structure Coll (ν : Type) where
  list : List String := []
  data : Entries String ν := []

def collectStep {ν : Type} (cov : String → Bool) (c : Coll ν) (e : String × ν) : Coll ν :=
  if (keys c.data).contains e.1 then c
  else if cov e.1 then { list := c.list ++ [e.1], data := put c.data e.1 e.2 }
  else c

/-- one pass over the pointer-type map (in this pass's iteration order) for one field -/
def collect {ν : Type} (cov : String → Bool) (ord : Entries String ν) (c : Coll ν) : Coll ν :=
  ord.foldl (collectStep cov) c

/-- `sort.Strings` (the result is the sorted list, whatever the algorithm; insertion sort is kernel-reducible) -/
def insertSorted (a : String) : List String → List String
  | [] => [a]
  | b :: l => if a ≤ b then a :: b :: l else b :: insertSorted a l

def sortStrings (l : List String) : List String := l.foldr insertSorted []

/-- main.go (`fileNames`, since fix 376a366 followed by `sort.Strings`): the success message -/
def successMessage {ν : Type} (ord : Entries String ν) : List String := sortStrings (keys ord)

/-- the whole of nilCheckWrite for one side: one pass per written promoted field, each pass with its own
    iteration order (`ords`), then the sort.  Result: `PtrPathList` and `PtrTypeMap` -/
def ptrPaths {ν : Type} (passes : List ((String → Bool) × Entries String ν)) : List String × Entries String ν :=
  let c := passes.foldl (fun c p => collect p.1 p.2 c) ({} : Coll ν)
  (sortStrings c.list, c.data)

/-! ## the working directory (restclient.getPkgDir)

`getPkgDir` resolves the import path of a parameter struct's package through go/build.  Before fix eb01b4a it called
`build.Import(importPath, "", build.FindOnly)`: the empty source directory made the go command run in the PROCESS's working
directory, so the path was looked up in the module context of the directory the command was started in (`getPkgDirBefore`).
Since eb01b4a the source directory and `build.Context.Dir` are the (absolute) directory of the package being generated
(`[dir]`): the context of the package decides, wherever the command is started.  A module context is `import path ↦ directory`. -/

abbrev ModCtx := Entries String String

/-- the code at HEAD: the context of the package being generated decides; the working directory's context is not consulted -/
def getPkgDir (_cwdCtx pkgCtx : ModCtx) (importPath : String) : Option String := get pkgCtx importPath

/-- the code before eb01b4a: the context of the working directory decided -/
def getPkgDirBefore (cwdCtx _pkgCtx : ModCtx) (importPath : String) : Option String := get cwdCtx importPath

/-- the property: the directory the import path has for the package being generated (what the type checker used) -/
def pkgDirSpec (pkgCtx : ModCtx) (importPath : String) : Option String := get pkgCtx importPath

end ShootVerif.DetOrder
