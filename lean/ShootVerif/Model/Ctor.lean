import ShootVerif.Model.Transfer
/-
Model of `shoot new` (internal/constructor): fields.go (extractTopFiels, expandIfStruct,
extractStructFields, checkShadowAndAppend, newParamsList, newBodyRec) and new.go (makeNew),
plus the meaning of the emitted `return &T{ … }` keyed literal.

The input struct is a first-child/next-sibling tree.
-/
namespace ShootVerif.Ctor
open ShootVerif.Transfer

/-- one named field as the generator sees it -/
structure FInfo where
  name : String
  ptype : String := "int"    -- printed type (with leading `*` when a pointer)
  newMark : Bool := false    -- doc comment carries `shoot: new`
  defv : String := ""        -- `def=` value, "" when absent
  skip : Bool := false       -- `_`-prefixed name or `new:"-"` tag
  hasDoc : Bool := false     -- the field has a doc comment (-getset: directives are only read then)
  get : Bool := false        -- doc matches the `get` directive
  set : Bool := false        -- doc matches the `set` directive
  jsonTag : String := ""     -- explicit `json:"…"` tag ("" = none)
  deriving Repr, DecidableEq, Inhabited

inductive Tree where
  | nil
  | field (f : FInfo) (rest : Tree)
  | embed (name ty : String) (isPtr newMark : Bool) (body : Tree) (rest : Tree)
  deriving Repr, Inhabited

/-- entry of the generator's flat field list (`Field` in types.go) -/
structure Field where
  name : String
  ptype : String := ""
  depth : Nat
  isPtr : Bool := false
  isShadowed : Bool := false
  isEmbeded : Bool := false
  isNew : Bool := false
  defv : String := ""
  isGet : Bool := false
  isSet : Bool := false
  jsonTag : String := ""
  deriving Repr, DecidableEq, Inhabited

/-- `ast.IsExported` (ASCII) -/
def isExportedName (n : String) : Bool :=
  match n.toList with
  | c :: _ => Transfer.isUpper c
  | [] => false

/-- `parseGetSet` (with -getset): no doc, or both / neither directive ⇒ both; exported ⇒ none -/
def accessOf (f : FInfo) : Bool × Bool :=
  if isExportedName f.name then (false, false)
  else if f.hasDoc then (if f.get = f.set then (true, true) else (f.get, f.set))
  else (true, true)

abbrev Shadow := Nat → String → Bool
def noShadow : Shadow := fun _ _ => false

def mkField (sh : Shadow) (d : Nat) (isNew : Bool) (f : FInfo) (top : Bool) : Field :=
  { name := f.name, ptype := f.ptype, depth := d, isNew := isNew,
    defv := if top then f.defv else "", isShadowed := sh d f.name,
    isGet := top && (accessOf f).1, isSet := top && (accessOf f).2,
    jsonTag := f.jsonTag }   -- since cd682d2 also for promoted fields (`st.Tag(i)` in extractStructFields)

def mkEmbed (sh : Shadow) (d : Nat) (n ty : String) (p : Bool) : Field :=
  { name := n, ptype := ty, depth := d, isPtr := p, isEmbeded := true, isShadowed := sh d n }

/-- pre-order walk = `extractTopFiels` (top = true: AST level, own `new` marks, `def=` parsed) and
    `extractStructFields` / `expandIfStruct` (top = false: go/types level, the mark is inherited from
    the top-level embedded field, no directives). `_`-prefixed and `new:"-"` fields are skipped. -/
def walk (sh : Shadow) (top : Bool) (inh : Bool) (d : Nat) : Tree → List Field
  | .nil => []
  | .field f rest =>
    (if f.skip then [] else [mkField sh d (if top then f.newMark else inh) f top]) ++ walk sh top inh d rest
  | .embed n ty p nm body rest =>
    mkEmbed sh d n ty p :: (walk sh false (if top then nm else inh) (d + 1) body ++ walk sh top inh d rest)

def walkTop (sh : Shadow) (t : Tree) : List Field := walk sh true false 0 t

/-- `g.hasNew`: some top-level member carries the mark (tested before the skip filter) -/
def hasNewTop : Tree → Bool
  | .nil => false
  | .field f rest => f.newMark || hasNewTop rest
  | .embed _ _ _ nm _ rest => nm || hasNewTop rest

/-- `checkShadowAndAppend` -/
def appendCheck (fs : List Field) (x : Field) : List Field :=
  fs.map (fun f => if f.name = x.name ∧ x.depth < f.depth then { f with isShadowed := true } else f)
    ++ [{ x with isShadowed := x.isShadowed || fs.any (fun f => f.name = x.name ∧ f.depth < x.depth) }]

/-- the fields that are left out (`_`-prefixed / `new:"-"`), at every level, with their depth: they still hide
    deeper promoted fields of the same name (top level: 1100e1f; embedded structs: the `hidden` map threaded
    through extractStructFields). The code keeps the smallest depth per name; "some left-out field of that name is
    shallower" is the same test. -/
def hiddenAll (d : Nat) : Tree → List (String × Nat)
  | .nil => []
  | .field f rest => (if f.skip then [(f.name, d)] else []) ++ hiddenAll d rest
  | .embed _ _ _ _ body rest => hiddenAll (d + 1) body ++ hiddenAll d rest

/-- the deferred pass of extractTopFiels: entries named like a shallower left-out field -/
def hideBy (hidden : List (String × Nat)) (f : Field) : Field :=
  if hidden.any (fun h => h.1 = f.name ∧ h.2 < f.depth) then { f with isShadowed := true } else f

/-- the generator's `g.fields` -/
def flatten (t : Tree) : List Field :=
  ((walkTop noShadow t).foldl appendCheck []).map (hideBy (hiddenAll 0 t))

def goKeywords : List String :=
  ["break", "case", "chan", "const", "continue", "default", "defer", "else", "fallthrough", "for",
   "func", "go", "goto", "if", "import", "interface", "map", "package", "range", "return", "select",
   "struct", "switch", "type", "var"]

/-- parameter name of a field: ToCamelCase, with `_` appended when that is a Go keyword (3fa6a50) -/
def paramName (n : String) : String :=
  let c := camelS n
  if goKeywords.contains c then c ++ "_" else c

/-- which entries makeNew gives a parameter: not shadowed, not a marker, marked when any field is marked -/
def condNew (hasNew : Bool) (f : Field) : Bool := !f.isShadowed && !f.isEmbeded && !(hasNew && !f.isNew)

/-- `for usedParams[param] { param += "_" }` (8a16c3f); fuel = number of names taken + 1 -/
def fresh : Nat → List String → String → String
  | 0, _, p => p
  | k + 1, used, p => if used.contains p then fresh k used (p ++ "_") else p

/-- makeNew's loop: (field name, parameter name) in order of the field list -/
def assignParams (hasNew : Bool) : List Field → List (String × String) → List (String × String)
  | [], acc => acc
  | f :: fs, acc =>
    if condNew hasNew f then
      assignParams hasNew fs (acc ++ [(f.name, fresh (acc.length + 1) (acc.map (·.2)) (paramName f.name))])
    else assignParams hasNew fs acc

/-- `nameMap` of makeNew, as a function: keyed by field *name* (a Go map: the last write wins) -/
def nameMap (hasNew : Bool) (fs : List Field) (n : String) : Option String :=
  (assignParams hasNew fs []).reverse.lookup n

/-- `newParamsList`: (parameter name, printed type) -/
def paramsList (nm : String → Option String) (fs : List Field) : List (String × String) :=
  fs.filterMap (fun f => if f.isEmbeded || f.isShadowed then none else (nm f.name).map (fun p => (p, f.ptype)))

inductive Expr where
  | param (p : String)   -- `name: <param>,`
  | defx (e : String)    -- `name: <def value>,`
  deriving Repr, DecidableEq

/-- the keyed composite literal written by `newBodyRec` -/
inductive Lit where
  | nil
  | kv (name : String) (val : Expr) (rest : Lit)
  | sub (name ty : String) (ptr : Bool) (body : Lit) (rest : Lit)
  deriving Repr, DecidableEq

def entryExpr (nm : String → Option String) (f : Field) : Option Expr :=
  match nm f.name with
  | some p => if !f.isShadowed then some (.param p)
              else if f.defv ≠ "" then some (.defx f.defv) else none
  | none => if f.defv ≠ "" then some (.defx f.defv) else none

def entry (nm : String → Option String) (f : Field) (rest : Lit) : Lit :=
  match entryExpr nm f with
  | some e => .kv f.name e rest
  | none => rest

/-- `newBodyRec`: consume entries with depth > d (d = -1 at the top); fuel = list length -/
def bodyRec (nm : String → Option String) : (fuel : Nat) → List Field → Int → Lit × List Field
  | 0, fs, _ => (.nil, fs)
  | _, [], _ => (.nil, [])
  | fuel + 1, f :: fs, d =>
    if (f.depth : Int) ≤ d then (.nil, f :: fs)
    else if f.isEmbeded then
      let r1 := bodyRec nm fuel fs f.depth
      let r2 := bodyRec nm fuel r1.2 d
      (.sub f.name f.ptype f.isPtr r1.1 r2.1, r2.2)
    else
      let r := bodyRec nm fuel fs d
      (entry nm f r.1, r.2)

/-- the abstract generated constructor -/
structure Gen where
  params : List (String × String)
  body : Lit
  deriving Repr

/-- `hasNewIn`: the value of `g.hasNew` when MakeData starts (false for a fresh generator) -/
def gen (t : Tree) (hasNewIn : Bool := false) : Gen :=
  let fs := flatten t
  let nm := nameMap (hasNewIn || hasNewTop t) fs
  { params := paramsList nm fs, body := (bodyRec nm fs.length fs (-1)).1 }

/-! ## Meaning of the literal: what value sits at path π, key k after `NewT(arg0, arg1, …)` -/

inductive Src where
  | arg (i : Nat)       -- the i-th constructor argument
  | defx (e : String)   -- the value of the `def=` expression
  | unbound (p : String) -- identifier that is not a parameter (does not compile)
  deriving Repr, DecidableEq

def Lit.kvAt : Lit → String → Option Expr
  | .nil, _ => none
  | .kv n v rest, k => if n = k then some v else rest.kvAt k
  | .sub n _ _ _ rest, k => if n = k then none else rest.kvAt k

def Lit.subAt : Lit → String → Option (Bool × Lit)
  | .nil, _ => none
  | .kv n _ rest, k => if n = k then none else rest.subAt k
  | .sub n _ p b rest, k => if n = k then some (p, b) else rest.subAt k

/-- keyed-literal lookup along an explicit embed path; `none` = key absent = zero value -/
def Lit.at : Lit → List String → String → Option Expr
  | l, [], k => l.kvAt k
  | l, e :: es, k => match l.subAt e with
      | some (_, b) => b.at es k
      | none => none

/-- is the embedded struct at path π present in the literal (for pointer embeds: allocated) -/
def Lit.hasSub : Lit → List String → Bool
  | _, [] => true
  | l, e :: es => match l.subAt e with
      | some (_, b) => b.hasSub es
      | none => false

/-- position of the first occurrence -/
def idx {α : Type} [DecidableEq α] : List α → α → Option Nat
  | [], _ => none
  | x :: xs, a => if x = a then some 0 else (idx xs a).map (· + 1)

def evalExpr (params : List String) : Expr → Src
  | .param p => match idx params p with
      | some i => .arg i
      | none => .unbound p
  | .defx e => .defx e

/-- value of leaf (π, k) of `NewT(arg0, …)`: none = zero value -/
def Gen.valueAt (g : Gen) (π : List String) (k : String) : Option Src :=
  (g.body.at π k).map (evalExpr (g.params.map Prod.fst))

end ShootVerif.Ctor
