import ShootVerif.Model.Ctor
/-
Model of `shoot new -getset`: fields.go parseGetSet / parseGetterSetter, getset.go makeGetSet
(once per name over the non-shadowed entries; embedded `<E>Getter`/`<E>Setter` interfaces looked
up by marker name in the package scope), constructor.tmpl getters / setters / TGetter / TSetter.
-/
namespace ShootVerif.GetSet
open ShootVerif.Ctor ShootVerif.Transfer

/-- `parseGetterSetter`: no doc ⇒ both; doc with both / neither directive ⇒ both; else that one -/
def typeSwitch (doc : Option (Bool × Bool)) : Bool × Bool :=
  match doc with
  | none => (true, true)
  | some (g, s) => if g = s then (true, true) else (g, s)

/-- `onceSet`: keep the first entry of every name -/
def once : List Field → List String → List Field
  | [], _ => []
  | f :: fs, seen => if seen.contains f.name then once fs seen else f :: once fs (f.name :: seen)

/-- entries makeGetSet looks at: not shadowed, first of their name -/
def visited (fs : List Field) : List Field := once (fs.filter (fun f => !f.isShadowed)) []

def getList (getter : Bool) (fs : List Field) : List String :=
  if getter then ((visited fs).filter (fun f => !f.isEmbeded && f.isGet)).map (·.name) else []

def setList (setter : Bool) (fs : List Field) : List String :=
  if setter then ((visited fs).filter (fun f => !f.isEmbeded && f.isSet)).map (·.name) else []

/-- package-scope facts: marker name ↦ method names of `<E>Getter` / `<E>Setter` if declared -/
abbrev IfaceFacts := String → Option (List String) × Option (List String)

def getIfaces (getter : Bool) (facts : IfaceFacts) (fs : List Field) : List (String × List String) :=
  if getter then (visited fs).filterMap (fun f =>
    if f.isEmbeded then (facts f.name).1.map (fun ms => (f.name ++ "Getter", ms)) else none) else []

def setIfaces (setter : Bool) (facts : IfaceFacts) (fs : List Field) : List (String × List String) :=
  if setter then (visited fs).filterMap (fun f =>
    if f.isEmbeded then (facts f.name).2.map (fun ms => (f.name ++ "Setter", ms)) else none) else []

structure Gen where
  getters : List String                   -- own getter methods `Pascal(f)`
  setters : List String                   -- own setter methods `SetPascal(f)`
  getterOf : List (String × String)       -- method ↦ field it returns
  setterOf : List (String × String)       -- method ↦ field it assigns
  getterIface : Option (List String)      -- all methods of TGetter (embedded interfaces first), none = not emitted
  setterIface : Option (List String)
  deriving Repr

def gen (doc : Option (Bool × Bool)) (facts : IfaceFacts) (t : Tree) : Gen :=
  let fs := flatten t
  let sw := typeSwitch doc
  let gl := getList sw.1 fs
  let sl := setList sw.2 fs
  let gi := getIfaces sw.1 facts fs
  let si := setIfaces sw.2 facts fs
  { getters := gl.map pascalS, setters := sl.map (fun n => "Set" ++ pascalS n),
    getterOf := gl.map (fun n => (pascalS n, n)), setterOf := sl.map (fun n => ("Set" ++ pascalS n, n)),
    getterIface := if gi.isEmpty && gl.isEmpty then none else some ((gi.map (·.2)).flatten ++ gl.map pascalS),
    setterIface := if si.isEmpty && sl.isEmpty then none else some ((si.map (·.2)).flatten ++ sl.map (fun n => "Set" ++ pascalS n)) }

/-! ## meaning of the emitted bodies: `return t.f` and `t.f = f_` on a state keyed by field name -/

abbrev State (α : Type) := String → α
def getF {α : Type} (s : State α) (f : String) : α := s f
def setF {α : Type} (s : State α) (f : String) (v : α) : State α := fun m => if m = f then v else s m

end ShootVerif.GetSet
