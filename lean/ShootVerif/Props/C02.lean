import ShootVerif.Spec.Ctor
namespace ShootVerif.Ctor
theorem C02_placeholder : True := trivial
end ShootVerif.Ctor
