import ShootVerif.Proofs.CtorMain
import ShootVerif.Model.TParams
import ShootVerif.Proofs.CtorSelect
import ShootVerif.Proofs.CtorFresh
import ShootVerif.Proofs.CtorTypes
import ShootVerif.Proofs.CtorAmb
import ShootVerif.Proofs.Directive
/-!
C02 — `NewT(args…)` stores every constructor parameter in exactly the field it is named after
(including fields promoted from embedded structs, built as nested literals, pointer embeds
allocated); `def=` fields that are not parameters hold the default, every other field is zero;
parameters follow declaration order depth-first, restricted to `shoot: new`-marked fields when
any field is marked, never `_`-prefixed / `new:"-"` / shadowed promoted fields.

`gen` is the model of fields.go + new.go (flatten with sequential shadow marking, name-keyed
nameMap, newParamsList, newBodyRec); `Gen.valueAt` is the meaning of the emitted keyed literal;
`specLeaf`/`specParams` are the property. All theorems hold for every struct tree (any number
of fields, any embedding depth) in the region `WF`.
-/
namespace ShootVerif.Ctor

/-- the generator's shadow flags do not depend on the order in which fields are collected:
    an entry is shadowed iff an entry of the same name sits at a smaller depth, or (promoted entries) a
    left-out top-level field has that name -/
theorem C02_shadow_closed_form (t : Tree) :
    flatten t = walkTop (genShadow t) t := flatten_closed t

/-- `newBodyRec` over the flat list re-parses it into one nested `(&)E{…}` literal per embed -/
theorem C02_body_reparse (t : Tree) :
    (gen t).body = lit (nameMap (hasNewTop t) (flatten t)) (genShadow t) true false 0 t := by
  simp only [gen, Bool.false_or]
  have h := bodyRec_walkTop (nameMap (hasNewTop t) (flatten t)) (genShadow t) t
  have e : walkTop (genShadow t) t = flatten t := (flatten_closed t).symm
  rw [e] at h
  exact h

/-- parameters = the eligible leaves, in depth-first declaration order -/
theorem C02_param_order (t : Tree) (hwf : WF t = true) :
    (gen t).params.map Prod.fst = (specParams t).map (fun l => paramName l.info.name) := by
  simp only [WF, wfParamNames, Bool.and_eq_true, Bool.not_eq_true', decide_eq_true_eq] at hwf
  exact paramNames_spec t hwf.1.2

/-- each parameter is declared with the (printed) type of the leaf it stands for: the type column of the parameter list
    is that of the eligible leaves, in the same order -/
theorem C02_param_types (t : Tree) (hwf : WF t = true) :
    (gen t).params.map Prod.snd = (specParams t).map (fun l => l.info.ptype) := by
  simp only [WF, wfParamNames, Bool.and_eq_true, Bool.not_eq_true', decide_eq_true_eq] at hwf
  exact paramTypes_spec t hwf.1.2

/-- the same whenever only the FIELD names of the visible leaves differ (colliding camel-cased names included) -/
theorem C02_param_types_general (t : Tree) (hnd : wfFieldNames t = true) :
    (gen t).params.map Prod.snd = (specParams t).map (fun l => l.info.ptype) :=
  paramTypes_spec_gen t hnd

/-- a leaf is a parameter iff it is not hidden by Go's selector rule, not skipped, and marked when
    any field of the type is marked (definition of `eligible`, restated as the membership test) -/
theorem C02_eligible_iff (t : Tree) (l : Leaf) (hl : l ∈ leavesTop t) :
    l ∈ specParams t ↔
      (goShadowed t l.depth l.info.name = false ∧ l.info.skip = false ∧ (hasNewTop t = true → l.marked = true)) := by
  simp only [specParams, List.mem_filter, hl, true_and, eligible, Bool.and_eq_true, Bool.not_eq_true',
    Bool.or_eq_true]
  constructor
  · rintro ⟨⟨h1, h2⟩, h3⟩
    refine ⟨h1, h2, fun hn => ?_⟩
    rcases h3 with h3 | h3
    · rw [hn] at h3; cases h3
    · exact h3
  · rintro ⟨h1, h2, h3⟩
    refine ⟨⟨h1, h2⟩, ?_⟩
    cases hn : hasNewTop t
    · left; rfl
    · right; exact h3 hn

/-- HEADLINE: after `NewT(arg0, arg1, …)`, every leaf of the struct — read at its explicit path —
    holds exactly what the property prescribes: its own argument if it is the i-th eligible leaf,
    its `def=` value if it has one and is not a parameter, otherwise the zero value -/
theorem C02_value_at_path (t : Tree) (hwf : WF t = true) :
    ∀ l ∈ leavesTop t, (gen t).valueAt l.path l.info.name = specLeaf t l := by
  intro l hl
  have hwf' := hwf
  simp only [WF, wfParamNames, Bool.and_eq_true, Bool.not_eq_true', decide_eq_true_eq] at hwf'
  obtain ⟨⟨hlev, hnd⟩, hsd⟩ := hwf'
  have hw : WFLevels t := (wfLevels_iff t).mp hlev
  obtain ⟨π, hp, hat⟩ := leafAt_of_mem t true [] false 0 hw l hl
  simp only [List.nil_append] at hp
  subst hp
  unfold Gen.valueAt
  rw [C02_body_reparse, at_lit _ _ l.path true [] false 0 t hw, hat, Option.bind_some, C02_param_order t hwf]
  unfold leafExpr specLeaf
  by_cases hs : l.info.skip
  · -- skipped: no key; the spec has no default for it (region excludes skip ∧ def)
    have hnd' : ¬ (l.top = true ∧ l.info.defv ≠ "") := by
      intro hc
      unfold skipWithDef at hsd
      rw [List.any_eq_false] at hsd
      exact hsd l hl (by simp [hc.1, hs, hc.2])
    simp [hs, eligible, hnd']
  · simp only [hs, Bool.false_eq_true, ↓reduceIte]
    have hag := shadow_agrees t l hl
    cases hsh : genShadow t l.depth l.info.name
    · -- visible leaf
      have hg : goShadowed t l.depth l.info.name = false := by
        rw [← hag, hsh]
      have hnm := nameMap_of_leaf t (hasNewTop t) hnd l hl (by simpa using hs) hsh
      cases hok : (!hasNewTop t || l.marked)
      · -- not a parameter: default or zero
        rw [hok] at hnm
        have hel : eligible t l = false := by simp [eligible, hg, hs, hok]
        simp only [entryExpr, mkField, hnm, hel, Bool.false_eq_true, ↓reduceIte]
        by_cases htop : l.top <;> by_cases hd : l.info.defv = "" <;> simp [htop, hd, evalExpr]
      · -- parameter: its own argument
        rw [hok] at hnm
        have hel : eligible t l = true := by simp [eligible, hg, hs, hok]
        have hmem : l ∈ specParams t := by simp [specParams, hl, hel]
        have hsub : ∀ x ∈ specParams t, x ∈ visibleLeaves t := by
          intro x hx
          simp only [specParams, List.mem_filter, eligible, Bool.and_eq_true, Bool.not_eq_true'] at hx
          simp [visibleLeaves, hx.1, hx.2.1.1]
        have hinj : ∀ x ∈ specParams t, paramName x.info.name = paramName l.info.name → x = l :=
          fun x hx e => eq_of_nodup_map hnd x (hsub x hx) l (hsub l hmem) e
        have hinjk : ∀ x ∈ specParams t, Leaf.key x = Leaf.key l → x = l := by
          intro x hx e
          apply hinj x hx
          have : x.info.name = l.info.name := by
            have := congrArg Prod.snd e; simpa [Leaf.key] using this
          rw [this]
        obtain ⟨i, hi⟩ := idx_isSome_of_mem (specParams t) l hmem
        have h1 := idx_map_inj (g := fun x : Leaf => paramName x.info.name) (specParams t) l hmem hinj
        have h2 := idx_map_inj (g := Leaf.key) (specParams t) l hmem hinjk
        simp only [entryExpr, mkField, hnm, hsh, Bool.not_false, ↓reduceIte, Option.map_some, evalExpr, hel]
        rw [h1, h2, hi]
    · -- hidden by a shallower member: default or zero
      have hg : goShadowed t l.depth l.info.name = true := by
        rw [← hag, hsh]
      have hel : eligible t l = false := by simp [eligible, hg]
      simp only [hel, Bool.false_eq_true, ↓reduceIte]
      cases hnm : nameMap (hasNewTop t) (flatten t) l.info.name <;>
        by_cases htop : l.top <;> by_cases hd : l.info.defv = "" <;>
        simp [entryExpr, mkField, hnm, hsh, htop, hd, evalExpr]

/-- the property's domain with parameter-name collisions allowed: only the FIELD names of the visible leaves have to
    be pairwise distinct (`userID` next to `UserID` is fine: the generator appends `_` until the name is free) -/
def WFg (t : Tree) : Bool := wfLevels t && wfFieldNames t && !skipWithDef t

/-- the region the check asserts is exactly `WFg` without ambiguous members; there the list the CODE computes (with the
    equal-depth rule of 556fe6f) is the `flatten` these theorems are about (`flattenCode_eq`) -/
theorem regionG_WF_iff (t : Tree) : regionG t = "WF" ↔ (WFg t = true ∧ noAmbiguous t = true) := by
  unfold regionG WFg
  cases wfLevels t <;> cases wfFieldNames t <;> cases skipWithDef t <;> cases noAmbiguous t <;> simp

theorem C02_code_list (t : Tree) (h : regionG t = "WF") : flattenCode t = flatten t :=
  flattenCode_eq t ((regionG_WF_iff t).mp h).2

/-- `WF` is the special case where no suffix is needed -/
theorem WF_imp_WFg (t : Tree) (h : WF t = true) : WFg t = true := by
  simp only [WF, WFg, wfParamNames, wfFieldNames, Bool.and_eq_true, Bool.not_eq_true', decide_eq_true_eq] at h ⊢
  refine ⟨⟨h.1.1, ?_⟩, h.2⟩
  have hp := h.1.2
  -- distinct images under `paramName` force distinct names
  have : ((visibleLeaves t).map (fun l => l.info.name)).map paramName = (visibleLeaves t).map (fun l => paramName l.info.name) := by
    simp [List.map_map, Function.comp]
  rw [← this] at hp
  exact nodup_of_map paramName _ hp

/-- parameters = the eligible leaves, in depth-first declaration order, under pairwise distinct names — also when
    two fields camel-case to the same parameter name -/
theorem C02_param_order_general (t : Tree) (hwf : WFg t = true) :
    (gen t).params.map Prod.fst =
        (specParams t).map (fun l => assignedName (hasNewTop t) (flatten t) l.info.name) ∧
      ((gen t).params.map Prod.fst).Nodup := by
  simp only [WFg, Bool.and_eq_true, Bool.not_eq_true'] at hwf
  have hnd := hwf.1.2
  have e := paramNames_spec_gen t hnd
  refine ⟨e, ?_⟩
  rw [e]
  -- distinctness through injectivity on the eligible leaves
  have hnodupLeaves : (specParams t).Nodup := by
    have hnd' : ((visibleLeaves t).map (fun l => l.info.name)).Nodup := by simpa [wfFieldNames] using hnd
    have hv : (visibleLeaves t).Nodup := nodup_of_map _ _ hnd'
    have hsub : List.Sublist (specParams t) (visibleLeaves t) := by
      unfold specParams visibleLeaves
      have : (leavesTop t).filter (eligible t) =
          ((leavesTop t).filter (fun l => !goShadowed t l.depth l.info.name)).filter (eligible t) := by
        rw [List.filter_filter]
        apply List.filter_congr
        intro l _
        unfold eligible
        cases goShadowed t l.depth l.info.name <;> simp
      rw [this]
      exact List.filter_sublist
    exact hsub.nodup hv
  exact nodup_map_of_inj _ _ hnodupLeaves (fun x hx l hl e' => assignedName_leaf_inj t hnd x l hx hl e')

/-- HEADLINE, general form: the statement of `C02_value_at_path` for every tree in `WFg` (colliding parameter names
    included) -/
theorem C02_value_at_path_general (t : Tree) (hwf : WFg t = true) :
    ∀ l ∈ leavesTop t, (gen t).valueAt l.path l.info.name = specLeaf t l := by
  intro l hl
  have hwf' := hwf
  simp only [WFg, Bool.and_eq_true, Bool.not_eq_true'] at hwf'
  obtain ⟨⟨hlev, hnd⟩, hsd⟩ := hwf'
  have hw : WFLevels t := (wfLevels_iff t).mp hlev
  obtain ⟨π, hp, hat⟩ := leafAt_of_mem t true [] false 0 hw l hl
  simp only [List.nil_append] at hp
  subst hp
  unfold Gen.valueAt
  rw [C02_body_reparse, at_lit _ _ l.path true [] false 0 t hw, hat, Option.bind_some, (C02_param_order_general t hwf).1]
  unfold leafExpr specLeaf
  by_cases hs : l.info.skip
  · have hnd' : ¬ (l.top = true ∧ l.info.defv ≠ "") := by
      intro hc
      unfold skipWithDef at hsd
      rw [List.any_eq_false] at hsd
      exact hsd l hl (by simp [hc.1, hs, hc.2])
    simp [hs, eligible, hnd']
  · simp only [hs, Bool.false_eq_true, ↓reduceIte]
    have hag := shadow_agrees t l hl
    cases hsh : genShadow t l.depth l.info.name
    · have hg : goShadowed t l.depth l.info.name = false := by
        rw [← hag, hsh]
      have hnm := nameMap_of_leaf_gen t (hasNewTop t) hnd l hl (by simpa using hs) hsh
      cases hok : (!hasNewTop t || l.marked)
      · rw [hok] at hnm
        have hel : eligible t l = false := by simp [eligible, hg, hs, hok]
        simp only [entryExpr, mkField, hnm, hel, Bool.false_eq_true, ↓reduceIte]
        by_cases htop : l.top <;> by_cases hd : l.info.defv = "" <;> simp [htop, hd, evalExpr]
      · rw [hok] at hnm
        have hel : eligible t l = true := by simp [eligible, hg, hs, hok]
        have hmem : l ∈ specParams t := by simp [specParams, hl, hel]
        have hinj : ∀ x ∈ specParams t,
            assignedName (hasNewTop t) (flatten t) x.info.name = assignedName (hasNewTop t) (flatten t) l.info.name → x = l :=
          fun x hx e => assignedName_leaf_inj t hnd x l hx hmem e
        have hinjk : ∀ x ∈ specParams t, Leaf.key x = Leaf.key l → x = l := by
          intro x hx e
          apply hinj x hx
          have : x.info.name = l.info.name := by
            have := congrArg Prod.snd e; simpa [Leaf.key] using this
          rw [this]
        obtain ⟨i, hi⟩ := idx_isSome_of_mem (specParams t) l hmem
        have h1 := idx_map_inj (g := fun x : Leaf => assignedName (hasNewTop t) (flatten t) x.info.name) (specParams t) l hmem hinj
        have h2 := idx_map_inj (g := Leaf.key) (specParams t) l hmem hinjk
        simp only [entryExpr, mkField, hnm, hsh, Bool.not_false, ↓reduceIte, Option.map_some, evalExpr, hel]
        rw [h1, h2, hi]
    · have hg : goShadowed t l.depth l.info.name = true := by
        rw [← hag, hsh]
      have hel : eligible t l = false := by simp [eligible, hg]
      simp only [hel, Bool.false_eq_true, ↓reduceIte]
      cases hnm : nameMap (hasNewTop t) (flatten t) l.info.name <;>
        by_cases htop : l.top <;> by_cases hd : l.info.defv = "" <;>
        simp [entryExpr, mkField, hnm, hsh, htop, hd, evalExpr]

/-- non-vacuity of the general form: `userID` and `UserID` both camel-case to `userId`; the second gets `userId_`, and
    each argument lands in its own field -/
example :
    let t : Tree := .field { name := "userID" } (.field { name := "UserID" } .nil)
    WF t = false ∧ WFg t = true ∧ (gen t).params.map Prod.fst = ["userId", "userId_"] := by
  decide

/-- "the field it is named after" = "the path the literal wrote": a leaf that no shallower member hides
    and that is the only member of its name at its depth is exactly what Go's selector `T.name`
    resolves to; so reading `NewT(args).name` yields the value `C02_value_at_path` puts at that path -/
theorem C02_select (t : Tree) (l : Leaf) (hl : l ∈ leavesTop t)
    (hvis : goShadowed t l.depth l.info.name = false)
    (huniq : ((members 0 t).filter (fun m => m.1 = l.info.name ∧ m.2 = l.depth)).length = 1) :
    selectPath t l.info.name = some l.path := select_of_visible t l hl hvis huniq

/-- every embedded struct on an embed path of the type is present in the literal, so embedded
    pointers are allocated -/
theorem C02_ptr_embeds_allocated (t : Tree) (hwf : WF t = true) (π : List String)
    (h : t.hasEmbedPath π = true) : (gen t).body.hasSub π = true := by
  simp only [WF, Bool.and_eq_true] at hwf
  have hw : WFLevels t := (wfLevels_iff t).mp hwf.1.1
  rw [C02_body_reparse, hasSub_lit _ _ π true false 0 t hw, h]

/-- for a generic struct the constructor carries the same type parameters and constraints, group by
    group (any constraint expression) -/
theorem C02_typeparams (gs : List TParams.Group) :
    TParams.paramGroups gs = TParams.specGroups gs ∧ TParams.typeParamList gs = TParams.specList gs := by
  have hp : TParams.paramGroups gs = TParams.specGroups gs := by
    unfold TParams.paramGroups TParams.specGroups TParams.typeParams
    rw [TParams.zip_map_self, List.map_map]
    rfl
  exact ⟨hp, by unfold TParams.typeParamList TParams.specList; rw [hp]⟩

/-- the repaired case (1100e1f): a left-out TOP-level field hides the promoted field of the same name,
    which is therefore not a parameter -/
example :
    let t : Tree := .field { name := "name", skip := true }
      (.embed "Core" "Core" true false (.field { name := "name" } .nil) .nil)
    WF t = true ∧ (gen t).params.length = 0 ∧ (specParams t).length = 0 := by
  decide

/-- finding region F_skipWithDef (known_findings.d/C02.json): a field that is left out of generation (`_`-prefixed or
    `new:"-"`) and carries a `def=` directive is a field "carrying a def= directive that is not a parameter", so the
    property has it hold the default; the generator drops the field together with its default -/
theorem C02_F_skipWithDef_witness :
    let t : Tree := .field { name := "name" } (.field { name := "_retries", skip := true, defv := "3", hasDoc := true } .nil)
    regionG t = "F_skipWithDef" ∧
    (gen t).valueAt [] "_retries" = none ∧
    (∃ l ∈ leavesTop t, l.info.name = "_retries" ∧ specLeaf t l = some (.defx "3")) := by
  refine ⟨by decide, by decide, ?_⟩
  exact ⟨⟨[], 0, { name := "_retries", skip := true, defv := "3", hasDoc := true }, false, true⟩, by decide, rfl, by decide⟩

/-- the repaired case (formerly finding region F_nestedSkipShadows): a left-out field of an EMBEDDED struct hides a
    deeper promoted field of the same name for Go's selector rule, and for the generator too: it is no parameter -/
theorem C02_nestedSkip_fixed :
    let t : Tree := .embed "A" "A" false false
      (.field { name := "x", skip := true } (.embed "B" "B" false false (.field { name := "x" } .nil) .nil)) .nil
    WF t = true ∧ (gen t).params.length = 0 ∧ (specParams t).length = 0 := by
  decide

/-! non-vacuity: a struct with a shadowed promoted field, a pointer embed, a `new` mark, a default
    and a skipped field is in `WF`, and the constructor takes exactly the marked leaves -/
example :
    let t : Tree := .field { name := "id", newMark := true }
      (.embed "Base" "Base" true true
        (.field { name := "id" } (.field { name := "age" } .nil))
        (.field { name := "note", defv := "7" } (.field { name := "_x", skip := true } .nil)))
    WF t = true ∧ (gen t).params.map Prod.fst = ["id", "age"] ∧
      (gen t).valueAt ["Base"] "age" = some (.arg 1) ∧ (gen t).valueAt ["Base"] "id" = none ∧
      (gen t).valueAt [] "note" = some (.defx "7") := by
  decide

end ShootVerif.Ctor

namespace ShootVerif.Directive

/-- C02, the `def=` clause at the level of the doc comment: the default the model's `defv` stands for is the TEXT after
    `def=`, for EVERY non-empty value text without `;` and newline (a Go expression of any shape: quoted literals
    followed by more, rune and raw-string literals, calls) — the recogniser (tied to the regexp of fields.go by the
    directive leg) yields exactly that text -/
theorem C02_def_directive_value (v : List Char) (hne : v ≠ []) (hv : ∀ c ∈ v, c ≠ ';' ∧ c ≠ '\n') :
    parseDef ("shoot: def=".toList ++ v) = some v := parseDef_value v hne hv

/-- … and it is the same text when further directives follow after a `;`, whatever they are -/
theorem C02_def_directive_then (v rest : List Char) (hne : v ≠ []) (hv : ∀ c ∈ v, c ≠ ';' ∧ c ≠ '\n') :
    parseDef ("shoot: def=".toList ++ (v ++ ';' :: rest)) = some v := parseDef_value_then v rest hne hv

/-- non-vacuity on the text a seeded change truncated: the whole expression is the value -/
example : parseDef ("shoot: def=\"tcp://\" + DefaultHost".toList) = some "\"tcp://\" + DefaultHost".toList := by decide

end ShootVerif.Directive
