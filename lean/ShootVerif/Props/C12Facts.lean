import ShootVerif.Gen.Facts
import ShootVerif.Proofs.EnumC01
/-!
C12 — proof-side anchor on the table of top-level declarations of the templates, REGENERATED from
/repo's current source on every run (`Gen/Facts.lean`, harness/cmd/facts).

The model of the emitted codecs (`encode`, `unmarshalJSON`, `unmarshalText`, `scan`) is a set of
functions of the tables and the value: an encoder has no memory, what a caller did to the bytes of an
earlier result cannot matter (the correspondence runs every codec as a history: encode, overwrite
the bytes handed out, encode again).  On the source this needs that the emitted file keeps no
package-level state besides the five tables of C04, none of which holds a `[]byte`.
-/
namespace ShootVerif.Enum

def enumTmpl : String := "internal/enumer/enumer.tmpl"

/-- the enum template declares, besides methods of the type, exactly: the guard function `_`, the
    constant `_<t>_max` and the four table variables — no cache, no buffer, nothing a codec method
    could share between calls -/
theorem C12_no_codec_state :
    (Facts.tmplTopDecls.filter (fun d => d.1 = enumTmpl && d.2.1 != "method")).map (fun d => (d.2.1, d.2.2.1)) =
      [("func", "_"), ("const", "_lower*_max"), ("var", "_lower*_values"), ("var", "_lower*_strings"),
       ("var", "_lower*_string_map"), ("var", "_lower*_value_map")] := by
  decide

/-- the hand transcription of the template used by `C01_closed_enum` / `C01_nodup_enum` declares the
    same methods, in the same order, as the template does today (all flags on), and the same five tables -/
theorem C12_template_transcription :
    (Facts.tmplTopDecls.filter (fun d => d.1 = enumTmpl && d.2.1 == "method")).map (·.2.2.1) =
      declaredMethods ⟨true, true, true, true, true⟩ ∧
    declaredTables ⟨true, true, true, true, true⟩ = ["_max", "_values", "_strings", "_string_map", "_value_map"] := by
  decide

/-- the model of make* (`makeSwitches`, Model/Enum.lean): on the regenerated tables of flag reads and guarded calls, each
    helper reads exactly its own flag (makeSQL: `sql` and `gorm`), no other function of the package reads a flag, and
    MakeData calls every helper unconditionally — so which method groups are emitted depends on the five flags alone -/
theorem C12_flag_reads :
    (Facts.flagReads.filter (·.1 = "internal/enumer")).map (·.2) =
      [("makeBitwize", "bitwise"), ("makeJson", "json"), ("makeSQL", "gorm"), ("makeSQL", "sql"), ("makeText", "text")] ∧
    (Facts.flagGuards.filter (fun g => g.1 = "internal/enumer" && g.2.1 = "MakeData")).all (fun g => g.2.2.2 = []) = true := by
  decide

end ShootVerif.Enum
