import ShootVerif.Proofs.NewFacts
/-!
C13 — proof-side anchors on the tables `flagGuards` / `flagReads` REGENERATED from /repo's current source on every run
(harness/cmd/facts/flagguards.go); see Proofs/NewFacts.lean. Kept apart from Props/C13.lean so that the theorems about the
hand-written model do not depend on the regenerated tables.
-/
namespace ShootVerif.NewFacts
open ShootVerif

/-- C13: what makeNew hands the template depends on -opt and -short only (no -getset / -json / -tagcase dependence of the
    constructor or option data) -/
theorem C13_makeNew_reads :
    (ctorReads.filter (·.1 == "makeNew")).map (·.2) = ["opt", "short"] := by
  decide

end ShootVerif.NewFacts
