import ShootVerif.Proofs.MapperExec
import ShootVerif.Proofs.MapperTables
import ShootVerif.Proofs.MapperResolve
import ShootVerif.Proofs.MapperHeadlines
import ShootVerif.Proofs.MapperObs
/-!
C09 — ToX and FromX never panic and FromX fully resets its receiver.

Model: `execTo` / `execFrom` (Model/Mapper.lean): the allocation preamble (`DestPtrPathList` /
`SrcPtrPathList`), the read guards (`condofread`) and the statement bodies of mapper.tmpl evaluated
in `Except` (error = panic) on a reading side whose slots `N` (embedded pointers, pointer fields,
slices, slice elements) are nil. Spec: `idealTo` / `idealFrom` (Spec/Mapper.lean): every statement
either runs completely or is skipped.

The theorems hold for EVERY nil assignment `N` (any list of slot names, not only the sampled masks)
and every receiver state. `WF09` = plain exported structs, mapper type not embedded by pointer (or not
used), every emitted selector resolves (by Go's rule) to the field the generator means, and no promoted
field is named like an embedded pointer type. The closure of the emitted tables — every embedded
pointer crossed by a guard entry / an allocation entry / a statement's read or write is tested,
respectively allocated, EARLIER in the list — is not assumed: `C09_tables_closed` derives it from the
generator's own `sort.Strings` (a proper prefix path is a proper prefix of the dotted string, so it
sorts first; Model/MapSort.lean, Proofs/MapperTables.lean).
-/
namespace ShootVerif.Mapper

/-- headline: for every nil assignment, ToX and FromX run without panic and compute the ideal result
    (each statement executed completely or skipped) — whatever the receiver of FromX held before -/
theorem C09_no_panic (inp : Input) (h : WF09 inp = true) (N : List String) :
    execTo inp N = .value (idealTo inp (plan inp) (tables inp (plan inp)) N) ∧
    ∀ recv, execFrom inp N recv = .value (idealFrom inp (plan inp) (tables inp (plan inp)) N) :=
  no_panic inp h N

/-- `WF09` itself follows from clauses about the INPUT (no clause about the plan's statements but "the pointer-embedded
    mapper type is not called"): plain sides, every field name resolves by Go's rule (`wfSelectors`, a clause of the
    grammar), no promoted `map:"-"` field with a deeper namesake (C05's F_skipShadow). The per-statement clauses of `WF09`
    ("the generator's Path of the field is the path Go resolves the emitted selector to") are DERIVED: the field collector
    keeps, for every name, the leaf Go selects (`flatten_resolves`: shallowest, unique at its depth, not a left-out one) -/
theorem C09_WF_of_input (inp : Input) (hs : inp.srcNew = false) (hd : inp.destNew = false)
    (hm : (inp.mapperPtr != some true || (!hasFunc (plan inp).toStmts && !hasFunc (plan inp).fromStmts)) = true)
    (h1 : wfSelectors inp.src = true) (h2 : wfSelectors inp.dest = true) (hsh : F_skipShadow inp = false) :
    WF09 inp = true := WF09_of_input inp hs hd hm h1 h2 hsh

/-- headline, hypotheses on the input only: no mapper type embedded by pointer, plain sides, names resolve, no skip-shadow ⇒
    for EVERY nil assignment ToX and FromX run without panic and compute the ideal result, whatever the receiver held -/
theorem C09_no_panic_input (inp : Input) (hs : inp.srcNew = false) (hd : inp.destNew = false)
    (hm : inp.mapperPtr ≠ some true)
    (h1 : wfSelectors inp.src = true) (h2 : wfSelectors inp.dest = true) (hsh : F_skipShadow inp = false) (N : List String) :
    execTo inp N = .value (idealTo inp (plan inp) (tables inp (plan inp)) N) ∧
    ∀ recv, execFrom inp N recv = .value (idealFrom inp (plan inp) (tables inp (plan inp)) N) :=
  C09_no_panic inp (WF09_of_input inp hs hd (by simp [hm]) h1 h2 hsh) N

/-- every emitted selector of a plain side resolves, by Go's rule, to the field the generator planned with: same path
    (what the guards and allocations are computed from), same type, same name, and not a `map:"-"` field -/
theorem C09_selector_agrees (t : Tree) (hsel : wfSelectors t = true) (hsh : skipShadowT t = false)
    (f : Field) (hf : f ∈ flatten t) :
    ∃ l, goResolve t f.name = some l ∧ l ∈ leavesOf t ∧ l.path = f.path ∧ l.decl.ty = f.ty ∧ l.decl.name = f.name ∧
      l.depth = f.depth ∧ l.decl.tag ≠ .skip := flatten_resolves t hsel hsh f hf

/-- the headline in `obs = spec` form: under WF09 (and an output that type-checks: `C05_compiles` derives that from the
    input too) the model's whole C09 observation list — nil receiver / nil argument, EVERY nil mask of the reading side in any
    mask list over any slot list, the three receiver states of FromX per mask — equals the specification's list. The
    driver's per-case comparison `model = spec` on region WF is an instance; nothing about the tables or the masks is
    evaluated per input. -/
theorem C09_obs_spec (inp : Input) (h : WF09 inp = true) (hc : modelCompiles inp = true)
    (srcSlots destSlots masks fmasks : List String) :
    obs09 inp srcSlots destSlots masks fmasks = spec09 inp srcSlots destSlots masks fmasks :=
  obs09_eq_spec09 inp h hc srcSlots destSlots masks fmasks

/-- C05's region WF is inside C09's: on every input of region WF of C05 (as the driver prints it) ToX and FromX run without panic
    and compute the ideal result for every nil assignment and receiver state - no C09 clause is evaluated on the plan -/
theorem C09_on_C05_WF (inp : Input) (h : region05 inp = "WF") (N : List String) :
    execTo inp N = .value (idealTo inp (plan inp) (tables inp (plan inp)) N) ∧
    ∀ recv, execFrom inp N recv = .value (idealFrom inp (plan inp) (tables inp (plan inp)) N) :=
  C09_no_panic inp (WF09_of_region05 inp h).1 N

/-- headline: the result of FromX does not depend on the receiver (nil, freshly allocated, or dirty) -/
theorem C09_reset (inp : Input) (h : WF09 inp = true) (N : List String) (r₁ r₂ : Recv) :
    execFrom inp N r₁ = execFrom inp N r₂ := by
  rw [(C09_no_panic inp h N).2 r₁, (C09_no_panic inp h N).2 r₂]

/-- a nil receiver of ToX and a nil argument of FromX yield nil (mapper.tmpl:25-27, 146-148) -/
theorem C09_nil_in_nil_out (inp : Input) (N : List String) (r : Recv) :
    execTo inp N true = .nil ∧ execFrom inp N r true = .nil := ⟨rfl, rfl⟩

/-- a statement whose reading path crosses a nil embedded pointer writes nothing; one that does not, and
    reads a non-nil value, writes exactly that value (with the mapper method applied) -/
theorem C09_skip_iff (rs ws : SideSem) (N : List String) (w : WSt) (c : Claim) (rl wl : Leaf)
    (hr : resolveField rs.tree c.rd = some rl) (hw : resolveField ws.tree c.wr = some wl) :
    ((hops rs.ptrs rl.path).all (nonNil N) = false → idealStmt rs ws N w c = w) ∧
    ((hops rs.ptrs rl.path).all (nonNil N) = true → ∀ v, idealValue c.strat (readVal N c rl) = some v →
      idealStmt rs ws N w c = { w with vals := w.vals ++ [(joinPath wl.path, v)] }) := by
  constructor
  · intro h; simp [idealStmt, hr, hw, h]
  · intro h v hv; simp [idealStmt, hr, hw, h, hv]

/-- the closure of the emitted guard and allocation lists, derived from the generator's sort: under
    WF09 every statement's guard is a chain that tests exactly the pointers its read crosses, the
    allocation lists are chains and hold every pointer a statement's write crosses -/
theorem C09_tables_closed (inp : Input) (h : WF09 inp = true) : TablesOk inp = true :=
  tablesOk_of_WF09 inp h

/-- the two facts behind it, for ALL inputs: `condofread`'s sorted guard is a chain over exactly the
    crossed pointers, and a crossed pointer's dotted path sorts before the path it lies on -/
theorem C09_guard_chain (pp : List (List String)) (f : Field) :
    chainOk pp [] (readGuard pp f) = true ∧ ∀ h, h ∈ readGuard pp f ↔ h ∈ hops pp f.path :=
  ⟨readGuard_chain pp f, readGuard_mem pp f⟩

theorem C09_prefix_sorts_first (pp : List (List String)) (p h : List String) (hh : h ∈ hops pp p) :
    MapSort.ltCodes (pathCodes h) (pathCodes p) = true := hops_lt pp p h hh

/-! ### non-vacuity -/

/-- src {*Base{ID int; *Inner{X string}}; P *Sub; Subs []*Sub}  dest {*Core{ID int}; X string; P Sub; Subs []Sub} -/
def exWF09 : Input :=
  let sub := Ty.named .src "Sub" (.struct "N:int")
  let subD := Ty.named .dest "Sub" (.struct "N:int,Other:string")
  { src := .embed "Base" true (.field { name := "ID", ty := .basic "int" }
              (.embed "Inner" true (.field { name := "X", ty := .basic "string" } .nil) .nil))
            (.field { name := "P", ty := .ptr sub } (.field { name := "Subs", ty := .slice (.ptr sub) } .nil)),
    dest := .embed "Core" true (.field { name := "ID", ty := .basic "int" } .nil)
            (.field { name := "X", ty := .basic "string" } (.field { name := "P", ty := subD }
              (.field { name := "Subs", ty := .slice subD } .nil))) }

example : WF09 exWF09 = true ∧ region09 exWF09 = "WF" := by decide
example : exWF09.srcNew = false ∧ exWF09.destNew = false ∧ exWF09.mapperPtr ≠ some true ∧ wfSelectors exWF09.src = true ∧
    wfSelectors exWF09.dest = true ∧ F_skipShadow exWF09 = false := by decide
example : (tables exWF09 (plan exWF09)).destAlloc = [["Core"]] ∧
    (tables exWF09 (plan exWF09)).srcAlloc = [["Base"], ["Base", "Inner"]] := by decide
example : (execTo exWF09 ["Base.Inner", "P", "Subs#1"]).show (leavesOf exWF09.dest) =
    "Core.ID=Base.ID;X=zero;P=zero;Subs=[Subs,zero,Subs]" := by decide
example : (execTo exWF09 ["Base"]).show (leavesOf exWF09.dest) = "Core.ID=zero;X=zero;P=P;Subs=[Subs,Subs,Subs]" := by decide

/-! ### finding region -/

/-- `*Mapper` embedded by pointer, value-receiver methods: FromX panics on every input, ToX when the pointer is nil -/
def wPtrMapper : Input :=
  { src := .field { name := "Count", ty := .basic "int" } .nil,
    dest := .field { name := "Count", ty := .basic "string" } .nil,
    fns := [{ name := "Fn0", param := .basic "int", result := .basic "string" },
            { name := "Fn1", param := .basic "string", result := .basic "int" }],
    mapperPtr := some true, conv := [(.basic "int", .basic "string")] }

theorem C09_F_ptrMapper_witness :
    region09 wPtrMapper = "F_ptrMapper" ∧
    obs09 wPtrMapper ["Mapper"] [] ["0", "1"] [""] ≠ spec09 wPtrMapper ["Mapper"] [] ["0", "1"] [""] := by decide

/-- `type Node struct{ *Node; Val int }`: the field walk does not enter a struct it is already inside of — ToX/FromX copy
    `Val` and never touch the (always nil) back reference (was finding region F_selfEmbed: the generator did not return) -/
def wSelfEmbed : Input :=
  { src := .embed "Node" true .nil (.field { name := "Val", ty := .basic "int" } .nil),
    dest := .field { name := "Val", ty := .basic "int" } .nil,
    cyclic := true }

theorem C09_selfEmbed_fixed :
    region09 wSelfEmbed = "WF" ∧
    obs09 wSelfEmbed [] [] [""] [""] = spec09 wSelfEmbed [] [] [""] [""] := by decide

end ShootVerif.Mapper
