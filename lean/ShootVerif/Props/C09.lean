import ShootVerif.Spec.Mapper
namespace ShootVerif.Mapper
theorem C09_placeholder : True := trivial
end ShootVerif.Mapper
