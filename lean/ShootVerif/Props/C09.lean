import ShootVerif.Proofs.MapperExec
/-!
C09 — ToX and FromX never panic and FromX fully resets its receiver.

Model: `execTo` / `execFrom` (Model/Mapper.lean): the allocation preamble (`DestPtrPathList` /
`SrcPtrPathList`), the read guards (`condofread`) and the statement bodies of mapper.tmpl evaluated
in `Except` (error = panic) on a reading side whose slots `N` (embedded pointers, pointer fields,
slices, slice elements) are nil. Spec: `idealTo` / `idealFrom` (Spec/Mapper.lean): every statement
either runs completely or is skipped.

The theorems hold for EVERY nil assignment `N` (any list of slot names, not only the sampled masks)
and every receiver state. `WF09` = plain exported structs, mapper type not embedded by pointer (or not
used), and the emitted path tables are closed: every embedded pointer crossed by a guard entry / an
allocation entry / a statement's read or write is tested, respectively allocated, earlier in the
list. That closure is a decidable clause evaluated per input (the driver prints the region); it is
not derived here from the sort order of the generator — see `C09_tables_partial`.
-/
namespace ShootVerif.Mapper

theorem plan_plain_ctors (inp : Input) (hs : inp.srcNew = false) (hd : inp.destNew = false) :
    (plan inp).destCtor = none ∧ (plan inp).srcCtor = none := by
  simp [plan, hs, hd, sideParams, ctorMatch]

theorem fnOk (mp : Option Bool) (b : Bool) (cs : List Claim) (h : (mp != some true || !hasFunc cs) = true)
    (hb : b = true → mp = some true) : ∀ c ∈ cs, fnCallOk b c.strat = true := by
  intro c hc
  cases b with
  | false => cases c.strat <;> rfl
  | true =>
    have hm := hb rfl
    subst hm
    simp only [bne_self_eq_false, Bool.false_or, Bool.not_eq_true', hasFunc, List.any_eq_false] at h
    have := h c hc
    cases hs : c.strat <;> simp_all [fnCallOk]

/-- headline: for every nil assignment, ToX and FromX run without panic and compute the ideal result
    (each statement executed completely or skipped) — whatever the receiver of FromX held before -/
theorem C09_no_panic (inp : Input) (h : WF09 inp = true) (N : List String) :
    execTo inp N = .value (idealTo inp (plan inp) (tables inp (plan inp)) N) ∧
    ∀ recv, execFrom inp N recv = .value (idealFrom inp (plan inp) (tables inp (plan inp)) N) := by
  simp only [WF09, Bool.and_eq_true, Bool.not_eq_true', List.all_eq_true] at h
  obtain ⟨⟨⟨⟨⟨⟨hs, hd⟩, hm⟩, hcD⟩, hcS⟩, htTo⟩, htFrom⟩ := h
  have hctor := plan_plain_ctors inp hs hd
  have hm' : (inp.mapperPtr != some true || !hasFunc (plan inp).toStmts) = true ∧
      (inp.mapperPtr != some true || !hasFunc (plan inp).fromStmts) = true := by
    cases hmp : (inp.mapperPtr != some true)
    · simp only [hmp, Bool.false_or, Bool.and_eq_true] at hm ⊢; exact hm
    · simp
  constructor
  · unfold execTo execToP
    simp only [Bool.false_eq_true, ↓reduceIte, hctor.1]
    have ha := execAlloc_ok inp.destSem.ptrs (tables inp (plan inp)).destAlloc {} hcD
    rw [ha]
    have := execStmts_ideal inp.srcSem inp.destSem (tables inp (plan inp)).destAlloc N
      (inp.mapperPtr == some true && N.contains "Mapper") (plan inp).toStmts
      { alloc := [] ++ (tables inp (plan inp)).destAlloc } htTo (by simp)
      (fnOk inp.mapperPtr _ _ hm'.1 (by
        intro hb
        simp only [Bool.and_eq_true, beq_iff_eq] at hb
        exact hb.1))
    simp only [List.nil_append] at this
    simp only [bind, Except.bind, this, ofExcept, idealTo, List.nil_append]
  · intro recv
    unfold execFrom execFromP
    simp only [Bool.false_eq_true, ↓reduceIte, hctor.2]
    have ha := execAlloc_ok inp.srcSem.ptrs (tables inp (plan inp)).srcAlloc {} hcS
    rw [ha]
    have := execStmts_ideal inp.destSem inp.srcSem (tables inp (plan inp)).srcAlloc N
      (inp.mapperPtr == some true) (plan inp).fromStmts
      { alloc := [] ++ (tables inp (plan inp)).srcAlloc } htFrom (by simp)
      (fnOk inp.mapperPtr _ _ hm'.2 (by
        intro hb
        simpa using hb))
    simp only [List.nil_append] at this
    simp only [bind, Except.bind, this, ofExcept, idealFrom, List.nil_append]

/-- headline: the result of FromX does not depend on the receiver (nil, freshly allocated, or dirty) -/
theorem C09_reset (inp : Input) (h : WF09 inp = true) (N : List String) (r₁ r₂ : Recv) :
    execFrom inp N r₁ = execFrom inp N r₂ := by
  rw [(C09_no_panic inp h N).2 r₁, (C09_no_panic inp h N).2 r₂]

/-- a nil receiver of ToX and a nil argument of FromX yield nil (mapper.tmpl:25-27, 146-148) -/
theorem C09_nil_in_nil_out (inp : Input) (N : List String) (r : Recv) :
    execTo inp N true = .nil ∧ execFrom inp N r true = .nil := ⟨rfl, rfl⟩

/-- a statement whose reading path crosses a nil embedded pointer writes nothing; one that does not, and
    reads a non-nil value, writes exactly that value (with the mapper method applied) -/
theorem C09_skip_iff (rs ws : SideSem) (N : List String) (w : WSt) (c : Claim) (rl wl : Leaf)
    (hr : resolveField rs.tree c.rd = some rl) (hw : resolveField ws.tree c.wr = some wl) :
    ((hops rs.ptrs rl.path).all (nonNil N) = false → idealStmt rs ws N w c = w) ∧
    ((hops rs.ptrs rl.path).all (nonNil N) = true → ∀ v, idealValue c.strat (readVal N c rl) = some v →
      idealStmt rs ws N w c = { w with vals := w.vals ++ [(joinPath wl.path, v)] }) := by
  constructor
  · intro h; simp [idealStmt, hr, hw, h]
  · intro h v hv; simp [idealStmt, hr, hw, h, hv]

/-- the read guard computed by `prepareReadPaths` names only embedded pointers that are proper
    prefixes of the field's path (so a guard never tests an unrelated pointer). The converse direction
    and the outermost-first ORDER after `sort.Strings` are the closure clauses of `WF09`. -/
theorem C09_tables_partial (pp : List (List String)) (f : Field) :
    ∀ g ∈ readPaths pp f, g ∈ pp ∧ ∃ i, 0 < i ∧ i < f.path.length ∧ g = f.path.take i := by
  intro g hg
  simp only [readPaths, List.mem_filter, List.mem_filterMap, List.mem_range, List.contains_iff_mem] at hg
  obtain ⟨⟨i, hi, he⟩, hp⟩ := hg
  refine ⟨hp, i, ?_⟩
  by_cases h0 : i = 0
  · simp [h0] at he
  · simp only [h0, ↓reduceIte, Option.some.injEq] at he
    exact ⟨Nat.pos_of_ne_zero h0, hi, he.symm⟩

/-! ### non-vacuity -/

/-- src {*Base{ID int; *Inner{X string}}; P *Sub; Subs []*Sub}  dest {*Core{ID int}; X string; P Sub; Subs []Sub} -/
def exWF09 : Input :=
  let sub := Ty.named .src "Sub" (.struct "N:int")
  let subD := Ty.named .dest "Sub" (.struct "N:int,Other:string")
  { src := .embed "Base" true (.field { name := "ID", ty := .basic "int" }
              (.embed "Inner" true (.field { name := "X", ty := .basic "string" } .nil) .nil))
            (.field { name := "P", ty := .ptr sub } (.field { name := "Subs", ty := .slice (.ptr sub) } .nil)),
    dest := .embed "Core" true (.field { name := "ID", ty := .basic "int" } .nil)
            (.field { name := "X", ty := .basic "string" } (.field { name := "P", ty := subD }
              (.field { name := "Subs", ty := .slice subD } .nil))) }

example : WF09 exWF09 = true ∧ region09 exWF09 = "WF" := by decide
example : (tables exWF09 (plan exWF09)).destAlloc = [["Core"]] ∧
    (tables exWF09 (plan exWF09)).srcAlloc = [["Base"], ["Base", "Inner"]] := by decide
example : (execTo exWF09 ["Base.Inner", "P", "Subs#1"]).show (leavesOf exWF09.dest) =
    "Core.ID=Base.ID;X=zero;P=zero;Subs=[Subs,zero]" := by decide
example : (execTo exWF09 ["Base"]).show (leavesOf exWF09.dest) = "Core.ID=zero;X=zero;P=P;Subs=[Subs,Subs]" := by decide

/-! ### finding region -/

/-- `*Mapper` embedded by pointer, value-receiver methods: FromX panics on every input, ToX when the pointer is nil -/
def wPtrMapper : Input :=
  { src := .field { name := "Count", ty := .basic "int" } .nil,
    dest := .field { name := "Count", ty := .basic "string" } .nil,
    fns := [{ name := "Fn0", param := .basic "int", result := .basic "string" },
            { name := "Fn1", param := .basic "string", result := .basic "int" }],
    mapperPtr := some true, conv := [(.basic "int", .basic "string")] }

theorem C09_F_ptrMapper_witness :
    region09 wPtrMapper = "F_ptrMapper" ∧
    obs09 wPtrMapper ["Mapper"] [] ["0", "1"] [""] ≠ spec09 wPtrMapper ["Mapper"] [] ["0", "1"] [""] := by decide

end ShootVerif.Mapper
