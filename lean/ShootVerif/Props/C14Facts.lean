import ShootVerif.Gen.Facts
/-!
C14 — proof-side anchor on the table of top-level declarations of the templates, REGENERATED from
/repo's current source on every run (`Gen/Facts.lean`).

The model of the emitted -bit String() (`Bit.string`) is a function of the table and the value: it
has no memory, so the order in which values are stringified cannot matter (the correspondence
evaluates String() as a call history: ascending, descending, through every encoder, ascending
again).  On the source this needs that the emitted file keeps no package-level state besides the
five tables of C04 — no cache a String() call could fill for a later one.
-/
namespace ShootVerif.Enum

theorem C14_string_stateless :
    (Facts.tmplTopDecls.filter (fun d => d.1 = "internal/enumer/enumer.tmpl" && d.2.1 != "method")).map (fun d => (d.2.1, d.2.2.1)) =
      [("func", "_"), ("const", "_lower*_max"), ("var", "_lower*_values"), ("var", "_lower*_strings"),
       ("var", "_lower*_string_map"), ("var", "_lower*_value_map")] := by
  decide

end ShootVerif.Enum
