import ShootVerif.Proofs.Retry
/-!
C20 — RetryMiddleware(n, d) calls the wrapped transport until it returns a response with status
below 500 or n+1 attempts have been made, never more; returns that first acceptable response,
otherwise the last attempt's response and error; waits d before each retry.

All theorems: every `n : Nat` (the property's range; `n < 0` is covered separately), every
infinite outcome script. No bound on n or on the script.
-/
namespace ShootVerif.Retry

/-- headline: the loop of retry.go equals the specification, for every n and every script -/
theorem C20_model_eq_spec (script : Nat → Outcome) (n : Nat) :
    retry script (n : Int) = spec script n := by
  have hn : ¬ ((n : Int) < 0) := by omega
  simp only [retry, hn, ↓reduceIte, Int.toNat_natCast, spec]
  rw [loop_closed]
  cases h : firstAcceptable script (n + 1) 0 with
  | some k => simp [specTrace_eq]
  | none => simp [specTrace_eq]

/-- never more than n+1 attempts -/
theorem C20_bound (script : Nat → Outcome) (n : Nat) : calls (retry script n).1 ≤ n + 1 := by
  rw [C20_model_eq_spec, spec]
  cases h : firstAcceptable script (n + 1) 0 with
  | some k =>
    have := firstAcceptable_some h
    simp only [specTrace_eq, calls_traceFrom]; omega
  | none => simp only [specTrace_eq, calls_traceFrom]; omega

/-- stops at the first acceptable outcome and returns that response with a nil error -/
theorem C20_stop_first (script : Nat → Outcome) (n k : Nat) (hk : k ≤ n)
    (hacc : (script k).acceptable = true) (hmin : ∀ j, j < k → (script j).acceptable = false) :
    calls (retry script n).1 = k + 1 ∧ (retry script n).2 = ⟨some k, none⟩ := by
  rw [C20_model_eq_spec, spec]
  have := firstAcceptable_of_first (script := script) (k := n + 1) (a := 0) (i := k)
    (Nat.zero_le _) (by omega) hacc (fun j _ h => hmin j h)
  rw [this]
  simp [specTrace_eq, calls_traceFrom]

/-- no acceptable outcome among the first n+1: exactly n+1 calls and the LAST attempt's
    response and error are returned -/
theorem C20_exhaust (script : Nat → Outcome) (n : Nat)
    (hnone : ∀ j, j ≤ n → (script j).acceptable = false) :
    calls (retry script n).1 = n + 1 ∧
    (retry script n).2 = ⟨if (script n).hasResp then some n else none, if (script n).hasErr then some n else none⟩ := by
  rw [C20_model_eq_spec, spec]
  have : firstAcceptable script (n + 1) 0 = none := by
    cases h : firstAcceptable script (n + 1) 0 with
    | none => rfl
    | some i =>
      have := firstAcceptable_some h
      have := hnone i (by omega)
      simp_all
  rw [this]
  simp [specTrace_eq, calls_traceFrom, retOf]

/-- the trace is `call 0 (sleep; call i)*`: every call but the first is immediately preceded by
    exactly one wait of d, and nothing else happens -/
theorem C20_sleeps (script : Nat → Outcome) (n : Nat) :
    (retry script n).1 = specTrace (calls (retry script n).1) := by
  rw [C20_model_eq_spec, spec]
  cases h : firstAcceptable script (n + 1) 0 with
  | some k => simp [specTrace_eq, calls_traceFrom]
  | none => simp [specTrace_eq, calls_traceFrom]

/-- the returned response, when the call is reported successful (nil error and a response below 500
    or not), is one that the transport really produced in this invocation -/
theorem C20_ret_in_range (script : Nat → Outcome) (n i : Nat)
    (h : (retry script n).2.resp = some i) : i < calls (retry script n).1 := by
  rw [C20_model_eq_spec, spec] at *
  cases hf : firstAcceptable script (n + 1) 0 with
  | some k => rw [hf] at h; simp [specTrace_eq, calls_traceFrom] at *; omega
  | none =>
    rw [hf] at h
    simp only [retOf] at h
    simp only [specTrace_eq, calls_traceFrom]
    split at h <;> simp at h; omega

/-- outside the property's range (stated for completeness): a negative retry count makes no call -/
theorem C20_negative (script : Nat → Outcome) (n : Int) (h : n < 0) :
    retry script n = ([], ⟨none, none⟩) := by simp [retry, h]

/-! non-vacuity: concrete scripts meeting the hypotheses of `stop_first` and `exhaust` -/
example : let s : Nat → Outcome := fun i => if i < 2 then .resp 503 else .resp 200
    (s 2).acceptable = true ∧ (∀ j, j < 2 → (s j).acceptable = false) ∧
    retry s 5 = ([.call 0, .sleep, .call 1, .sleep, .call 2], ⟨some 2, none⟩) := by
  refine ⟨by decide, ?_, by decide⟩
  intro j hj
  have : j = 0 ∨ j = 1 := by omega
  rcases this with h | h <;> subst h <;> decide

example : retry (fun _ => Outcome.errResp 502) 1 = ([.call 0, .sleep, .call 1], ⟨some 1, some 1⟩) := by decide

end ShootVerif.Retry
