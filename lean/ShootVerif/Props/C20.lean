import ShootVerif.Proofs.Retry
/-!
C20 — RetryMiddleware(n, d) calls the wrapped transport until it returns a response with status
below 500 or n+1 attempts have been made, never more; returns that first acceptable response,
otherwise the last attempt's response and error; waits d before each retry.

All theorems: every `n : Nat` (the property's range; `n < 0` is covered separately), every
infinite outcome script. No bound on n or on the script.
-/
namespace ShootVerif.Retry

/-- headline: the loop of retry.go equals the specification, for every n and every script -/
theorem C20_model_eq_spec (script : Nat → Outcome) (n : Nat) :
    retry script (n : Int) = spec script n := by
  have hn : ¬ ((n : Int) < 0) := by omega
  simp only [retry, hn, ↓reduceIte, Int.toNat_natCast, spec]
  rw [loop_closed]
  cases h : firstAcceptable script (n + 1) 0 with
  | some k => simp [specTrace_eq]
  | none => simp [specTrace_eq]

/-- never more than n+1 attempts -/
theorem C20_bound (script : Nat → Outcome) (n : Nat) : calls (retry script n).1 ≤ n + 1 := by
  rw [C20_model_eq_spec, spec]
  cases h : firstAcceptable script (n + 1) 0 with
  | some k =>
    have := firstAcceptable_some h
    simp only [specTrace_eq, calls_traceFrom]; omega
  | none => simp only [specTrace_eq, calls_traceFrom]; omega

/-- stops at the first acceptable outcome and returns that response with a nil error -/
theorem C20_stop_first (script : Nat → Outcome) (n k : Nat) (hk : k ≤ n)
    (hacc : (script k).acceptable = true) (hmin : ∀ j, j < k → (script j).acceptable = false) :
    calls (retry script n).1 = k + 1 ∧ (retry script n).2 = ⟨some k, none⟩ := by
  rw [C20_model_eq_spec, spec]
  have := firstAcceptable_of_first (script := script) (k := n + 1) (a := 0) (i := k)
    (Nat.zero_le _) (by omega) hacc (fun j _ h => hmin j h)
  rw [this]
  simp [specTrace_eq, calls_traceFrom]

/-- no acceptable outcome among the first n+1: exactly n+1 calls and the LAST attempt's
    response and error are returned -/
theorem C20_exhaust (script : Nat → Outcome) (n : Nat)
    (hnone : ∀ j, j ≤ n → (script j).acceptable = false) :
    calls (retry script n).1 = n + 1 ∧
    (retry script n).2 = ⟨if (script n).hasResp then some n else none, if (script n).hasErr then some n else none⟩ := by
  rw [C20_model_eq_spec, spec]
  have : firstAcceptable script (n + 1) 0 = none := by
    cases h : firstAcceptable script (n + 1) 0 with
    | none => rfl
    | some i =>
      have := firstAcceptable_some h
      have := hnone i (by omega)
      simp_all
  rw [this]
  simp [specTrace_eq, calls_traceFrom, retOf]

/-- the trace is `call 0 (sleep; call i)*`: every call but the first is immediately preceded by
    exactly one wait of d, and nothing else happens -/
theorem C20_sleeps (script : Nat → Outcome) (n : Nat) :
    (retry script n).1 = specTrace (calls (retry script n).1) := by
  rw [C20_model_eq_spec, spec]
  cases h : firstAcceptable script (n + 1) 0 with
  | some k => simp [specTrace_eq, calls_traceFrom]
  | none => simp [specTrace_eq, calls_traceFrom]

/-- the returned response, when the call is reported successful (nil error and a response below 500
    or not), is one that the transport really produced in this invocation -/
theorem C20_ret_in_range (script : Nat → Outcome) (n i : Nat)
    (h : (retry script n).2.resp = some i) : i < calls (retry script n).1 := by
  rw [C20_model_eq_spec, spec] at *
  cases hf : firstAcceptable script (n + 1) 0 with
  | some k => rw [hf] at h; simp [specTrace_eq, calls_traceFrom] at *; omega
  | none =>
    rw [hf] at h
    simp only [retOf] at h
    simp only [specTrace_eq, calls_traceFrom]
    split at h <;> simp at h; omega

/-- outside the property's range (stated for completeness): a negative retry count makes no call -/
theorem C20_negative (script : Nat → Outcome) (n : Int) (h : n < 0) :
    retry script n = ([], ⟨none, none⟩) := by simp [retry, h]

/-! non-vacuity: concrete scripts meeting the hypotheses of `stop_first` and `exhaust` -/
example : let s : Nat → Outcome := fun i => if i < 2 then .resp 503 else .resp 200
    (s 2).acceptable = true ∧ (∀ j, j < 2 → (s j).acceptable = false) ∧
    retry s 5 = ([.call 0, .sleep, .call 1, .sleep, .call 2], ⟨some 2, none⟩) := by
  refine ⟨by decide, ?_, by decide⟩
  intro j hj
  have : j = 0 ∨ j = 1 := by omega
  rcases this with h | h <;> subst h <;> decide

example : retry (fun _ => Outcome.errResp 502) 1 = ([.call 0, .sleep, .call 1], ⟨some 1, some 1⟩) := by decide

/-! ## the request's body (the branch added to retry.go by 371dec3): every body kind, a failing `GetBody` included -/

/-- the whole loop (with the body branch of 371dec3) equals its specification for every n, script and body kind -/
theorem C20_body_model_eq_spec (script : Nat → Outcome) (n : Nat) (b : ReqBody) :
    retryB script (n : Int) b = specB script n b := by
  have hn : ¬ ((n : Int) < 0) := by omega
  simp only [retryB, hn, ↓reduceIte, Int.toNat_natCast, specB]
  cases hf : b.failAt with
  | none =>
    rw [loopB_none]
    have := C20_model_eq_spec script n
    simp only [retry, hn, ↓reduceIte, Int.toNat_natCast] at this
    exact this
  | some k =>
    dsimp only
    by_cases hk : 0 < k ∧ k ≤ n
    · rw [if_pos hk, loopB_closed script k (n + 1) 0 none hk.1 (Nat.zero_le _) (by omega)]
      simp only [Nat.sub_zero]
      cases firstAcceptable script k 0 with
      | some j => simp [specTrace_eq]
      | none =>
        have : k ≠ 0 := by omega
        simp [specTrace_eq, this]
    · rw [if_neg hk, loopB_unreached script k (n + 1) 0 none (by omega)]
      have := C20_model_eq_spec script n
      simp only [retry, hn, ↓reduceIte, Int.toNat_natCast] at this
      exact this

/-- the property's statement holds whatever the request carries, as long as its body can be sent again (no body,
    a stream the middleware cannot rewind, a replayable body whose `GetBody` succeeds) -/
theorem C20_body_irrelevant (script : Nat → Outcome) (n : Nat) (b : ReqBody) (h : b.failAt = none) :
    retryB script n b = spec script n := by
  rw [C20_body_model_eq_spec, specB, h]

/-- never more than n+1 attempts, for every body kind, a failing `GetBody` included -/
theorem C20_bound_any_body (script : Nat → Outcome) (n : Nat) (b : ReqBody) :
    calls (retryB script n b).1 ≤ n + 1 := by
  rw [C20_body_model_eq_spec, specB]
  have hs : calls (spec script n).1 ≤ n + 1 := by rw [← C20_model_eq_spec]; exact C20_bound script n
  cases hf : b.failAt with
  | none => exact hs
  | some k =>
    dsimp only
    by_cases hk : 0 < k ∧ k ≤ n
    · rw [if_pos hk]
      cases h : firstAcceptable script k 0 with
      | some j =>
        have := firstAcceptable_some h
        simp only [specTrace_eq, calls_traceFrom]; omega
      | none =>
        have : calls (specTrace k ++ [Event.sleep]) = k := by
          have := calls_traceFrom k 0
          unfold calls at *
          simp [specTrace_eq, this]
        dsimp only
        rw [this]; omega
    · rw [if_neg hk]; exact hs

/-- `GetBody` fails before attempt k (1 ≤ k ≤ n) and no earlier attempt was acceptable: exactly k calls, one more
    wait, and the outcome of attempt k-1 is returned -/
theorem C20_getbody_fail (script : Nat → Outcome) (n k : Nat) (hk : 0 < k) (hkn : k ≤ n)
    (hnone : ∀ j, j < k → (script j).acceptable = false) :
    retryB script n (.replay (some k)) = (specTrace k ++ [Event.sleep], retOf (some (k - 1, script (k - 1)))) := by
  rw [C20_body_model_eq_spec, specB]
  have : firstAcceptable script k 0 = none := by
    cases h : firstAcceptable script k 0 with
    | none => rfl
    | some i =>
      have := firstAcceptable_some h
      have := hnone i (by omega)
      simp_all
  simp [ReqBody.failAt, hk, hkn, this]

/-- a request whose body can be replayed is never handed on with a drained body: attempt 0 gets the request itself,
    every later attempt a clone with a fresh reader -/
theorem C20_replay_views (f : Option Nat) (t : List Event) :
    ∀ v ∈ views (.replay f) t, v = View.origFull ∨ v = View.cloneFull := by
  intro v hv
  simp only [views, List.mem_filterMap] at hv
  obtain ⟨e, _, he⟩ := hv
  cases e with
  | sleep => simp at he
  | call i =>
    simp only [Option.some.injEq, view] at he
    subst he
    by_cases h : i = 0 <;> simp [h]

/-- a request without a body is sent as it is on every attempt -/
theorem C20_nobody_views (t : List Event) : ∀ v ∈ views .none t, v = View.origNoBody := by
  intro v hv
  simp only [views, List.mem_filterMap] at hv
  obtain ⟨e, _, he⟩ := hv
  cases e with
  | sleep => simp at he
  | call i => simp only [Option.some.injEq, view] at he; exact he.symm

example : retryB (fun _ => Outcome.resp 503) 3 (.replay (some 2)) =
    ([.call 0, .sleep, .call 1, .sleep], ⟨some 1, none⟩) := by decide

example : (0 < 2 ∧ 2 ≤ 3) ∧ ∀ j, j < 2 → ((fun _ => Outcome.resp 503) j).acceptable = false := by
  exact ⟨by omega, fun _ _ => rfl⟩

end ShootVerif.Retry
