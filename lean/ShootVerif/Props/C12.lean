import ShootVerif.Proofs.EnumCodec
/-!
C12 — with -json, -text or -sql the enum marshals to its String() name and unmarshals only from a
declared name: any other input returns an error and leaves the target unchanged, so
decode(encode(c)) == c for every declared constant.  shoot.ParseEnum, TryParseEnum and IsEnum agree
with the generated ValueMap() and Values() for every string and integer.

`vmOf i` is the emitted `_t_value_map`, `tables i` the emitted constant table (model of str.go),
`i.decl` the declared constants.  All theorems: every `WF` input, EVERY string `s : Name`, every
target value, every integer of the type.  encoding/json is an external: a document is what
`json.Unmarshal(data, &string)` makes of it (`JsonIn`), a SQL value is `[]byte` or not (`SqlIn`).
-/
namespace ShootVerif.Enum

/-- ParseEnum succeeds with v exactly when (s, v) is an entry of ValueMap(), i.e. exactly when s is
    the trimmed name of the declared constant with value v -/
theorem C12_parse_iff (i : Input) (h : WF i = true) (s : Name) (v : Int) :
    (parseEnum (vmOf i) s = some v ↔ (s, v) ∈ vmOf i) ∧
    (parseEnum (vmOf i) s = some v ↔ ∃ c ∈ i.decl, trim i.T c.name = s ∧ c.val = v) := by
  have h2 := (C04_maps_inverse i h s v).2
  refine ⟨?_, h2⟩
  unfold parseEnum vmOf at *
  rw [h2]
  unfold valueMap
  rw [List.mem_map]
  constructor
  · rintro ⟨c, hc, hs, hv⟩
    exact ⟨c, (tables_perm h).mem_iff.mpr hc, by rw [hs, hv]⟩
  · rintro ⟨c, hc, he⟩
    have := Prod.mk.inj he
    exact ⟨c, (tables_perm h).mem_iff.mp hc, this.1, this.2⟩

/-- ParseEnum is the specification's lookup among the declared constants -/
theorem C12_parse (i : Input) (h : WF i = true) (s : Name) :
    parseEnum (vmOf i) s = specParse i.T i.decl s := C04_valuemap i h s

/-- TryParseEnum (any table, any string): the target is written only on success, and then with the
    parsed value -/
theorem C12_tryparse (vm : List (Name × Int)) (s : Name) (target : Int) :
    ((tryParseEnum vm s target).1 = false → (tryParseEnum vm s target).2 = target ∧ parseEnum vm s = none) ∧
    ((tryParseEnum vm s target).1 = true → parseEnum vm s = some (tryParseEnum vm s target).2) := by
  unfold tryParseEnum
  cases parseEnum vm s <;> simp

theorem C12_tryparse_spec (i : Input) (h : WF i = true) (s : Name) (target : Int) :
    tryParseEnum (vmOf i) s target = specDecode i.T i.decl (some s) target := by
  unfold tryParseEnum specDecode
  rw [C12_parse i h s]
  simp only [specParse, Option.bind_some]
  cases specValueOf i.T i.decl s <;> rfl

/-- IsEnum[T, TV](p), for EVERY integer type TV (kind `kV`, any width and signedness) and every value
    `p` of TV: true exactly when `p` is a declared value (no truncation, no reinterpretation of signs) -/
theorem C12_isenum_iff (i : Input) (h : WF i = true) (kV : Kind) (hbV : 0 < kV.bits) (p : Int)
    (hp : kV.has p = true) :
    isEnum i.kind kV (valuesT (tables i)) p = true ↔ ∃ c ∈ i.decl, c.val = p := by
  have f := WF.facts h
  unfold isEnum
  rw [List.any_eq_true]
  unfold valuesT
  constructor
  · rintro ⟨x, hx, he⟩
    obtain ⟨c, hc, rfl⟩ := List.mem_map.mp hx
    have hcd := (tables_perm h).mem_iff.mp hc
    simp only [Bool.and_eq_true, beq_iff_eq, decide_eq_decide] at he
    exact ⟨c, hcd, roundtrip_eq i.kind kV f.bits hbV c.val p (f.inKind c hcd) hp he.2 he.1.1 he.1.2⟩
  · rintro ⟨c, hc, rfl⟩
    refine ⟨c.val, List.mem_map_of_mem ((tables_perm h).mem_iff.mpr hc), ?_⟩
    rw [wrap_of_has i.kind f.bits c.val (f.inKind c hc), wrap_of_has kV hbV c.val hp]
    simp

theorem C12_isenum (i : Input) (h : WF i = true) (kV : Kind) (hbV : 0 < kV.bits) (p : Int)
    (hp : kV.has p = true) :
    isEnum i.kind kV (valuesT (tables i)) p = specIsEnum i.decl p := by
  rw [Bool.eq_iff_iff, C12_isenum_iff i h kV hbV p hp]
  simp [specIsEnum]

/-- every encoder puts the String() text on the wire: the trimmed name for a declared constant -/
theorem C12_encode (i : Input) (h : WF i = true) (x : Int) :
    encode i.kind i.T (tables i) x = specString i.T i.decl x := C04_string i h x

/-- decode(encode(c)) = c for every declared constant, for the three codecs, whatever the target held -/
theorem C12_codec_roundtrip (i : Input) (h : WF i = true) (c : Const) (hc : c ∈ i.decl) (target : Int) :
    unmarshalJSON (vmOf i) (.str (encode i.kind i.T (tables i) c.val).text) target = (none, c.val) ∧
    unmarshalText (vmOf i) (encode i.kind i.T (tables i) c.val).text target = (none, c.val) ∧
    scan (vmOf i) (.bytes (encode i.kind i.T (tables i) c.val).text) target = (none, c.val) := by
  have he : (encode i.kind i.T (tables i) c.val).text = trim i.T c.name := by
    unfold encode; rw [C04_string_declared i h c hc]; rfl
  have hp : parseEnum (vmOf i) (trim i.T c.name) = some c.val :=
    ((C12_parse_iff i h (trim i.T c.name) c.val).2).mpr ⟨c, hc, rfl, rfl⟩
  simp [unmarshalJSON, unmarshalText, scan, parseInto, he, hp]

/-- every string that is not a declared (trimmed) name is rejected by the three decoders, with an
    error, and the target keeps its value -/
theorem C12_reject (i : Input) (h : WF i = true) (s : Name) (hs : ∀ c ∈ i.decl, trim i.T c.name ≠ s) (target : Int) :
    unmarshalJSON (vmOf i) (.str s) target = (some .notFound, target) ∧
    unmarshalText (vmOf i) s target = (some .notFound, target) ∧
    scan (vmOf i) (.bytes s) target = (some .notFound, target) ∧
    parseEnum (vmOf i) s = none := by
  have hp : parseEnum (vmOf i) s = none := parse_none_of_not_name i h s hs
  simp [unmarshalJSON, unmarshalText, scan, parseInto, hp]

/-- non-string JSON (numbers, booleans, arrays, objects, null) and non-[]byte SQL values are rejected
    and leave the target unchanged -/
theorem C12_reject_nonstring (i : Input) (h : WF i = true) (target : Int) :
    unmarshalJSON (vmOf i) .other target = (some .notString, target) ∧
    unmarshalJSON (vmOf i) .null target = (some .notFound, target) ∧
    scan (vmOf i) .other target = (some .badType, target) := by
  have hp : parseEnum (vmOf i) [] = none :=
    parse_none_of_not_name i h [] (fun c hc => (WF.facts h).named c hc)
  simp [unmarshalJSON, scan, parseInto, hp]

/-- the three decoders, on every input (SQL text as `[]byte` or as Go `string` alike), are the
    specification: a declared name yields its constant, anything else an error and an untouched target -/
theorem C12_decode_spec (i : Input) (h : WF i = true) (target : Int) :
    (∀ d : JsonIn, (unmarshalJSON (vmOf i) d target).obs = specDecode i.T i.decl d.asName target) ∧
    (∀ s : Name, (unmarshalText (vmOf i) s target).obs = specDecode i.T i.decl (some s) target) ∧
    (∀ d : SqlIn, (scan (vmOf i) d target).obs = specDecode i.T i.decl d.asName target) := by
  have hinto : ∀ s : Name, (parseInto (vmOf i) s target).obs = specDecode i.T i.decl (some s) target := by
    intro s
    unfold parseInto specDecode
    rw [C12_parse i h s]
    simp only [specParse, Option.bind_some]
    cases specValueOf i.T i.decl s <;> rfl
  have hnull := (C12_reject_nonstring i h target).2.1
  refine ⟨?_, hinto, ?_⟩
  · intro d
    cases d with
    | str s => exact hinto s
    | null => rw [hnull]; rfl
    | other => rfl
  · intro d
    cases d with
    | bytes s => exact hinto s
    | str s => exact hinto s
    | other => rfl

/-! ### which codec methods a command line yields (ParseFlags, make*) -/

/-- the flag combination is refused (fatal, exit 1, nothing generated) exactly for `-gorm` without `-sql` -/
theorem C12_flags_reject_iff (a : FlagArgs) : parseFlags a = none ↔ (a.gorm = true ∧ a.sql = false) := by
  unfold parseFlags
  cases a.gorm <;> cases a.sql <;> simp

/-- every accepted command line switches on exactly the method groups it names (`-bit` and `-bitwise` are one
    flag), and the Gorm methods never come without Value/Scan -/
theorem C12_flags_faithful (a : FlagArgs) (f : Flags) (h : parseFlags a = some f) :
    makeSwitches f = ⟨a.bit || a.bitwise, a.json, a.text, a.sql, a.gorm⟩ ∧
    ((makeSwitches f).gorm = true → (makeSwitches f).sql = true) := by
  unfold parseFlags at h
  split at h
  · cases h
  · cases h
    rename_i hg
    unfold makeSwitches
    cases hb : a.bit <;> cases hw : a.bitwise <;> cases hs : a.sql <;> cases hgm : a.gorm <;> simp_all

/-- the C01 leg's prediction of the exit code is this flag check -/
theorem C12_flags_exit (p : PkgCase) :
    (c01Model p).1 = 1 ↔ parseFlags ⟨p.bit, false, p.json, p.text, p.sql, p.gorm⟩ = none := by
  rw [C12_flags_reject_iff]
  unfold c01Model
  cases p.gorm <;> cases p.sql <;> simp

example : parseFlags ⟨true, false, true, false, false, true⟩ = none ∧
    parseFlags ⟨true, false, true, false, true, true⟩ = some ⟨true, true, false, true, true⟩ := by decide

/-! ### finding region -/

/-- ParseEnum of a declared name from a package-level variable initializer that sorts before the
    generated file finds nothing (the generated map literal is initialized later: the dependency is
    hidden behind the generic call), for EVERY enum and every declared constant, where the property has
    ParseEnum succeed on every declared name -/
theorem C12_F_init_order_witness (i : Input) (h : WF i = true) (c : Const) (hc : c ∈ i.decl) :
    F_init_order i = true ∧ parseEnumAtInit (vmOf i) (trim i.T c.name) = none ∧
    specParse i.T i.decl (trim i.T c.name) = some c.val := by
  refine ⟨h, rfl, ?_⟩
  rw [← C12_parse i h]
  exact ((C12_parse_iff i h (trim i.T c.name) c.val).2).mpr ⟨c, hc, rfl, rfl⟩

/-! ### the former finding region F_sql_value_string (repaired in /repo 6a23295) -/

/-- -sql round-trips through the very driver.Value it produces: `Value()` returns the name as a Go
    string and `Scan` now parses a string like bytes, so Scan(Value(c)) = c for every declared constant -/
theorem C12_sql_value_string_fixed (i : Input) (h : WF i = true) (c : Const) (hc : c ∈ i.decl) (target : Int) :
    scan (vmOf i) (.str (encode i.kind i.T (tables i) c.val).text) target = (none, c.val) := by
  have he : (encode i.kind i.T (tables i) c.val).text = trim i.T c.name := by
    unfold encode; rw [C04_string_declared i h c hc]; rfl
  have hp : parseEnum (vmOf i) (trim i.T c.name) = some c.val :=
    ((C12_parse_iff i h (trim i.T c.name) c.val).2).mpr ⟨c, hc, rfl, rfl⟩
  simp [scan, parseInto, he, hp]

/-! ### the former finding regions, now asserted -/

/-- `type E int8; const EA E = -1` (the former sign-reinterpretation witness: IsEnum[E, uint8](255) is rejected now) -/
def signWitness : Input :=
  { T := ['E'], kind := ⟨true, 8⟩,
    blocks := [[{ names := [['E', 'A']], ty := some ['E'], hasVals := true, exprTy := none, vals := [-1] }]] }

example : WF signWitness = true ∧
    isEnum signWitness.kind ⟨false, 8⟩ (valuesT (tables signWitness)) 255 = false ∧
    isEnum signWitness.kind ⟨true, 16⟩ (valuesT (tables signWitness)) (-1) = true := by decide

/-- `type E uint8; const EA E = 44` (the former truncation witness: 300 is rejected now) -/
def truncWitness : Input :=
  { T := ['E'], kind := ⟨false, 8⟩,
    blocks := [[{ names := [['E', 'A']], ty := some ['E'], hasVals := true, exprTy := none, vals := [44] }]] }

/-- `type Taille int; const ( TaillePetit Taille = iota; TailleTrèsGrand )`: names are compared character by
    character, byte length and rune count play no role -/
def uniExample : Input :=
  { T := ['T', 'a', 'i', 'l', 'l', 'e'], kind := ⟨true, 64⟩,
    blocks := [[{ names := [['T', 'a', 'i', 'l', 'l', 'e', 'P', 'e', 't', 'i', 't']], ty := some ['T', 'a', 'i', 'l', 'l', 'e'],
                  hasVals := true, exprTy := none, vals := [0] },
                { names := [['T', 'a', 'i', 'l', 'l', 'e', 'T', 'r', 'è', 's', 'G', 'r', 'a', 'n', 'd']], ty := none,
                  hasVals := false, exprTy := none, vals := [1] }]] }

example : WF uniExample = true ∧
    unmarshalText (vmOf uniExample) ['T', 'r', 'è', 's', 'G', 'r', 'a', 'n', 'd'] 7 = (none, 1) ∧
    scan (vmOf uniExample) (.bytes ['T', 'r', 'è', 's', 'G', 'r', 'a', 'n', 'd']) 7 = (none, 1) ∧
    unmarshalText (vmOf uniExample) ['T', 'r', 'e', 's', 'G', 'r', 'a', 'n', 'd'] 7 = (some .notFound, 7) := by decide

/-! ### non-vacuity -/

example : WF truncWitness = true ∧ truncWitness.kind.has 44 = true ∧
    unmarshalJSON (vmOf truncWitness) (.str ['A']) 7 = (none, 44) ∧
    unmarshalJSON (vmOf truncWitness) (.str ['a']) 7 = (some .notFound, 7) ∧
    isEnum truncWitness.kind ⟨true, 64⟩ (valuesT (tables truncWitness)) 44 = true ∧
    isEnum truncWitness.kind ⟨true, 64⟩ (valuesT (tables truncWitness)) 300 = false := by decide

end ShootVerif.Enum
