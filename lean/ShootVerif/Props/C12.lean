import ShootVerif.Spec.Enum
namespace ShootVerif.Enum
theorem C12_placeholder : True := trivial
end ShootVerif.Enum
