import ShootVerif.Proofs.DetOrder
import ShootVerif.Spec.DetOrder
import ShootVerif.Proofs.GenState
import ShootVerif.Gen.Facts
/-!
C07 — output depends only on hand-written sources and the command line.

  "The bytes shoot writes are a function of the hand-written sources and the command line alone: repeated runs,
   runs from different directory locations, and runs over a package that already contains earlier shoot output
   (current or stale) all produce identical files.  In particular running the same command twice in a row is a
   fixpoint."

The model is a pure function, so the two ways a run can depend on something else are made explicit:

* iteration order – every `range` over a Go map takes the order as a parameter (`DetOrder.Oracle`); the table of
  sites is regenerated from the source (`Facts.mapRangeSites`) and must be covered (`C07_mapsites_covered`); the
  only other environment-dependent constructs in the source are the two of `C07_env_sites_covered`;
* files on disk – the package the analysis sees is `hand-written ∪ generated files present ∪ overlay`
  (`GenState.effective`); generated files are read back only through the accessor-interface look-up
  (`C07_stale_indep`).

Findings (the unchanged code violates the property; witness theorems below):
  F_getGoFile      – a type parameter / local type named like the requested type makes the output file name vary
  F_aliasDup       – two parameters aliased to one placeholder: which one is used varies
  F_msgOrder       – the success message lists the files in map order (log line only, not file bytes)
  F_embedderFirst  – `-getset`: a type processed before the shoot type it embeds: the second run differs from the first
  F_staleAllInOne  – `-file=` / `-type=*` with stale output: the stale all-in-one file is not shadowed by the overlay
-/
namespace ShootVerif.C07
open ShootVerif ShootVerif.DetOrder ShootVerif.GenState

/-! ## iteration order -/

/-- headline: on well-formed inputs the composed run does not depend on the iteration orders -/
theorem C07_order_indep (o₁ o₂ : Oracle) (i : Input) (h : DetOrder.WF i) : run o₁ i = run o₂ i := by
  obtain ⟨⟨hAlias, hHdr, hKv, hTab, hOut, hPass⟩, hGo, hInj, hSingle⟩ := h
  have perm2 : ∀ {α : Type} (s : String) (l : List α), (o₁.order s l).Perm (o₂.order s l) :=
    fun s l => (o₁.perm s l).trans (o₂.perm s l).symm
  have nodup1 : ∀ {ν : Type} (s : String) (l : Entries String ν), (keys l).Nodup → (keys (o₁.order s l)).Nodup :=
    fun s l hl => keys_nodup_perm (o₁.perm s l).symm hl
  -- getGoFile
  have e1 : i.typeNames.map (fun t => getGoFile (o₁.order ("getGoFile/" ++ t) i.defs) t)
      = i.typeNames.map (fun t => getGoFile (o₂.order ("getGoFile/" ++ t) i.defs) t) := by
    apply List.map_congr_left
    intro t ht
    obtain ⟨f, hf⟩ := hGo t ht
    exact getGoFile_perm (perm2 _ _) t f (fun d hd => hf d ((o₁.perm _ _).mem_iff.mp hd))
  -- alias
  have e2 : realPathParams (o₁.order "cookClient/asMap" i.alias) i.pathParams
      = realPathParams (o₂.order "cookClient/asMap" i.alias) i.pathParams := by
    apply realPathParams_perm (perm2 _ _)
    exact (List.Perm.nodup_iff ((o₁.perm "cookClient/asMap" i.alias).map (·.2))).mpr hInj
  -- parseHeaders
  have e3 : (fun k => get (putAll (o₁.order "parseHeaders/kvMap" i.kv) []) k)
      = (fun k => get (putAll (o₂.order "parseHeaders/kvMap" i.kv) []) k) := by
    funext k
    exact putAll_perm (perm2 _ _) (nodup1 _ _ hKv) [] k
  -- headers × DefaultHeaders
  have hfold : ∀ (hs : Entries String String) (T : Entries String (Entries String String)),
      hs.foldl (fun tabs e => eachTable tabs e.1 e.2) T = T.map (fun t => (t.1, putAll hs t.2)) := by
    intro hs
    induction hs with
    | nil => intro T; simp [putAll]
    | cons e hs ih =>
      intro T
      simp only [List.foldl_cons, ih, eachTable, List.map_map, putAll]
      rfl
  have hget : ∀ (hs : Entries String String) (T : Entries String (Entries String String)) (verb : String),
      get (T.map (fun t => (t.1, putAll hs t.2))) verb = (get T verb).map (putAll hs) := by
    intro hs T verb
    induction T with
    | nil => simp [get]
    | cons t T ih =>
      simp only [get, List.map_cons, List.find?_cons] at *
      by_cases ht : t.1 = verb
      · simp [ht]
      · simp only [ht, decide_false]; exact ih
  have e4 : (fun verb key => (get (hdrTables o₁ i) verb).bind (fun tab => get tab key))
      = (fun verb key => (get (hdrTables o₂ i) verb).bind (fun tab => get tab key)) := by
    funext verb key
    simp only [hdrTables, hfold, hget]
    rw [get_perm (perm2 "cookClient/DefaultHeaders" i.tables) (nodup1 _ _ hTab)]
    cases get (o₂.order "cookClient/DefaultHeaders" i.tables) verb with
    | none => rfl
    | some tab =>
      simp only [Option.map_some, Option.bind_some]
      exact putAll_perm (perm2 _ _) (nodup1 _ _ hHdr) tab key
  -- struct fields
  have e5 : gather (o₁.order "extractStructFields" i.structFiles) = gather (o₂.order "extractStructFields" i.structFiles) := by
    apply gather_perm (perm2 _ _)
    have := ((o₁.perm "extractStructFields" i.structFiles).filter (fun e => !e.2.isEmpty)).length_eq
    omega
  -- neverWriteCheck
  have e6 : covered (o₁.order "neverWriteCheck" i.writeSet) i.coverTest
      = covered (o₂.order "neverWriteCheck" i.writeSet) i.coverTest := covered_perm (perm2 _ _) _
  -- nilCheckWrite
  have hpasses := passes_equiv
    (i.passes.zipIdx.map (fun p => (p.1.1, o₁.order ("nilCheckWrite/" ++ toString p.2) p.1.2, o₂.order ("nilCheckWrite/" ++ toString p.2) p.1.2)))
    (by
      intro p hp
      rw [List.mem_map] at hp
      obtain ⟨q, hq, rfl⟩ := hp
      have hq' : q.1 ∈ i.passes := by
        have := List.mem_zipIdx hq
        simpa using List.getElem_mem this.2.1 |> fun h => this.2.2 ▸ h
      exact ⟨perm2 _ _, nodup1 _ _ (hPass q.1 hq')⟩)
    {} {} ⟨List.Perm.refl _, List.Perm.refl _, List.nodup_nil, fun _ => rfl⟩
  simp only [List.map_map, Function.comp_def] at hpasses
  have e7 : (ptrPaths (i.passes.zipIdx.map (fun p => (p.1.1, o₁.order ("nilCheckWrite/" ++ toString p.2) p.1.2)))).1
      = (ptrPaths (i.passes.zipIdx.map (fun p => (p.1.1, o₂.order ("nilCheckWrite/" ++ toString p.2) p.1.2)))).1 := by
    simp only [ptrPaths]
    exact sortStrings_perm hpasses.list
  have e8 : (fun k => get (ptrPaths (i.passes.zipIdx.map (fun p => (p.1.1, o₁.order ("nilCheckWrite/" ++ toString p.2) p.1.2)))).2 k)
      = (fun k => get (ptrPaths (i.passes.zipIdx.map (fun p => (p.1.1, o₂.order ("nilCheckWrite/" ++ toString p.2) p.1.2)))).2 k) := by
    funext k
    simp only [ptrPaths]
    exact hpasses.get k
  -- the writes
  have e9 : (fun n => get (writeAll (o₁.order "main/srcMap" i.outputs) i.dir) n)
      = (fun n => get (writeAll (o₂.order "main/srcMap" i.outputs) i.dir) n) := by
    funext n
    exact putAll_perm (perm2 _ _) (nodup1 _ _ hOut) i.dir n
  simp only [run, e1, e2, e3, e4, e5, e6, e7, e8, e9]

/-- what is read back after the writes is exactly the generated content (and untouched files stay) -/
theorem C07_writes (ord dir : Entries String String) (h : (keys ord).Nodup) (n : String) :
    get (writeAll ord dir) n = (get ord n).orElse (fun _ => get dir n) := get_putAll h dir n

/-- headline (second tie): every `range` over a map in the CURRENT source has an order-independence argument or
    is listed as conditional (finding region / outside the input domain), and the table has no stale entry -/
theorem C07_mapsites_covered :
    Facts.mapRangeSites.all (fun s => (siteTable.lookup (s.1, s.2.1, s.2.2.1)).isSome) = true ∧
    siteTable.all (fun e => Facts.mapRangeSites.any (fun s => (s.1, s.2.1, s.2.2.1) = e.1)) = true ∧
    Facts.mapRangeSites.all (fun s => s.2.2.2 = 1) = true := by decide

/-- no goroutine, select, clock, random number, process identity or environment variable is used; the only
    location-dependent calls are `filepath.Abs` (compared with `pkg.Dir`, both absolute: the comparison is
    location-independent) and `build.Import` for a REST parameter struct from another package -/
theorem C07_env_sites_covered :
    Facts.envSites = [("internal/restclient", "getPkgDir", "build.Import"), ("internal/shoot", "loadPkgs", "filepath.Abs")] := by
  decide

/-! finding witnesses: two iteration orders, two results -/

def oId : Oracle := { order := fun _ l => l, perm := fun _ l => List.Perm.refl l }
def oRev : Oracle := { order := fun _ l => l.reverse, perm := fun _ l => List.reverse_perm l }

def wInput : Input :=
  { defs := [⟨"T", true, "a.go"⟩, ⟨"Map", false, "b.go"⟩, ⟨"T", true, "b.go"⟩], typeNames := ["T"],
    alias := [("a", "id"), ("b", "id")], pathParams := ["id"], headers := [], kv := [], tables := [],
    structFiles := [], writeSet := [], coverTest := fun _ => false, passes := [],
    outputs := [("t.shootnew.a.go", "A"), ("t.shootnew.b.go", "B")], dir := [] }

/-- F_getGoFile: `type T struct{…}` in a.go and `func Map[T any](…)` in b.go – `getGoFile` returns a.go or b.go -/
theorem C07_F_getGoFile_witness :
    (run oId wInput).goFiles = ["a.go"] ∧ (run oRev wInput).goFiles = ["b.go"] ∧
    goFileCandidates wInput.defs "T" = ["a.go", "b.go"] := by decide

/-- F_aliasDup: `alias={a:id},{b:id}` – the placeholder `{id}` is filled from `a` or from `b` -/
theorem C07_F_aliasDup_witness :
    (run oId wInput).pathParams = ["b"] ∧ (run oRev wInput).pathParams = ["a"] := by decide

/-- F_msgOrder: the files are the same, the success message is not -/
theorem C07_F_msgOrder_witness :
    (∀ n, (run oId wInput).file n = (run oRev wInput).file n) ∧ message oId wInput ≠ message oRev wInput := by
  refine ⟨?_, by decide⟩
  intro n
  exact putAll_perm (List.reverse_perm _).symm (by decide) [] n

/-! ## files on disk -/

/-- stale independence, step level: the analysis of a type reads generated files ONLY through the accessor
    interfaces of the struct types it embeds.  Any two directory states that agree on those look-ups give the
    same result – so adding, removing or changing generated files (of any sub-command) that do not declare such
    an interface cannot change the output. -/
theorem C07_stale_indep (lk : Leaks) (fl : NFlags) (f₁ f₂ : Disk) (st : NSt) (t : NType)
    (h : ∀ e ∈ ((onceAux ((Ctor.flatten t.tree).filter (fun f => !f.isShadowed)) []).filter (·.isEmbeded)).map (·.name),
      lookupIface f₁ (e ++ "Getter") = lookupIface f₂ (e ++ "Getter") ∧
      lookupIface f₁ (e ++ "Setter") = lookupIface f₂ (e ++ "Setter")) :
    newStep lk fl f₁ st t = newStep lk fl f₂ st t := by
  have hi : ∀ (on : Bool) (sfx : String) (hs : sfx = "Getter" ∨ sfx = "Setter"),
      embedIfaces on f₁ sfx (((onceAux ((Ctor.flatten t.tree).filter (fun f => !f.isShadowed)) []).filter (·.isEmbeded)).map (·.name))
      = embedIfaces on f₂ sfx (((onceAux ((Ctor.flatten t.tree).filter (fun f => !f.isShadowed)) []).filter (·.isEmbeded)).map (·.name)) := by
    intro on sfx hs
    simp only [embedIfaces]
    cases on with
    | false => rfl
    | true =>
      simp only [↓reduceIte]
      apply List.filterMap_congr
      intro e he
      rcases hs with rfl | rfl
      · rw [(h e he).1]
      · rw [(h e he).2]
  have ha : ∀ sw, embedAccs sw f₁ (((onceAux ((Ctor.flatten t.tree).filter (fun f => !f.isShadowed)) []).filter (·.isEmbeded)).map (·.name))
      = embedAccs sw f₂ (((onceAux ((Ctor.flatten t.tree).filter (fun f => !f.isShadowed)) []).filter (·.isEmbeded)).map (·.name)) := by
    intro sw
    simp only [embedAccs]
    apply List.flatMap_congr
    intro e he
    rw [(h e he).1, (h e he).2]
  simp only [newStep, hi _ "Getter" (Or.inl rfl), hi _ "Setter" (Or.inr rfl), ha]

/-- `map`, `enum`, `rest` never read generated files: their steps ignore the directory altogether, so every
    history (repeat, stale output, deleted output) gives the same run -/
theorem C07_fixpoint_partial (lk : Leaks) (d₁ d₂ : Disk) :
    (∀ ts, generate (mapMachine lk) d₁ ts = generate (mapMachine lk) d₂ ts) ∧
    (∀ ts, generate simpleMachine d₁ ts = generate simpleMachine d₂ ts) := by
  have key : ∀ {σ τ ω : Type} (m : Machine σ τ ω), (∀ f f' s t, m.step f s t = m.step f' s t) →
      ∀ (ts : List τ) (ls : LoopSt σ τ ω), loop m d₁ ls ts = loop m d₂ ls ts := by
    intro σ τ ω m hm ts
    induction ts with
    | nil => intro ls; rfl
    | cons t ts ih =>
      intro ls
      have hi : ∀ last, iter m d₁ ls t last = iter m d₂ ls t last := by
        intro last
        simp only [iter, hm (effective d₁ ls.overlay) (effective d₂ ls.overlay)]
      cases ts with
      | nil => simp only [loop, hi]
      | cons t' ts' => simp only [loop, hi]; exact ih _
  constructor
  · intro ts
    simp only [generate]
    rw [key (mapMachine lk) (fun _ _ _ _ => rfl)]
  · intro ts
    simp only [generate]
    rw [key simpleMachine (fun _ _ _ _ => rfl)]

/-- a run whose every type is free of embedded structs is a fixpoint for `new` as well (nothing is looked up) -/
theorem C07_fixpoint_noembed (lk : Leaks) (fl : NFlags) (d₁ d₂ : Disk) (st : NSt) (t : NType)
    (h : (Ctor.flatten t.tree).all (fun f => !f.isEmbeded) = true) :
    newStep lk fl d₁ st t = newStep lk fl d₂ st t := by
  apply C07_stale_indep
  intro e he
  exfalso
  rw [List.mem_map] at he
  obtain ⟨f, hf, _⟩ := he
  rw [List.mem_filter] at hf
  have hsub : (onceAux ((Ctor.flatten t.tree).filter (fun f => !f.isShadowed)) []).Sublist (Ctor.flatten t.tree) := by
    have h1 : ∀ (l : List Ctor.Field) (seen : List String), (onceAux l seen).Sublist l := by
      intro l
      induction l with
      | nil => intro _; simp [onceAux]
      | cons a l ih =>
        intro seen
        simp only [onceAux]
        split
        · exact (ih seen).cons a
        · exact (ih _).cons₂ a
    exact (h1 _ _).trans List.filter_sublist
  have := List.all_eq_true.mp h f (hsub.subset hf.1)
  simp [hf.2] at this

def hE : NType :=
  { name := "E", file := "t.shootnew.e.go", gs := [("name", true, true)], tree := .field { name := "name", ptype := "string" } .nil }
def hA : NType :=
  { name := "A", file := "t.shootnew.a.go", gs := [("id", true, true)],
    tree := .embed "E" "E" false false (.field { name := "name", ptype := "string" } .nil) (.field { name := "id" } .nil) }

/-- F_embedderFirst: `shoot new -getset -type=A,E` (A embeds E) twice – the first run cannot see EGetter, the
    second finds it in the output of the first: AGetter changes, the run is not a fixpoint -/
theorem C07_F_embedderFirst_witness :
    let m := newMachine codeToday { getset := true }
    let run1 := generate m [] [hA, hE]
    let disk1 := afterRun [] (writtenSep m run1)
    let run2 := generate m disk1 [hA, hE]
    run1.map (·.2.getIfaces) = [[], []] ∧ run2.map (·.2.getIfaces) = [["E"], []] := by decide

def hM (withGetter : Bool) : NType :=
  { name := "M", file := "t.shootnew.m.go", gs := [("name", withGetter, true)],
    tree := .field { name := "name", ptype := "string", hasDoc := !withGetter, set := !withGetter } .nil }
def hZ : NType :=
  { name := "Z", file := "t.shootnew.z.go", gs := [("id", true, true)],
    tree := .embed "M" "M" false false (.field { name := "name", ptype := "string" } .nil) (.field { name := "id" } .nil) }

/-- F_staleAllInOne: `shoot new -getset -json -file=t.go` over M (embedded) and Z, then M.name becomes set-only.
    With the stale `t.shootnew.go` in place the fresh `t.shootnew.m.go` of the overlay sorts AFTER it, so Z still
    sees the old MGetter and its MarshalJSON calls `z.Name()`, which no longer exists; generated from scratch it does not -/
theorem C07_F_staleAllInOne_witness :
    let m := newMachine codeToday { getset := true, json := true }
    let disk1 := afterRun [] (writtenAio m "t.shootnew.go" (generate m [] [hM true, hZ]))
    (generate m disk1 [hM false, hZ]).map (·.2.jget) = [[], ["name", "id"]] ∧
    (generate m [] [hM false, hZ]).map (·.2.jget) = [[], ["id"]] := by decide

/-! ## non-vacuity -/

/-- a well-formed input with several entries per map: two header tables, two aliases, two passes, two files -/
def xInput : Input :=
  { defs := [⟨"T", true, "a.go"⟩, ⟨"U", true, "b.go"⟩, ⟨"T", false, "b.go"⟩], typeNames := ["T", "U"],
    alias := [("userID", "id"), ("n", "name")], pathParams := ["id", "name"],
    headers := [("X-A", "1"), ("X-B", "2")], kv := [("X-A", "1"), ("X-B", "2")],
    tables := [("GET", [("Accept", "json")]), ("POST", [("Accept", "json"), ("Content-Type", "json")])],
    structFiles := [("a.go", []), ("b.go", ["Name", "Size"])], writeSet := [("Model", ()), ("ID", ())],
    coverTest := fun p => p = "Model",
    passes := [(fun p => p = "E1" || p = "E1.EE", [("E1", "E1"), ("E2", "E2"), ("E1.EE", "EE")]), (fun p => p = "E2", [("E2", "E2"), ("E1", "E1")])],
    outputs := [("t.shootmap.a.go", "A"), ("t.shootmap.b.go", "B")], dir := [("t.go", "src")] }

example : DetOrder.WF xInput := by
  refine ⟨⟨by decide, by decide, by decide, by decide, by decide, ?_⟩, ?_, by decide, by decide⟩
  · intro p hp
    simp only [xInput, List.mem_cons, List.not_mem_nil, or_false] at hp
    rcases hp with rfl | rfl <;> decide
  · intro t ht
    simp only [xInput, List.mem_cons, List.not_mem_nil, or_false] at ht
    rcases ht with rfl | rfl
    · exact ⟨"a.go", by decide⟩
    · exact ⟨"b.go", by decide⟩

/-- and the run really goes through every site: both orders give this (non-trivial) result -/
example : (run oId xInput).goFiles = ["a.go", "b.go"] ∧ (run oRev xInput).pathParams = ["userID", "n"] ∧
    (run oRev xInput).ptrPaths = ["E1", "E1.EE", "E2"] ∧ (run oId xInput).ptrPaths = ["E1", "E1.EE", "E2"] ∧
    (run oRev xInput).structFields = ["Name", "Size"] ∧ (run oId xInput).header "POST" "X-B" = some "2" := by decide

end ShootVerif.C07
