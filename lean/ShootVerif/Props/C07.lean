import ShootVerif.Proofs.DetOrder
import ShootVerif.Spec.DetOrder
import ShootVerif.Proofs.GenState
import ShootVerif.Proofs.Repair
import ShootVerif.Gen.Facts
/-!
C07 — output depends only on hand-written sources and the command line.

  "The bytes shoot writes are a function of the hand-written sources and the command line alone: repeated runs,
   runs from different directory locations, and runs over a package that already contains earlier shoot output
   (current or stale) all produce identical files.  In particular running the same command twice in a row is a
   fixpoint."

The model is a pure function, so the two ways a run can depend on something else are made explicit:

* iteration order – every `range` over a Go map takes the order as a parameter (`DetOrder.Oracle`); the table of
  sites is regenerated from the source (`Facts.mapRangeSites`) and must be covered (`C07_mapsites_covered`); the
  only other environment-dependent constructs in the source are the two of `C07_env_sites_covered`;
* files on disk – the package the analysis sees is `hand-written ∪ generated files present ∪ overlay`
  (`GenState.effective`); generated files are read back only through the accessor-interface look-up
  (`C07_stale_indep`); running again over what a run has left is the same run (`C07_fixpoint`, all four sub-commands).

Fixed since: F_getGoFile (f3054bd: `getGoFile` is a package-scope look-up now; `C07_getGoFile_fixed`), F_aliasDup (62d8144:
a duplicate alias is a Fatal in every order; `C07_aliasDup_fixed`), F_msgOrder (376a366: the success message is sorted;
`C07_msgOrder_fixed`), F_pkgDirCwd (eb01b4a: the package of a REST parameter struct is resolved from the package directory, not
from the working directory; `C07_pkgDirCwd_fixed`, `C07_pkgDir_cwd_indep`).  Both are now part of `C07_order_indep`, which needs no condition on the alias map any more.
Findings (the unchanged code violates the property; witness theorems below):
  F_structTwice    – rest: a parameter struct declared in two files of the directory (build tags, external test package)
  F_embedderFirst  – `-getset`: a type processed before the shoot type it embeds: the second run differs from the first
  F_staleAllInOne  – `-file=` / `-type=*` with stale output: the stale all-in-one file is not shadowed by the overlay
-/
namespace ShootVerif.C07
open ShootVerif ShootVerif.DetOrder ShootVerif.GenState

/-! ## iteration order -/

/-- headline: on well-formed inputs the composed run does not depend on the iteration orders -/
theorem C07_order_indep (o₁ o₂ : Oracle) (i : Input) (h : DetOrder.WF i) : run o₁ i = run o₂ i := by
  obtain ⟨⟨_, hHdr, hKv, hTab, hOut, hPass⟩, hSingle⟩ := h
  unfold singleDecl at hSingle
  have perm2 : ∀ {α : Type} (s : String) (l : List α), (o₁.order s l).Perm (o₂.order s l) :=
    fun s l => (o₁.perm s l).trans (o₂.perm s l).symm
  have nodup1 : ∀ {ν : Type} (s : String) (l : Entries String ν), (keys l).Nodup → (keys (o₁.order s l)).Nodup :=
    fun s l hl => keys_nodup_perm (o₁.perm s l).symm hl
  -- alias (all inputs) and success message
  have e2 : realPathParamsChecked (o₁.order "cookClient/asMap" i.alias) i.pathParams
      = realPathParamsChecked (o₂.order "cookClient/asMap" i.alias) i.pathParams :=
    realPathParamsChecked_perm (perm2 _ _) _
  have e1 : successMessage (o₁.order "main/srcMap" i.outputs) = successMessage (o₂.order "main/srcMap" i.outputs) :=
    successMessage_perm (perm2 _ _)
  -- parseHeaders
  have e3 : (fun k => DetOrder.get (putAll (o₁.order "parseHeaders/kvMap" i.kv) []) k)
      = (fun k => DetOrder.get (putAll (o₂.order "parseHeaders/kvMap" i.kv) []) k) := by
    funext k
    exact putAll_perm (perm2 _ _) (nodup1 _ _ hKv) [] k
  -- headers × DefaultHeaders
  have e4 : (fun verb key => (DetOrder.get (hdrTables o₁ i) verb).bind (fun tab => DetOrder.get tab key))
      = (fun verb key => (DetOrder.get (hdrTables o₂ i) verb).bind (fun tab => DetOrder.get tab key)) := by
    funext verb key
    simp only [hdrTables, foldl_eachTable, get_map_putAll]
    rw [get_perm (perm2 "cookClient/DefaultHeaders" i.tables) (nodup1 _ _ hTab)]
    cases DetOrder.get (o₂.order "cookClient/DefaultHeaders" i.tables) verb with
    | none => rfl
    | some tab =>
      simp only [Option.map_some, Option.bind_some]
      exact putAll_perm (perm2 _ _) (nodup1 _ _ hHdr) tab key
  -- struct fields
  have e5 : gather (o₁.order "extractStructFields" i.structFiles) = gather (o₂.order "extractStructFields" i.structFiles) := by
    apply gather_perm (perm2 _ _)
    have := ((o₁.perm "extractStructFields" i.structFiles).filter (fun e => !e.2.isEmpty)).length_eq
    omega
  -- neverWriteCheck
  have e6 : covered (o₁.order "neverWriteCheck" i.writeSet) i.coverTest
      = covered (o₂.order "neverWriteCheck" i.writeSet) i.coverTest := covered_perm (perm2 _ _) _
  -- nilCheckWrite
  have hpasses := passes_equiv (fun p : String × (String → Bool) × Entries String String => p.2.1)
    (fun p => o₁.order ("nilCheckWrite/" ++ p.1) p.2.2) (fun p => o₂.order ("nilCheckWrite/" ++ p.1) p.2.2)
    i.passes (fun p hp => ⟨perm2 _ _, nodup1 _ _ (hPass p hp)⟩)
    {} {} ⟨List.Perm.refl _, List.Perm.refl _, List.nodup_nil, fun _ => rfl⟩
  have e7 : (ptrPaths (i.passes.map (fun p => (p.2.1, o₁.order ("nilCheckWrite/" ++ p.1) p.2.2)))).1
      = (ptrPaths (i.passes.map (fun p => (p.2.1, o₂.order ("nilCheckWrite/" ++ p.1) p.2.2)))).1 := by
    simp only [ptrPaths]
    exact sortStrings_perm hpasses.list
  have e8 : (fun k => DetOrder.get (ptrPaths (i.passes.map (fun p => (p.2.1, o₁.order ("nilCheckWrite/" ++ p.1) p.2.2)))).2 k)
      = (fun k => DetOrder.get (ptrPaths (i.passes.map (fun p => (p.2.1, o₂.order ("nilCheckWrite/" ++ p.1) p.2.2)))).2 k) := by
    funext k
    simp only [ptrPaths]
    exact hpasses.get k
  -- the writes
  have e9 : (fun n => DetOrder.get (writeAll (o₁.order "main/srcMap" i.outputs) i.dir) n)
      = (fun n => DetOrder.get (writeAll (o₂.order "main/srcMap" i.outputs) i.dir) n) := by
    funext n
    exact putAll_perm (perm2 _ _) (nodup1 _ _ hOut) i.dir n
  simp only [run, e1, e2, e3, e4, e5, e6, e7, e8, e9]

/-- what is read back after the writes is exactly the generated content (and untouched files stay) -/
theorem C07_writes (ord dir : Entries String String) (h : (keys ord).Nodup) (n : String) :
    DetOrder.get (writeAll ord dir) n = (DetOrder.get ord n).orElse (fun _ => DetOrder.get dir n) := get_putAll h dir n

/-- in particular the content of a written file does not depend on what the directory held before the run - a stale
    earlier output of the same name included, whether or not the new content is a prefix of it -/
theorem C07_writes_any_dir (ord d₁ d₂ : Entries String String) (h : (keys ord).Nodup) (n : String)
    (hn : (DetOrder.get ord n).isSome = true) :
    DetOrder.get (writeAll ord d₁) n = DetOrder.get (writeAll ord d₂) n := by
  rw [C07_writes ord d₁ h n, C07_writes ord d₂ h n]
  cases hg : DetOrder.get ord n with
  | none => rw [hg] at hn; cases hn
  | some v => rfl

/-- what each read of the file system in the CURRENT source looks at, and why the bytes written do not depend on it
    beyond the model's inputs -/
def readTable : List ((String × String × String) × String) := [
  (("internal/mapper", "ParseFlags", "os.Stat"), "existence of the -path directory (command line check, Fatal if absent)"),
  (("internal/restclient", "extractStructFields", "parser.ParseDir"), "finding F_structTwice"),
  (("internal/restclient", "getPkgDir", "build.Context.Import"), "directory of another package's parameter struct, resolved from the package directory (C07_pkgDir_cwd_indep)"),
  (("internal/shoot", "Clean", "os.ReadDir"), "after the writes: the entry NAMES of the package directory, to pick the other generated files to delete (-type=*)"),
  (("internal/shoot", "ParseCommonFlags", "os.Stat"), "existence / kind of the [dir] and -file arguments (command line check)"),
  (("internal/shoot", "firstLine", "os.Open"), "after the writes: header line of another generated file (Clean)"),
  (("internal/shoot", "loadPkgs", "packages.Load"), "THE input: the package = hand-written ∪ generated files present ∪ overlay (GenState.effective)")]

/-- second tie for `C07_writes`: every read of the file system in the CURRENT source (regenerated table
    `Facts.readSites`) is one of the modelled ones, and the table has no stale entry -/
theorem C07_read_sites_covered :
    Facts.readSites.all (fun s => (readTable.lookup s).isSome) = true ∧
    readTable.all (fun e => Facts.readSites.any (fun s => s = e.1)) = true := by decide

/-- `main` (where `notedownSrc` writes the output: temp file, rename) reads nothing: it does not look at the target
    before replacing it, so it cannot decide to keep an earlier output -/
theorem C07_output_not_read : Facts.readSites.all (fun s => s.1 != "cmd/shoot") = true := by decide

/-- headline (second tie): every `range` over a map in the CURRENT source has an order-independence argument or
    is listed as conditional (finding region / outside the input domain), and the table has no stale entry -/
theorem C07_mapsites_covered :
    Facts.mapRangeSites.all (fun s => (siteTable.lookup (s.1, s.2.1, s.2.2.1)).isSome) = true ∧
    siteTable.all (fun e => Facts.mapRangeSites.any (fun s => (s.1, s.2.1, s.2.2.1) = e.1)) = true ∧
    Facts.mapRangeSites.all (fun s => s.2.2.2 = 1) = true := by decide

/-- the "distinct keys" argument (`dst[k] = v` for the distinct keys `k` of the ranged map: `putAll_perm`) needs the index of the
    write to BE the range key: in the CURRENT source every map assignment in the body of a site of that kind is indexed by the
    site's key variable itself (`dst[f(k)] = v` with a non-injective `f` - say a case-folding of header names - would let two
    entries collide and the iteration order pick the survivor); and the `eachTable` site writes under the key of the enclosing
    distinct-keys range.  Regenerated table `Facts.mapRangeBody`. -/
theorem C07_distinct_key_writes :
    Facts.mapRangeBody.all (fun s => match siteTable.lookup (s.1, s.2.1, s.2.2.1) with
      | some .distinctKeys => s.2.2.2.2.all (fun ix => ix = s.2.2.2.1)
      | _ => true) = true ∧
    (Facts.mapRangeBody.filter (fun s => s.1 = "internal/restclient" && s.2.1 = "(*Generator).cookClient"
        && (s.2.2.1 = "headers" || s.2.2.1 = "g.data.DefaultHeaders"))).map (fun s => (s.2.2.2.1, s.2.2.2.2))
      = [("_", ["k"]), ("k", ["k"])] := by decide

/-- nothing but these five sites sorts anything in the CURRENT source: the success message (main), the values of one enum type
    (makeStr), the pointer-path lists of the mapper's nil checks.  In particular the list of types of an all-in-one run
    (`ListTypes`) is NOT sorted: the types are processed in declaration order, which with `-getset` decides which accessor
    interfaces an embedding type sees (`GenState.depsFirst`).  Regenerated table `Facts.sortSites`. -/
theorem C07_sort_sites :
    Facts.sortSites =
      [("cmd/shoot", "main", "sort.Strings"), ("internal/enumer", "(Generator).makeStr", "sort.Slice"),
       ("internal/mapper", "(Generator).makeReadCond", "sort.Strings"), ("internal/mapper", "(Generator).nilCheckWrite", "sort.Strings"),
       ("internal/mapper", "(Generator).nilCheckWrite", "sort.Strings")] := by decide

/-- which sites still need a condition on the input: only the directory re-parse of `extractStructFields` (finding
    F_structTwice) and the `-v` debug line of LoadPackage (stderr, not file bytes); every other site has its
    order-independence lemma for ALL inputs (the inputs being maps: distinct keys).
    Other places where a Go map could reach the output without a `range` statement, with the reason they cannot:
    the one template `range` over a map (`restclient.tmpl`, `index $.DefaultHeaders $httpmethod`) – text/template visits
    map keys in sorted order; `logx.DebugJSON` (-v) – encoding/json sorts map keys; all other map uses are look-ups. -/
theorem C07_sites_conditional :
    (siteTable.filter (fun e => conditional e.2)).map (·.1) =
      [("internal/restclient", "extractStructFields", "pkg.Files"), ("internal/restclient", "extractStructFields", "pkgs"),
       ("internal/shoot", "(*GeneratorBase).LoadPackage", "g.overlay")] := by decide

/-- no goroutine, select, clock, random number, process identity or environment variable is used; the only
    location-dependent calls are `filepath.Abs` (loadPkgs: compared with `pkg.Dir`, both absolute, the comparison is
    location-independent; getPkgDir: makes the [dir] argument absolute) and the go/build look-up of a REST parameter struct's
    package, which since eb01b4a runs in that absolute package directory (`C07_pkgDir_cwd_indep`) -/
theorem C07_env_sites_covered :
    Facts.envSites = [("internal/restclient", "getPkgDir", "build.Context.Import"), ("internal/restclient", "getPkgDir", "filepath.Abs"),
      ("internal/shoot", "loadPkgs", "filepath.Abs")] := by
  decide

/-! finding witnesses: two iteration orders, two results -/

def oId : Oracle := { order := fun _ l => l, perm := fun _ l => List.Perm.refl l }
def oRev : Oracle := { order := fun _ l => l.reverse, perm := fun _ l => List.reverse_perm l }

def wInput : Input :=
  { defs := [⟨"T", true, "a.go", true⟩, ⟨"Map", false, "b.go", true⟩, ⟨"T", true, "b.go", false⟩], typeNames := ["T"],
    alias := [("a", "id"), ("b", "id")], pathParams := ["id"], headers := [], kv := [], tables := [],
    structFiles := [], writeSet := [], coverTest := fun _ => false, passes := [],
    outputs := [("t.shootnew.a.go", "A"), ("t.shootnew.b.go", "B")], dir := [] }

/-- fixed by f3054bd: with `type T struct{…}` in a.go and `func Map[T any](…)` in b.go the old first-match-in-map-order
    could return a.go or b.go; the scope look-up returns the package-level type's file -/
theorem C07_getGoFile_fixed :
    getGoFileBefore wInput.defs "T" = "a.go" ∧ getGoFileBefore wInput.defs.reverse "T" = "b.go" ∧
    (run oId wInput).goFiles = ["a.go"] ∧ (run oRev wInput).goFiles = ["a.go"] := by decide

/-- fixed by 62d8144 (was F_aliasDup): `alias={a:id},{b:id}` – the old last-writer-wins loop filled `{id}` from `a`
    or from `b` depending on the order; now the run stops with a Fatal in every order -/
theorem C07_aliasDup_fixed :
    realPathParams wInput.alias ["id"] = ["b"] ∧ realPathParams wInput.alias.reverse ["id"] = ["a"] ∧
    (run oId wInput).pathParams = none ∧ (run oRev wInput).pathParams = none := by decide

/-- fixed by 376a366 (was F_msgOrder): the success message is sorted; only the `-v` debug line of LoadPackage still
    shows a map order -/
theorem C07_msgOrder_fixed :
    (run oId wInput).message = (run oRev wInput).message ∧ debugLine oId wInput ≠ debugLine oRev wInput := by decide

/-- F_structTwice: `extractStructFields` re-parses the whole directory with `parser.ParseDir` (no build constraints,
    every package clause) and appends the fields of EVERY struct of the requested name, ranging over the maps
    `pkgs` and `pkg.Files`: with `type Req struct{Name; Size}` in t.go and another `Req` in a file excluded by a build
    tag (or in the external test package) the query parameters of `M(ctx, req Req)` come out in two orders – and
    contain fields the real `Req` does not have -/
theorem C07_F_structTwice_witness :
    gather [("alt.go", ["Other"]), ("t.go", ["Name", "Size"])] = ["Other", "Name", "Size"] ∧
    gather [("t.go", ["Name", "Size"]), ("alt.go", ["Other"])] = ["Name", "Size", "Other"] := by decide

/-! the working directory -/

/-- `shoot rest`, struct parameter from another package: wherever the command is started (any module context of the working
    directory: the package's own module, another module that provides the same import path, no module at all), the struct's
    package directory is the one the import path has for the package that is being generated - the code at HEAD -/
theorem C07_pkgDir_cwd_indep (cwd₁ cwd₂ pkgCtx : ModCtx) (importPath : String) :
    getPkgDir cwd₁ pkgCtx importPath = getPkgDir cwd₂ pkgCtx importPath ∧
    getPkgDir cwd₁ pkgCtx importPath = pkgDirSpec pkgCtx importPath := ⟨rfl, rfl⟩

/-- fixed by eb01b4a (was F_pkgDirCwd): `getPkgDir` resolved the path with an empty source directory, i.e. from the process's
    working directory - started in a directory of ANOTHER module that also provides the import path (a second checkout, a fork, a
    vendored copy) the run read THAT module's struct, started outside any module it failed; now both give the package's own -/
theorem C07_pkgDirCwd_fixed :
    let pkgCtx : ModCtx := [("verifcases/c/dest", "/work/mod/c/dest")]
    let otherCtx : ModCtx := [("verifcases/c/dest", "/work/mod/c/zz_other/c/dest")]
    getPkgDirBefore otherCtx pkgCtx "verifcases/c/dest" = some "/work/mod/c/zz_other/c/dest" ∧
    getPkgDirBefore [] pkgCtx "verifcases/c/dest" = none ∧
    getPkgDir otherCtx pkgCtx "verifcases/c/dest" = some "/work/mod/c/dest" ∧
    getPkgDir [] pkgCtx "verifcases/c/dest" = pkgDirSpec pkgCtx "verifcases/c/dest" := by decide

/-! ## generated files are not input -/

/-- what each sub-command's type lister / collector admits as input, as a predicate on a top-level declaration
    (keyword, declared-name pattern, shape) – from the code: `new`: struct types whose name does not start with `_`
    (constructor.testNode); `enum`: named integer types and constants with an explicit type (enumer.ListTypes, makeStr);
    `rest`: interface types (restclient.testNode); `map`: exported struct types (mapper.testNode) -/
def hasPre (p s : String) : Bool := p.toList.isPrefixOf s.toList

def admits (tmpl kw name shape : String) : Bool :=
  if tmpl = "internal/constructor/constructor.tmpl" then kw = "type" && shape = "struct" && !hasPre "_" name
  else if tmpl = "internal/enumer/enumer.tmpl" then (kw = "const" && shape = "typed") || (kw = "type" && shape != "struct" && shape != "interface")
  else if tmpl = "internal/restclient/restclient.tmpl" then kw = "type" && shape = "interface"
  else if tmpl = "internal/mapper/mapper.tmpl" then kw = "type" && shape = "struct" && !(hasPre "_" name || hasPre "lower" name)
  else true

/-- no top-level declaration that a template of the CURRENT source emits is admitted as input by the same
    sub-command: its generated files are not input to it (besides the designated accessor-interface look-up of `new`,
    `C07_stale_indep`).  Regenerated table `Facts.tmplTopDecls`. -/
theorem C07_generated_not_input :
    Facts.tmplTopDecls.all (fun d => !admits d.1 d.2.1 d.2.2.1 d.2.2.2) = true := by decide

/-- and the enum collector still skips constants without an explicit type that carry a value – such as the generated
    `const _<t>_max = …` (the conditions under which `makeStr` skips a ValueSpec, from the CURRENT source) -/
theorem C07_enum_const_rule :
    Facts.enumConstRule = ["!ok", "vspec.Type == nil && len(vspec.Values) > 0", "vspec.Type != nil", "typ != typeName"] := by
  decide

/-! ## files on disk -/

/-- stale independence, step level: the analysis of a type reads generated files ONLY through the accessor
    interfaces of the struct types it embeds.  Any two directory states that agree on those look-ups give the
    same result – so adding, removing or changing generated files (of any sub-command) that do not declare such
    an interface cannot change the output. -/
theorem C07_stale_indep (lk : Leaks) (fl : NFlags) (f₁ f₂ : Disk) (st : NSt) (t : NType)
    (h : ∀ e ∈ embedsOf t,
      lookupIface f₁ (e ++ "Getter") = lookupIface f₂ (e ++ "Getter") ∧
      lookupIface f₁ (e ++ "Setter") = lookupIface f₂ (e ++ "Setter")) :
    newStep lk fl f₁ st t = newStep lk fl f₂ st t := newStep_files_congr lk fl f₁ f₂ st t h

/-- `map`, `enum`, `rest` never read generated files: their steps ignore the directory altogether, so every
    history (repeat, stale output, deleted output, any other directory content) gives the same run -/
theorem C07_disk_irrelevant (lk : Leaks) (d₁ d₂ : Disk) :
    (∀ ts, generate (mapMachine lk) d₁ ts = generate (mapMachine lk) d₂ ts) ∧
    (∀ ts, generate simpleMachine d₁ ts = generate simpleMachine d₂ ts) :=
  ⟨generate_disk_irrelevant (mapMachine lk) (fun _ _ _ _ => rfl) d₁ d₂,
   generate_disk_irrelevant simpleMachine (fun _ _ _ _ => rfl) d₁ d₂⟩

/-- fixpoint for `new` WITHOUT `-getset` at HEAD, separate files or all-in-one: such a run generates no accessor interface,
    so the files it writes (`W`) declare nothing that is read back; when the files it REPLACES declared none either (no
    output of an earlier `-getset` run under the same names - that mixture is outside the property: region `Out`), running
    again over what the run has left gives the same run.  Embedded types, `-json`, stale files of other types: all allowed. -/
theorem C07_fixpoint_new_plain (fl : NFlags) (hg : fl.getset = false) (ts : List NType) (d W : Disk)
    (hW : W = writtenSep (newMachine codeToday fl) (generate (newMachine codeToday fl) d ts) ∨
          ∃ n, W = writtenAio (newMachine codeToday fl) n (generate (newMachine codeToday fl) d ts))
    (hd : ∀ f ∈ d, f.name ∈ W.map (·.name) → f.defs = []) :
    generate (newMachine codeToday fl) (afterRun d W) ts = generate (newMachine codeToday fl) d ts := by
  show generate (newMachine noLeaks fl) (afterRun d W) ts = generate (newMachine noLeaks fl) d ts
  apply generate_nogetset_congr fl hg
  apply findDef_afterRun_nodefs W d ?_ hd
  have hmem := generate_nogetset_mem fl hg d ts
  rcases hW with rfl | ⟨n, rfl⟩
  · intro g hgm
    simp only [writtenSep, List.mem_map] at hgm
    obtain ⟨p, hp, rfl⟩ := hgm
    exact hmem p hp
  · intro g hgm
    simp only [writtenAio] at hgm
    split at hgm
    · cases hgm
    · simp only [List.mem_singleton] at hgm
      subst hgm
      show List.flatMap (fun p => ((newMachine noLeaks fl).gfile p.1 p.2).defs) (generate (newMachine noLeaks fl) d ts) = []
      rw [List.flatMap_eq_nil_iff]
      exact fun p hp => hmem p hp

/-- a type free of embedded structs looks nothing up: its `new` output is the same over any directory -/
theorem C07_fixpoint_noembed (lk : Leaks) (fl : NFlags) (d₁ d₂ : Disk) (st : NSt) (t : NType)
    (h : (Ctor.flatten t.tree).all (fun f => !f.isEmbeded) = true) :
    newStep lk fl d₁ st t = newStep lk fl d₂ st t := by
  apply C07_stale_indep
  rw [embedsOf_nil t h]
  intro e he
  cases he

/-- fixpoint for `new -getset` at HEAD (separate files): when every type comes after the listed types it embeds,
    running again over the directory the run has left gives the same run (hypotheses as in `C08_perm_new`) -/
theorem C07_fixpoint_new (fl : NFlags) (hg : fl.getset = true) (ts : List NType) (d : Disk)
    (hw : WFL ts) (hH : Hyg ts d) (hC : Clo ts d) (hd : DepsFirst ts) :
    generate (newMachine codeToday fl)
        (afterRun d (writtenSep (newMachine codeToday fl) (generate (newMachine codeToday fl) d ts))) ts
      = generate (newMachine codeToday fl) d ts := by
  show generate (newMachine noLeaks fl) (afterRun d (writtenSep (newMachine noLeaks fl) (generate (newMachine noLeaks fl) d ts))) ts
    = generate (newMachine noLeaks fl) d ts
  have hsub : ∀ p ∈ generate (newMachine noLeaks fl) d ts, p.1 ∈ ts := by
    rw [generate_eq_seqRun fl hg, seqRun_perm noLeaks fl hw ts d (fun _ h => h) hw.names hH hC hd ts (List.Perm.refl _) hd]
    intro p hp
    rw [List.mem_map] at hp
    obtain ⟨t, ht, rfl⟩ := hp
    exact ht
  have hinv := afterRun_inv fl hw _ d hsub hH
  rw [generate_eq_seqRun fl hg d ts] at hinv ⊢
  rw [generate_eq_seqRun fl hg]
  exact ((seqRun_agree noLeaks fl hw ts d _ (fun _ h => h) hH hinv.1 hC (fun i hi => (hinv.2 i hi).symm) hd).1).symm

/-- headline: `run (disk ∪ run disk) = run disk` on the well-formed region, all four sub-commands (the code at HEAD).
    `map`, `enum`, `rest`: over ANY directory and whatever has been written; `new` without `-getset`: when the replaced files
    declared no accessor interface (`C07_fixpoint_new_plain`); `new -getset`, separate files: when every listed type comes after
    the listed types it embeds, over a hygienic directory (`C07_fixpoint_new`; an embedder first is the finding F_embedderFirst).
    Not covered by a theorem: `new -getset` into ONE file (`-file=` / `-type=*`) - there the repeat legs of the correspondence
    decide, and the edited-source history is the finding F_staleAllInOne. -/
theorem C07_fixpoint (fl : NFlags) (d : Disk) :
    (∀ (lk : Leaks) (ts : List MType) (W : Disk),
      generate (mapMachine lk) (afterRun d W) ts = generate (mapMachine lk) d ts) ∧
    (∀ (ts : List SType) (W : Disk), generate simpleMachine (afterRun d W) ts = generate simpleMachine d ts) ∧
    (fl.getset = false → ∀ (ts : List NType) (W : Disk),
      (W = writtenSep (newMachine codeToday fl) (generate (newMachine codeToday fl) d ts) ∨
        ∃ n, W = writtenAio (newMachine codeToday fl) n (generate (newMachine codeToday fl) d ts)) →
      (∀ f ∈ d, f.name ∈ W.map (·.name) → f.defs = []) →
      generate (newMachine codeToday fl) (afterRun d W) ts = generate (newMachine codeToday fl) d ts) ∧
    (fl.getset = true → ∀ ts : List NType, WFL ts → Hyg ts d → Clo ts d → DepsFirst ts →
      generate (newMachine codeToday fl)
          (afterRun d (writtenSep (newMachine codeToday fl) (generate (newMachine codeToday fl) d ts))) ts
        = generate (newMachine codeToday fl) d ts) :=
  ⟨fun lk ts W => (C07_disk_irrelevant lk (afterRun d W) d).1 ts,
   fun ts W => (C07_disk_irrelevant noLeaks (afterRun d W) d).2 ts,
   fun hg ts W hW hd => C07_fixpoint_new_plain fl hg ts d W hW hd,
   fun hg ts hw hH hC hdf => C07_fixpoint_new fl hg ts d hw hH hC hdf⟩

/-- stale independence for `new -getset` at HEAD, run level: two hygienic directories that agree on the interfaces
    of the types OUTSIDE the list give the same run, whatever (stale) output of the listed types they hold -/
theorem C07_stale_indep_new (fl : NFlags) (hg : fl.getset = true) (ts : List NType) (a b : Disk)
    (hw : WFL ts) (hHa : Hyg ts a) (hHb : Hyg ts b) (hC : Clo ts a) (hA : Agree ts a b) (hd : DepsFirst ts) :
    generate (newMachine codeToday fl) a ts = generate (newMachine codeToday fl) b ts := by
  show generate (newMachine noLeaks fl) a ts = generate (newMachine noLeaks fl) b ts
  rw [generate_eq_seqRun fl hg, generate_eq_seqRun fl hg]
  exact (seqRun_agree noLeaks fl hw ts a b (fun _ h => h) hHa hHb hC hA hd).1

/-- NOT A PROPERTY OF THE CODE AT HEAD (`codeRepair = noRepair`): a statement about the PROPOSED repair
    notes/proposed/deps-first-and-shadow-aio.patch, which was not applied.
    With the proposed repair the dependencies-first hypothesis on the list is not needed (separate files), and in
    all-in-one mode the run never sees its own earlier output, so it is a fixpoint over ANY directory -/
theorem C07_proposed_repair_fixpoint (fl : NFlags) (hg : fl.getset = true) (rp : Repair) (ts : List NType) (d : Disk) :
    (rp.depsFirst = true → RunOK ts d →
      generateR rp (newMachine codeToday fl) .sep
          (afterRun d (writtenSep (newMachine codeToday fl) (generateR rp (newMachine codeToday fl) .sep d ts))) ts
        = generateR rp (newMachine codeToday fl) .sep d ts) ∧
    (rp.shadowAio = true → ∀ n,
      generateR rp (newMachine codeToday fl) (.aio n)
          (afterRun d (writtenAio (newMachine codeToday fl) n (generateR rp (newMachine codeToday fl) (.aio n) d ts))) ts
        = generateR rp (newMachine codeToday fl) (.aio n) d ts) :=
  ⟨fun hrp h => generateR_sep_fixpoint fl hg rp hrp ts d h,
   fun hrp n => generateR_aio_fixpoint rp hrp (newMachine codeToday fl) n d ts⟩

def hE : NType :=
  { name := "E", file := "t.shootnew.e.go", gs := [("name", true, true)], tree := .field { name := "name", ptype := "string" } .nil }
def hA : NType :=
  { name := "A", file := "t.shootnew.a.go", gs := [("id", true, true)],
    tree := .embed "E" "E" false false (.field { name := "name", ptype := "string" } .nil) (.field { name := "id" } .nil) }

/-- F_embedderFirst: `shoot new -getset -type=A,E` (A embeds E) twice – the first run cannot see EGetter, the
    second finds it in the output of the first: AGetter changes, the run is not a fixpoint -/
theorem C07_F_embedderFirst_witness :
    let m := newMachine codeToday { getset := true }
    let run1 := generate m [] [hA, hE]
    let disk1 := afterRun [] (writtenSep m run1)
    let run2 := generate m disk1 [hA, hE]
    run1.map (·.2.getIfaces) = [[], []] ∧ run2.map (·.2.getIfaces) = [["E"], []] := by decide

def hM (withGetter : Bool) : NType :=
  { name := "M", file := "t.shootnew.m.go", gs := [("name", withGetter, true)],
    tree := .field { name := "name", ptype := "string", hasDoc := !withGetter, set := !withGetter } .nil }
def hZ : NType :=
  { name := "Z", file := "t.shootnew.z.go", gs := [("id", true, true)],
    tree := .embed "M" "M" false false (.field { name := "name", ptype := "string" } .nil) (.field { name := "id" } .nil) }

/-- F_staleAllInOne: `shoot new -getset -json -file=t.go` over M (embedded) and Z, then M.name becomes set-only.
    With the stale `t.shootnew.go` in place the fresh `t.shootnew.m.go` of the overlay sorts AFTER it, so Z still
    sees the old MGetter and its MarshalJSON calls `z.Name()`, which no longer exists; generated from scratch it does not -/
theorem C07_F_staleAllInOne_witness :
    let m := newMachine codeToday { getset := true, json := true }
    let disk1 := afterRun [] (writtenAio m "t.shootnew.go" (generate m [] [hM true, hZ]))
    (generate m disk1 [hM false, hZ]).map (·.2.jget) = [[], ["name", "id"]] ∧
    (generate m [] [hM false, hZ]).map (·.2.jget) = [[], ["id"]] := by decide

/-- `C07_fixpoint_new` / `C07_proposed_repair_fixpoint`: [E, A] is hygienic over a directory with stale output (decidable check);
    the embedder-first list [A, E] is a fixpoint with the repair (A has EGetter in the first run already) -/
example : hygB [hE, hA] [{ name := "t.shootnew.e.go", defs := [("EGetter", {})] }] = true ∧
    (let m := newMachine codeToday { getset := true }
     let r1 := generateR fullRepair m .sep [] [hA, hE]
     (generateR fullRepair m .sep (afterRun [] (writtenSep m r1)) [hA, hE]).map (·.2.getIfaces) = r1.map (·.2.getIfaces) ∧
     r1.map (·.2.getIfaces) = [["E"], []]) := by decide

/-- and the stale all-in-one file is not seen with the repair (compare `C07_F_staleAllInOne_witness`) -/
example : (let m := newMachine codeToday { getset := true, json := true }
     let disk1 := afterRun [] (writtenAio m "t.shootnew.go" (generateR fullRepair m (.aio "t.shootnew.go") [] [hM true, hZ]))
     (generateR fullRepair m (.aio "t.shootnew.go") disk1 [hM false, hZ]).map (·.2.jget) = [[], ["id"]] ∧
     (generateR noRepair m (.aio "t.shootnew.go") disk1 [hM false, hZ]).map (·.2.jget) = [[], ["name", "id"]]) := by decide

/-- `C07_fixpoint_new_plain` / `C07_fixpoint`, third part: `shoot new -json -type=M,Z` (Z embeds M) over a directory that holds
    MGetter in a file of ANOTHER name (hand-written, or output of another package member) - the hypotheses hold (the files the
    run replaces do not exist yet), the embedder reads the accessor, and the second run repeats the first -/
example : (let m := newMachine codeToday { json := true }
     let d : Disk := [{ name := "acc.go", defs := [("MGetter", { methods := ["Name"] })] }]
     let r1 := generate m d [hM true, hZ]
     let W := writtenSep m r1
     (∀ f ∈ d, f.name ∈ W.map (·.name) → f.defs = []) ∧
     r1.map (·.2.jget) = [["name"], ["name", "id"]] ∧ (generate m [] [hM true, hZ]).map (·.2.jget) = [["name"], ["id"]] ∧
     (generate m (afterRun d W) [hM true, hZ]).map (·.2.jget) = r1.map (·.2.jget)) := by decide

/-! ## non-vacuity -/

/-- a well-formed input with several entries per map: two header tables, two aliases, two passes, two files -/
def xInput : Input :=
  { defs := [⟨"T", true, "a.go", true⟩, ⟨"U", true, "b.go", true⟩, ⟨"T", true, "b.go", false⟩], typeNames := ["T", "U"],
    alias := [("userID", "id"), ("n", "name")], pathParams := ["id", "name"],
    headers := [("X-A", "1"), ("X-B", "2")], kv := [("X-A", "1"), ("X-B", "2")],
    tables := [("GET", [("Accept", "json")]), ("POST", [("Accept", "json"), ("Content-Type", "json")])],
    structFiles := [("a.go", []), ("b.go", ["Name", "Size"])], writeSet := [("Model", ()), ("ID", ())],
    coverTest := fun p => p = "Model",
    passes := [("ID", fun p => p = "E1" || p = "E1.EE", [("E1", "E1"), ("E2", "E2"), ("E1.EE", "EE")]), ("B", fun p => p = "E2", [("E2", "E2"), ("E1", "E1")])],
    outputs := [("t.shootmap.a.go", "A"), ("t.shootmap.b.go", "B")], dir := [("t.go", "src")] }

example : DetOrder.WF xInput := by
  refine ⟨⟨by decide, by decide, by decide, by decide, by decide, ?_⟩, by unfold singleDecl; decide⟩
  intro p hp
  simp only [xInput, List.mem_cons, List.not_mem_nil, or_false] at hp
  rcases hp with rfl | rfl <;> decide

/-- and the run really goes through every site: both orders give this (non-trivial) result -/
example : (run oId xInput).goFiles = ["a.go", "b.go"] ∧ (run oRev xInput).pathParams = some ["userID", "n"] ∧
    (run oRev xInput).ptrPaths = ["E1", "E1.EE", "E2"] ∧ (run oId xInput).ptrPaths = ["E1", "E1.EE", "E2"] ∧
    (run oRev xInput).structFields = ["Name", "Size"] ∧ (run oId xInput).header "POST" "X-B" = some "2" := by decide

end ShootVerif.C07
