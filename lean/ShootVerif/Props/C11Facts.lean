import ShootVerif.Proofs.NewFacts
/-!
C11 — proof-side anchors on the tables `flagGuards` / `flagReads` REGENERATED from /repo's current source on every run
(harness/cmd/facts/flagguards.go); see Proofs/NewFacts.lean. Kept apart from Props/C11.lean so that the theorems about the
hand-written model do not depend on the regenerated tables.
-/
namespace ShootVerif.NewFacts
open ShootVerif

/-- C11: json tags are read at exactly two places — for the struct's own fields under -json (condition starting with the
    flag), and for promoted fields in extractStructFields (since cd682d2; unconditionally, the tag is only consulted by
    makeJson) — and makeJson, the only consumer, returns at once without -json and reads -json and -tagcase only -/
theorem C11_json_guard :
    (ctorCalls.filter (fun g => g.2.2.1 == "parseJSONTag")) =
        [("internal/constructor", "extractStructFields", "parseJSONTag", []),
         ("internal/constructor", "extractTopFiels", "parseJSONTag", ["g.flags.json && f.Tag != nil"])] ∧
    (ctorCalls.filter (fun g => g.2.1 == "makeJson")).all (fun g => g.2.2.2 == ["!(!g.flags.json)"]) = true ∧
    (ctorReads.filter (·.1 == "makeJson")).map (·.2) = ["json", "tagcase"] := by
  decide

/-- C11 / C01: every spelling of a field of the shadow struct `_json_T` in constructor.tmpl — its declaration, the keys of
    the literal in MarshalJSON, the `data.<f>` assignments, the `<recv>_.<f>` reads of UnmarshalJSON — is produced by the
    same template action, so the references name the declared field whatever the Go field is called (table regenerated
    from the template on every run; before bf10dd1 the three references made from the exported-field list were `{{.}}`
    and an exported field such as `User_name` did not compile). All four kinds of place occur. -/
theorem C11_shadow_spelling :
    Facts.jsonShadowRefs.all (fun r => r.2 == "{{pascalCase .}}") = true ∧
    ["decl", "literal-key", "data-field", "decoded-field"].all (fun c => Facts.jsonShadowRefs.any (fun r => r.1 == c)) = true ∧
    (Facts.jsonShadowRefs.filter (fun r => r.1 == "decl")).length = 1 := by
  decide

end ShootVerif.NewFacts
