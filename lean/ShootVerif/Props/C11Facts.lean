import ShootVerif.Proofs.NewFacts
/-!
C11 — proof-side anchors on the tables `flagGuards` / `flagReads` REGENERATED from /repo's current source on every run
(harness/cmd/facts/flagguards.go); see Proofs/NewFacts.lean. Kept apart from Props/C11.lean so that the theorems about the
hand-written model do not depend on the regenerated tables.
-/
namespace ShootVerif.NewFacts
open ShootVerif

/-- C11: json tags are read at exactly two places — for the struct's own fields under -json (condition starting with the
    flag), and for promoted fields in extractStructFields (since cd682d2; unconditionally, the tag is only consulted by
    makeJson) — and makeJson, the only consumer, returns at once without -json and reads -json and -tagcase only -/
theorem C11_json_guard :
    (ctorCalls.filter (fun g => g.2.2.1 == "parseJSONTag")) =
        [("internal/constructor", "extractStructFields", "parseJSONTag", []),
         ("internal/constructor", "extractTopFiels", "parseJSONTag", ["g.flags.json && f.Tag != nil"])] ∧
    (ctorCalls.filter (fun g => g.2.1 == "makeJson")).all (fun g => g.2.2.2 == ["!(!g.flags.json)"]) = true ∧
    (ctorReads.filter (·.1 == "makeJson")).map (·.2) = ["json", "tagcase"] := by
  decide

end ShootVerif.NewFacts
