import ShootVerif.Proofs.NewFacts
/-!
C11 — proof-side anchors on the tables `flagGuards` / `flagReads` REGENERATED from /repo's current source on every run
(harness/cmd/facts/flagguards.go); see Proofs/NewFacts.lean. Kept apart from Props/C11.lean so that the theorems about the
hand-written model do not depend on the regenerated tables.
-/
namespace ShootVerif.NewFacts
open ShootVerif

/-- C11: json tags are read only under -json (one call site, whose condition starts with the flag), and makeJson reads
    -json and -tagcase only -/
theorem C11_json_guard :
    (ctorCalls.filter (fun g => g.2.2.1 == "parseJSONTag")) =
        [("internal/constructor", "extractTopFiels", "parseJSONTag", ["g.flags.json && f.Tag != nil"])] ∧
    (ctorReads.filter (·.1 == "makeJson")).map (·.2) = ["json", "tagcase"] := by
  decide

end ShootVerif.NewFacts
