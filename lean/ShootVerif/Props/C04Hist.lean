import ShootVerif.Proofs.EnumHist
/-!
C04 as a statement about RUNNING programs.  The four tables of the emitted file are package-level Go
variables; `step` is one call of an emitted method or of a runtime helper (enumer.go) against the current
tables, `run` a history of such calls (Model/Enum.lean).  The agreement with the declaration that C04
demands must hold at every point of every program, not only on freshly initialized tables: the theorems
below are by induction over the call list, for EVERY history (any length, any mix of declared and
undeclared values and names, any integer type TV in IsEnum).

Callers: the getters return the table itself (`return _t_values`), so a caller can write through the
result (`scribble`).  C04 quantifies over declarations and values of the type — it says what the generated
methods return, not that a program which overwrites their tables keeps getting it; a caller-side write is
therefore OUTSIDE the property (region `Out`: observed and compared with the model, never asserted).  What
is asserted: no call of the generated API or of the runtime package writes.  `C04_getters_alias_witness`
records the exposure.
-/
namespace ShootVerif.Enum

/-- no call writes a table: after ANY history — any program (any kind, -bit or not), any tables, any calls —
    the tables are the ones the history started with -/
theorem C04_tables_invariant (p : Prog) (st : Tables) (hist : List Call) : (run p st hist).1 = st :=
  run_state p st hist

/-- the result of a call does not depend on what was called before it -/
theorem C04_history_independent (p : Prog) (st : Tables) (hist : List Call) (c : Call) :
    (step p (run p st hist).1 c).2 = (step p st c).2 := by
  rw [run_state]

/-- the results of a history are the results of its calls, each made against the initial tables -/
theorem C04_run_results (p : Prog) (st : Tables) (hist : List Call) :
    (run p st hist).2 = hist.map (fun c => (step p st c).2) := run_results p st hist

/-- C04 at every point of every program (no -bit): for every WF declaration, after EVERY history of calls,
    every call — String / IsValid / Values / Strings / ValueMap / StringMap, the helpers, the codecs — returns
    what the property says, a function of the declaration and the call alone -/
theorem C04_history (i : Input) (h : WF i = true) (hist : List Call) (c : Call) (hc : c.ok = true) :
    (step (prog i false) (run (prog i false) (fresh i) hist).1 c).2 = specCall i.T i.kind false i.decl c := by
  rw [run_state]
  exact step_fresh_spec i h false c hc

/-- the getters hand out the tables themselves: after a caller wrote `Values()[0] = 9` every later
    `Values()` shows it, `IsEnum(9)` holds and `IsEnum` of the overwritten declared value does not
    (`type Color uint8`, values 0, 5, 7, 8).  Outside the property (see the file comment). -/
theorem C04_getters_alias_witness :
    let p := prog wfExample false
    let st := scribble (fresh wfExample) (.setValue 0 9)
    (step p st .values).2 = .ints [9, 5, 7, 8] ∧ (step p (fresh wfExample) .values).2 = .ints [0, 5, 7, 8] ∧
    (step p st (.isEnum ⟨true, 64⟩ 9)).2 = .bool true ∧ (step p st (.isEnum ⟨true, 64⟩ 0)).2 = .bool false ∧
    (step p st (.string 0)).2 = .str (.name ['Z']) := by decide

/-! ### non-vacuity: a concrete history on a concrete WF declaration (`negExample`: int8, values -128, -1, 0) -/

example : WF negExample = true ∧
    (run (prog negExample false) (fresh negExample)
      [.isEnum ⟨true, 64⟩ 7, .isEnum ⟨false, 8⟩ 255, .parseEnum ['R', 'e', 'd'], .parseEnum ['r', 'e', 'd'], .values,
       .string (-1), .string 3, .tryParse ['B'] 5]).2 =
      [.bool false, .bool false, .parsed (some (-1)), .parsed none, .ints [-128, -1, 0],
       .str (.name ['R', 'e', 'd']), .str (.dec 3), .tried (true, -128)] := by decide

end ShootVerif.Enum
