import ShootVerif.Model.Opt
import ShootVerif.Proofs.CtorMain
import ShootVerif.Proofs.Alloc
import ShootVerif.Proofs.AllocMap
import ShootVerif.Proofs.TypeMap
/-!
C13 — with -opt every field gets an option function that sets exactly that field; SetDefault
assigns each `def=` value; T.With(opts…) and shoot.NewWith(opts…) apply the defaults first and then
the options in argument order, so a later option overrides an earlier one and any default.
All theorems: every default list, every option sequence (any length, any repetitions), every
initial receiver state.
-/
namespace ShootVerif.Opt
open ShootVerif.Ctor

theorem foldl_set_last {β : Type} (g : β → Val) (l : List (String × β)) :
    ∀ (s : State) (n : String),
      (l.foldl (fun s o => set s o.1 (g o.2)) s) n =
        match lastFor l n with
        | some b => g b
        | none => s n := by
  induction l with
  | nil => intro s n; simp [lastFor]
  | cons x xs ih =>
    intro s n
    rw [List.foldl_cons, ih]
    simp only [lastFor, List.reverse_cons, List.find?_append]
    cases h : xs.reverse.find? (fun o => decide (o.1 = n)) with
    | some o => simp
    | none =>
      simp only [Option.none_or, Option.map_none, List.find?_cons, List.find?_nil]
      by_cases hx : x.1 = n
      · simp [hx, set]
      · have : ¬ (n = x.1) := fun e => hx e.symm
        simp [hx, set, this]

/-- `With` / `NewWith` are exactly: SetDefault, then the options folded left to right -/
theorem C13_fold (defs : List (String × String)) (opts : List (String × Val)) (s : State) :
    withM defs opts s = opts.foldl (fun s o => set s o.1 o.2) (setDefault defs s) := rfl

theorem C13_newWith_fold (defs : List (String × String)) (opts : List (String × Val)) :
    newWith defs opts = opts.foldl (fun s o => set s o.1 o.2) (setDefault defs (fun _ => .init)) := rfl

/-- HEADLINE: the final value of every field is that of the LAST option given for it, else its
    default, else what the receiver held before -/
theorem C13_last_wins (defs : List (String × String)) (opts : List (String × Val)) (s : State) (n : String) :
    withM defs opts s n = specFinal defs opts s n := by
  unfold withM applyOpts setDefault specFinal
  have h1 := foldl_set_last (fun v : Val => v) opts (defs.foldl (fun s d => set s d.1 (.defv d.2)) s) n
  have h2 := foldl_set_last (fun e : String => Val.defv e) defs s n
  rw [h1]
  cases lastFor opts n with
  | some v => rfl
  | none => simp only [h2]; cases lastFor defs n <;> rfl

/-- each option function touches exactly one field -/
theorem C13_one_field (s : State) (n : String) (v : Val) (m : String) (h : m ≠ n) :
    set s n v m = s m := by simp [set, h]

theorem C13_option_sets (s : State) (n : String) (v : Val) : set s n v n = v := by simp [set]

/-- a field that no option and no default names keeps the receiver's previous content -/
theorem C13_frame (defs : List (String × String)) (opts : List (String × Val)) (s : State) (n : String)
    (ho : ∀ o ∈ opts, o.1 ≠ n) (hd : ∀ d ∈ defs, d.1 ≠ n) : withM defs opts s n = s n := by
  rw [C13_last_wins]
  have a : lastFor opts n = none := by
    simp only [lastFor, Option.map_eq_none_iff, List.find?_eq_none, List.mem_reverse, decide_eq_true_eq]
    exact ho
  have b : lastFor defs n = none := by
    simp only [lastFor, Option.map_eq_none_iff, List.find?_eq_none, List.mem_reverse, decide_eq_true_eq]
    exact hd
  simp [specFinal, a, b]

/-- a later option overrides an earlier one and any default -/
theorem C13_later_overrides (defs : List (String × String)) (pre post : List (String × Val)) (s : State)
    (n : String) (v : Val) (hpost : ∀ o ∈ post, o.1 ≠ n) :
    withM defs (pre ++ (n, v) :: post) s n = v := by
  rw [C13_last_wins]
  have : lastFor (pre ++ (n, v) :: post) n = some v := by
    simp only [lastFor, List.reverse_append, List.reverse_cons, List.append_assoc, List.find?_append]
    have hp : post.reverse.find? (fun o => decide (o.1 = n)) = none := by
      simp only [List.find?_eq_none, List.mem_reverse, decide_eq_true_eq]; exact hpost
    simp [hp]
  simp [specFinal, this]

/-- option functions exist for exactly the visible (non-shadowed) leaves that are not skipped,
    one per leaf, in declaration order (AllList restated over the leaves) -/
theorem C13_options_are_visible_leaves (t : Tree) :
    allList (flatten t) =
      ((nonSkipped t).filter (fun l => !genShadow t l.depth l.info.name)).map (·.info.name) := by
  unfold allList
  rw [flatten_closed]
  have h1 : ∀ L : List Field, L.filter (fun f => !f.isShadowed && !f.isEmbeded) =
      (L.filter (fun f => !f.isEmbeded)).filter (fun f => !f.isShadowed) := by
    intro L; rw [List.filter_filter]
  rw [h1]
  unfold walkTop
  rw [walk_fields _ t true [] false 0, List.filter_map, List.map_map]
  unfold nonSkipped leavesTop genShadow walkTop
  congr 1

/-- the parameter type of every option function is the type of the field it sets: for each entry of AllList the
    name-keyed `TypeMap` of makeNew (`{{index $.TypeMap .}}` in the template; Model/TypeMap.lean) holds the printed type
    of the visible leaf of that name — provided the visible field names are pairwise distinct -/
theorem C13_option_types (t : Tree) (hnd : wfFieldNames t = true) :
    ∀ n ∈ allList (flatten t), ∃ l ∈ leavesTop t, l.info.name = n ∧ l.info.skip = false ∧
      genShadow t l.depth l.info.name = false ∧ typeMap (flatten t) n = some l.info.ptype := by
  intro n hn
  rw [C13_options_are_visible_leaves, List.mem_map] at hn
  obtain ⟨l, hl, rfl⟩ := hn
  simp only [nonSkipped, List.mem_filter, Bool.not_eq_true'] at hl
  obtain ⟨⟨hl1, hsk⟩, hsh⟩ := hl
  exact ⟨l, hl1, rfl, hsk, hsh, typeMap_of_leaf t hnd l hl1 hsk hsh⟩

/-- option names: `<Pascal field>Of<Type>`, or `<Pascal field>` with -short -/
theorem C13_names (short : Bool) (ty f : String) :
    optName short ty f = if short then Transfer.pascalS f else Transfer.pascalS f ++ "Of" ++ ty := rfl

/-- an option function for a field promoted through embedded pointer structs never dereferences a nil
    pointer, whatever is allocated beforehand (in particular on `new(T)` inside shoot.NewWith): it
    allocates exactly the embedded structs on the way (outermost first), keeps everything else, and then
    writes the field -/
theorem C13_option_no_panic (ptrs : List Alloc.Path) (h : Alloc.Heap) :
    ∃ h', Alloc.writeField ptrs h = .ok h' ∧ (∀ q ∈ ptrs, q ∈ h') ∧ (∀ q, q ∈ h → q ∈ h') ∧
      (∀ q, q ∈ h' → q ∈ h ∨ q ∈ ptrs) := by
  obtain ⟨h', e, a, b, c⟩ := Alloc.allocAll_ok ptrs [] h (by simp)
  refine ⟨h', ?_, by simpa using a, b, c⟩
  unfold Alloc.writeField
  rw [e]
  have : ptrs.all (fun q => h'.contains q) = true := by
    simp only [List.all_eq_true, List.contains_iff_mem]
    intro q hq; simpa using a q (by simp [hq])
  simp only [this, ↓reduceIte]

/-! non-vacuity -/
example : (match Alloc.writeField [["Base"], ["Base", "Inner", "Deep"]] [] with | .ok h => h == [["Base", "Inner", "Deep"], ["Base"]] | .panic => false) = true := by decide

example : withM [("port", "8080")] [("port", .opt 0), ("host", .opt 1), ("port", .opt 2)] (fun _ => .init) "port" = .opt 2 := by decide
example : withM [("port", "8080")] [("host", .opt 0)] (fun _ => .init) "port" = .defv "8080" := by decide

/-- the chains the generated guards / allocation lines use are those of the struct: the stack scan of `makeNew`
    over the generator's list pairs every field with exactly the embedded pointer structs on ITS way (none inherited
    from a sibling), and the name-keyed `AllocMap` returns that chain when unshadowed promoted names are distinct -/
theorem C13_alloc_chain (t : Tree) :
    (allocScan [] (flatten t)).map (fun e => (e.1.name, e.1.depth, e.2)) =
      ((leavesPtrs [] [] 0 t).filter (fun l => !l.2.2.1.skip)).map (fun l => (l.2.2.1.name, l.2.1, l.2.2.2.2)) := by
  rw [allocScan_flatten, treeAllocs_ptrs]

theorem C13_alloc_lookup (t : Tree) (e : Field × List (List String))
    (he : e ∈ allocScan [] (flatten t)) (hvis : e.1.isShadowed = false) (hdep : e.1.depth ≠ 0)
    (hnd : (((allocScan [] (flatten t)).filter (fun x => !x.1.isShadowed && x.1.depth != 0)).map (·.1.name)).Nodup) :
    allocMapOf (flatten t) e.1.name = e.2 :=
  allocMapOf_unique (flatten t) e he hvis hdep hnd

/-- non-vacuity: a pointer embed that is NOT the last member of its parent; the sibling after it is not under it -/
example :
    let t : Tree := .embed "Header" "Header" false false
      (.field { name := "Source" } (.embed "Trace" "Trace" true false (.field { name := "id" } .nil) (.field { name := "Version" } .nil)))
      (.field { name := "body" } .nil)
    (allocScan [] (flatten t)).map (fun e => (e.1.name, e.2)) =
      [("Source", []), ("id", [["Header", "Trace"]]), ("Version", []), ("body", [])] ∧
    allocMapOf (flatten t) "Version" = [] ∧ allocMapOf (flatten t) "id" = [["Header", "Trace"]] := by
  decide

end ShootVerif.Opt
