import ShootVerif.Spec.GetSet
import ShootVerif.Proofs.CtorMain
import ShootVerif.Proofs.Directive
import ShootVerif.Proofs.TypeMap
/-!
C03 — with -getset each unexported field gets exactly the accessors its `get`/`set` field directive
and the type-level `getter`/`setter` directive call for (both when undirected, none for exported
fields), named by Pascal-casing; a getter returns the field's current value, a setter changes that
field and nothing else; TGetter/TSetter list exactly these accessors plus the accessor interfaces of
embedded shoot types.
-/
namespace ShootVerif.GetSet
open ShootVerif.Ctor

theorem once_id (l : List Field) : ∀ (seen : List String),
    (l.map (·.name)).Nodup → (∀ f ∈ l, f.name ∉ seen) → once l seen = l := by
  induction l with
  | nil => intros; rfl
  | cons x xs ih =>
    intro seen hn hs
    simp only [List.map_cons, List.nodup_cons] at hn
    have hx : seen.contains x.name = false := by
      simpa using hs x (by simp)
    simp only [once, hx, Bool.false_eq_true, ↓reduceIte]
    rw [ih (x.name :: seen) hn.2]
    intro f hf
    simp only [List.mem_cons, not_or]
    refine ⟨?_, hs f (by simp [hf])⟩
    intro e
    exact hn.1 (by rw [← e]; exact List.mem_map_of_mem hf)

theorem genShadow_zero (t : Tree) (n : String) : genShadow t 0 n = false := by
  simp [genShadow, shadowOf]

/-- the names the generator iterates for accessors, restated over the leaves -/
theorem accessList_leaves (t : Tree) (hw : wfOnce t = true) (sel : Field → Bool) (selL : Leaf → Bool)
    (hsel : ∀ l ∈ leavesTop t, sel (mkField (genShadow t) l.depth l.marked l.info l.top) = selL l) :
    ((visited (flatten t)).filter (fun f => !f.isEmbeded && sel f)).map (·.name) =
      ((leavesTop t).filter (fun l => !l.info.skip && !genShadow t l.depth l.info.name && selL l)).map (·.info.name) := by
  unfold visited
  rw [once_id _ [] (by simpa [wfOnce] using hw) (by simp)]
  rw [List.filter_filter, flatten_closed]
  have h1 : ∀ L : List Field, L.filter (fun f => (!f.isEmbeded && sel f) && !f.isShadowed) =
      (L.filter (fun f => !f.isEmbeded)).filter (fun f => sel f && !f.isShadowed) := by
    intro L; rw [List.filter_filter]; congr 1; funext f
    cases f.isEmbeded <;> cases sel f <;> cases f.isShadowed <;> rfl
  rw [h1]
  unfold walkTop
  rw [walk_fields _ t true [] false 0, List.filter_map, List.map_map, List.filter_filter]
  unfold leavesTop
  have h2 : (leaves true [] false 0 t).filter (fun a =>
        ((fun f => sel f && !f.isShadowed) ∘ fun l => mkField (genShadow t) l.depth l.marked l.info l.top) a &&
          !a.info.skip) =
      (leaves true [] false 0 t).filter (fun l => !l.info.skip && !genShadow t l.depth l.info.name && selL l) := by
    apply List.filter_congr
    intro l hl
    have := hsel l hl
    simp only [Function.comp, this]
    simp only [mkField]
    cases selL l <;> cases l.info.skip <;> cases genShadow t l.depth l.info.name <;> rfl
  rw [h2]
  rfl

/-- HEADLINE (accessor table): a getter is emitted for field f iff f is one of the struct's own
    fields, unexported, not skipped, its field directive wants a getter and so does the type-level
    directive; in declaration order -/
theorem C03_table_getters (doc : Option (Bool × Bool)) (facts : IfaceFacts) (t : Tree) (hw : wfOnce t = true) :
    (gen doc facts t).getterOf.map Prod.snd = specGetFields doc t := by
  simp only [gen, List.map_map]
  unfold getList specGetFields
  have hsw : (typeSwitch doc).1 = typeGetter doc := by
    unfold typeSwitch typeGetter
    cases doc with
    | none => rfl
    | some p => obtain ⟨g, s⟩ := p; cases g <;> cases s <;> rfl
  rw [hsw]
  cases htg : typeGetter doc
  · simp
  · simp only [↓reduceIte, Bool.and_true]
    have := accessList_leaves t hw (fun f => f.isGet) (fun l => l.top && (accessOf l.info).1)
      (by intro l _; simp [mkField])
    simp only [Function.comp_def, List.map_map] at this ⊢
    rw [this]
    congr 1
    apply List.filter_congr
    intro l hl
    by_cases ht : l.top
    · have hd := (top_leaf_depth t true [] false 0 l hl ht).2
      have hz : genShadow t l.depth l.info.name = false := by rw [hd]; exact genShadow_zero t _
      simp only [ht, hz, Bool.not_false, Bool.and_true, Bool.true_and]
      unfold accessOf wantsGet
      cases l.info.skip <;> cases isExportedName l.info.name <;> cases l.info.hasDoc <;>
        cases l.info.get <;> cases l.info.set <;> rfl
    · simp [ht]

theorem C03_table_setters (doc : Option (Bool × Bool)) (facts : IfaceFacts) (t : Tree) (hw : wfOnce t = true) :
    (gen doc facts t).setterOf.map Prod.snd = specSetFields doc t := by
  simp only [gen, List.map_map]
  unfold setList specSetFields
  have hsw : (typeSwitch doc).2 = typeSetter doc := by
    unfold typeSwitch typeSetter
    cases doc with
    | none => rfl
    | some p => obtain ⟨g, s⟩ := p; cases g <;> cases s <;> rfl
  rw [hsw]
  cases htg : typeSetter doc
  · simp
  · simp only [↓reduceIte, Bool.and_true]
    have := accessList_leaves t hw (fun f => f.isSet) (fun l => l.top && (accessOf l.info).2)
      (by intro l _; simp [mkField])
    simp only [Function.comp_def, List.map_map] at this ⊢
    rw [this]
    congr 1
    apply List.filter_congr
    intro l hl
    by_cases ht : l.top
    · have hd := (top_leaf_depth t true [] false 0 l hl ht).2
      have hz : genShadow t l.depth l.info.name = false := by rw [hd]; exact genShadow_zero t _
      simp only [ht, hz, Bool.not_false, Bool.and_true, Bool.true_and]
      unfold accessOf wantsSet
      cases l.info.skip <;> cases isExportedName l.info.name <;> cases l.info.hasDoc <;>
        cases l.info.get <;> cases l.info.set <;> rfl
    · simp [ht]

/-- names: getter `Pascal(f)`, setter `Set` + `Pascal(f)` -/
theorem C03_names (doc : Option (Bool × Bool)) (facts : IfaceFacts) (t : Tree) :
    (gen doc facts t).getters = (gen doc facts t).getterOf.map (fun p => Transfer.pascalS p.2) ∧
    (gen doc facts t).setters = (gen doc facts t).setterOf.map (fun p => "Set" ++ Transfer.pascalS p.2) := by
  simp [gen, List.map_map, Function.comp_def]

/-- a getter returns what the setter of the same field stored -/
theorem C03_get_set {α : Type} (s : State α) (f : String) (v : α) : getF (setF s f v) f = v := by
  simp [getF, setF]

/-- a setter changes that field and nothing else -/
theorem C03_frame {α : Type} (s : State α) (f g : String) (v : α) (h : g ≠ f) : getF (setF s f v) g = getF s g := by
  simp [getF, setF, h]

/-- TGetter lists exactly the methods of the embedded accessor interfaces followed by the own
    getters, and is emitted iff that list of sources is non-empty (same for TSetter) -/
theorem C03_iface (doc : Option (Bool × Bool)) (facts : IfaceFacts) (t : Tree) :
    (gen doc facts t).getterIface =
      (if (getIfaces (typeSwitch doc).1 facts (flatten t)).isEmpty && (gen doc facts t).getters.isEmpty then none
       else some (((getIfaces (typeSwitch doc).1 facts (flatten t)).map (·.2)).flatten ++ (gen doc facts t).getters)) ∧
    (gen doc facts t).setterIface =
      (if (setIfaces (typeSwitch doc).2 facts (flatten t)).isEmpty && (gen doc facts t).setters.isEmpty then none
       else some (((setIfaces (typeSwitch doc).2 facts (flatten t)).map (·.2)).flatten ++ (gen doc facts t).setters)) := by
  simp [gen]

/-! non-vacuity -/
example :
    let t : Tree := .embed "Base" "Base" false false (.field { name := "b" } .nil)
      (.field { name := "b" } (.field { name := "Pub" } (.field { name := "ro", hasDoc := true, get := true } .nil)))
    wfOnce t = true ∧ (gen none (fun _ => (none, none)) t).getters = ["B", "Ro"] ∧
      (gen none (fun _ => (none, none)) t).setters = ["SetB"] ∧
      (gen (some (true, false)) (fun _ => (none, none)) t).setters = [] := by
  decide

/-- the result type of a getter and the parameter type of a setter are the type of the field: the name-keyed `TypeMap`
    of makeNew, which the template consults for both (`{{index $.TypeMap .}}`; Model/TypeMap.lean), answers with the printed
    type of that very field for every leaf that Go's selector rule does not hide and that is not left out — provided the
    visible field names are pairwise distinct (with a hidden namesake the map still answers for the visible one) -/
theorem C03_accessor_types (t : Tree) (hnd : wfFieldNames t = true) (l : Leaf) (hl : l ∈ leavesTop t)
    (hsk : l.info.skip = false) (hvis : goShadowed t l.depth l.info.name = false) :
    typeMap (flatten t) l.info.name = some l.info.ptype :=
  typeMap_of_leaf t hnd l hl hsk (by rw [shadow_agrees t l hl]; exact hvis)

example : wfFieldNames (.field { name := "id", ptype := "int" }
    (.embed "Base" "Base" false false (.field { name := "id", ptype := "string" } (.field { name := "age", ptype := "uint8" } .nil)) .nil)) = true ∧
    typeMap (flatten (.field { name := "id", ptype := "int" }
      (.embed "Base" "Base" false false (.field { name := "id", ptype := "string" } (.field { name := "age", ptype := "uint8" } .nil)) .nil))) "id" = some "int" := by
  decide

end ShootVerif.GetSet

namespace ShootVerif.Directive

/-- C03, the field directive at the level of the doc comment: `shoot: def=<v>;get` is a getter request (and the default
    `<v>`) for EVERY value text without `;` and newline — a `get` after a default of any shape is still read -/
theorem C03_get_after_def (v : List Char) (hne : v ≠ []) (hv : ∀ c ∈ v, c ≠ ';' ∧ c ≠ '\n') :
    parseDef ("shoot: def=".toList ++ (v ++ [';', 'g', 'e', 't'])) = some v ∧
    (parseGetSet ("shoot: def=".toList ++ (v ++ [';', 'g', 'e', 't']))).1 = true := directive_def_then_kw v hne hv

end ShootVerif.Directive
