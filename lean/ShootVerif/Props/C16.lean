import ShootVerif.Spec.Cli
namespace ShootVerif.Cli
theorem C16_placeholder : True := trivial
end ShootVerif.Cli
