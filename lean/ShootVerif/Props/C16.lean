import ShootVerif.Proofs.Cli
import ShootVerif.Proofs.CliLocals
/-!
C16 — type selection and output file naming follow the command line.

`run cmd pkg fl` is the model of the driver (Model/Cli.lean): `o` is the iteration order of the map
`TypesInfo.Defs` (an arbitrary function), `pkg` ANY list of files of declarations, `fl` ANY flag values.
`spec` is the property (Spec/Cli.lean). All theorems quantify over every package and flag record;
`region … = .WF` is the decidable well-formedness predicate whose clauses are listed in `region`/`validPkg`
(valid Go package inside the documented feature set; selection form the property talks about; not one of
the two finding regions, each of which has a witness theorem below).
-/
namespace ShootVerif.Cli

/-- headline: on the well-formed region the model's outcome meets the specification — exactly the specified
    files are written, each holding exactly the specified types, exactly they are listed; or, with a bad
    name in the list, a diagnostic is printed and no written file holds a bad name -/
theorem C16_model_meets_spec (cmd : Cmd) (pkg : Pkg) (fl : Flags) (h : region cmd pkg fl = .WF) :
    ∃ s, spec cmd pkg fl = some s ∧ meets (run cmd pkg fl) s = true := by
  rcases region_wf_cases h with ⟨hv, h⟩ | ⟨_, hgo, hnf⟩ | ⟨_, rfl, hl, h⟩ | ⟨_, hlh, hvs, h⟩
  · exact valid_meets cmd pkg fl hv h
  · obtain ⟨bad, ns, f, _, hs, hm⟩ := named_notinfile_meets cmd pkg fl hgo hnf
    exact ⟨_, hs, hm⟩
  · -- `new` on a package with function-local types / constants of predeclared types: decided on the package `new` sees
    obtain ⟨s, hs, hm⟩ := valid_meets .new (stripNew pkg) fl (validPkg_strip hl) h
    rw [spec_new_strip] at hs
    rw [run_new_strip] at hm
    exact ⟨s, hs, hm⟩
  · -- any sub-command on a package whose function-local types are of a kind its walk has no eye for
    obtain ⟨s, hs, hm⟩ := valid_meets cmd (stripLoc pkg) fl hvs h
    rw [spec_stripLoc] at hs
    rw [run_stripLoc cmd pkg fl hlh] at hm
    exact ⟨s, hs, hm⟩

/-- the success message lists exactly the written files, in sorted order (all inputs, no side condition) -/
theorem C16_listed (cmd : Cmd) (pkg : Pkg) (fl : Flags) (w : List (OutName × List String))
    (l : List OutName) (b : Bool) (hr : run cmd pkg fl = .done w l b) : l = sortNames cmd (w.map (·.1)) := by
  unfold run at hr
  split at hr
  · cases hr
  · split at hr
    · cases hr
    · split at hr
      · cases hr
      · rw [finish_eq] at hr
        cases hr
        rfl

/-- written files = specified files, whenever the specification asks for files -/
theorem C16_written_eq (cmd : Cmd) (pkg : Pkg) (fl : Flags) (h : region cmd pkg fl = .WF)
    (fs : List (OutName × List String)) (hs : spec cmd pkg fl = some (.files fs)) :
    ∃ b, run cmd pkg fl = .done fs (sortNames cmd (fs.map (·.1))) b := by
  obtain ⟨s, hs', hmeets⟩ := C16_model_meets_spec cmd pkg fl h
  rw [hs] at hs'
  cases hs'
  cases hr : run cmd pkg fl with
  | stop st => simp [hr, meets] at hmeets
  | done w l b =>
    simp only [hr, meets, beq_iff_eq] at hmeets
    exact ⟨b, by rw [C16_listed cmd pkg fl w l b hr, hmeets]⟩

/-- the set of types for which output is generated: the named types / the eligible types declared in the
    file / the eligible types of the package -/
theorem C16_selection (cmd : Cmd) (pkg : Pkg) (fl : Flags) (h : region cmd pkg fl = .WF)
    (fs : List (OutName × List String)) (hs : spec cmd pkg fl = some (.files fs)) :
    (∃ b, run cmd pkg fl = .done fs (sortNames cmd (fs.map (·.1))) b) ∧
    fs.flatMap (·.2) =
      match mode fl with
      | some (.named ns _) => ns
      | some (.file f _) => eligibleIn cmd pkg (some f)
      | some (.star _) => eligibleIn cmd pkg none
      | none => [] := by
  refine ⟨C16_written_eq cmd pkg fl h fs hs, ?_⟩
  have hsingle : ∀ (e : List String) (k : String → OutName), (e.map (fun n => (k n, [n]))).flatMap (·.2) = e := by
    intro e k; induction e with
    | nil => rfl
    | cons a r ih => simp [List.flatMap_cons, ih]
  unfold spec at hs
  cases hm : mode fl with
  | none => simp [hm] at hs
  | some md =>
    cases md with
    | named ns file =>
      simp only [hm] at hs ⊢
      split at hs
      · simp only [Option.some.injEq, SpecOut.files.injEq] at hs
        rw [← hs]; exact hsingle ns _
      · cases hs
    | file f sep =>
      simp only [hm] at hs ⊢
      split at hs
      · simp only [Option.some.injEq, SpecOut.files.injEq] at hs
        rw [← hs]; exact hsingle _ _
      · split at hs
        · rename_i he
          simp only [Option.some.injEq, SpecOut.files.injEq] at hs
          rw [← hs]; simpa [List.isEmpty_iff] using he.symm
        · simp only [Option.some.injEq, SpecOut.files.injEq] at hs
          rw [← hs]; simp
    | star sep =>
      simp only [hm] at hs ⊢
      split at hs
      · simp only [Option.some.injEq, SpecOut.files.injEq] at hs
        rw [← hs]; exact hsingle _ _
      · split at hs
        · rename_i he
          simp only [Option.some.injEq, SpecOut.files.injEq] at hs
          rw [← hs]; simpa [List.isEmpty_iff] using he.symm
        · simp only [Option.some.injEq, SpecOut.files.injEq] at hs
          rw [← hs]; simp

/-- ineligible declarations are skipped by `-file` and `-type=*` -/
theorem C16_ineligible_skipped (cmd : Cmd) (pkg : Pkg) (fl : Flags) (h : region cmd pkg fl = .WF)
    (hmode : ∀ ns file, mode fl ≠ some (.named ns file))
    (w : List (OutName × List String)) (l : List OutName) (b : Bool) (hr : run cmd pkg fl = .done w l b)
    (f : String) (t : TSpec) (ht : (f, t) ∈ declared pkg) (hne : eligible cmd pkg t = false) :
    t.name ∉ w.flatMap (·.2) := by
  -- it suffices to look at a valid package: for `new` with function-local types, the package `new` sees
  suffices H : ∀ pkg' : Pkg, validPkg pkg' = true → region cmd pkg' fl = .WF → run cmd pkg' fl = .done w l b →
      (f, t) ∈ declared pkg' → eligible cmd pkg' t = false → t.name ∉ w.flatMap (·.2) by
    rcases region_wf_cases h with ⟨hv, _⟩ | ⟨_, hgo, hnf⟩ | ⟨_, rfl, hl, h'⟩ | ⟨_, hlh, hvs, h'⟩
    · exact H pkg hv h hr ht hne
    · obtain ⟨bad, ns, f, hm, _, _⟩ := named_notinfile_meets cmd pkg fl hgo hnf
      exact absurd hm (hmode ns (some f))
    · exact H (stripNew pkg) (validPkg_strip hl) (region_of_valid (validPkg_strip hl) h') (by rw [run_new_strip]; exact hr)
        (by rw [declared_strip]; exact ht) (by rw [eligible_new_strip]; exact hne)
    · exact H (stripLoc pkg) hvs (region_of_valid hvs h') (by rw [run_stripLoc cmd pkg fl hlh]; exact hr)
        (by rw [declared_stripLoc]; exact ht) (by rw [eligible_stripLoc]; exact hne)
  intro pkg hv h hr ht hne
  obtain ⟨s, hs, hmeets⟩ := C16_model_meets_spec cmd pkg fl h
  have v := validFacts hv
  have hel : ∀ inFile, t.name ∉ eligibleIn cmd pkg inFile := by
    intro inFile hmem
    simp only [eligibleIn, List.mem_map, List.mem_filter, Bool.and_eq_true] at hmem
    obtain ⟨ft, ⟨hft, _, hel⟩, hn⟩ := hmem
    have := inj_of_nodup_map (fun ft : String × TSpec => ft.2.name) _ v.names _ hft _ ht hn
    rw [this] at hel
    simp [hne] at hel
  cases s with
  | rejected bad =>
    unfold spec at hs
    cases hm : mode fl with
    | none => simp [hm] at hs
    | some md =>
      cases md with
      | named ns file => exact absurd hm (hmode ns file)
      | file f sep => simp only [hm] at hs; (repeat' split at hs) <;> cases hs
      | star sep => simp only [hm] at hs; (repeat' split at hs) <;> cases hs
  | files fs =>
    have hsel := (C16_selection cmd pkg fl h fs hs).2
    simp only [hr, meets, beq_iff_eq] at hmeets
    rw [hmeets, hsel]
    cases hm : mode fl with
    | none => simp
    | some md =>
      cases md with
      | named ns file => exact absurd hm (hmode ns file)
      | file f sep => exact hel _
      | star sep => exact hel _

/-- naming a type that is missing or of the wrong kind yields a diagnostic and never an output file for it
    (all four sub-commands: `new`/`map`/`rest` stop with a Fatal, `enum` stops or skips the name with a warning) -/
theorem C16_missing_diag (cmd : Cmd) (pkg : Pkg) (fl : Flags) (h : region cmd pkg fl = .WF)
    (ns : List String) (file : Option String) (hm : mode fl = some (.named ns file))
    (n : String) (hn : n ∈ ns) (hbad : good cmd pkg file n = false) :
    run cmd pkg fl = .stop .fatal ∨
      ∃ w l, run cmd pkg fl = .done w l true ∧ n ∉ w.flatMap (·.2) := by
  obtain ⟨s, hs, hmeets⟩ := C16_model_meets_spec cmd pkg fl h
  have hmemb : n ∈ ns.filter (fun n => !good cmd pkg file n) := by simp [List.mem_filter, hn, hbad]
  have hs' : s = .rejected (ns.filter (fun n => !good cmd pkg file n)) := by
    unfold spec at hs
    simp only [hm] at hs
    split at hs
    · rename_i he
      simp only [List.isEmpty_iff] at he
      rw [he] at hmemb; cases hmemb
    · cases hs; rfl
  subst hs'
  cases hr : run cmd pkg fl with
  | stop st =>
    simp only [hr, meets, beq_iff_eq] at hmeets
    exact Or.inl (by rw [hmeets])
  | done w l b =>
    right
    simp only [hr, meets, Bool.and_eq_true, List.isEmpty_iff] at hmeets
    refine ⟨w, l, by rw [hmeets.1], ?_⟩
    intro hin
    have : n ∈ holdsBad (ns.filter (fun n => !good cmd pkg file n)) w := by
      simp only [holdsBad, List.mem_filter, List.any_eq_true, List.contains_eq_mem, decide_eq_true_eq]
      simp only [List.mem_flatMap] at hin
      exact ⟨by simpa [List.mem_filter] using hmemb, hin⟩
    rw [hmeets.2] at this
    cases this

/-- output names: a per-type file is `src.shoot<cmd>.<type>.go` with src.go the declaring file of its single type;
    an all-in-one file is `src.shoot<cmd>.go` with src.go a file of the package (the `-file` argument or the file
    carrying the go:generate line) -/
theorem C16_names (cmd : Cmd) (pkg : Pkg) (fl : Flags) (h : region cmd pkg fl = .WF)
    (w : List (OutName × List String)) (l : List OutName) (b : Bool) (hr : run cmd pkg fl = .done w l b)
    (fs : List (OutName × List String)) (hs : spec cmd pkg fl = some (.files fs)) :
    w = fs ∧ ∀ kv ∈ w,
      (∃ t f, kv.2 = [t] ∧ fileOf pkg t = some f ∧ kv.1 = ⟨stem f, some (comp t)⟩) ∨
      (∃ g ∈ pkg.map File.name, kv.1 = ⟨stem g, none⟩) := by
  -- it suffices to look at a valid package: for `new` with function-local types, the package `new` sees
  suffices H : ∀ pkg' : Pkg, validPkg pkg' = true → region cmd pkg' fl = .WF → run cmd pkg' fl = .done w l b →
      spec cmd pkg' fl = some (.files fs) →
      (w = fs ∧ ∀ kv ∈ w,
        (∃ t f, kv.2 = [t] ∧ fileOf pkg' t = some f ∧ kv.1 = ⟨stem f, some (comp t)⟩) ∨
        (∃ g ∈ pkg'.map File.name, kv.1 = ⟨stem g, none⟩)) by
    rcases region_wf_cases h with ⟨hv, _⟩ | ⟨_, hgo, hnf⟩ | ⟨_, rfl, hl, h'⟩ | ⟨_, hlh, hvs, h'⟩
    · exact H pkg hv h hr hs
    · obtain ⟨bad, ns, f, _, hs', _⟩ := named_notinfile_meets cmd pkg fl hgo hnf
      rw [hs] at hs'; cases hs'
    · have := H (stripNew pkg) (validPkg_strip hl) (region_of_valid (validPkg_strip hl) h') (by rw [run_new_strip]; exact hr)
        (by rw [spec_new_strip]; exact hs)
      simpa only [fileOf_strip, names_strip] using this
    · have := H (stripLoc pkg) hvs (region_of_valid hvs h') (by rw [run_stripLoc cmd pkg fl hlh]; exact hr)
        (by rw [spec_stripLoc]; exact hs)
      simpa only [fileOf_stripLoc, names_stripLoc] using this
  intro pkg hv h hr hs
  obtain ⟨b', hr'⟩ := C16_written_eq cmd pkg fl h fs hs
  rw [hr] at hr'
  cases hr'
  refine ⟨rfl, ?_⟩
  have hwf := region_wf_cases h
  have v := validFacts hv
  -- an eligible name is declared in the file `fileOf` reports
  have hdecl : ∀ inFile n, n ∈ eligibleIn cmd pkg inFile → ∃ f, fileOf pkg n = some f ∧ (∀ g, inFile = some g → f = g) := by
    intro inFile n hmem
    simp only [eligibleIn, List.mem_map, List.mem_filter, Bool.and_eq_true] at hmem
    obtain ⟨ft, ⟨hft, hin, _⟩, rfl⟩ := hmem
    obtain ⟨f, t⟩ := ft
    refine ⟨f, by simp [fileOf, findDecl_of_mem v hft], ?_⟩
    intro g hg; subst hg; simpa using hin
  have h : regionValid cmd pkg fl = .WF := by
    rcases hwf with ⟨_, h'⟩ | ⟨hv', _⟩ | ⟨hv', _⟩ | ⟨hv', _⟩
    · exact h'
    · rw [hv] at hv'; cases hv'
    · rw [hv] at hv'; cases hv'
    · rw [hv] at hv'; cases hv'
  unfold regionValid at h
  unfold spec at hs
  cases hm : mode fl with
  | none => simp [hm] at hs
  | some md =>
    cases md with
    | named ns file =>
      simp only [hm] at hs h
      split at hs
      · rename_i he
        simp only [Option.some.injEq, SpecOut.files.injEq] at hs
        subst hs
        intro kv hkv
        simp only [List.mem_map] at hkv
        obtain ⟨n, hn, rfl⟩ := hkv
        left
        have hg : good cmd pkg file n = true := by
          simp only [List.isEmpty_iff, List.filter_eq_nil_iff, Bool.not_eq_true', Bool.not_eq_false] at he
          exact he n hn
        obtain ⟨ft, hft, hname⟩ := good_declared hg
        obtain ⟨f, t⟩ := ft
        have hfo : fileOf pkg n = some f := by rw [← hname]; simp [fileOf, findDecl_of_mem v hft]
        exact ⟨n, f, rfl, hfo, by simp [perType, hfo]⟩
      · cases hs
    | file f sep =>
      simp only [hm] at hs h
      have hin : (pkg.map File.name).contains f = true := by
        cases hc : (pkg.map File.name).contains f with
        | true => rfl
        | false => rw [hc] at h; simp at h
      split at hs
      · simp only [Option.some.injEq, SpecOut.files.injEq] at hs
        subst hs
        intro kv hkv
        simp only [List.mem_map] at hkv
        obtain ⟨n, hn, rfl⟩ := hkv
        left
        obtain ⟨f', hfo, hf'⟩ := hdecl (some f) n hn
        exact ⟨n, f', rfl, hfo, by rw [hf' f rfl]⟩
      · split at hs
        · simp only [Option.some.injEq, SpecOut.files.injEq] at hs
          subst hs; intro kv hkv; cases hkv
        · simp only [Option.some.injEq, SpecOut.files.injEq] at hs
          subst hs
          intro kv hkv
          simp only [List.mem_singleton] at hkv
          subst hkv
          right
          exact ⟨f, by simpa using hin, rfl⟩
    | star sep =>
      simp only [hm] at hs h
      split at hs
      · simp only [Option.some.injEq, SpecOut.files.injEq] at hs
        subst hs
        intro kv hkv
        simp only [List.mem_map] at hkv
        obtain ⟨n, hn, rfl⟩ := hkv
        left
        obtain ⟨f', hfo, _⟩ := hdecl none n hn
        exact ⟨n, f', rfl, hfo, by simp [perType, hfo]⟩
      · split at hs
        · simp only [Option.some.injEq, SpecOut.files.injEq] at hs
          subst hs; intro kv hkv; cases hkv
        · rename_i hsep he
          simp only [Option.some.injEq, SpecOut.files.injEq] at hs
          subst hs
          intro kv hkv
          simp only [List.mem_singleton] at hkv
          subst hkv
          right
          simp only [he, Bool.false_eq_true, ↓reduceIte] at h
          cases hg : (pkg.find? (fun f => f.comments.any (isDirective fl.cmdline))) with
          | none => simp only [hg, Option.map_none] at h; cases sep <;> simp at h
          | some gf => exact ⟨gf.name, List.mem_map_of_mem (List.mem_of_find?_eq_some hg), by simp⟩

/-! ### non-vacuity: concrete inputs in the well-formed region -/

def exPkg : Pkg :=
  [ { name := "a.go", comments := ["//go:generate go tool shoot new -type=*"],
      decls := [.types [{ name := "Alpha", shape := .struct }, { name := "_Hid", shape := .struct }],
                .func ["T"] [], .types [{ name := "Name", shape := .other, under := some .nonInt }]] },
    { name := "b.go", comments := [],
      decls := [.types [{ name := "beta", shape := .struct }], .other,
                .types [{ name := "Color", shape := .other, under := some .int }],
                .consts [{ names := ["Red"], typ := some "Color" }, { names := ["Green", "_"], hasValues := false }]] } ]

example : region .new exPkg { types := ["*"], cmdline := "shoot new -type=*" } = .WF := by decide
example : region .new exPkg { types := ["Alpha", "beta"], cmdline := "shoot new -type=Alpha,beta" } = .WF := by decide
example : region .new exPkg { types := ["Alpha", "Missing"], cmdline := "shoot new -type=Alpha,Missing" } = .WF := by decide
example : region .enum exPkg { file := "b.go", sep := true, cmdline := "shoot enum -file=b.go -sep" } = .WF := by decide
example : spec .new exPkg { types := ["*"], cmdline := "shoot new -type=*" }
    = some (.files [(⟨"a", none⟩, ["Alpha", "beta"])]) := by decide
example : spec .enum exPkg { file := "b.go", sep := true, cmdline := "shoot enum -file=b.go -sep" }
    = some (.files [(⟨"b", some "color"⟩, ["Color"])]) := by decide

/-! ### witnesses of the finding regions: the model (= the code) does not meet the specification there -/

def wNolinePkg : Pkg := [ { name := "a.go", comments := [], decls := [.types [{ name := "Kind", shape := .struct }]] } ]
def wNolineFl : Flags := { types := ["*"], cmdline := "shoot new -type=*" }

theorem C16_F_star_noline_witness :
    region .new wNolinePkg wNolineFl = .F_star_noline ∧
    spec .new wNolinePkg wNolineFl = some (.files [(⟨anySrc, none⟩, ["Kind"])]) ∧
    run .new wNolinePkg wNolineFl = .done [(⟨"", none⟩, ["Kind"])] [⟨"", none⟩] false ∧
    meets (run .new wNolinePkg wNolineFl) (.files [(⟨anySrc, none⟩, ["Kind"])]) = false ∧
    "" ∉ wNolinePkg.map (fun f => stem f.name) := by decide

def wSepPkg : Pkg := [ { name := "a.go", comments := ["//go:generate shoot new -type=* -sep"],
                         decls := [.types [{ name := "Item", shape := .struct }]] },
                       { name := "b.go", comments := [], decls := [.types [{ name := "Color", shape := .struct }]] } ]
def wSepFl : Flags := { types := ["*"], sep := true, cmdline := "shoot new -type=* -sep" }

theorem C16_F_star_sep_witness :
    region .new wSepPkg wSepFl = .F_star_sep ∧
    spec .new wSepPkg wSepFl = some (.files [(⟨"a", some "item"⟩, ["Item"]), (⟨"b", some "color"⟩, ["Color"])]) ∧
    run .new wSepPkg wSepFl
      = .done [(⟨"a", some "item"⟩, ["Item"]), (⟨"a", some "color"⟩, ["Color"])] [⟨"a", some "color"⟩, ⟨"a", some "item"⟩] false := by
  decide

/-! ### formerly finding regions, now asserted (repaired in /repo f3054bd, 081702e, ecd1cf1) -/

/-- a type parameter called `Order` in c.go no longer decides where `Order`'s output goes -/
example : region .new [ { name := "b.go", comments := [], decls := [.types [{ name := "Order", shape := .struct }]] },
                        { name := "c.go", comments := [], decls := [.func ["Order"] []] } ]
      { types := ["Order"], cmdline := "shoot new -type=Order" } = .WF ∧
    run .new [ { name := "b.go", comments := [], decls := [.types [{ name := "Order", shape := .struct }]] },
               { name := "c.go", comments := [], decls := [.func ["Order"] []] } ]
      { types := ["Order"], cmdline := "shoot new -type=Order" }
      = .done [(⟨"b", some "order"⟩, ["Order"])] [⟨"b", some "order"⟩] false := by decide

example : run .rest [ { name := "a.go", comments := [], decls := [.types [{ name := "Zone", shape := .iface [.restClient] }]] } ]
      { types := ["Missing"], cmdline := "shoot rest -type=Missing" } = .stop .fatal := by decide

example : run .enum [ { name := "d.go", comments := [],
                        decls := [.types [{ name := "Level", shape := .other, under := some .int }],
                                  .consts [{ names := ["LevelOne"], typ := some "Level" }]] } ]
      { types := ["Level", "Missing"], cmdline := "shoot enum -type=Level,Missing" }
      = .done [(⟨"d", some "level"⟩, ["Level"])] [⟨"d", some "level"⟩] true := by decide

/-! ### names that are not package-level types -/

/-- every written file is an entry OF the package directory: when the source file names of the package are base names and
    the declared type names hold no path separator, neither part of an output name `<src>.shoot<cmd>[.<type>].go` holds one
    (`-file` selects by equality with a file name of the package, so a value with a directory part selects nothing).
    Together with `C17_confined` (every entry touched is `pkgPrefix ++ name`): nothing outside the package directory is named -/
theorem C16_names_no_separator (cmd : Cmd) (pkg : Pkg) (fl : Flags) (h : region cmd pkg fl = .WF)
    (w : List (OutName × List String)) (l : List OutName) (b : Bool) (hr : run cmd pkg fl = .done w l b)
    (fs : List (OutName × List String)) (hs : spec cmd pkg fl = some (.files fs))
    (hfiles : ∀ f ∈ pkg.map File.name, noSep f = true) (htypes : ∀ t f, fileOf pkg t = some f → noSep t = true) :
    ∀ kv ∈ w, noSep kv.1.src = true ∧ ∀ c, kv.1.ty = some c → noSep c = true := by
  intro kv hkv
  rcases (C16_names cmd pkg fl h w l b hr fs hs).2 kv hkv with ⟨t, f, _, hf, hk⟩ | ⟨g, hg, hk⟩
  · rw [hk]
    refine ⟨noSep_stem (hfiles f (fileOf_mem hf)), ?_⟩
    intro c hc
    simp only [Option.some.injEq] at hc
    subst hc
    exact noSep_comp (htypes t f hf)
  · rw [hk]
    exact ⟨noSep_stem (hfiles g hg), by intro c hc; cases hc⟩

def wLocalPkg : Pkg :=
  [ { name := "a.go", comments := [], decls := [.types [{ name := "User", shape := .struct }]] },
    { name := "b.go", comments := [],
      decls := [.consts [{ names := ["MaxRetries"], typ := some "int" }],
                .func ["Elem"] [{ name := "row", shape := .struct }]] } ]

/-- with `-file`, a function-local type, a predeclared type and a type parameter are all rejected (only package-level type
    names have a file): well-formed region, covered by `C16_model_meets_spec` although the package is outside `validPkg` -/
example : validPkg wLocalPkg = false ∧
    region .new wLocalPkg { types := ["row"], file := "a.go", cmdline := "shoot new -file=a.go -type=row" } = .WF ∧
    run .new wLocalPkg { types := ["row"], file := "a.go", cmdline := "shoot new -file=a.go -type=row" } = .stop .fatal ∧
    region .enum wLocalPkg { types := ["int"], file := "b.go", cmdline := "shoot enum -file=b.go -type=int" } = .WF ∧
    region .new wLocalPkg { types := ["Elem"], file := "b.go", cmdline := "shoot new -file=b.go -type=Elem" } = .WF := by decide

/-- repaired in /repo 1819261 (`new` no longer descends into function bodies): the function-local struct `row` is unknown to
    `new` - named explicitly it is a missing type (diagnostic, exit 1, as the specification demands), and `-type=*` / `-file=`
    pass it by. For `new` a package with function-local types is in the well-formed region (decided on `stripNew pkg`, under
    which model and specification of `new` are invariant), so `C16_model_meets_spec` and the other theorems cover it -/
theorem C16_local_type_new_fixed :
    region .new wLocalPkg { types := ["row"], cmdline := "shoot new -type=row" } = .WF ∧
    region .new wLocalPkg { types := ["User", "row"], cmdline := "shoot new -type=User,row" } = .WF ∧
    region .new wLocalPkg { file := "b.go", cmdline := "shoot new -file=b.go" } = .WF ∧
    run .new wLocalPkg { types := ["row"], cmdline := "shoot new -type=row" } = .stop .fatal ∧
    spec .new wLocalPkg { types := ["row"], cmdline := "shoot new -type=row" } = some (.rejected ["row"]) ∧
    meets (run .new wLocalPkg { types := ["row"], cmdline := "shoot new -type=row" }) (.rejected ["row"]) = true ∧
    run .new wLocalPkg { types := ["User", "row"], cmdline := "shoot new -type=User,row" } = .stop .fatal ∧
    run .new wLocalPkg { file := "b.go", cmdline := "shoot new -file=b.go" } = .done [] [] true ∧
    spec .new wLocalPkg { file := "b.go", cmdline := "shoot new -file=b.go" } = some (.files []) ∧
    run .new wLocalPkg { types := ["*"], sep := true, cmdline := "shoot new -type=* -sep" }
      = .done [(⟨"", some "user"⟩, ["User"])] [⟨"", some "user"⟩] false := by decide

/-- the other sub-commands still walk into function bodies: without `-file`, `map` accepts the function-local struct `row`
    by name and writes the dot-file `.shootmap._row.go` for it -/
theorem C16_F_nonpkg_type_witness_local :
    region .map wLocalPkg { types := ["row"], cmdline := "shoot map -type=row" } = .F_nonpkg_type ∧
    spec .map wLocalPkg { types := ["row"], cmdline := "shoot map -type=row" } = some (.rejected ["row"]) ∧
    run .map wLocalPkg { types := ["row"], cmdline := "shoot map -type=row" }
      = .done [(⟨"", some "_row"⟩, ["row"])] [⟨"", some "_row"⟩] false := by decide

/-- `enum -type=int` generates for the predeclared type `int` because a constant is declared with it -/
theorem C16_F_nonpkg_type_witness_predeclared :
    region .enum wLocalPkg { types := ["int"], cmdline := "shoot enum -type=int" } = .F_nonpkg_type ∧
    spec .enum wLocalPkg { types := ["int"], cmdline := "shoot enum -type=int" } = some (.rejected ["int"]) ∧
    run .enum wLocalPkg { types := ["int"], cmdline := "shoot enum -type=int" }
      = .done [(⟨"", some "_int"⟩, ["int"])] [⟨"", some "_int"⟩] false := by decide

/-! ### function-local types named like the requested type (all four sub-commands) -/

/-- function-local type declarations of a kind the sub-command's walk has no eye for (`harmless`: for `rest` anything but an
    interface, for `map` anything but a struct, for `enum` anything without a basic underlying type that is no alias, for `new`
    anything) change neither what the model does nor what the specification demands — whatever they are called, in particular
    when they are called like the requested type, and wherever they stand -/
theorem C16_harmless_locals_ignored (cmd : Cmd) (pkg : Pkg) (fl : Flags) (h : ∀ f ∈ pkg, localsHarmless cmd f.decls = true) :
    run cmd (stripLoc pkg) fl = run cmd pkg fl ∧ spec cmd (stripLoc pkg) fl = spec cmd pkg fl :=
  ⟨run_stripLoc cmd pkg fl h, spec_stripLoc cmd pkg fl⟩

def wShadowPkg : Pkg :=
  [ { name := "0early.go", comments := [],
      decls := [.func [] [{ name := "Client", shape := .struct }, { name := "Color", shape := .struct }, { name := "Order", shape := .other }]] },
    { name := "a.go", comments := ["//go:generate shoot rest -type=*"],
      decls := [.types [{ name := "Client", shape := .iface [.restClient] }, { name := "Order", shape := .struct },
                        { name := "Color", shape := .other, under := some .int }],
                .consts [{ names := ["Red"], typ := some "Color" }]] } ]

example : ∀ f ∈ wShadowPkg, localsHarmless .rest f.decls = true := by decide

/-- a function-local struct `Client` (non-interface `Order`, struct `Color`) in a file that sorts first: the package is outside
    `validPkg`, yet in the well-formed region for `rest` (`map`, `enum`), and the package-level type of that name is generated
    into the file named after ITS source file — in every selection mode -/
example : validPkg wShadowPkg = false ∧
    region .rest wShadowPkg { types := ["Client"], cmdline := "shoot rest -type=Client" } = .WF ∧
    run .rest wShadowPkg { types := ["Client"], cmdline := "shoot rest -type=Client" }
      = .done [(⟨"a", some "client"⟩, ["Client"])] [⟨"a", some "client"⟩] false ∧
    region .rest wShadowPkg { types := ["*"], cmdline := "shoot rest -type=*" } = .WF ∧
    run .rest wShadowPkg { types := ["*"], cmdline := "shoot rest -type=*" } = .done [(⟨"a", none⟩, ["Client"])] [⟨"a", none⟩] false ∧
    region .rest wShadowPkg { file := "a.go", sep := true, cmdline := "shoot rest -file=a.go -sep" } = .WF ∧
    region .map wShadowPkg { types := ["Order"], cmdline := "shoot map -type=Order" } = .Out ∧     -- (local STRUCTS: not harmless for map)
    region .map ({ name := "0early.go", comments := [], decls := [.func [] [{ name := "Order", shape := .other }]] } :: wShadowPkg.drop 1)
      { types := ["Order"], cmdline := "shoot map -type=Order" } = .WF ∧
    region .enum wShadowPkg { types := ["Color"], cmdline := "shoot enum -type=Color" } = .WF ∧
    region .new wShadowPkg { types := ["Order"], cmdline := "shoot new -type=Order" } = .WF := by decide

/-! ### type names that differ only in letter case -/

def wCasePkg : Pkg :=
  [ { name := "a.go", comments := [], decls := [.types [{ name := "HTTPState", shape := .struct }, { name := "HttpState", shape := .struct }]] } ]

/-- `shoot new -type=HTTPState,HttpState`: both names are fine, the specification asks for one file each - but both are called
    a.shootnew.httpstate.go, the second overwrites the first in srcMap, one file is written and the run reports success -/
def wCaseFl : Flags := { types := ["HTTPState", "HttpState"], cmdline := "shoot new -type=HTTPState,HttpState" }

theorem C16_F_case_collision_witness :
    spec .new wCasePkg wCaseFl
      = some (.files [(⟨"a", some "httpstate"⟩, ["HTTPState"]), (⟨"a", some "httpstate"⟩, ["HttpState"])]) ∧
    run .new wCasePkg wCaseFl = .done [(⟨"a", some "httpstate"⟩, ["HttpState"])] [⟨"a", some "httpstate"⟩] false ∧
    meets (run .new wCasePkg wCaseFl)
      (.files [(⟨"a", some "httpstate"⟩, ["HTTPState"]), (⟨"a", some "httpstate"⟩, ["HttpState"])]) = false := by
  refine ⟨by decide, by decide, by decide⟩

/-- ... and that input lies in the finding region; selecting one of the two types alone stays advisory -/
theorem C16_F_case_collision_region :
    region .new wCasePkg wCaseFl = .F_case_collision := by
  have h1 : validPkg wCasePkg = false := by decide
  have h2 : namedNotInFile wCasePkg wCaseFl = false := by decide
  have h3 : validPkgL wCasePkg = false := by decide
  have h4 : validPkg (stripLoc wCasePkg) = false := by decide
  have h5 : validPkgNoComp wCasePkg = true := by decide
  have h6 := C16_F_case_collision_witness
  simp only [region, h1, h2, h3, h4, h5, h6.1, h6.2.2, Bool.and_false, Bool.false_eq_true, ↓reduceIte]

end ShootVerif.Cli
