import ShootVerif.Spec.Json
import ShootVerif.Proofs.CtorMain
import ShootVerif.Proofs.Alloc
import ShootVerif.Proofs.AllocMap
/-!
C11 — with -json, MarshalJSON emits one key per exported field and per unexported field that has
a getter or setter (own, or promoted from an embedded shoot type), named by the explicit json tag
or else by the -tagcase transform of the field name; UnmarshalJSON assigns exported fields directly
and unexported ones through their setters; Unmarshal(Marshal(v)) equals v on every field that is
exported or has both accessors; fields without a getter are emitted as zero.
-/
namespace ShootVerif.Json
open ShootVerif.Ctor ShootVerif.GetSet

theorem typeSwitch_eq (doc : Option (Bool × Bool)) : typeSwitch doc = (typeGetter doc, typeSetter doc) := by
  unfold typeSwitch typeGetter typeSetter
  cases doc with
  | none => rfl
  | some p => obtain ⟨g, s⟩ := p; cases g <;> cases s <;> rfl

/-- HEADLINE (key set and key names): for every struct tree, every -tagcase, every type-level
    directive, every set of promoted accessors: the generator's JSON list is exactly the property's
    key list, in declaration order — unless an EXPORTED field is left out of generation (`new:"-"`), which the
    generated code drops (finding region F_jsonSkipExported, witness below) -/
theorem C11_keys (getset : Bool) (tc : TagCase) (doc : Option (Bool × Bool)) (promG promS : List String) (t : Tree)
    (hse : skippedExported t = false) :
    jsonKeys getset tc (typeSwitch doc) promG promS (flatten t) = specKeys getset tc doc promG promS t := by
  unfold jsonKeys specKeys
  rw [flatten_filterMap_leaves, typeSwitch_eq]
  apply filterMap_congr_mem
  intro l hl
  have hag := shadow_agrees t l hl
  rw [hag]
  by_cases hs : l.info.skip
  · -- left out: no key in the generator's list; the property wants one only for an exported field, excluded here
    cases hg : goShadowed t l.depth l.info.name
    · have hne : isExportedName l.info.name = false := by
        unfold skippedExported at hse
        rw [List.any_eq_false] at hse
        have := hse l hl
        simpa [hs, hg] using this
      simp [hs, hg, hne]
    · simp [hs, hg]
  · cases hg : goShadowed t l.depth l.info.name
    · simp only [hs, Bool.or_false, Bool.false_eq_true, ↓reduceIte, mkField]
      have hown : isExportedName l.info.name = false →
          ((accessOf l.info).1 = wantsGet l.info ∧ (accessOf l.info).2 = wantsSet l.info) := by
        intro he
        have key : ∀ (hd g s : Bool),
            ((if hd = true then (if g = s then (true, true) else (g, s)) else (true, true)).1 = (!hd || g || !s)) ∧
            ((if hd = true then (if g = s then (true, true) else (g, s)) else (true, true)).2 = (!hd || s || !g)) := by
          decide
        unfold accessOf wantsGet wantsSet
        simp only [he, Bool.false_eq_true, ↓reduceIte]
        exact key l.info.hasDoc l.info.get l.info.set
      unfold specHasGet specHasSet
      by_cases he : isExportedName l.info.name
      · by_cases ht : l.top <;> by_cases hj : l.info.jsonTag = "" <;> simp [he, ht, hj]
      · obtain ⟨h1, h2⟩ := hown (by simpa using he)
        by_cases ht : l.top <;> by_cases hgs : getset <;> by_cases hj : l.info.jsonTag = "" <;>
          simp [he, ht, hgs, hj, h1, h2]
    · simp [hs, hg]

theorem lookup_marshal {V : Type} (zero : V) (s : St V) : ∀ (ks : List JKey) (k : JKey),
    k ∈ ks → (ks.map (·.key)).Nodup →
      (marshal zero ks s).lookup k.key = some (if k.exported || k.hasGet then s k.name else zero) := by
  intro ks
  induction ks with
  | nil => intro k hk; simp at hk
  | cons x xs ih =>
    intro k hk hn
    simp only [List.map_cons, List.nodup_cons] at hn
    simp only [marshal, List.map_cons, List.lookup_cons]
    simp only [List.mem_cons] at hk
    rcases hk with hk | hk
    · subst hk; simp
    · have hne : k.key ≠ x.key := by
        intro e; apply hn.1; rw [← e]; exact List.mem_map_of_mem hk
      have : (k.key == x.key) = false := by simpa using hne
      simp only [this]
      exact ih k hk hn.2

theorem unmarshal_at {V : Type} (zero : V) (doc : List (String × V)) : ∀ (ks : List JKey) (s0 : St V) (k : JKey),
    k ∈ ks → (ks.map (·.name)).Nodup → (k.exported || k.hasSet) = true →
      (unmarshal zero ks doc s0) k.name = (doc.lookup k.key).getD zero := by
  intro ks
  induction ks with
  | nil => intro _ k hk; simp at hk
  | cons x xs ih =>
    intro s0 k hk hn hset
    simp only [List.map_cons, List.nodup_cons] at hn
    simp only [unmarshal, List.foldl_cons]
    simp only [List.mem_cons] at hk
    rcases hk with hk | hk
    · subst hk
      -- later entries have other names: they do not touch k.name
      have frame : ∀ (ys : List JKey) (s : St V), (∀ y ∈ ys, y.name ≠ k.name) →
          (ys.foldl (fun s k => if (k.exported || k.hasSet) = true then setF s k.name ((doc.lookup k.key).getD zero) else s) s) k.name
            = s k.name := by
        intro ys
        induction ys with
        | nil => intros; rfl
        | cons y ys ihy =>
          intro s hne
          simp only [List.foldl_cons]
          rw [ihy _ (fun z hz => hne z (by simp [hz]))]
          have := hne y (by simp)
          by_cases hy : (y.exported || y.hasSet) = true
          · have hne' : ¬ (k.name = y.name) := fun e => this e.symm
            simp [hy, setF, hne']
          · simp [hy]
      rw [frame xs _ (fun y hy e => hn.1 (by rw [← e]; exact List.mem_map_of_mem hy))]
      simp [hset, setF]
    · exact ih _ k hk hn.2 hset

/-- HEADLINE (round trip, and "no getter ⇒ zero"): for every key list with distinct keys and
    distinct field names, every state: after Unmarshal(Marshal(v)) a field that is exported or has a
    setter holds v's value if it is exported or has a getter, and the zero value otherwise -/
theorem C11_roundtrip {V : Type} (zero : V) (ks : List JKey) (s s0 : St V) (k : JKey) (hk : k ∈ ks)
    (hkeys : (ks.map (·.key)).Nodup) (hnames : (ks.map (·.name)).Nodup)
    (hset : (k.exported || k.hasSet) = true) :
    (unmarshal zero ks (marshal zero ks s) s0) k.name = (if k.exported || k.hasGet then s k.name else zero) := by
  rw [unmarshal_at zero _ ks s0 k hk hnames hset, lookup_marshal zero s ks k hk hkeys]
  rfl

/-- fields without a getter are emitted as zero -/
theorem C11_no_getter_zero {V : Type} (zero : V) (ks : List JKey) (s : St V) (k : JKey) (hk : k ∈ ks)
    (hkeys : (ks.map (·.key)).Nodup) (hng : (k.exported || k.hasGet) = false) :
    (marshal zero ks s).lookup k.key = some zero := by
  rw [lookup_marshal zero s ks k hk hkeys, hng]; rfl

/-- one key per list entry, in order -/
theorem C11_marshal_keys {V : Type} (zero : V) (ks : List JKey) (s : St V) :
    (marshal zero ks s).map Prod.fst = ks.map (·.key) := by
  simp [marshal, List.map_map, Function.comp_def]

/-- UnmarshalJSON leaves every field alone that is neither exported nor has a setter -/
theorem C11_unmarshal_frame {V : Type} (zero : V) (doc : List (String × V)) (n : String) :
    ∀ (ks : List JKey) (s0 : St V), (∀ k ∈ ks, (k.exported || k.hasSet) = true → k.name ≠ n) →
      (unmarshal zero ks doc s0) n = s0 n := by
  intro ks
  induction ks with
  | nil => intros; rfl
  | cons x xs ih =>
    intro s0 h
    simp only [unmarshal, List.foldl_cons]
    have := ih (if (x.exported || x.hasSet) = true then setF s0 x.name ((doc.lookup x.key).getD zero) else s0)
      (fun k hk => h k (by simp [hk]))
    simp only [unmarshal] at this
    rw [this]
    by_cases hx : (x.exported || x.hasSet) = true
    · have hne := h x (by simp) hx
      have hne' : ¬ (n = x.name) := fun e => hne e.symm
      simp [hx, setF, hne']
    · simp [hx]

/-- UnmarshalJSON's assignment (or setter call) for a field promoted through embedded pointer structs
    never dereferences nil — into a fresh value or any other — and allocates exactly the structs on the way -/
theorem C11_unmarshal_no_panic (ptrs : List Alloc.Path) (h : Alloc.Heap) :
    ∃ h', Alloc.writeField ptrs h = .ok h' ∧ (∀ q ∈ ptrs, q ∈ h') ∧ (∀ q, q ∈ h → q ∈ h') := by
  obtain ⟨h', e, a, b, _⟩ := Alloc.allocAll_ok ptrs [] h (by simp)
  refine ⟨h', ?_, by simpa using a, b⟩
  unfold Alloc.writeField
  rw [e]
  have : ptrs.all (fun q => h'.contains q) = true := by
    simp only [List.all_eq_true, List.contains_iff_mem]
    intro q hq; simpa using a q (by simp [hq])
  simp only [this, ↓reduceIte]

/-- MarshalJSON's guarded read never dereferences nil, and the field is read iff every embedded pointer
    struct on its way is there (otherwise the key carries the zero value) -/
theorem C11_marshal_no_panic (ptrs : List Alloc.Path) (h : Alloc.Heap) :
    ∃ b, Alloc.guardRead [] ptrs h = .ok b ∧ (b = true ↔ ∀ q ∈ ptrs, q ∈ h) :=
  Alloc.guardRead_ok ptrs [] h (by simp)

/-- the chains the generated guards / allocation lines use are those of the struct: the stack scan of `makeNew`
    over the generator's list pairs every field with exactly the embedded pointer structs on ITS way (none inherited
    from a sibling), and the name-keyed `AllocMap` returns that chain when unshadowed promoted names are distinct -/
theorem C11_alloc_chain (t : Tree) :
    (allocScan [] (flatten t)).map (fun e => (e.1.name, e.1.depth, e.2)) =
      ((leavesPtrs [] [] 0 t).filter (fun l => !l.2.2.1.skip)).map (fun l => (l.2.2.1.name, l.2.1, l.2.2.2.2)) := by
  rw [allocScan_flatten, treeAllocs_ptrs]

theorem C11_alloc_lookup (t : Tree) (e : Field × List (List String))
    (he : e ∈ allocScan [] (flatten t)) (hvis : e.1.isShadowed = false) (hdep : e.1.depth ≠ 0)
    (hnd : (((allocScan [] (flatten t)).filter (fun x => !x.1.isShadowed && x.1.depth != 0)).map (·.1.name)).Nodup) :
    allocMapOf (flatten t) e.1.name = e.2 :=
  allocMapOf_unique (flatten t) e he hvis hdep hnd

/-- non-vacuity: a pointer embed that is NOT the last member of its parent; the sibling after it is not under it -/
example :
    let t : Tree := .embed "Header" "Header" false false
      (.field { name := "Source" } (.embed "Trace" "Trace" true false (.field { name := "id" } .nil) (.field { name := "Version" } .nil)))
      (.field { name := "body" } .nil)
    (allocScan [] (flatten t)).map (fun e => (e.1.name, e.2)) =
      [("Source", []), ("id", [["Header", "Trace"]]), ("Version", []), ("body", [])] ∧
    allocMapOf (flatten t) "Version" = [] ∧ allocMapOf (flatten t) "id" = [["Header", "Trace"]] := by
  decide

/-- does the struct embed a struct at its top level -/
def hasTopEmbed : Tree → Bool
  | .nil => false
  | .field _ rest => hasTopEmbed rest
  | .embed _ _ _ _ _ _ => true

theorem genShadow_depth0 (t : Tree) (n : String) : genShadow t 0 n = false := by
  unfold genShadow shadowOf
  simp

theorem walk_top_embed (sh : Shadow) (hsh : ∀ n, sh 0 n = false) : ∀ (t : Tree) (inh : Bool), hasTopEmbed t = true →
    (walk sh true inh 0 t).any (fun f => f.isEmbeded && !f.isShadowed) = true := by
  intro t
  induction t with
  | nil => intro _ h; simp [hasTopEmbed] at h
  | field f rest ih =>
    intro inh h
    simp only [hasTopEmbed] at h
    simp only [walk, List.any_append, ih inh h, Bool.or_true]
  | embed n ty p nm body rest _ _ =>
    intro inh _
    simp only [walk, List.any_cons, mkEmbed, hsh n, Bool.not_false, Bool.and_self, Bool.true_or]

/-- 946fee5: a type that embeds a struct at its top level always gets its own MarshalJSON / UnmarshalJSON (so that JSON
    methods promoted from the embedded struct cannot take over) — for every tree, tag case and accessor set -/
theorem C11_embed_own_json (getset : Bool) (tc : TagCase) (sw : Bool × Bool) (promG promS : List String) (t : Tree)
    (h : hasTopEmbed t = true) : needJSON getset tc sw promG promS (flatten t) = true := by
  unfold needJSON
  rw [flatten_closed]
  have := walk_top_embed (genShadow t) (genShadow_depth0 t) t false h
  unfold walkTop
  rw [this]
  rfl

/-- finding region F_jsonSkipExported (known_findings.d/C11.json): an exported field tagged `new:"-"` gets no key in the
    generated MarshalJSON (and is not read by UnmarshalJSON), although it is an exported field -/
theorem C11_F_jsonSkipExported_witness :
    let t : Tree := .field { name := "Name" } (.field { name := "Secret", skip := true } (.field { name := "age" } .nil))
    skippedExported t = true ∧
    (jsonKeys true .camel (true, true) [] [] (flatten t)).map (·.key) = ["name", "age"] ∧
    (specKeys true .camel none [] [] t).map (·.key) = ["name", "secret", "age"] := by
  decide

/-! non-vacuity: embedded struct with a shadowed field, an explicit tag, a get-only field -/
example :
    let t : Tree := .embed "Base" "Base" false false (.field { name := "Name" } (.field { name := "id" } .nil))
      (.field { name := "id", jsonTag := "user_id" }
        (.field { name := "ro", hasDoc := true, get := true } (.field { name := "Age_x" } .nil)))
    (jsonKeys true .camel (true, true) [] [] (flatten t)).map (fun k => (k.key, k.name, k.hasGet, k.hasSet)) =
      [("name", "Name", false, false), ("user_id", "id", true, true), ("ro", "ro", true, false), ("ageX", "Age_x", false, false)] := by
  decide

theorem lookup_none_of_not_mem {β : Type} (a : String) : ∀ L : List (String × β), a ∉ L.map Prod.fst → L.lookup a = none := by
  intro L
  induction L with
  | nil => intro _; rfl
  | cons x xs ih =>
    intro h
    obtain ⟨k, v⟩ := x
    simp only [List.map_cons, List.mem_cons, not_or] at h
    have : (a == k) = false := by simpa using h.1
    simp only [List.lookup_cons, this]
    exact ih h.2


/-- Unmarshal OVERWRITES: what a governed field (exported, or with a setter) holds afterwards does not depend on what the
    receiver held before — the document's value, or zero when the key is absent; nothing of the old value survives (no
    merged map entries, no kept value). With `C11_unmarshal_frame` this is what the `umdirty` observations compare. -/
theorem C11_unmarshal_overwrites {V : Type} (zero : V) (doc : List (String × V)) (ks : List JKey) (s0 s1 : St V) (k : JKey)
    (hk : k ∈ ks) (hnames : (ks.map (·.name)).Nodup) (hset : (k.exported || k.hasSet) = true) :
    (unmarshal zero ks doc s0) k.name = (unmarshal zero ks doc s1) k.name ∧
    (unmarshal zero ks doc s0) k.name = (doc.lookup k.key).getD zero := by
  rw [unmarshal_at zero doc ks s0 k hk hnames hset, unmarshal_at zero doc ks s1 k hk hnames hset]
  exact ⟨rfl, rfl⟩

/-- round trip in the presence of `,omitempty` and tag options: for every key list whose key NAMES and field names are
    pairwise distinct, and values for which "empty" means "zero" (numbers, strings, booleans, nil pointers / slices / maps;
    NOT a non-nil empty slice or map, which encoding/json omits and which therefore comes back nil), Unmarshal(Marshal(v))
    restores every exported-or-settable field that is exported or has a getter and yields zero otherwise — an omitted
    entry is read back as the zero value it stood for -/
theorem C11_roundtrip_omitempty {V : Type} (zero : V) (empty : V → Bool) (name : String → String) (om : String → Bool)
    (ks : List JKey) (s s0 : St V) (k : JKey) (hk : k ∈ ks)
    (hkeys : (ks.map (fun k => name k.key)).Nodup) (hnames : (ks.map (·.name)).Nodup)
    (hset : (k.exported || k.hasSet) = true) (hz : ∀ v, empty v = true → v = zero) :
    (unmarshalO zero name ks (marshalO zero empty name om ks s) s0) k.name =
      (if k.exported || k.hasGet then s k.name else zero) := by
  unfold unmarshalO marshalO
  have hk' : ({ k with key := name k.key } : JKey) ∈ withNames name ks := List.mem_map.mpr ⟨k, hk, rfl⟩
  have hnames' : ((withNames name ks).map (·.name)).Nodup := by
    simpa [withNames, List.map_map, Function.comp_def] using hnames
  rw [unmarshal_at zero _ (withNames name ks) s0 _ hk' hnames' hset]
  by_cases hkeep : (om k.key && empty (valOf zero s k)) = true
  · -- left out of the document: the lookup finds nothing, and the value it stood for was zero
    have hzero : valOf zero s k = zero := hz _ (by simp only [Bool.and_eq_true] at hkeep; exact hkeep.2)
    have hnot : name k.key ∉ (marshal zero (withNames name (ks.filter (fun k => !(om k.key && empty (valOf zero s k))))) s).map Prod.fst := by
      rw [C11_marshal_keys]
      simp only [withNames, List.map_map, Function.comp_def, List.mem_map, List.mem_filter, not_exists, not_and]
      intro x hx hxe
      have hxk : x = k := eq_of_nodup_map hkeys x hx.1 k hk hxe
      subst hxk
      simp [hkeep] at hx
    rw [lookup_none_of_not_mem _ _ hnot]
    simpa [valOf] using hzero.symm
  · have hmem : ({ k with key := name k.key } : JKey) ∈
        withNames name (ks.filter (fun k => !(om k.key && empty (valOf zero s k)))) :=
      List.mem_map.mpr ⟨k, List.mem_filter.mpr ⟨hk, by cases h : (om k.key && empty (valOf zero s k)) <;> simp_all⟩, rfl⟩
    have hkeys' : ((withNames name (ks.filter (fun k => !(om k.key && empty (valOf zero s k))))).map (·.key)).Nodup := by
      have : (withNames name (ks.filter (fun k => !(om k.key && empty (valOf zero s k))))).map (·.key) =
          (ks.filter (fun k => !(om k.key && empty (valOf zero s k)))).map (fun k => name k.key) := by
        simp [withNames, List.map_map, Function.comp_def]
      rw [this]
      exact (List.Sublist.map _ List.filter_sublist).nodup hkeys
    rw [lookup_marshal zero s _ _ hmem hkeys']
    rfl

/-- without options the refined model is the plain one -/
theorem C11_omitempty_conservative {V : Type} (zero : V) (empty : V → Bool) (ks : List JKey) (s : St V) :
    marshalO zero empty (fun k => k) (fun _ => false) ks s = marshal zero ks s := by
  unfold marshalO withNames
  have hf : ks.filter (fun k => !((fun _ => false) k.key && empty (valOf zero s k))) = ks :=
    List.filter_eq_self.mpr (by intro a _; simp)
  rw [hf]
  congr 1
  exact List.map_id' ks

example : (unmarshalO (0 : Nat) (fun k => if k = "n,omitempty" then "n" else k)
    [⟨"n,omitempty", "n", true, false, false, false, false⟩, ⟨"m", "m", true, false, false, false, false⟩]
    (marshalO 0 (· == 0) (fun k => if k = "n,omitempty" then "n" else k) (fun k => k == "n,omitempty")
      [⟨"n,omitempty", "n", true, false, false, false, false⟩, ⟨"m", "m", true, false, false, false, false⟩] (fun f => if f = "m" then 7 else 0))
    (fun _ => 99)) "n" = 0 ∧
    (marshalO 0 (· == 0) (fun k => if k = "n,omitempty" then "n" else k) (fun k => k == "n,omitempty")
      [⟨"n,omitempty", "n", true, false, false, false, false⟩, ⟨"m", "m", true, false, false, false, false⟩] (fun f => if f = "m" then 7 else 0))
      = [("m", 7)] := by decide

end ShootVerif.Json
