import ShootVerif.Proofs.EnumHist
/-!
C14 as a statement about running programs: the composite String() loop walks the package-level slice
`_t_values` and reads `_t_string_map` at call time.  "String() of a union of declared flags is their names
in ascending flag order" must hold at every point of every program — after IsEnum / ParseEnum /
TryParseEnum / Values() / … calls with declared and undeclared values alike.
-/
namespace ShootVerif.Enum

/-- with -bit, for every WF declaration, after EVERY history of calls every call returns the property's
    answer; String() is the exact general statement `Bit.specGeneral` of the ascending declared table -/
theorem C14_history (i : Input) (h : WF i = true) (hist : List Call) (c : Call) (hc : c.ok = true) :
    (step (prog i true) (run (prog i true) (fresh i) hist).1 c).2 = specCall i.T i.kind true i.decl c := by
  rw [run_state]
  exact step_fresh_spec i h true c hc

/-- on the bit-flag enums of the property's grammar (`WFt`): after every history String() is the property's
    own statement — declared name / names of the contained declared flags ascending / decimal -/
theorem C14_string_history (i : Input) (h : WF i = true)
    (hg : Bit.WFt i.kind.signed (Bit.table (w := i.kind.bits) i.T (specSorted i.decl)) = true)
    (hist : List Call) (x : Int) :
    (step (prog i true) (run (prog i true) (fresh i) hist).1 (.string x)).2 =
      .str (Bit.specString i.kind.signed (Bit.table (w := i.kind.bits) i.T (specSorted i.decl)) (BitVec.ofInt i.kind.bits x)) := by
  rw [C14_history i h hist (.string x) rfl]
  simp only [specCall, specStringAny, ↓reduceIte]
  rw [Bit.C14_general_eq_grammar _ _ hg]

/-- `type P uint8; const ( PR P = 1; PW P = 2; PX P = 4 )` -/
def permExample : Input :=
  { T := ['P'], kind := ⟨false, 8⟩,
    blocks := [[{ names := [['P', 'R']], ty := some ['P'], hasVals := true, exprTy := none, vals := [1] },
                { names := [['P', 'W']], ty := some ['P'], hasVals := true, exprTy := none, vals := [2] },
                { names := [['P', 'X']], ty := some ['P'], hasVals := true, exprTy := none, vals := [4] }]] }

/-- the getters alias the tables: a caller (or a helper, were it to) that reorders the slice `Values()`
    returned — here descending — changes what String() prints for a union afterwards: "X, R" instead of
    "R, X".  A caller-side write is outside the property; a write by the API itself would violate
    `C04_tables_invariant` and is what the history leg of the correspondence looks for. -/
theorem C14_values_order_witness :
    let p := prog permExample true
    let st := scribble (scribble (fresh permExample) (.setValue 0 4)) (.setValue 2 1)
    (step p (fresh permExample) (.string 5)).2 = .str (.joined [['R'], ['X']]) ∧
    (step p st (.string 5)).2 = .str (.joined [['X'], ['R']]) ∧
    (step p st (.string 4)).2 = .str (.name ['X']) ∧ (step p st (.has 5 4)).2 = .bool true := by decide

/-! ### non-vacuity -/

example : WF permExample = true ∧
    Bit.WFt permExample.kind.signed (Bit.table (w := permExample.kind.bits) permExample.T (specSorted permExample.decl)) = true ∧
    (run (prog permExample true) (fresh permExample)
      [.isEnum ⟨true, 64⟩ 5, .isEnum ⟨true, 64⟩ 4, .string 5, .string 8, .values, .has 5 4, .remove 7 2]).2 =
      [.bool false, .bool true, .str (.joined [['R'], ['X']]), .str (.dec 8), .ints [1, 2, 4], .bool true, .int 5] := by decide

end ShootVerif.Enum
