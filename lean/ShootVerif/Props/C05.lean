import ShootVerif.Spec.Mapper
namespace ShootVerif.Mapper
theorem C05_placeholder : True := trivial
end ShootVerif.Mapper
