import ShootVerif.Proofs.MapperPairs
import ShootVerif.Proofs.MapperNames
import ShootVerif.Proofs.MapperFlatten
import ShootVerif.Proofs.MapperNameSpec
import ShootVerif.Proofs.MapperHeadlines
import ShootVerif.Proofs.MapperLeaves
import ShootVerif.Proofs.MapperObs
import ShootVerif.Gen.Facts
/-!
C05 — ToX/FromX copy exactly the matching field pairs, by the type rules.

Model: `ShootVerif.Mapper.plan` (Model/Mapper.lean) — the generator's pair loops against the two
write-sets; statement lists `Plan.toStmts` / `Plan.fromStmts` (what mapper.tmpl ranges over).
Spec: `specTo` / `specFrom` / `specStrategy` / `specNameMatch` (Spec/Mapper.lean), written from the text.

All theorems quantify over ALL inputs (struct trees, mapper methods, convertibility relation, flags);
hypotheses are region clauses and each is shown satisfiable by an `example` below.
-/
namespace ShootVerif.Mapper
open ShootVerif.Transfer

/-- the claim logs never name a written field twice — for every input, including accessor mode
    and inputs where one field matches several partners (invariant of the write-sets, by
    induction over both pair loops) -/
theorem C05_claims_once (inp : Input) :
    ((plan inp).st.toC.map (·.wr.name)).Nodup ∧ ((plan inp).st.fromC.map (·.wr.name)).Nodup := by
  obtain ⟨_, _, h⟩ := plan_inv inp
  exact ⟨h.toNodup, h.fromNodup⟩

/-- headline: no destination field is assigned twice by ToX and no source field twice by FromX
    (plain exported structs; the accessor-mode counterpart is C15_set_once) -/
theorem C05_write_once (inp : Input) (hs : inp.srcNew = false) (hd : inp.destNew = false) :
    ((plan inp).toStmts.map (·.wr.name)).Nodup ∧ ((plan inp).fromStmts.map (·.wr.name)).Nodup := by
  obtain ⟨_, _, h⟩ := plan_inv inp
  have h1 : (plan inp).srcFields.Nodup := by
    have : (plan inp).srcFields = sideFields inp.src false := by simp [plan, hs]
    rw [this]; exact nodup_of_map_nodup _ _ (sideFields_plain_nodup _)
  have h2 : (plan inp).destFields.Nodup := by
    have : (plan inp).destFields = sideFields inp.dest false := by simp [plan, hd]
    rw [this]; exact nodup_of_map_nodup _ _ (sideFields_plain_nodup _)
  exact ⟨stmts_nodup _ _ h1 h.toNodup, stmts_nodup _ _ h2 h.fromNodup⟩

/-- every emitted statement copies between two fields of the two lists whose names match and whose
    types admit the strategy used: unmatched and incompatible fields are never written (they stay zero) -/
theorem C05_unmatched_zero (inp : Input) :
    (∀ c ∈ (plan inp).toStmts, c.rd ∈ (plan inp).srcFields ∧ c.wr ∈ (plan inp).destFields ∧
        inp.nm c.rd c.wr = true ∧ justified inp.conv (indexed inp.fns) .src .dest c) ∧
    (∀ c ∈ (plan inp).fromStmts, c.wr ∈ (plan inp).srcFields ∧ c.rd ∈ (plan inp).destFields ∧
        inp.nm c.wr c.rd = true ∧ justified inp.conv (indexed inp.fns) .dest .src c) := by
  obtain ⟨_, _, h⟩ := plan_inv inp
  constructor
  · intro c hc
    have := h.toPair c (stmts_sub hc).1
    have hp := (mem_pairs _ _ _ _ _).mp this.1
    exact ⟨hp.1, hp.2.1, hp.2.2, this.2⟩
  · intro c hc
    have := h.fromPair c (stmts_sub hc).1
    have hp := (mem_pairs _ _ _ _ _).mp this.1
    exact ⟨hp.1, hp.2.1, hp.2.2, this.2⟩

/-- a `map:"-"` field at the top level is not a field of the generator at all -/
theorem C05_skip_tag (f : FDecl) (rest : Tree) (h : f.tag = .skip) : walkTop (.field f rest) = walkTop rest := by
  simp [walkTop, h]

/-- Go's promotion rule in the field collector: the entry kept for a name is one of the visited fields of
    that name (same path, type, depth), no visited field of that name is shallower, names are collected
    once — whatever the order in which embedded structs and redeclared names are visited (a deeper
    field visited first is replaced by a shallower one visited later). The name of a top-level `map:"-"`
    field is not collected at all: the field is left out and hides its promoted namesakes, as it does in Go -/
theorem C05_flatten_shallowest (t : Tree) :
    ((flatten t).map (·.name)).Nodup ∧
    (∀ f ∈ flatten t, f.name ∉ skippedTop t ∧
      ∃ g ∈ walkTop t, g.name = f.name ∧ g.path = f.path ∧ g.ty = f.ty ∧ g.depth = f.depth) ∧
    (∀ f ∈ flatten t, ∀ g ∈ walkTop t, g.name = f.name → f.depth ≤ g.depth) ∧
    (∀ g ∈ walkTop t, g.name ∉ skippedTop t → ∃ f ∈ flatten t, f.name = g.name) :=
  let h := flatten_shallowest t
  ⟨h.1, fun f hf => let ⟨hn, g, hg, e⟩ := h.2.1 f hf; ⟨hn, g, hg, e.1.symm, e.2.1.symm, e.2.2.1.symm, e.2.2.2.symm⟩,
   h.2.2.1, h.2.2.2⟩

/-- Record{*Base}; Base{*Audit; ID}; Audit{ID; Label}: the deeper `ID` is visited first, the collected one is Base.ID -/
example : ((flatten (.embed "Base" true
      (.embed "Audit" true (.field { name := "ID", ty := .basic "int" } (.field { name := "Label", ty := .basic "string" } .nil))
        (.field { name := "ID", ty := .basic "int" } .nil)) .nil)).map (fun f => (f.name, f.path, f.depth))) =
    [("ID", ["Base", "ID"], 1), ("Label", ["Base", "Audit", "Label"], 2)] := by decide

/-! ### the model plans one type at a time: nothing computed for one type may reach the next

`plan` is a function of one src/dest pair (and the mapper methods of THAT type) alone. That is sound for a
run that generates several types (`-type=A,B`, `-file=`, `-type=*`) as long as every field of
`mapper.Generator` that `MakeData` reads is assigned afresh for every type. Checked on the table of
Generator fields and of the functions assigning them, REGENERATED from /repo on every run
(Gen/Facts.lean): the fields are exactly these; each per-type field has a plain assignment (`set`) in a
function that `MakeData` runs for every type — `mappingFuncList` in `loadMorePkgs`, the constructor
parameter and accessor lists in `MakeData` itself, the field lists / tag map / pointer maps in
`parseSrcFields` / `parseDestFields`, the write-sets in `parseManual`, the read/write maps in
`makeTypeMismatch`, the path maps in `makeReadCond`, `data` in `MakeData`; what outlives a type is
`flags` (ParseFlags), `destPkg` (LoadPackage), `mapperpkg` (set when a mapper is found, read only then)
and the `newShooter` cache. (Correspondence side: the multi-type runs with a companion type first.) -/
def perTypeResets : List (String × String) :=
  [("data", "MakeData"), ("srcCtorParams", "MakeData"), ("destCtorParams", "MakeData"),
   ("getsetMethods", "MakeData"), ("destGetSetMethods", "MakeData"), ("mappingFuncList", "loadMorePkgs"),
   ("exportedFields", "parseSrcFields"), ("unexportedFields", "parseSrcFields"), ("srcTagMap", "parseSrcFields"),
   ("srcPtrTypeMap", "parseSrcFields"), ("destExportedFields", "parseDestFields"),
   ("destUnexportedFields", "parseDestFields"), ("destPtrTypeMap", "parseDestFields"),
   ("writeSrcSet", "parseManual"), ("writeDestSet", "parseManual"),
   ("readSrcMap", "makeTypeMismatch"), ("writeSrcMap", "makeTypeMismatch"),
   ("srcPathsMap", "makeReadCond"), ("destPathsMap", "makeReadCond")]

def persistentFields : List String := ["GeneratorBase", "flags", "destPkg", "mapperpkg", "newShooter"]

theorem C05_state_per_type :
    ((Facts.genStateFields.filter (fun f => f.1 = "internal/mapper" && f.2.1 = "Generator")).all
        (fun f => persistentFields.contains f.2.2.1 || (perTypeResets.map (·.1)).contains f.2.2.1) = true) ∧
    (perTypeResets.all (fun r => Facts.genStateWrites.contains ("internal/mapper", r.2, r.1, "set")) = true) ∧
    ((Facts.genStateWrites.filter (fun w => w.1 = "internal/mapper" && w.2.2.1 == "flags")).all (fun w => w.2.1 == "ParseFlags") = true) ∧
    ((Facts.genStateWrites.filter (fun w => w.1 = "internal/mapper" && w.2.2.1 == "destPkg")).all (fun w => w.2.1 == "LoadPackage") = true) := by
  decide

/-- headline: with unique name matching, destination field `d` is written from source field `s`
    iff the names match and a strategy exists — and the strategy is `pairStrat` (C05_strategy says
    what that is). No write-set appears on the right-hand side. -/
theorem C05_pairs (inp : Input) (hs : inp.srcNew = false) (hd : inp.destNew = false)
    (hu : uniquePairs inp = true) (c : Claim) :
    (c ∈ (plan inp).toStmts ↔
      c.rd ∈ (plan inp).srcFields ∧ c.wr ∈ (plan inp).destFields ∧ inp.nm c.rd c.wr = true ∧ c.wr.isGet = false ∧
      c.wr.name ∉ inp.manualW ∧
      pairStrat inp.conv (indexed inp.fns) .src .dest c.rd.ty c.wr.ty = some c.strat) ∧
    (c ∈ (plan inp).fromStmts ↔
      c.wr ∈ (plan inp).srcFields ∧ c.rd ∈ (plan inp).destFields ∧ inp.nm c.wr c.rd = true ∧ c.wr.isGet = false ∧
      c.wr.name ∉ inp.manualR ∧
      pairStrat inp.conv (indexed inp.fns) .dest .src c.rd.ty c.wr.ty = some c.strat) :=
  plan_pairs inp hs hd hu c

/-- headline at the LEAVES, ToX: for every input satisfying the clauses of `PlainOk` (region WF of C05 — plain sides, names
    resolve, no skip-shadow / embed-skip / ambiguous tag, unique name matching — plus: distinct leaves have distinct dotted
    paths, names are ASCII without underscores) and every destination leaf `d`, the value `d` holds after `s.ToX()` on a fully
    populated source — computed by EXECUTING the model's statement list with its guards and allocations — is the value the
    property prescribes: zero when no participating source leaf matches by name with an applicable strategy, else the
    value of the one that does, by that strategy. This is `obs = spec` per leaf, for all inputs; the driver's per-input
    comparison of the `to:` keys is an instance of it. -/
theorem C05_leaf_to (inp : Input) (H : PlainOk inp) (d : Leaf) (hd : d ∈ leavesOf inp.dest) :
    optV (specTo inp d) = some (obsLeaf (execTo inp []) d) := to_leaf inp H d hd

/-- headline at the LEAVES, FromX: the mirror image — whatever the receiver held (nil, fresh, dirty) -/
theorem C05_leaf_from (inp : Input) (H : PlainOk inp) (recv : Recv) (s : Leaf) (hs : s ∈ leavesOf inp.src) :
    optV (specFrom inp s) = some (obsLeaf (execFrom inp [] recv) s) := from_leaf inp H recv s hs

/-- THE headline, `∀ input, WF input → obs (model input) = spec input`: for every input in region `WF` of C05 (as the driver
    prints it) with ASCII names and distinct dotted leaf paths (Go identifiers contain no dot), whose nested struct pairs are
    mapped rather than converted wholesale (`nestedMapped`, the `to:nested` / `from:nested` key), the complete list of C05
    observables the model computes — compile, presence of the two methods, every destination leaf after ToX and every source
    leaf after FromX obtained by EXECUTING the emitted statement lists with their guards and allocations, the receiver keys —
    equals the list the property prescribes. What the driver evaluates per case (model = spec on WF) is an instance. -/
theorem C05_obs_spec (inp : Input) (h : region05 inp = "WF") (ha : asciiOk inp = true)
    (hk1 : ((leavesOf inp.src).map (fun l => joinPath l.path)).Nodup)
    (hk2 : ((leavesOf inp.dest).map (fun l => joinPath l.path)).Nodup)
    (hn : nestedMapped inp = true) : obs05 inp = spec05 inp :=
  obs05_eq_spec05 inp (plainOk_of_WF inp h ha hk1 hk2) hn

/-- the same with the per-leaf WRITE COUNTS (the list the driver prints for a C05 case, but for the round-trip keys): every
    leaf for which the property names a source is written exactly once, every other leaf never — "no destination field is
    written twice" and "unmatched … fields stay zero", at the leaves -/
theorem C05_obs_spec_counts (inp : Input) (h : region05 inp = "WF") (ha : asciiOk inp = true)
    (hk1 : ((leavesOf inp.src).map (fun l => joinPath l.path)).Nodup)
    (hk2 : ((leavesOf inp.dest).map (fun l => joinPath l.path)).Nodup)
    (hn : nestedMapped inp = true) : obs15 inp = spec15 inp :=
  obs15_eq_spec15_plain inp (plainOk_of_WF inp h ha hk1 hk2) hn

/-- the partially-nil keys (`toN:` / `fromN:`: one embedded pointer / slice element nil in turn) of a C05 case: the model's
    values are the ideal ones for every mask -/
theorem C05_part_spec (inp : Input) (h : WF09 inp = true) (hc : modelCompiles inp = true)
    (srcSlots destSlots masks fmasks : List String) :
    obsPart inp srcSlots destSlots masks fmasks = specPart inp srcSlots destSlots masks fmasks :=
  obsPart_eq_specPart inp h hc srcSlots destSlots masks fmasks

/-- the generator's field list of a plain side IS the set of participating leaves: every field is the record of a leaf
    that Go selects by its bare name, is not tagged `map:"-"` and is exported, and resolves to it; every such leaf is a field -/
theorem C05_fields_are_leaves (t : Tree) (hsel : wfSelectors t = true) (hsh : skipShadowT t = false) :
    (∀ f ∈ sideFields t false, ∃ l ∈ leavesOf t, f = fieldOf l ∧ resolveField t f = some l ∧ partLeaf t l = true) ∧
    (∀ l ∈ leavesOf t, partLeaf t l = true → fieldOf l ∈ sideFields t false) :=
  ⟨fun f hf => field_is_leaf t hsel hsh f hf, fun l hl hp => leaf_is_field t hsel hsh l hl hp⟩

/-- the output for two plain sides type-checks (as far as the model can tell) — from clauses about the input alone -/
theorem C05_compiles (inp : Input) (hs : inp.srcNew = false) (hd : inp.destNew = false)
    (h1 : wfSelectors inp.src = true) (h2 : wfSelectors inp.dest = true) (hsh : F_skipShadow inp = false) :
    modelCompiles inp = true := modelCompiles_plain inp hs hd h1 h2 hsh

/-- the strategy the loop computes is the one the property prescribes: the user's mapper method when
    one with exactly those types exists, else recursive mapping for struct types of the two packages
    (value / pointer / slice), else assignment for identical types, else a conversion unless it is
    string<->fixed-width integer — for ALL types: the recursive-mapping test of the generator accepts
    struct types only, so named scalars of the two packages fall through to the conversion (was finding
    region F_namedScalarSub) -/
theorem C05_strategy (inp : Input) (rdPkg wrPkg : Pkg) (a b : Ty) :
    pairStrat inp.conv (indexed inp.fns) rdPkg wrPkg a b = specStrategy inp rdPkg wrPkg a b :=
  pairStrat_eq_spec inp rdPkg wrPkg a b

/-- round trip, statement level: with unique name matching, a pair of IDENTICAL type that ToX copies
    by assignment is copied back by FromX by assignment between the same two fields — so on these
    leaves FromX (ToX v) reproduces v (both methods store exactly the value they read; ToX writes each
    destination field once, C05_write_once). A mapper method T→T would pre-empt the assignment in
    both directions alike (`misStrat_same`). -/
theorem C05_roundtrip (inp : Input) (hs : inp.srcNew = false) (hd : inp.destNew = false)
    (hm : inp.manualR = []) (hu : uniquePairs inp = true) (c : Claim) (hc : c ∈ (plan inp).toStmts) (ha : c.strat = .assign) :
    c.rd.ty = c.wr.ty ∧ (⟨c.wr, c.rd, .assign⟩ : Claim) ∈ (plan inp).fromStmts := by
  obtain ⟨h1, h2, h3, _, _, h5⟩ := ((C05_pairs inp hs hd hu c).1).mp hc
  rw [ha] at h5
  have hsym := pairStrat_assign_symm _ _ _ _ h5
  refine ⟨hsym.1, ((C05_pairs inp hs hd hu ⟨c.wr, c.rd, .assign⟩).2).mpr ⟨h1, h2, h3, ?_, by simp [hm], hsym.2⟩⟩
  have : (plan inp).srcFields = sideFields inp.src false := by simp [plan, hs]
  exact (sideFields_plain_flags inp.src c.rd (this ▸ h1)).1

/-- round trip AT THE LEAVES, for all inputs of `PlainOk`: a source leaf whose only candidate is a destination leaf of identical
    type (assignment) that in turn has it as its only candidate holds ITS OWN VALUE again after `new(S).FromX(s.ToX())` — every
    line of the specification's round-trip list (`specRT`) is a line of the model's (`obsRT`: FromX's statements executed on the
    result of ToX). With `C05_obs_spec_counts` and `C05_part_spec` every key the C05 check asserts on region WF is covered by
    a theorem about the model. -/
theorem C05_roundtrip_leaves (inp : Input) (H : PlainOk inp) : ∀ e ∈ specRT inp, e ∈ obsRT inp :=
  specRT_sub_obsRT inp H

/-- -way only selects which methods are emitted; the plan itself does not depend on it -/
theorem C05_way (inp : Input) (w : Way) :
    plan { inp with way := w } = plan inp ∧
    (toGen { inp with way := w } = true ↔ w ≠ .fromOnly) ∧ (fromGen { inp with way := w } = true ↔ w ≠ .toOnly) := by
  refine ⟨rfl, ?_, ?_⟩ <;> cases w <;> simp [toGen, fromGen]

/-! ### name matching -/

theorem C05_match_refl (a : List Char) : smartMatchL a a = true := by simp [smartMatchL]

theorem C05_match_symm (a b : List Char) : smartMatchL a b = smartMatchL b a := by
  unfold smartMatchL
  rw [Bool.eq_iff_iff]
  simp only [Bool.and_eq_true, Bool.or_eq_true, beq_iff_eq]
  constructor <;> rintro ⟨h1, h2 | h2⟩ <;> simp [h1, h2]

/-- names of different length never match -/
theorem C05_match_length (a b : List Char) (h : smartMatchL a b = true) : a.length = b.length := by
  simp only [smartMatchL, Bool.and_eq_true, beq_iff_eq] at h
  exact h.1

/-- the name relation from ABOVE: names that match have equal length and are equal up to case
    (ASCII identifiers without underscores; with underscores `A_B` ~ `AB_` would match — ToPascalCase
    drops them — which is why `namesOk` is a region clause) -/
theorem C05_match_sound (a b : List Char) (ha : Ascii a) (hb : Ascii b) (hna : NoUS a) (hnb : NoUS b)
    (h : smartMatchL a b = true) : a.length = b.length ∧ equalFoldL a b = true :=
  smartMatch_fold a b ha hb hna hnb h

/-- the name relation EXACTLY: `smartMatch` holds iff the names are identical or consist of the same
    words (same letters ignoring case, word starts at the same positions) — the spec's `sameWords` -/
theorem C05_match_iff (a b : List Char) (ha : Ascii a) (hb : Ascii b) (hna : NoUS a) (hnb : NoUS b) :
    smartMatchL a b = true ↔ (a = b ∨ sameWords a b = true) := by
  constructor
  · exact sameWords_of_smartMatch a b ha hb hna hnb
  · rintro (rfl | h)
    · exact C05_match_refl a
    · exact smartMatch_of_sameWords a b ha hb hna hnb h

/-- the name relation from BELOW: a purely syntactic acronym variant (the non-initial letters of one
    all-caps run of length ≥ 2 lower-cased, in either name: `ID~Id`, `LoadXML~LoadXml`,
    `HTTPServer~HttpServer`) always matches. Several runs: compose, `smartMatch` is transitive on names
    of equal length (`C05_match_trans`). -/
theorem C05_match_acronym (a b : List Char) (ha : Ascii a) (hb : Ascii b) (hna : NoUS a) (hnb : NoUS b)
    (h : acronymVariant a b) : smartMatchL a b = true := by
  rcases h with h | h
  · exact smartMatch_of_sameWords a b ha hb hna hnb (sameWords_of_step a b ha h)
  · have := sameWords_of_step b a hb h
    rw [sameWords_symm] at this
    exact smartMatch_of_sameWords a b ha hb hna hnb this

theorem C05_match_trans (a b c : List Char) (h1 : smartMatchL a b = true) (h2 : smartMatchL b c = true) :
    smartMatchL a c = true := by
  simp only [smartMatchL, Bool.and_eq_true, Bool.or_eq_true, beq_iff_eq] at *
  refine ⟨h1.1.trans h2.1, ?_⟩
  rcases h1.2 with e1 | e1 <;> rcases h2.2 with e2 | e2
  · exact Or.inl (e1.trans e2)
  · exact Or.inr (e1 ▸ e2)
  · exact Or.inr (e2 ▸ e1)
  · exact Or.inr (e1.trans e2)

example : acronymVariant "LoadXML".toList "LoadXml".toList :=
  Or.inl ⟨"Load".toList, 'X', "ML".toList, [], by decide, by decide, by decide, by decide, by decide, Or.inl rfl,
    Or.inr ⟨'L', "oad".toList, by decide, by decide⟩⟩
example : acronymVariant "Id".toList "ID".toList :=
  Or.inr ⟨[], 'I', ['D'], [], by decide, by decide, by decide, by decide, by decide, Or.inl rfl, Or.inl rfl⟩
example : acronymVariant "HTTPServer".toList "HttpServer".toList :=
  Or.inl ⟨[], 'H', "TTP".toList, "Server".toList, by decide, by decide, by decide, by decide, by decide,
    Or.inr (Or.inr ⟨'S', 'e', "rver".toList, by decide, by decide, by decide⟩), Or.inl rfl⟩
example : smartMatchL "xID".toList "xId".toList = false := by decide   -- Pascal-casing joins `x` to the run

/-- the property's name relation IS the generator's, on strings: for ASCII names without underscores `smartMatch` decides
    "identical or the same words" — the relation `specNameMatch` the spec is written with -/
theorem C05_match_spec (a b : String) (ha : Ascii a.toList) (hb : Ascii b.toList) (hna : NoUS a.toList) (hnb : NoUS b.toList) :
    smartMatch a b = specNameMatch false a b := smartMatch_spec a b ha hb hna hnb

/-- headline for the name rules: on two plain fields, the generator's `canNameMatch` — tag map lookup under the
    Pascal-cased name, then `smartMatch` or, with -i, `EqualFold` — equals the spec's relation between the two LEAVES:
    the source leaf's `map:"Name"` tag (Pascal-cased) or its own name (`effName`), compared by `specNameMatch`. All inputs
    whose source type has no tag-renamed field with a Pascal-case namesake (`tagAmbiguous`, region Out); ASCII names; no
    underscores in the names compared (`namesOk05`; a tag value may contain them — ToPascalCase removes them,
    `effName_clean`). The tie of the spec's name relation to the model is a theorem, not a correspondence. -/
theorem C05_nameMatch_spec (inp : Input) (hta : tagAmbiguous inp.src = false) (s d : Leaf) (hs : s ∈ leavesOf inp.src)
    (hsa : Ascii (effName false s).toList) (hsn : NoUS (effName false s).toList)
    (hda : Ascii d.decl.name.toList) (hdn : NoUS d.decl.name.toList) :
    inp.nm (fieldOf s) (fieldOf d) = specNameMatch inp.ic (effName false s) (twinName false d.decl.name) :=
  nm_spec inp hta s d hs hsa hsn hda hdn

/-- the tag map read at a field's key gives that field's own tag (Pascal-cased) or nothing -/
theorem C05_tag_lookup (t : Tree) (h : tagAmbiguous t = false) (d : FDecl) (hd : d ∈ allDecls t) :
    mapGet (tagMap t) (pascalS d.name) = (match d.tag with | .name x => some (pascalS x) | _ => none) :=
  mapGet_tagMap t h d hd

/-- with -i the relation is exactly case-insensitive equality of the (tag-substituted) names -/
theorem C05_match_i (tm : List (String × String)) (f1 f2 : Field) (hg : f1.isGet = false) (hs : f1.isSet = false) :
    canNameMatch tm true f1 f2 = equalFold ((mapGet tm (pascalS f1.matchingName)).getD f1.matchingName) f2.matchingName := by
  simp [canNameMatch, hg, hs]

/-- a `map:"X"` tag replaces the source name before matching — whatever the spelling of the field name
    (stored and looked up under the Pascal-cased name; was finding region F_tagKey for names such as `User_name`) -/
theorem C05_match_tag (name tag : String) (ty : Ty) (f2 : Field) (ic : Bool) :
    canNameMatch (tagMap (.field { name := name, ty := ty, tag := .name tag } .nil)) ic
      { name := name, path := [name], ty := ty } f2 =
    (if ic then equalFold (pascalS tag) f2.matchingName else smartMatch (pascalS tag) f2.matchingName) := by
  simp [canNameMatch, tagMap, mapGet, Field.matchingName]

/-! ### non-vacuity: concrete inputs meeting the hypotheses -/

/-- src {ID int; Name string; Sub *src.Sub}  dest {Id int64; Name string; Sub dest.Sub}  with a method int→int64 -/
def exWF : Input :=
  let sub := Ty.named .src "Sub" (.struct "N:int")
  let subD := Ty.named .dest "Sub" (.struct "N:int,Other:string")
  { src := .field { name := "ID", ty := .basic "int" } (.field { name := "Name", ty := .basic "string" }
            (.field { name := "Sub", ty := .ptr sub } .nil)),
    dest := .field { name := "Id", ty := .basic "int64" } (.field { name := "Name", ty := .basic "string" }
            (.field { name := "Sub", ty := subD } .nil)),
    fns := [{ name := "Fn0", param := .basic "int", result := .basic "int64" }],
    mapperPtr := some false,
    conv := [(.basic "int", .basic "int64"), (.basic "int64", .basic "int")] }

example : exWF.srcNew = false ∧ exWF.destNew = false ∧ uniquePairs exWF = true ∧ region05 exWF = "WF" := by decide
example : tagAmbiguous exWF.src = false ∧ (leavesOf exWF.src).all (fun s => asciiS (effName false s) && noUnderscore (effName false s)) = true ∧
    (leavesOf exWF.dest).all (fun d => asciiS d.decl.name && noUnderscore d.decl.name) = true := by decide
/-- the hypotheses of the leaf-level theorem hold on the example -/
example : PlainOk exWF where
  hs := by decide
  hd := by decide
  hm := by decide
  sel1 := by decide
  sel2 := by decide
  shadow := by decide
  embed := by decide
  tagAmb := by decide
  uniq := by decide
  keys1 := by decide
  keys2 := by decide
  srcNames := by
    intro s hs
    have : ∀ s ∈ leavesOf exWF.src, asciiS (effName false s) = true ∧ noUnderscore (effName false s) = true := by decide
    exact ⟨(asciiS_iff _).mp (this s hs).1, (noUnderscore_iff _).mp (this s hs).2⟩
  destNames := by
    intro d hd
    have : ∀ d ∈ leavesOf exWF.dest, asciiS d.decl.name = true ∧ noUnderscore d.decl.name = true := by decide
    exact ⟨(asciiS_iff _).mp (this d hd).1, (noUnderscore_iff _).mp (this d hd).2⟩
example : region05 exWF = "WF" ∧ asciiOk exWF = true ∧ ((leavesOf exWF.src).map (fun l => joinPath l.path)).Nodup ∧
    ((leavesOf exWF.dest).map (fun l => joinPath l.path)).Nodup ∧ nestedMapped exWF = true := by decide
example : ((plan exWF).toStmts.map (fun c => (c.rd.name, c.wr.name, c.strat))) =
    [("ID", "Id", .func 0), ("Name", "Name", .assign), ("Sub", "Sub", .sub true false)] := by decide
example : ((plan exWF).fromStmts.map (fun c => (c.rd.name, c.wr.name, c.strat))) =
    [("Id", "ID", .conv), ("Name", "Name", .assign), ("Sub", "Sub", .sub false true)] := by decide
example : obs05 exWF = spec05 exWF := by decide
example : specRT exWF = [("rt:Name", "Name")] := by decide

/-! ### finding regions: the unchanged code violates the property there -/

/-- one source field matches two destination fields: `Target` keeps the last, `ID` is never written -/
def wMulti : Input :=
  { src := .field { name := "ID", ty := .basic "int" } .nil,
    dest := .field { name := "ID", ty := .basic "int" } (.field { name := "Id", ty := .basic "int" } .nil) }
theorem C05_F_multiMatch_witness : region05 wMulti = "F_multiMatch" ∧ obs05 wMulti ≠ spec05 wMulti := by decide

/-! ### repaired: inputs of former finding regions now satisfy the property (the model follows the repaired code) -/

/-- named scalar types of the two packages are converted (was F_namedScalarSub: sent to ToX/FromX, which they do not have) -/
def wNamedScalar : Input :=
  let k1 := Ty.named .src "Kind" (.basic "int")
  let k2 := Ty.named .dest "Kind" (.basic "int")
  { src := .field { name := "K", ty := k1 } .nil, dest := .field { name := "K", ty := k2 } .nil,
    conv := [(k1, k2), (k2, k1)] }
theorem C05_namedScalarSub_fixed :
    region05 wNamedScalar = "WF" ∧ obs05 wNamedScalar = spec05 wNamedScalar ∧
    (plan wNamedScalar).toStmts.map (·.strat) = [.conv] := by decide

/-- `User_name` with `map:"Title"` is matched under `Title` (was F_tagKey: stored under `UserName`, looked up under `User_name`) -/
def wTagKey : Input :=
  { src := .field { name := "User_name", ty := .basic "string", tag := .name "Title" } .nil,
    dest := .field { name := "Title", ty := .basic "string" } .nil }
theorem C05_tagKey_fixed : region05 wTagKey = "WF" ∧ obs05 wTagKey = spec05 wTagKey ∧ (plan wTagKey).toStmts.length = 1 := by decide

/-- `A, B int \`map:"X"\``: both names are keyed — two sources for `X`, so the text does not single one out (F_multiMatch), but
    neither is matched under its own name any more -/
def wTagJoined : Input :=
  { src := .field { name := "A", ty := .basic "int", tag := .name "X" } (.field { name := "B", ty := .basic "int", tag := .name "X", joined := true } .nil),
    dest := .field { name := "B", ty := .basic "int" } .nil }
theorem C05_tagJoined_fixed : obs05 wTagJoined = spec05 wTagJoined ∧ (plan wTagJoined).toStmts = [] := by decide

/-- `map:"-"` on a promoted field leaves it out (was F_nestedTag: ignored) -/
def wNestedTag : Input :=
  { src := .embed "Base" false (.field { name := "Name", ty := .basic "string", tag := .skip } .nil) .nil,
    dest := .field { name := "Name", ty := .basic "string" } .nil }
theorem C05_nestedTag_fixed : region05 wNestedTag = "WF" ∧ obs05 wNestedTag = spec05 wNestedTag ∧ (plan wNestedTag).toStmts = [] := by decide

/-- a `map:"Name"` tag on a promoted field renames it -/
def wNestedName : Input :=
  { src := .embed "Base" false (.field { name := "Caption", ty := .basic "string", tag := .name "Title" } .nil) .nil,
    dest := .field { name := "Title", ty := .basic "string" } .nil }
theorem C05_nestedName_fixed : region05 wNestedName = "WF" ∧ obs05 wNestedName = spec05 wNestedName ∧ (plan wNestedName).toStmts.length = 1 := by decide

/-- a top-level `map:"-"` field hides its promoted namesake from the generator as it does from Go (was F_skipShadow) -/
def wSkipShadowTop : Input :=
  { src := .field { name := "Name", ty := .basic "int", tag := .skip }
            (.embed "Base" false (.field { name := "Name", ty := .basic "int" } .nil) .nil),
    dest := .field { name := "Name", ty := .basic "int" } .nil }
theorem C05_skipShadow_fixed : region05 wSkipShadowTop = "WF" ∧ obs05 wSkipShadowTop = spec05 wSkipShadowTop ∧ (plan wSkipShadowTop).toStmts = [] := by decide

/-- what remains of F_skipShadow: a PROMOTED `map:"-"` field with a deeper namesake — the generator maps the deeper
    one by name, Go resolves the name to the tagged one -/
def wSkipShadow : Input :=
  { src := .embed "Base" false (.field { name := "Name", ty := .basic "int", tag := .skip }
            (.embed "Inner" false (.field { name := "Name", ty := .basic "int" } .nil) .nil)) .nil,
    dest := .field { name := "Name", ty := .basic "int" } .nil }
theorem C05_F_skipShadow_witness : region05 wSkipShadow = "F_skipShadow" ∧ obs05 wSkipShadow ≠ spec05 wSkipShadow := by decide

/-- `map:"-"` on an EMBEDDED struct is not read: `Account{ *Secret \`map:"-"\`; Name }`, Secret{Token} — Token is copied -/
def wEmbedSkip : Input :=
  { src := .embed "Secret" true (.field { name := "Token", ty := .basic "string" } .nil) (.field { name := "Name", ty := .basic "string" } .nil),
    dest := .field { name := "Token", ty := .basic "string" } (.field { name := "Name", ty := .basic "string" } .nil),
    srcSkipEmbeds := [["Secret"]] }
theorem C05_F_embedSkip_witness : region05 wEmbedSkip = "F_embedSkip" ∧ obs05 wEmbedSkip ≠ spec05 wEmbedSkip := by decide

/-- a pointer conversion compiles: `(*dest.Kind)(x)` (was F_ptrConv: printed as `*dest.Kind(x)`) -/
def wPtrConv : Input :=
  let a := Ty.ptr (.basic "int")
  let b := Ty.ptr (.named .dest "Kind" (.basic "int"))
  { src := .field { name := "P", ty := a } .nil, dest := .field { name := "P", ty := b } .nil, conv := [(a, b), (b, a)] }
theorem C05_ptrConv_fixed : region05 wPtrConv = "WF" ∧ obs05 wPtrConv = spec05 wPtrConv ∧ modelCompiles wPtrConv = true := by decide

/-- FromX converts into a named type of the source package as `Label(x)` (was F_convSrcNamed: `src.Label(x)` inside package src) -/
def wConvSrc : Input :=
  let a := Ty.named .src "Label" (.basic "string")
  { src := .field { name := "L", ty := a } .nil, dest := .field { name := "L", ty := .basic "string" } .nil,
    conv := [(a, .basic "string"), (.basic "string", a)] }
theorem C05_convSrcNamed_fixed : region05 wConvSrc = "WF" ∧ obs05 wConvSrc = spec05 wConvSrc ∧ modelCompiles wConvSrc = true := by decide

end ShootVerif.Mapper
