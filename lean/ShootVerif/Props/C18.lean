import ShootVerif.Proofs.Phases
import ShootVerif.Gen.Facts
/-!
C18 — failures are clean: exit code 0, 1 or 2 and a diagnostic, never a Go runtime panic; on a non-zero exit
no file has been created, modified or deleted.

`run i` is the phase machine of cmd/shoot/main.go (Model/Phases.lean); `i` says how each phase ends on the
input at hand and is ARBITRARY in every theorem below. What ties the machine to the source, besides the
correspondence run, are the theorems over the regenerated tables `Facts.fatalSites` / `Facts.panicSites`:
every exit site that can be reached after main's first call of notedownSrc is one of the four the machine
models (three I/O errors in notedownSrc, the Clean error in main), so every other `logx.Fatal*`/`os.Exit`
precedes the first write; and the source contains no explicit `panic(`.

Stated plainly: absence of Go *runtime* panics (nil dereference, failed type assertion, index out of range) is
not provable over this model — `Input.gen = .panic` is an input. That half of the property rests on the
damaged-input correspondence (tools/props/c18.py); the six panics it found were repaired in /repo.
-/
set_option linter.unusedSimpArgs false
namespace ShootVerif.Phases
open ShootVerif.Cli (Cmd)

/-- headline: without I/O error and with Clean succeeding, a non-zero exit leaves the directory untouched -/
theorem C18_no_change_on_failure (i : Input) (hw : i.writeErr = none) (hc : i.cleanErr = none)
    (hexit : (run i).1 ≠ .ok) : (run i).2 = [] := by
  unfold run at hexit ⊢
  cases hf : preExit i.flags with
  | some e => simp
  | none =>
    cases hl : preExit i.load with
    | some e => simp
    | none =>
      cases hg : preExit i.gen with
      | some e => simp
      | none =>
        simp only [hf, hl, hg, hw, hc, writeAll_noErr] at hexit ⊢
        by_cases he : i.outputs.isEmpty = true
        · simp [he]
        · simp [he] at hexit

/-- whatever happens, the three phases before the write loop never touch the file system: when one of them
    stops the run — usage, logx.Fatal or even a panic — nothing has been written or deleted -/
theorem C18_early_exit_writes_nothing (i : Input)
    (h : i.flags ≠ .pass ∨ i.load ≠ .pass ∨ i.gen ≠ .pass) : (run i).2 = [] := by
  unfold run
  cases hf : i.flags <;> simp [preExit]
  cases hl : i.load <;> simp [preExit]
  cases hg : i.gen <;> simp [preExit]
  simp [hf, hl, hg] at h

/-! ### with I/O errors (no hypothesis on `writeErr` / `cleanErr`): what is still guaranteed -/

/-- whatever happens — I/O errors included — the file-system effect of a run is: a PREFIX of its outputs written (each one
    completely, by C17), then a PREFIX of Clean's removals, and removals only after all outputs are in place -/
theorem C18_effects_are_prefixes (i : Input) :
    ∃ j k, (run i).2 = (i.outputs.take j).map .write ++ (i.removes.take k).map .remove ∧ (0 < k → j = i.outputs.length) := by
  unfold run
  cases hf : preExit i.flags with
  | some e => exact ⟨0, 0, by simp, by omega⟩
  | none =>
    cases hl : preExit i.load with
    | some e => exact ⟨0, 0, by simp, by omega⟩
    | none =>
      cases hg : preExit i.gen with
      | some e => exact ⟨0, 0, by simp, by omega⟩
      | none =>
        obtain ⟨j, hj, hjl⟩ := writeAll_prefix i.outputs i.writeErr
        simp only
        cases hfail : (writeAll i.outputs 0 i.writeErr).2 with
        | true => exact ⟨j, 0, by simp [hj], by omega⟩
        | false =>
          have hjl' := hjl hfail
          by_cases he : i.outputs.isEmpty = true
          · exact ⟨0, 0, by simp [he], by omega⟩
          · simp only [Bool.false_eq_true, ↓reduceIte, he]
            cases hc : i.cleanErr with
            | none => exact ⟨j, i.removes.length, by simp [hj], fun _ => hjl'⟩
            | some k => exact ⟨j, k, by simp [hj], fun _ => hjl'⟩

/-- an I/O error in the k-th notedownSrc: exit 1, the k outputs before it are in place, nothing else has happened
    (so a run with more than one output is NOT all-or-nothing under I/O errors) -/
theorem C18_write_error (i : Input) (hf : i.flags = .pass) (hl : i.load = .pass) (hg : i.gen = .pass) (k : Nat)
    (hw : i.writeErr = some k) (hk : k < i.outputs.length) :
    run i = (.fatal, (i.outputs.take k).map .write) := by
  unfold run
  simp only [hf, hl, hg, preExit, hw, writeAll_err i.outputs 0 k (Nat.zero_le _)]
  simp [hk]

/-- a run with a single output (every `-type=T` run, every all-in-one run without superseded files) is all-or-nothing
    even when the write fails: non-zero exit, nothing changed — unless Clean fails -/
theorem C18_single_output_all_or_nothing (i : Input) (h1 : i.outputs.length ≤ 1) (hc : i.cleanErr = none)
    (hexit : (run i).1 ≠ .ok) : (run i).2 = [] := by
  cases hw : i.writeErr with
  | none => exact C18_no_change_on_failure i hw hc hexit
  | some k =>
    unfold run at hexit ⊢
    cases hf : preExit i.flags with
    | some e => simp
    | none =>
      cases hl : preExit i.load with
      | some e => simp
      | none =>
        cases hg : preExit i.gen with
        | some e => simp
        | none =>
          simp only [hf, hl, hg, hw, hc, writeAll_err i.outputs 0 k (Nat.zero_le _)] at hexit ⊢
          by_cases hk : k - 0 < i.outputs.length
          · have hk0 : k = 0 := by omega
            subst hk0
            have hpos : 0 < i.outputs.length := by omega
            simp [hpos]
          · simp only [hk, ↓reduceIte] at hexit ⊢
            by_cases he : i.outputs.isEmpty = true
            · simp [he]
            · simp [he] at hexit

/-- exit status is 0, 1 or 2 -/
theorem C18_exit_codes (i : Input) : (run i).1.code = 0 ∨ (run i).1.code = 1 ∨ (run i).1.code = 2 := by
  cases h : (run i).1 <;> simp [Exit.code]

/-- on the well-formed region the model meets the property -/
theorem C18_model_meets_spec (i : Input) (h : WF i = true) : specOK (run i) = true := by
  simp only [WF, Bool.and_eq_true, bne_iff_ne, ne_eq, Option.isNone_iff_eq_none] at h
  obtain ⟨⟨⟨⟨h1, h2⟩, h3⟩, h4⟩, h5⟩ := h
  have hnc := C18_no_change_on_failure i h4 h5
  have hcode := code_le_two (run i).1
  have hnp : (run i).1 ≠ .panic := by
    unfold run
    cases hf : i.flags <;> simp [preExit] <;> try exact absurd hf h1
    cases hl : i.load <;> simp [preExit] <;> try exact absurd hl h2
    cases hg : i.gen <;> simp [preExit] <;> try exact absurd hg h3
    simp only [h4, h5, writeAll_noErr]
    split
    · simp
    · split <;> simp
  simp only [specOK, Bool.and_eq_true, bne_iff_ne, ne_eq, decide_eq_true_eq, Bool.or_eq_true, beq_iff_eq,
    List.isEmpty_iff]
  refine ⟨⟨hnp, hcode⟩, ?_⟩
  by_cases hok : (run i).1 = .ok
  · exact Or.inl hok
  · exact Or.inr (hnc hok)

/-- every damage class shoot diagnoses itself is handled cleanly,
    for every sub-command and whatever the command line would have written -/
theorem C18_diagnosed_classes_clean (cmd : Cmd) (d : Damage) (outs stale : List String) :
    specOK (run (classify cmd d outs stale)) = true := by
  by_cases hd : d = .outputBlocked
  · -- the first output cannot be put in place: an I/O error in the first notedownSrc, nothing has been written yet
    subst hd
    cases outs with
    | nil => rfl
    | cons f r => simp [classify, run, preExit, writeAll, specOK, Exit.code]
  · apply C18_model_meets_spec
    cases d <;> cases cmd <;> first | rfl | exact absurd rfl hd

/-! ### second tie: the regenerated tables -/

/-- the exit sites the phase machine places in and after the write loop -/
def modelledPostSites : List (String × String × String × Bool) :=
  [ ("main", "main", "logx.Fatal", true),            -- err := g.Clean(); logx.Fatal(err)
    ("main", "notedownSrc", "logx.Fatalf", true),    -- creating temporary file
    ("main", "notedownSrc", "logx.Fatalf", true),    -- writing output
    ("main", "notedownSrc", "logx.Fatalf", true) ]   -- moving tempfile to output file

/-- every `logx.Fatal*` / `log.Fatal*` / `os.Exit` of the current source that can be reached once the first
    file has been written is one of the four sites the machine models (`Input.writeErr`, `Input.cleanErr`);
    hence every other fatal site — flags, load and generate phases — precedes the first write -/
theorem C18_fatal_sites_precede_write :
    Facts.fatalSites.filter (fun s => s.2.2.2) = modelledPostSites := by decide

/-- the source contains no explicit `panic(` at all (the one in mapper.parseManual went with /repo 58408b2) -/
theorem C18_panic_sites_classified : Facts.panicSites = [] := by decide

/-- the only computed indices into go/ast field lists are `ftype.Results.List[n-1]` / `[n-2]` in restclient.cookClient, and `n` is
    only ever 0 or the LENGTH OF THAT VERY LIST (the `n < 2` test before them is what the damaged-input runs exercise): counting
    result VALUES (NumFields) while indexing result SPECS — grouped results `(a, b error)` — cannot come back unnoticed -/
theorem C18_list_index_sites :
    Facts.listIndexSites =
      [ ("restclient", "cookClient", "ftype.Results.List", "n - 1", ["n := 0", "n = len(ftype.Results.List)"]),
        ("restclient", "cookClient", "ftype.Results.List", "n - 2", ["n := 0", "n = len(ftype.Results.List)"]) ] := by decide

/-- the phases of main.main in source order (regenerated on every run): parse flags, load, generate everything, THEN the write
    loop, THEN the clean-up - the order of the phase machine `run` -/
theorem C18_phase_order :
    Facts.mainPhases = [("ParseFlags", false), ("LoadPackage", false), ("Generate", false), ("notedownSrc", true), ("Clean", false)] := by
  decide

/-- every place where the source compiles or matches a regular expression, a glob pattern or a template text (regenerated on every
    run) builds it from string literals, package-level string constants and values passed through regexp.QuoteMeta - except three:
      * `printDeclWithOwnComments`: `"(?m)^package " + pkgName + "$"` - pkgName is the name in the package clause of a parsed file,
        a Go identifier (letters, digits, `_`): no metacharacter possible;
      * `tmpl`: the template text is one of the four embedded `.tmpl` files, fixed at build time;
      * `Clean`: `filepath.Match("*.shoot" + subCmd + "*.go", <base name>)` - subCmd is the sub-command's own name, one of the four
        `SubCmd` constants handed to NewGeneratorBase. (Until /repo a3d970c this site was `filepath.Glob(filepath.Join(Dir, ...))` with
        the user's `[dir]` argument inside the pattern: former finding F_glob_dir.)
    A new site that interpolates anything else - a flag value such as `-alias`, a directory, a type name - breaks this theorem -/
theorem C18_pattern_sites_classified :
    Facts.patternSites.filter (fun s => s.2.2.2.1 != "literal" && s.2.2.2.1 != "quoted") =
      [ ("shoot", "Clean", "filepath.Match", "dynamic", ["g.subCmd"]),
        ("shoot", "printDeclWithOwnComments", "regexp.MustCompile", "dynamic", ["pkgName"]),
        ("shoot", "tmpl", "template.Parse", "dynamic", ["g.tmplTxt"]) ] := by decide

/-- formerly finding F_glob_dir (repaired in /repo a3d970c): a `[dir]` path with an unclosed `[` is an ordinary successful run -/
example : run (classify .new .cleanGlobBad ["a.shootnew.go"] ["a.shootnew.user.go"])
    = (.ok, [.write "a.shootnew.go", .remove "a.shootnew.user.go"]) := by decide

/-- every literal index into a slice-valued field (`.Names[0]`, `.List[0]`, `.GoFiles[0]`, ... ; regenerated on every run) stands in a
    function that tests `len()` of a slice of that field - the last column lists those tests (`g.pkg.GoFiles[0]` in Generate: a package
    directory without any buildable file has none). Two of these sites were runtime panics on damaged
    input before they got their guard (`p.Names[0]` in parseCtors on a constructor with unnamed parameters, /repo 0dbe2aa;
    `param.Names[0]` / `recv.Names[0]` in parseManual, /repo a51cc44). The one site without a test of its own, `method.Names[0]` in
    restclient.methodSignature, is reached only from cookClient's branch for fields with `len(field.Names) != 0`.
    A site that loses its guard, or a new unguarded site, breaks this theorem; whether a guard is SUFFICIENT is what the
    damaged-input runs sample (every parameter / result / receiver list shape, see tools/vlib/cligen.py) -/
theorem C18_ast_index_sites_guarded :
    Facts.astIndexSites =
      [ ("mapper", "extractParamToFieldMap", "ret.Results", "0", ["ret.Results"]),
        ("mapper", "parseCtors", "fn.Type.Results.List", "0", ["fn.Type.Results.List", "params.List"]),
        ("mapper", "parseCtors", "p.Names", "0", ["params.List[0].Names"]),
        ("mapper", "parseCtors", "params.List", "0", ["fn.Type.Results.List", "params.List"]),
        ("mapper", "parseGetSetMethods", "fn.Recv.List", "0", ["fn.Recv.List", "params.List", "results.List"]),
        ("mapper", "parseGetSetMethods", "params.List", "0", ["fn.Recv.List", "params.List", "results.List"]),
        ("mapper", "parseGetSetMethods", "results.List", "0", ["fn.Recv.List", "params.List", "results.List"]),
        ("mapper", "parseManual", "fn.Recv.List", "0", ["fn.Recv.List", "fn.Type.Params.List", "fn.Type.Results.List"]),
        ("mapper", "parseManual", "fn.Type.Params.List", "0", ["fn.Recv.List", "fn.Type.Params.List", "fn.Type.Results.List"]),
        ("mapper", "parseManual", "param.Names", "0", ["param.Names", "recv.Names"]),
        ("mapper", "parseManual", "recv.Names", "0", ["param.Names", "recv.Names"]),
        ("mapper", "parseMapper", "fn.Recv.List", "0", ["fn.Recv.List"]),
        ("restclient", "cookClient", "field.Names", "0", ["field.Names", "r.Names"]),
        ("restclient", "cookClient", "ftype.Results.List", "0", ["ftype.Results.List"]),
        ("restclient", "methodSignature", "method.Names", "0", []),
        ("shoot", "Generate", "g.pkg.GoFiles", "0", ["g.pkg.GoFiles"]),
        ("shoot", "MergeSources", "files[0].Comments", "0", ["files[0].Comments"]) ] := by decide

/-- before the first write, exits come in exactly two flavours: os.Exit (only in main and ParseCommonFlags:
    usage, exit 2) and logx.Fatal* (exit 1) -/
theorem C18_exit_two_sites :
    (Facts.fatalSites.filter (fun s => s.2.2.1 == "os.Exit")).map (fun s => (s.1, s.2.1))
      = [("main", "main"), ("main", "main"), ("main", "main"), ("shoot", "ParseCommonFlags"), ("shoot", "ParseCommonFlags")] := by
  decide

/-! ### non-vacuity -/

example : WF (classify .new .typeMissing ["a.shootnew.t.go"] []) = true ∧
    run (classify .new .typeMissing ["a.shootnew.t.go"] []) = (.fatal, []) := by decide
example : run (classify .new .none ["a.shootnew.go"] ["a.shootnew.t.go"])
    = (.ok, [.write "a.shootnew.go", .remove "a.shootnew.t.go"]) := by decide
example : WF { outputs := ["x"], removes := ["y"] } = true := by decide

/-! ### what is NOT proved: a Go runtime panic in a phase is an input of the machine, and it violates the property -/

example : specOK (run { gen := .panic }) = false ∧ (run { gen := .panic }).2 = [] := by decide

/-- (a Clean error — only a real I/O error since /repo 63484d4 — and a write error after the first output are the modelled
    ways to exit 1 after a write; `C18_effects_are_prefixes`, `C18_write_error` say what holds then) -/
example : run { outputs := ["a.shootnew.go"], removes := ["z.shootnew.old.go"], cleanErr := some 0 }
    = (.fatal, [.write "a.shootnew.go"]) := by decide

end ShootVerif.Phases
