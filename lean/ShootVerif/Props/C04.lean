import ShootVerif.Spec.Enum
namespace ShootVerif.Enum
theorem C04_placeholder : True := trivial
end ShootVerif.Enum
