import ShootVerif.Proofs.EnumBasic
/-!
C04 — for every integer type with typed constants the generated String, Values, Strings, ValueMap,
StringMap and IsValid agree with the declaration: each declared constant maps to its name with the
type-name prefix trimmed and back, Values() and Strings() are index-aligned and ordered by
ascending value, IsValid is true exactly for declared values, and (without -bit) String() of any
other value is its decimal form.  The generated file stops compiling if a declared constant's
value is later changed without regenerating.

`tables i` is what the model of str.go puts into the emitted file (`sortC (collect …)`);
`i.decl` are the declared constants of T by the Go language rule.  All theorems: every input with
`WF i` (any number of blocks / specs / names, any kind), every `x : Int` — in particular every
value of the integer type — and every string.  No bound anywhere.
-/
namespace ShootVerif.Enum

/-- the stringer-style loop of makeStr over the package-level const declarations collects exactly
    the declared constants of T, for every input of the syntactic grammar (no spec gets type T through
    a typed expression `X = T(5)`).  Specs typed `pkg.T` (reset) or `(T)` (a T) and const declarations
    inside function bodies (not walked) are ordinary members of that grammar since /repo 17b8707 / b44c047. -/
theorem C04_collect (i : Input) (h : grammarOK i = true) : collect i.T i.scanned = i.decl :=
  collect_of_grammarOK h

/-- generated files are never input: when shoot runs over a package that already holds its own output
    (a re-run, or stale output left in place), the const declarations of the generated files — the
    template emits only `const _<t>_max = A | B | …`, no type and a value — contribute nothing: the
    tables are those of the hand-written declaration, so a re-run reproduces the first run -/
theorem C04_generated_not_collected (i : Input) (h : i.generated.all (fun b => b.all templateConst) = true) :
    tables i = tables { i with generated := [] } := by
  unfold tables Input.scanned
  simp only [List.all_eq_true] at h
  rw [collect_generated i.T i.blocks i.generated h, List.append_nil]

/-- on WF — negative values and values above MaxInt64 included — the run emits the table the
    specification describes, and the emitted map literals / table references compile -/
theorem C04_generates (i : Input) (h : WF i = true) :
    gen i.kind i.T i.scanned = .file (specSorted i.decl) ∧
    compiles false i.T i.decl (specSorted i.decl) = true := by
  have f := WF.facts h
  have hp : (specSorted i.decl).Perm i.decl := sortBy_perm _ _
  have ht : sortC i.kind (collect i.T i.scanned) = specSorted i.decl := tables_eq h
  constructor
  · unfold gen
    simp only [ht]
    have hne : (specSorted i.decl).isEmpty = false := by
      cases hs : specSorted i.decl with
      | nil => rw [hs] at hp; exact absurd hp.symm.eq_nil f.nonempty
      | cons _ _ => rfl
    simp [hne]
  · unfold compiles
    have h1 : (valuesT (specSorted i.decl)).Nodup := (hp.map _).nodup_iff.mpr f.ndVals
    have h2 : (stringsT i.T (specSorted i.decl)).Nodup := (hp.map _).nodup_iff.mpr f.ndNames
    have h3 : (specSorted i.decl).all (fun c => i.decl.contains c) = true := by
      rw [List.all_eq_true]; intro c hc; simpa using hp.mem_iff.mp hc
    simp only [h1, h2, h3, decide_true, Bool.true_and]
    decide

/-- the table holds exactly the declared constants, in strictly ascending order of value -/
theorem C04_sorted (i : Input) (h : WF i = true) :
    (tables i).Perm i.decl ∧ (valuesT (tables i)).Pairwise (· < ·) := by
  refine ⟨tables_perm h, ?_⟩
  have f := WF.facts h
  have hs : (valuesT (tables i)).Pairwise (· ≤ ·) := by
    rw [tables_eq h]; unfold valuesT specSorted
    exact List.pairwise_map.mpr (sortBy_sorted _ _)
  have hn : (valuesT (tables i)).Nodup := ((tables_perm h).map _).nodup_iff.mpr f.ndVals
  exact (hs.and hn).imp (fun ⟨a, b⟩ => by omega)

/-- the declaration ORDER of the constants is irrelevant: two WF declarations of the same type with the same constants
    — in whatever order, however spread over specs, blocks and files — give the same tables (so nothing may depend on
    which constant happens to be collected first or last) -/
theorem C04_order_irrelevant (i j : Input) (hi : WF i = true) (hj : WF j = true) (hT : i.T = j.T) (hp : i.decl.Perm j.decl) :
    tables i = tables j ∧ tablesOf i.T (tables i) = tablesOf j.T (tables j) := by
  have h := specSorted_perm i.decl j.decl hp (WF.facts hi).ndVals
  rw [tables_eq hi, tables_eq hj, h, hT]
  exact ⟨rfl, rfl⟩

/-- Values() is the specification's ascending list -/
theorem C04_values (i : Input) (h : WF i = true) : valuesT (tables i) = specValues i.decl := by
  rw [tables_eq h]; rfl

theorem C04_strings (i : Input) (h : WF i = true) : stringsT i.T (tables i) = specStrings i.T i.decl := by
  rw [tables_eq h]; rfl

/-- Values() and Strings() are index-aligned: position j holds the value and the trimmed name of
    one and the same constant (for any table) -/
theorem C04_aligned (T : Name) (cs : List Const) :
    (valuesT cs).length = (stringsT T cs).length ∧
    ∀ (j : Nat) (c : Const), cs[j]? = some c →
      (valuesT cs)[j]? = some c.val ∧ (stringsT T cs)[j]? = some (trim T c.name) := by
  refine ⟨by simp [valuesT, stringsT], ?_⟩
  intro j c hj
  simp [valuesT, stringsT, hj]

/-- IsValid() is true exactly for the declared values -/
theorem C04_isvalid_iff (i : Input) (h : WF i = true) (x : Int) :
    isValid i.T (tables i) x = true ↔ ∃ c ∈ i.decl, c.val = x := by
  unfold isValid
  rw [lookup_stringMap, Option.isSome_map, List.find?_isSome]
  constructor
  · rintro ⟨c, hc, hx⟩
    exact ⟨c, (tables_perm h).mem_iff.mp hc, by simpa using hx⟩
  · rintro ⟨c, hc, hx⟩
    exact ⟨c, (tables_perm h).mem_iff.mpr hc, by simpa using hx⟩

theorem C04_isvalid (i : Input) (h : WF i = true) (x : Int) :
    isValid i.T (tables i) x = specValid i.decl x := by
  rw [Bool.eq_iff_iff, C04_isvalid_iff i h x]
  simp [specValid]

/-- String(), for EVERY integer x: the trimmed name of the declared constant with that value,
    otherwise the decimal form (no -bit) — whatever `_max` (the OR of all constants, negative as soon
    as one constant is) makes of the `x < 0 || x > _max` test: both of its arms print `%d` -/
theorem C04_string (i : Input) (h : WF i = true) (x : Int) :
    stringOf i.kind i.T (tables i) x = specString i.T i.decl x := by
  have f := WF.facts h
  unfold stringOf specString
  rw [lookup_stringMap, find?_key_perm (·.val) (tables_perm h) (((tables_perm h).map _).nodup_iff.mpr f.ndVals) x]
  cases i.decl.find? (fun c => c.val = x) with
  | none => simp
  | some c => simp

theorem C04_string_declared (i : Input) (h : WF i = true) (c : Const) (hc : c ∈ i.decl) :
    stringOf i.kind i.T (tables i) c.val = .name (trim i.T c.name) := by
  rw [C04_string i h]
  unfold specString
  rw [find?_key_unique (·.val) i.decl (WF.facts h).ndVals c hc]

theorem C04_string_other (i : Input) (h : WF i = true) (x : Int) (hx : ∀ c ∈ i.decl, c.val ≠ x) :
    stringOf i.kind i.T (tables i) x = .dec x := by
  rw [C04_string i h]
  unfold specString
  have : i.decl.find? (fun c => c.val = x) = none := by
    rw [List.find?_eq_none]; intro c hc; simpa using hx c hc
  rw [this]

/-- ValueMap() sends a string to the value of the declared constant so named (after trimming) -/
theorem C04_valuemap (i : Input) (h : WF i = true) (s : Name) :
    (valueMap i.T (tables i)).lookup s = specValueOf i.T i.decl s := by
  have f := WF.facts h
  unfold specValueOf
  rw [lookup_valueMap, find?_key_perm (fun c => trim i.T c.name) (tables_perm h)
    (((tables_perm h).map _).nodup_iff.mpr f.ndNames) s]

/-- StringMap() sends a value to the trimmed name of the declared constant with that value -/
theorem C04_stringmap (i : Input) (h : WF i = true) (v : Int) :
    (stringMap i.T (tables i)).lookup v = specNameOf i.T i.decl v := by
  have f := WF.facts h
  unfold specNameOf
  rw [lookup_stringMap, find?_key_perm (·.val) (tables_perm h) (((tables_perm h).map _).nodup_iff.mpr f.ndVals) v]

/-- the two maps are inverse to each other, and both are the declaration -/
theorem C04_maps_inverse (i : Input) (h : WF i = true) (s : Name) (v : Int) :
    ((valueMap i.T (tables i)).lookup s = some v ↔ (stringMap i.T (tables i)).lookup v = some s) ∧
    ((valueMap i.T (tables i)).lookup s = some v ↔ ∃ c ∈ i.decl, trim i.T c.name = s ∧ c.val = v) := by
  have f := WF.facts h
  rw [C04_valuemap i h, C04_stringmap i h]
  unfold specValueOf specNameOf
  have h1 : (i.decl.find? (fun c => trim i.T c.name = s)).map (·.val) = some v ↔
      ∃ c ∈ i.decl, trim i.T c.name = s ∧ c.val = v := by
    rw [Option.map_eq_some_iff]
    constructor
    · rintro ⟨c, hc, hv⟩
      have := (find?_some_iff_mem (fun c => trim i.T c.name) i.decl f.ndNames s c).mp hc
      exact ⟨c, this.1, this.2, hv⟩
    · rintro ⟨c, hc, hs, hv⟩
      exact ⟨c, (find?_some_iff_mem (fun c => trim i.T c.name) i.decl f.ndNames s c).mpr ⟨hc, hs⟩, hv⟩
  have h2 : (i.decl.find? (fun c => c.val = v)).map (fun c => trim i.T c.name) = some s ↔
      ∃ c ∈ i.decl, trim i.T c.name = s ∧ c.val = v := by
    rw [Option.map_eq_some_iff]
    constructor
    · rintro ⟨c, hc, hs⟩
      have := (find?_some_iff_mem (·.val) i.decl f.ndVals v c).mp hc
      exact ⟨c, this.1, hs, this.2⟩
    · rintro ⟨c, hc, hs, hv⟩
      exact ⟨c, (find?_some_iff_mem (·.val) i.decl f.ndVals v c).mpr ⟨hc, hv⟩, hs⟩
  exact ⟨h1.trans h2.symm, h1⟩

/-- the stale guard `_ = x[Name-value]` compiles iff every declared constant still has the value
    it had when the file was generated -/
theorem C04_guard (i : Input) (h : WF i = true) (cur : Name → Option Int) :
    guardOK i.kind (tables i) cur = true ↔ ∀ c ∈ i.decl, cur c.name = some c.val := by
  have f := WF.facts h
  unfold guardOK
  rw [List.all_eq_true]
  constructor
  · intro hg c hc
    have := hg c ((tables_perm h).mem_iff.mpr hc)
    rw [printed_of_has i.kind f.bits64 c.val (f.inKind c hc)] at this
    cases hcur : cur c.name with
    | none => simp [hcur] at this
    | some v => simp [hcur] at this; congr 1; omega
  · intro hg c hc
    have hc' := (tables_perm h).mem_iff.mp hc
    rw [printed_of_has i.kind f.bits64 c.val (f.inKind c hc'), hg c hc']
    simp

theorem C04_guard_spec (i : Input) (h : WF i = true) (cur : Name → Option Int) :
    guardOK i.kind (tables i) cur = specGuard i.decl cur := by
  rw [Bool.eq_iff_iff, C04_guard i h cur]
  simp [specGuard]

/-- one guard line `_ = x[Name-valueof]`, for EVERY kind and EVERY pair of integers — the boundary values of the
    kind included, where the difference leaves the type (`127 - (-128)` in int8, `0 - 5` in uint8) and the
    compiler complains about the overflow instead of the index: it is accepted exactly when the constant
    still has the printed value -/
theorem C04_guard_line (k : Kind) (p : Int) (cur : Option Int) : guardLine k p cur = .none ↔ cur = some p :=
  guardLine_none_iff k p cur

/-- the first complaint of the compiler in the guard function (`guardFirst`, compared with the real
    compiler's first message by the stale legs) is "none" exactly when the guard is accepted -/
theorem C04_guard_first (k : Kind) (cs : List Const) (cur : Name → Option Int) :
    guardFirst k cs cur = .none ↔ guardOK k cs cur = true := guardFirst_none_iff k cs cur

/-! ### the trimmed name (`strings.TrimPrefix(name, typeName)`), corner cases included -/

/-- the type name is removed ONCE from the front, case-sensitively; what follows stays as it is (a second
    occurrence of the type name included: `ColorColorRed` ↦ `ColorRed`); any other name is left alone -/
theorem C04_trim_once (T s n : Name) :
    trim T (T ++ s) = s ∧ (T.isPrefixOf n = false → trim T n = n) ∧
    ((T.isPrefixOf n = false ∧ trim T n = n) ∨ (T.isPrefixOf n = true ∧ n = T ++ trim T n)) :=
  ⟨trim_append T s, trim_of_not_prefix T n, trim_decomp T n⟩

/-- the trimmed name is empty only for the type name itself (not a constant name of a Go package next to
    the type) or the empty name -/
theorem C04_trim_empty_iff (T n : Name) : trim T n = [] ↔ n = [] ∨ n = T := trim_eq_nil_iff T n

/-- when do two different constants get the same String() / ValueMap() key?  Only when one is named like the
    other with the type name in front (`TA` next to `A` for type `T`) — the shape the region clause
    "distinct trimmed names" excludes; among names that all carry the prefix trimming is injective -/
theorem C04_trim_collision (T a b : Name) :
    (a ≠ b → trim T a = trim T b →
      (a = T ++ b ∧ T.isPrefixOf b = false) ∨ (b = T ++ a ∧ T.isPrefixOf a = false)) ∧
    (T.isPrefixOf a = true → T.isPrefixOf b = true → trim T a = trim T b → a = b) :=
  ⟨trim_collision T a b, trim_inj_prefixed T a b⟩

def cColor : Name := ['C', 'o', 'l', 'o', 'r']
def cRed : Name := ['C', 'o', 'l', 'o', 'r', 'R', 'e', 'd']
def cGreen : Name := ['C', 'o', 'l', 'o', 'r', 'G', 'r', 'e', 'e', 'n']

/-! ### non-vacuity on the formerly failing shapes (regions F_negative / F_big until /repo 9f224b6):
negative constants and constants above MaxInt64 are in WF and the theorems above speak about them -/

/-- `type Color int8; const ( ColorRed Color = iota - 1; ColorGreen; B Color = -128 )` -/
def negExample : Input :=
  { T := cColor, kind := ⟨true, 8⟩,
    blocks := [[{ names := [cRed], ty := some cColor, hasVals := true, exprTy := none, vals := [-1] },
                { names := [cGreen], ty := none, hasVals := false, exprTy := none, vals := [0] },
                { names := [['B']], ty := some cColor, hasVals := true, exprTy := none, vals := [-128] }]] }

example : WF negExample = true ∧ valuesT (tables negExample) = [-128, -1, 0] ∧
    stringOf negExample.kind negExample.T (tables negExample) (-1) = .name ['R', 'e', 'd'] ∧
    stringOf negExample.kind negExample.T (tables negExample) (-2) = .dec (-2) ∧
    stringOf negExample.kind negExample.T (tables negExample) 1 = .dec 1 ∧
    maxOr negExample.kind (tables negExample) = -1 ∧
    guardOK negExample.kind (tables negExample) (fun n => (negExample.decl.find? (·.name = n)).map (·.val)) = true := by decide

/-- `type U uint64; const ( UA U = 1; UB U = 1 << 63 )` -/
def bigExample : Input :=
  { T := ['U'], kind := ⟨false, 64⟩,
    blocks := [[{ names := [['U', 'B']], ty := some ['U'], hasVals := true, exprTy := none, vals := [9223372036854775808] },
                { names := [['U', 'A']], ty := some ['U'], hasVals := true, exprTy := none, vals := [1] }]] }

example : WF bigExample = true ∧ valuesT (tables bigExample) = [1, 9223372036854775808] ∧
    printed bigExample.kind 9223372036854775808 = 9223372036854775808 ∧
    stringOf bigExample.kind bigExample.T (tables bigExample) 9223372036854775808 = .name ['B'] := by decide

/-! ### the former finding regions F_local_const / F_nonident_type (repaired in /repo 17b8707, b44c047):
the same packages are in WF now and the statements hold on them -/

/-- the tables do not depend on the const declarations inside function bodies, whatever they are -/
theorem C04_local_const_fixed (i : Input) (ls : List (List VSpec)) :
    tables { i with locals := ls } = tables i := rfl

/-- `type Color int; const ( Red Color = iota + 1; Green ); func f() { const tmp Color = 7 }` -/
def localExample : Input :=
  { T := cColor, kind := ⟨true, 64⟩,
    blocks := [[{ names := [cRed], ty := some cColor, hasVals := true, exprTy := none, vals := [1] },
                { names := [cGreen], ty := none, hasVals := false, exprTy := none, vals := [2] }]],
    locals := [[{ names := [['t', 'm', 'p']], ty := some cColor, hasVals := true, exprTy := none, vals := [7] }]] }

example : grammarOK localExample = true ∧ WF localExample = true ∧ valuesT (tables localExample) = [1, 2] ∧
    compiles false localExample.T localExample.decl (tables localExample) = true := by decide

def cWait : Name := ['W', 'a', 'i', 't']
def cLater : Name := ['L', 'a', 't', 'e', 'r']
def cDuration : Name := ['t', 'i', 'm', 'e', '.', 'D', 'u', 'r', 'a', 't', 'i', 'o', 'n']

/-- `const ( Red Color = iota + 1; Wait time.Duration = 5; Later; X (Color) = 7 )`: `Later` repeats
    the time.Duration spec and is not collected; `X`, spelled with parentheses, is a Color and is -/
def nonIdentExample : Input :=
  { T := cColor, kind := ⟨true, 64⟩,
    blocks := [[{ names := [cRed], ty := some cColor, hasVals := true, exprTy := none, vals := [1] },
                { names := [cWait], ty := some cDuration, hasVals := true, exprTy := none, vals := [5] },
                { names := [cLater], ty := none, hasVals := false, exprTy := none, vals := [5] },
                { names := [['X']], ty := some cColor, hasVals := true, exprTy := none, vals := [7] }]] }

/-- a spec with a qualified type resets what is remembered: the empty spec after it is not taken for a T -/
theorem C04_nonident_type_fixed :
    grammarOK nonIdentExample = true ∧ WF nonIdentExample = true ∧ valuesT (tables nonIdentExample) = [1, 7] ∧
    specValues nonIdentExample.decl = [1, 7] ∧ isValid nonIdentExample.T (tables nonIdentExample) 7 = true := by decide

/-! ### non-vacuity: a concrete declaration in WF using carry-down, a placeholder, a reset by an
untyped constant, two blocks and a prefix that is trimmed -/

def wfExample : Input :=
  { T := cColor, kind := ⟨false, 8⟩,
    blocks := [[{ names := [cRed, ['_']], ty := some cColor, hasVals := true, exprTy := none, vals := [5, 6] },
                { names := [cGreen, ['B']], ty := none, hasVals := false, exprTy := none, vals := [7, 8] },
                { names := [['k']], ty := none, hasVals := true, exprTy := none, vals := [9] },
                { names := [['m']], ty := none, hasVals := false, exprTy := none, vals := [9] }],
               [{ names := [['Z']], ty := some cColor, hasVals := true, exprTy := none, vals := [0] }]] }

example : WF wfExample = true ∧
    valuesT (tables wfExample) = [0, 5, 7, 8] ∧
    stringsT wfExample.T (tables wfExample) = [['Z'], ['R', 'e', 'd'], ['G', 'r', 'e', 'e', 'n'], ['B']] ∧
    stringOf wfExample.kind wfExample.T (tables wfExample) 7 = .name ['G', 'r', 'e', 'e', 'n'] ∧
    stringOf wfExample.kind wfExample.T (tables wfExample) 6 = .dec 6 ∧
    guardOK wfExample.kind (tables wfExample) (fun n => if n = cRed then some 6 else none) = false := by decide

/-! ### non-vacuity: guard lines at the boundary of int8 / uint8, and a doubled prefix -/

example : guardLine ⟨true, 8⟩ (-128) (some 127) = .overflows ∧ guardLine ⟨false, 8⟩ 5 (some 0) = .overflows ∧
    guardLine ⟨true, 8⟩ 3 (some (-5)) = .negative ∧ guardLine ⟨true, 8⟩ 1 (some 3) = .bounds ∧
    guardLine ⟨true, 8⟩ (-128) (some (-128)) = .none ∧ guardLine ⟨false, 64⟩ 18446744073709551615 (some 18446744073709551615) = .none ∧
    guardLine ⟨true, 8⟩ 1 none = .undefined ∧ guardLine ⟨false, 64⟩ 2 (some 18446744073709551615) = .overflows ∧
    guardLine ⟨false, 64⟩ 2 (some 9223372036854775809) = .bounds := by decide

example : trim cColor (cColor ++ cRed) = cRed ∧ trim cColor ['c', 'o', 'l', 'o', 'r', 'R'] = ['c', 'o', 'l', 'o', 'r', 'R'] ∧
    trim ['O', 'p'] ['O', 'p', 'e', 'n'] = ['e', 'n'] := by decide

end ShootVerif.Enum
