import ShootVerif.Proofs.MapperCtor
import ShootVerif.Proofs.MapperPairs
import ShootVerif.Proofs.MapperCtorClosed
import ShootVerif.Proofs.MapperNameSpec
import ShootVerif.Props.C05
/-!
C15 — mapping through accessors/constructors equals plain field mapping.

Model: `newView` (what `shoot new -getset` gives the mapper: constructor parameters recovered from
the keyed literal of the C02 model — nested literals of embedded accessor-mode structs included —,
getters, setters as pseudo-fields, promoted ones too), `ctorMatch` (makeCtorMatch
with zero-value synthesis), then the ordinary pair loop started from the write-set the constructor
left. Spec: `candsTo`/`candsFrom` on the exported twin (`twinName`, `readable`, `writable`).
-/
namespace ShootVerif.Mapper
open ShootVerif.Transfer

/-- headline: the constructor call has one argument per parameter, in parameter order, and each
    argument is either the zero literal of its type (`rd = none`) or the value of a readable
    (non-setter) field of the other side whose name matches the parameter's field, assigned when the
    types are identical, converted when convertible (not string<->fixed int), or passed through a
    mapper method of exactly those types. Both directions; all inputs. The source constructor (FromX) is
    matched like the fields are: through the tag map, with the parameter's field in the source role. -/
theorem C15_ctor_args (inp : Input) :
    (∀ args, (plan inp).destCtor = some args →
      args.map (·.p) = sideParams inp.dest inp.destNew ∧
      ∀ a ∈ args, a.rd = none ∨ ∃ f, a.rd = some f ∧ f ∈ (plan inp).srcFields ∧ f.isSet = false ∧
        inp.nm f a.p = true ∧ justifiedArg inp.conv (indexed inp.fns) f a) ∧
    (∀ args, (plan inp).srcCtor = some args →
      args.map (·.p) = sideParams inp.src inp.srcNew ∧
      ∀ a ∈ args, a.rd = none ∨ ∃ f, a.rd = some f ∧ f ∈ (plan inp).destFields ∧ f.isSet = false ∧
        inp.nm a.p f = true ∧ justifiedArg inp.conv (indexed inp.fns) f a) := by
  constructor
  · intro args h
    have := ctorMatch_args inp.conv inp.fns inp.nm (sideFields inp.src inp.srcNew) (sideParams inp.dest inp.destNew) inp.manualW
      (ctorMatch inp.conv inp.fns inp.nm (sideFields inp.src inp.srcNew) (sideParams inp.dest inp.destNew) inp.manualW).1 args
      (by rw [← h]; rfl)
    refine ⟨this.1, fun a ha => ?_⟩
    rcases this.2 a ha with h0 | ⟨f, h1, h2, _, h4, h5, h6, _⟩
    · exact Or.inl h0
    · exact Or.inr ⟨f, h1, h2, h4, h5, h6⟩
  · intro args h
    have := ctorMatch_args inp.conv inp.fns (fun f p => inp.nm p f) (sideFields inp.dest inp.destNew)
      (sideParams inp.src inp.srcNew) inp.readKeys
      (ctorMatch inp.conv inp.fns (fun f p => inp.nm p f) (sideFields inp.dest inp.destNew) (sideParams inp.src inp.srcNew) inp.readKeys).1 args
      (by rw [← h]; rfl)
    refine ⟨this.1, fun a ha => ?_⟩
    rcases this.2 a ha with h0 | ⟨f, h1, h2, _, h4, h5, h6, _⟩
    · exact Or.inl h0
    · exact Or.inr ⟨f, h1, h2, h4, h5, h6⟩

/-- headline: no field is written twice — a setter (or exported field) is the target of at most one
    statement, and of none when the constructor call already carries its value. Hypotheses: the two
    field lists have no duplicates (`wfNewSide`: distinct accessor names).
    "At least once" is `C15_set_exactly_once` below. -/
theorem C15_set_once (inp : Input) (h1 : (plan inp).srcFields.Nodup) (h2 : (plan inp).destFields.Nodup) :
    ((plan inp).toStmts.map (·.wr.name)).Nodup ∧ ((plan inp).fromStmts.map (·.wr.name)).Nodup ∧
    (∀ args, (plan inp).destCtor = some args → ∀ a ∈ args, a.rd ≠ none →
      ∀ c ∈ (plan inp).toStmts, c.wr.name ≠ a.p.name) ∧
    (∀ args, (plan inp).srcCtor = some args → ∀ a ∈ args, a.rd ≠ none →
      ∀ c ∈ (plan inp).fromStmts, c.wr.name ≠ a.p.name) := by
  have hinv := planFields_inv (conv := inp.conv) (ps := pairs inp.nm (plan inp).srcFields (plan inp).destFields) inp.fns
    (ctorMatch inp.conv inp.fns inp.nm (sideFields inp.src inp.srcNew) (sideParams inp.dest inp.destNew) inp.manualW).1
    (ctorMatch inp.conv inp.fns (fun f p => inp.nm p f) (sideFields inp.dest inp.destNew) (sideParams inp.src inp.srcNew) inp.readKeys).1
  have hst : (plan inp).st = planFields inp.conv inp.fns (pairs inp.nm (plan inp).srcFields (plan inp).destFields)
      { wD := (ctorMatch inp.conv inp.fns inp.nm (sideFields inp.src inp.srcNew) (sideParams inp.dest inp.destNew) inp.manualW).1,
        wS := (ctorMatch inp.conv inp.fns (fun f p => inp.nm p f) (sideFields inp.dest inp.destNew) (sideParams inp.src inp.srcNew) inp.readKeys).1 } := rfl
  rw [← hst] at hinv
  refine ⟨stmts_nodup _ _ h1 hinv.toNodup, stmts_nodup _ _ h2 hinv.fromNodup, ?_, ?_⟩
  · intro args h a ha hrd c hc e
    have := ctorMatch_args inp.conv inp.fns inp.nm (sideFields inp.src inp.srcNew) (sideParams inp.dest inp.destNew) inp.manualW
      _ args (by rw [← h]; rfl)
    rcases this.2 a ha with h0 | ⟨f, _, _, _, _, _, _, h7⟩
    · exact hrd h0
    · exact (hinv.toIn c (stmts_sub hc).1).2.1 (e ▸ h7)
  · intro args h a ha hrd c hc e
    have := ctorMatch_args inp.conv inp.fns (fun f p => inp.nm p f) (sideFields inp.dest inp.destNew)
      (sideParams inp.src inp.srcNew) inp.readKeys _ args (by rw [← h]; rfl)
    rcases this.2 a ha with h0 | ⟨f, _, _, _, _, _, _, h7⟩
    · exact hrd h0
    · exact (hinv.fromIn c (stmts_sub hc).1).2.1 (e ▸ h7)

/-- headline: WHICH value every constructor argument carries — `makeCtorMatch` in closed form, both directions, all inputs
    whose constructor parameters have distinct names. The constructor is used iff some parameter finds a value; its
    arguments are, in parameter order, `ctorArgOf p`: the zero literal when a manual hook owns `p`, else the FIRST field of
    the other side (in field-list order) that is readable (not a setter pseudo-field), name-matches `p` and whose type admits
    `ctorStrat` (mapper method of exactly the types, else assignment, else a conversion other than string<->fixed-width
    integer), with that strategy; the zero literal when there is none. (`C15_ctor_args` is the soundness half.) -/
theorem C15_ctor_closed (inp : Input)
    (hD : ((sideParams inp.dest inp.destNew).map (·.name)).Nodup) (hS : ((sideParams inp.src inp.srcNew).map (·.name)).Nodup) :
    (plan inp).destCtor =
      (if (sideParams inp.dest inp.destNew).any
            (fun p => (ctorArgOf inp.conv inp.fns inp.nm (plan inp).srcFields inp.manualW p).rd.isSome) then
        some ((sideParams inp.dest inp.destNew).map (ctorArgOf inp.conv inp.fns inp.nm (plan inp).srcFields inp.manualW))
       else none) ∧
    (plan inp).srcCtor =
      (if (sideParams inp.src inp.srcNew).any
            (fun p => (ctorArgOf inp.conv inp.fns (fun f p => inp.nm p f) (plan inp).destFields inp.readKeys p).rd.isSome) then
        some ((sideParams inp.src inp.srcNew).map
          (ctorArgOf inp.conv inp.fns (fun f p => inp.nm p f) (plan inp).destFields inp.readKeys))
       else none) :=
  ⟨ctorMatch_closed inp.conv inp.fns inp.nm _ _ inp.manualW (sideParams_isGet _ _) hD,
   ctorMatch_closed inp.conv inp.fns (fun f p => inp.nm p f) _ _ inp.readKeys (sideParams_isGet _ _) hS⟩

/-- refinement to C05, constructor part: the strategy of a constructor argument IS C05's decision `pairStrat` (the
    function `C05_strategy` identifies with the property's priority list) for every pair of types on which that decision
    is not a recursive ToX / FromX call; where it is, the constructor deviates — exactly finding region F_ctorNoSub -/
theorem C15_ctor_follows_C05 (inp : Input) (rdPkg wrPkg : Pkg) (a b : Ty)
    (h : ∀ s, pairStrat inp.conv (indexed inp.fns) rdPkg wrPkg a b = some s → isSubStrat s = false) :
    ctorStrat inp.conv (indexed inp.fns) a b = pairStrat inp.conv (indexed inp.fns) rdPkg wrPkg a b :=
  ctorStrat_pairStrat inp.conv (indexed inp.fns) rdPkg wrPkg a b h

theorem uniqueClaimable_prop (inp : Input) (h : uniqueClaimable inp = true) :
    UniqueClaimable (pairs inp.nm (plan inp).srcFields (plan inp).destFields) := by
  simp only [uniqueClaimable, Bool.and_eq_true, List.all_eq_true, Bool.or_eq_true, Bool.not_eq_true', beq_eq_false_iff_ne,
    beq_iff_eq] at h
  constructor
  · intro p hp q hq e hg1 hg2
    rcases h.1 p hp q hq with ((h1 | h1) | h1) | h1
    · exact absurd e h1
    · rw [hg1] at h1; cases h1
    · rw [hg2] at h1; cases h1
    · exact h1
  · intro p hp q hq e hg1 hg2
    rcases h.2 p hp q hq with ((h1 | h1) | h1) | h1
    · exact absurd e h1
    · rw [hg1] at h1; cases h1
    · rw [hg2] at h1; cases h1
    · exact h1

theorem plan_st_eq (inp : Input) :
    (plan inp).st = planFields inp.conv inp.fns (pairs inp.nm (plan inp).srcFields (plan inp).destFields)
      { wD := (ctorMatch inp.conv inp.fns inp.nm (sideFields inp.src inp.srcNew) (sideParams inp.dest inp.destNew) inp.manualW).1,
        wS := (ctorMatch inp.conv inp.fns (fun f p => inp.nm p f) (sideFields inp.dest inp.destNew) (sideParams inp.src inp.srcNew) inp.readKeys).1 } := rfl

/-- refinement to C05, decision part: in accessor mode (constructor parameters taken first, getters and
    setters as pseudo-fields) every emitted field statement is made for a name-matched pair and applies
    exactly C05's decision function `pairStrat` to the types of the field it reads and the field it
    writes — the function `C05_strategy` identifies with the property's priority list. Holds for every
    input in which each field has at most one claimable partner (`uniqueClaimable`; plain C05 pairs with
    unique matching are a special case). Together with `C15_refines_partial` (accessor names match like
    the exported twin), `C15_set_exactly_once` (the statement exists) and `C15_ctor_args` (what the
    constructor carries) this is the refinement; where the constructor deviates from C05 is exactly
    F_ctorNoSub. No statement reads a setter pseudo-field. -/
theorem C15_refines (inp : Input) (hu : uniqueClaimable inp = true) :
    (∀ c ∈ (plan inp).toStmts, c.rd ∈ (plan inp).srcFields ∧ c.wr ∈ (plan inp).destFields ∧ inp.nm c.rd c.wr = true ∧
      pairStrat inp.conv (indexed inp.fns) .src .dest c.rd.ty c.wr.ty = some c.strat ∧ c.rd.isSet = false) ∧
    (∀ c ∈ (plan inp).fromStmts, c.wr ∈ (plan inp).srcFields ∧ c.rd ∈ (plan inp).destFields ∧ inp.nm c.wr c.rd = true ∧
      pairStrat inp.conv (indexed inp.fns) .dest .src c.rd.ty c.wr.ty = some c.strat ∧ c.rd.isSet = false) := by
  have hU := uniqueClaimable_prop inp hu
  have hs := claim_strat inp.conv inp.fns _ hU
    (ctorMatch inp.conv inp.fns inp.nm (sideFields inp.src inp.srcNew) (sideParams inp.dest inp.destNew) inp.manualW).1
    (ctorMatch inp.conv inp.fns (fun f p => inp.nm p f) (sideFields inp.dest inp.destNew) (sideParams inp.src inp.srcNew) inp.readKeys).1
  rw [← plan_st_eq inp] at hs
  constructor
  · intro c hc
    have := hs.1 c (stmts_sub hc).1
    have hm := (mem_pairs _ _ _ _ _).mp this.1
    exact ⟨hm.1, hm.2.1, hm.2.2, this.2⟩
  · intro c hc
    have := hs.2 c (stmts_sub hc).1
    have hm := (mem_pairs _ _ _ _ _).mp this.1
    exact ⟨hm.1, hm.2.1, hm.2.2, this.2⟩

/-- headline, "exactly once": a settable (non-getter) field that the constructor did not take and that
    has a name-matched readable (non-setter) partner with an applicable strategy is the target of exactly one
    statement of ToX; the mirror image for FromX. (`C15_set_once` is the "at most once" half for all inputs.) -/
theorem C15_set_exactly_once (inp : Input) (hu : uniqueClaimable inp = true)
    (h1 : (plan inp).srcFields.Nodup) (h2 : (plan inp).destFields.Nodup) :
    (∀ f1 f2, f1 ∈ (plan inp).srcFields → f2 ∈ (plan inp).destFields → inp.nm f1 f2 = true → f2.isGet = false →
      f1.isSet = false → f2.name ∉ (ctorMatch inp.conv inp.fns inp.nm (sideFields inp.src inp.srcNew) (sideParams inp.dest inp.destNew) inp.manualW).1 →
      (pairStrat inp.conv (indexed inp.fns) .src .dest f1.ty f2.ty).isSome = true →
      ∃ c ∈ (plan inp).toStmts, c.wr.name = f2.name ∧ ∀ c' ∈ (plan inp).toStmts, c'.wr.name = f2.name → c' = c) ∧
    (∀ f1 f2, f1 ∈ (plan inp).srcFields → f2 ∈ (plan inp).destFields → inp.nm f1 f2 = true → f1.isGet = false →
      f2.isSet = false → f1.name ∉ (ctorMatch inp.conv inp.fns (fun f p => inp.nm p f) (sideFields inp.dest inp.destNew) (sideParams inp.src inp.srcNew) inp.readKeys).1 →
      (pairStrat inp.conv (indexed inp.fns) .dest .src f2.ty f1.ty).isSome = true →
      ∃ c ∈ (plan inp).fromStmts, c.wr.name = f1.name ∧ ∀ c' ∈ (plan inp).fromStmts, c'.wr.name = f1.name → c' = c) := by
  have hU := uniqueClaimable_prop inp hu
  have hinv := planFields_inv (conv := inp.conv) (ps := pairs inp.nm (plan inp).srcFields (plan inp).destFields) inp.fns
    (ctorMatch inp.conv inp.fns inp.nm (sideFields inp.src inp.srcNew) (sideParams inp.dest inp.destNew) inp.manualW).1
    (ctorMatch inp.conv inp.fns (fun f p => inp.nm p f) (sideFields inp.dest inp.destNew) (sideParams inp.src inp.srcNew) inp.readKeys).1
  rw [← plan_st_eq inp] at hinv
  have once := C15_set_once inp h1 h2
  constructor
  · intro f1 f2 hf1 hf2 hnm hg hr hw hs
    obtain ⟨c, hc, hn⟩ := claim_exists_to inp.conv inp.fns _ hU _ _ (f1, f2) ((mem_pairs _ _ _ _ _).mpr ⟨hf1, hf2, hnm⟩) hg hr hw hs
    rw [← plan_st_eq inp] at hc
    have hstmt : c ∈ (plan inp).toStmts :=
      (claims_are_stmts_to hinv hU _ (fun p hp => ((mem_pairs _ _ _ _ _).mp hp).1) c).mpr hc
    refine ⟨c, hstmt, hn, ?_⟩
    intro c' hc' hn'
    exact inj_of_map_nodup (fun x : Claim => x.wr.name) _ once.1 hc' hstmt (by simp [hn, hn'])
  · intro f1 f2 hf1 hf2 hnm hg hr hw hs
    obtain ⟨c, hc, hn⟩ := claim_exists_from inp.conv inp.fns _ hU _ _ (f1, f2) ((mem_pairs _ _ _ _ _).mpr ⟨hf1, hf2, hnm⟩) hg hr hw hs
    rw [← plan_st_eq inp] at hc
    have hstmt : c ∈ (plan inp).fromStmts :=
      (claims_are_stmts_from hinv hU _ (fun p hp => ((mem_pairs _ _ _ _ _).mp hp).2.1) c).mpr hc
    refine ⟨c, hstmt, hn, ?_⟩
    intro c' hc' hn'
    exact inj_of_map_nodup (fun x : Claim => x.wr.name) _ once.2.1 hc' hstmt (by simp [hn, hn'])

/-- a field the manual READ hook assigns is the hook's alone (seeded change C15-4): neither the source constructor call
    of FromX carries a value for it nor does any statement of FromX write it — whether the hook names an exported
    field or, on a shoot-new receiver, an unexported one (`r.x = …`, keyed `SetX`: the name the constructor parameter
    and the setter share). The mirror image for the write hook and ToX. All inputs. -/
theorem C15_hook_owned (inp : Input) :
    (∀ n ∈ inp.manualR, ∀ key, key = (if inp.srcNew && !isExported n then "Set" ++ pascalS n else n) →
      (∀ args, (plan inp).srcCtor = some args → ∀ a ∈ args, a.p.name = key → a.rd = none) ∧
      (∀ c ∈ (plan inp).fromStmts, c.wr.name ≠ key)) ∧
    (∀ n ∈ inp.manualW,
      (∀ args, (plan inp).destCtor = some args → ∀ a ∈ args, a.p.name = n → a.rd = none) ∧
      (∀ c ∈ (plan inp).toStmts, c.wr.name ≠ n)) := by
  have hinv := planFields_inv (conv := inp.conv) (ps := pairs inp.nm (plan inp).srcFields (plan inp).destFields) inp.fns
    (ctorMatch inp.conv inp.fns inp.nm (sideFields inp.src inp.srcNew) (sideParams inp.dest inp.destNew) inp.manualW).1
    (ctorMatch inp.conv inp.fns (fun f p => inp.nm p f) (sideFields inp.dest inp.destNew) (sideParams inp.src inp.srcNew) inp.readKeys).1
  rw [← plan_st_eq inp] at hinv
  have hS := ctorMatch_ws inp.conv inp.fns (fun f p => inp.nm p f) (sideFields inp.dest inp.destNew) (sideParams inp.src inp.srcNew) inp.readKeys
  have hD := ctorMatch_ws inp.conv inp.fns inp.nm (sideFields inp.src inp.srcNew) (sideParams inp.dest inp.destNew) inp.manualW
  constructor
  · intro n hn key hkey
    have hk : key ∈ inp.readKeys := by
      rw [hkey]; exact List.mem_map.mpr ⟨n, hn, rfl⟩
    constructor
    · intro args hargs a ha he
      exact hS.2 args hargs a ha (he ▸ hk)
    · intro c hc he
      exact (hinv.fromIn c (stmts_sub hc).1).2.1 (he ▸ hS.1 key hk)
  · intro n hn
    constructor
    · intro args hargs a ha he
      exact hD.2 args hargs a ha (he ▸ hn)
    · intro c hc he
      exact (hinv.toIn c (stmts_sub hc).1).2.1 (he ▸ hD.1 n hn)

/-- the constructor is used only when at least one argument carries a value -/
theorem C15_ctor_used (conv : List (Ty × Ty)) (fl : List Fn) (nm : Field → Field → Bool) (fields params : List Field)
    (ws ws' : List String) (args : List CtorArg) (h : ctorMatch conv fl nm fields params ws = (ws', some args)) :
    (ctorFold conv fl nm fields params ws).2 ≠ [] := by
  unfold ctorMatch at h
  split at h
  · cases h
  · split at h
    · cases h
    · rename_i hne
      intro e
      simp [e] at hne

/-- refinement to C05, name-matching part: a getter pseudo-field matches exactly what the exported
    twin of its field matches, and a setter pseudo-field is matched exactly like the twin. (The full
    refinement `obs (plan accessorInput) = obs (plan exportedTwin)` is not proved; it is what the
    correspondence run asserts leaf by leaf through `spec15`.) -/
theorem C15_refines_partial (tm : List (String × String)) (ic : Bool) (n : String) (ty : Ty) (o : Field)
    (hn : pascalS n ≠ "") (ho : o.isGet = false) (hos : o.isSet = false) :
    canNameMatch tm ic { name := pascalS n, path := [pascalS n], ty := ty, backing := pascalS n, isGet := true } o =
      canNameMatch tm ic { name := pascalS n, path := [pascalS n], ty := ty } o ∧
    canNameMatch tm ic o { name := "Set" ++ pascalS n, path := ["Set" ++ pascalS n], ty := ty, backing := pascalS n, isSet := true } =
      canNameMatch tm ic o { name := pascalS n, path := [pascalS n], ty := ty } := by
  simp [canNameMatch, Field.matchingName, hn, ho, hos]

/-- the constructor matching of one type sees nothing of the type processed before it (seeded change C15-14 adds an index of
    mapper methods that is filled in `parseMapper` - which returns early for a type without a mapper - and never reset): over
    the table of `mapper.Generator` fields and their assignment sites REGENERATED from /repo on every run, every field is either
    one of the four that legitimately outlive a type or has a plain assignment in a function `MakeData` runs for EVERY type
    (`mappingFuncList` in `loadMorePkgs`, the parameter lists in `MakeData`, …). A new field - of whatever type, a map or slice
    in particular - that is only written in `parseMapper` is in neither list: the theorem no longer compiles. (Same tables
    and lists as `C05_state_per_type`; the model's `plan` is a function of ONE src/dest pair and of the mapper methods of that
    type, which is sound exactly under this statement.) -/
theorem C15_ctor_state_per_type :
    ((Facts.genStateFields.filter (fun f => f.1 = "internal/mapper" && f.2.1 = "Generator")).all
        (fun f => persistentFields.contains f.2.2.1 || (perTypeResets.map (·.1)).contains f.2.2.1) = true) ∧
    (perTypeResets.all (fun r => Facts.genStateWrites.contains ("internal/mapper", r.2, r.1, "set")) = true) ∧
    (("mappingFuncList", "loadMorePkgs") ∈ perTypeResets ∧ ("srcCtorParams", "MakeData") ∈ perTypeResets ∧
      ("destCtorParams", "MakeData") ∈ perTypeResets) :=
  ⟨C05_state_per_type.1, C05_state_per_type.2.1, by decide⟩

/-- refinement to C05, name-matching part for CONSTRUCTOR PARAMETERS: a parameter is matched under the raw name of its
    unexported field (`backing`), and that gives exactly what the exported twin `Pascal(name)` of the field gives — with and
    without -i, behind any tag map (ASCII names without underscores: Pascal-casing changes neither the camel form nor the
    case-folded form of a name) -/
theorem C15_param_names (tm : List (String × String)) (ic : Bool) (n : String) (ty : Ty) (path : List String) (o : Field)
    (hn : n ≠ "") (ha : Ascii n.toList) (hu : NoUS n.toList) (hos : o.isSet = false) :
    canNameMatch tm ic o { name := "Set" ++ pascalS n, path := path, ty := ty, backing := n } =
      canNameMatch tm ic o { name := pascalS n, path := [pascalS n], ty := ty } :=
  param_names tm ic n ty path o hn ha hu hos

/-! ### non-vacuity -/

/-- src {ID int; Name string; Wide int}  dest new {id int; name string (get); wide int64 (new-less)} -/
def exWF15 : Input :=
  { src := .field { name := "ID", ty := .basic "int" } (.field { name := "Name", ty := .basic "string" }
            (.field { name := "Wide", ty := .basic "int" } .nil)),
    dest := .field { name := "id", ty := .basic "int" } (.field { name := "name", ty := .basic "string", get := true }
            (.field { name := "wide", ty := .basic "int64" } .nil)),
    destNew := true,
    conv := [(.basic "int", .basic "int64"), (.basic "int64", .basic "int")] }

example : region15 exWF15 = "WF" ∧ obs15 exWF15 = spec15 exWF15 := by decide
example : ((plan exWF15).destCtor.getD []).map (fun a => (a.p.name, a.rd.map (·.name), a.strat)) =
    [("SetId", some "ID", .assign), ("SetName", some "Name", .assign), ("SetWide", some "Wide", .conv)] := by decide
example : (plan exWF15).srcFields.Nodup ∧ (plan exWF15).destFields.Nodup := by decide
example : ((sideParams exWF15.dest exWF15.destNew).map (·.name)).Nodup ∧ ((sideParams exWF15.src exWF15.srcNew).map (·.name)).Nodup := by decide
example : (sideParams exWF15.dest true).map (fun p => ((ctorArgOf exWF15.conv exWF15.fns exWF15.nm (plan exWF15).srcFields [] p).rd.map (·.name))) =
    [some "ID", some "Name", some "Wide"] := by decide
example : uniqueClaimable exWF15 = true ∧ uniquePairs exWF15 = false := by decide

/-! ### repaired: inputs of former finding regions now satisfy the property (the model follows the repaired code) -/

/-- a set-only field on the reading side is not read at all (was F_setOnlyRead: `s.Wo = d_.SetWo`, a method value) -/
def wSetOnly : Input :=
  { src := .field { name := "Wo", ty := .basic "int" } .nil,
    dest := .field { name := "wo", ty := .basic "int", set := true } .nil, destNew := true }
theorem C15_setOnlyRead_fixed :
    region15 wSetOnly = "WF" ∧ obs15 wSetOnly = spec15 wSetOnly ∧ (plan wSetOnly).fromStmts = [] ∧
    ((plan wSetOnly).destCtor.getD []).map (fun a => a.rd.map (·.name)) = [some "Wo"] := by decide

/-- the constructor argument goes through the mapper method int→int64, as the field statement would (was F_ctorPriority: converted) -/
def wCtorPriority : Input :=
  { src := .field { name := "Wide", ty := .basic "int" } .nil,
    dest := .field { name := "wide", ty := .basic "int64" } .nil, destNew := true, way := .toOnly,
    fns := [{ name := "Fn0", param := .basic "int", result := .basic "int64" }], mapperPtr := some false,
    conv := [(.basic "int", .basic "int64"), (.basic "int64", .basic "int")] }
theorem C15_ctorPriority_fixed :
    region15 wCtorPriority = "WF" ∧ obs15 wCtorPriority = spec15 wCtorPriority ∧
    ((plan wCtorPriority).destCtor.getD []).map (·.strat) = [.func 0] := by decide

/-- tagged get-only field of the source type: the source constructor is matched through the tag map (was F_ctorTag) -/
def wCtorTag : Input :=
  { src := .field { name := "caption", ty := .basic "string", tag := .name "Title", get := true } .nil,
    dest := .field { name := "Title", ty := .basic "string" } .nil, srcNew := true, way := .fromOnly }
theorem C15_ctorTag_fixed :
    region15 wCtorTag = "WF" ∧ obs15 wCtorTag = spec15 wCtorTag ∧
    ((plan wCtorTag).srcCtor.getD []).map (fun a => a.rd.map (·.name)) = [some "Title"] := by decide

/-- `*Core` embedded by pointer with a get-only field: the parameter of `Core: &Core{name: name}` is recovered (was F_ctorPtrEmbed) -/
def wCtorPtrEmbed : Input :=
  { src := .field { name := "Name", ty := .basic "string" } (.field { name := "ID", ty := .basic "int" } .nil),
    dest := .embed "Core" true (.field { name := "name", ty := .basic "string", get := true } .nil)
              (.field { name := "id", ty := .basic "int" } .nil),
    destNew := true, way := .toOnly }
theorem C15_ctorPtrEmbed_fixed :
    region15 wCtorPtrEmbed = "WF" ∧ obs15 wCtorPtrEmbed = spec15 wCtorPtrEmbed ∧
    ((plan wCtorPtrEmbed).destCtor.getD []).map (fun a => a.rd.map (·.name)) = [some "Name", some "ID"] := by decide

/-- a constructor parameter of type `any` without a partner gets the literal `nil` (was F_ctorZeroAny: the run aborted) -/
def wCtorZeroAny : Input :=
  { src := .field { name := "ID", ty := .basic "int" } .nil,
    dest := .field { name := "id", ty := .basic "int" } (.field { name := "extra", ty := .basic "any" } .nil),
    destNew := true, way := .toOnly, conv := [(.basic "int", .basic "any")] }
theorem C15_ctorZeroAny_fixed : region15 wCtorZeroAny = "WF" ∧ obs15 wCtorZeroAny = spec15 wCtorZeroAny := by decide

/-! ### finding regions -/

/-- `map:"-"` on a field of an accessor-mode type -/
def wSkipTagNew : Input :=
  { src := .field { name := "Age", ty := .basic "int" } .nil,
    dest := .field { name := "age", ty := .basic "int", tag := .skip } .nil, destNew := true, way := .toOnly }
theorem C15_F_skipTagNew_witness : region15 wSkipTagNew = "F_skipTagNew" ∧ obs15 wSkipTagNew ≠ spec15 wSkipTagNew := by decide

/-- get-only field that needs a recursive mapping -/
def wCtorNoSub : Input :=
  { src := .field { name := "Addr", ty := .named .src "Sub" (.struct "N:int") } .nil,
    dest := .field { name := "addr", ty := .named .dest "Sub" (.struct "N:int,Other:string"), get := true } .nil,
    destNew := true, way := .toOnly }
theorem C15_F_ctorNoSub_witness : region15 wCtorNoSub = "F_ctorNoSub" ∧ obs15 wCtorNoSub ≠ spec15 wCtorNoSub := by decide

/-- `*Core` embedded by pointer, its field settable, the constructor unused (its only parameter, the `new`-marked
    `other`, finds no value): `new(D)` leaves `Core` nil and `d_.SetName(..)` goes through it -/
def wPtrEmbedSetter : Input :=
  { src := .field { name := "Name", ty := .basic "string" } .nil,
    dest := .embed "Core" true (.field { name := "name", ty := .basic "string" } .nil)
              (.field { name := "other", ty := .basic "int", newMark := true } .nil),
    destNew := true, way := .toOnly }
theorem C15_F_ptrEmbedSetter_witness :
    region15 wPtrEmbedSetter = "F_ptrEmbedSetter" ∧ obs15 wPtrEmbedSetter ≠ spec15 wPtrEmbedSetter := by decide

/-- FromX builds the shoot-new source with `NewOrder(d_.Zone)`: `Zone` is promoted through the embedded pointer `*Base` of the
    destination, the argument is evaluated without the `if d_.Base != nil` guard a statement gets — nil `Base` panics -/
def wCtorArgNil : Input :=
  { src := .field { name := "zone", ty := .basic "int" } .nil,
    dest := .embed "Base" true (.field { name := "Zone", ty := .basic "int" } .nil) .nil,
    srcNew := true, way := .fromOnly }
theorem C15_F_ctorArgNil_witness :
    region15 wCtorArgNil = "F_ctorArgNil" ∧
    obsPart wCtorArgNil [] ["Base"] [] ["1"] = [("fromN:1", "panic")] ∧
    specPart wCtorArgNil [] ["Base"] [] ["1"] = [("fromN:1", "zone=zero")] := by decide

end ShootVerif.Mapper
