import ShootVerif.Spec.Mapper
namespace ShootVerif.Mapper
theorem C15_placeholder : True := trivial
end ShootVerif.Mapper
