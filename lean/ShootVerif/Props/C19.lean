import ShootVerif.Proofs.Runtime
import ShootVerif.Proofs.RuntimeHeap
/-!
C19 — runtime: NewRest/Register/RestConf and the middleware chain order.

All theorems are for every option sequence (any length, any repetitions, any values), every list of
middlewares, every history of `Register`/`NewRest` calls. Model: Model/Runtime.lean; property:
Spec/Runtime.lean.
-/
namespace ShootVerif.Runtime

/-- headline: `NewWith(opts…)` yields the RestConf holding exactly the supplied options, the last
    option of each kind winning, unset fields zero, middlewares = all `Use` arguments in order -/
theorem C19_last_wins (opts : List Opt) : newWith opts = specConf opts := by
  have h1 := applyAll_baseURL zeroConf opts
  have h2 := applyAll_timeout zeroConf opts
  have h3 := applyAll_logging zeroConf opts
  have h4 := applyAll_headers zeroConf opts
  have h5 := applyAll_mws zeroConf opts
  rw [newWith_eq, specConf]
  cases hc : applyAll zeroConf opts with
  | mk b tm lg hd ms =>
    rw [hc] at h1 h2 h3 h4 h5
    simp only [zeroConf, List.nil_append] at h1 h2 h3 h4 h5
    simp [h1, h2, h3, h4, h5]

/-- the getters after an option sequence followed by one more option: that option's field holds
    its value, every other field is unchanged (precedence stated step by step) -/
theorem C19_last_option (opts : List Opt) (o : Opt) :
    newWith (opts ++ [o]) = o.apply (newWith opts) := by
  simp [newWith, List.foldl_append]

/-- the middleware list is the `Use` arguments in the order given, whatever else is interleaved -/
theorem C19_mws_order (opts : List Opt) : (newWith opts).mws = opts.filterMap Opt.use? := by
  rw [C19_last_wins]; rfl

/-- headline: one round trip through `BuildMiddleware()` enters logging first (if enabled), then the
    middlewares in the order they were added, then the base transport, and leaves in exactly the
    reverse order; for every configuration -/
theorem C19_chain (c : RestConf) :
    enterOrder (buildMiddleware c) = specChain c ∧
    exitOrder (buildMiddleware c) = (specChain c).reverse := by
  unfold buildMiddleware specChain
  by_cases hl : c.enableLogging
  · simp only [hl, ↓reduceIte]
    constructor
    · have := trace_wrapAll_enter c.mws.reverse .base
      simp only [enterOrder, trace, List.filterMap_cons, List.filterMap_append] at this ⊢
      simp [this]
    · have := trace_wrapAll_exit c.mws.reverse .base
      simp only [exitOrder, trace, List.filterMap_cons, List.filterMap_append] at this ⊢
      simp [this]
  · simp only [hl, Bool.false_eq_true, ↓reduceIte]
    constructor
    · rw [trace_wrapAll_enter]; simp [enterOrder, trace]
    · rw [trace_wrapAll_exit]; simp [exitOrder, trace]

/-- the complete event trace of a round trip is the specified one -/
theorem C19_trace (c : RestConf) : trace (buildMiddleware c) = specTrace c := by
  unfold buildMiddleware specTrace specChain
  by_cases hl : c.enableLogging
  · simp only [hl, ↓reduceIte, trace, trace_wrapAll]
    simp [List.map_reverse, Function.comp_def]
  · simp only [hl, Bool.false_eq_true, ↓reduceIte, trace_wrapAll, trace]
    simp [List.map_reverse, Function.comp_def]

/-- logging is transparent: for every configuration and every answer of the base transport, the chain
    with logging returns what the chain without logging returns, except that a response accompanied
    by an error is replaced by nil (LoggingMiddleware's `return nil, err`) -/
theorem C19_logging_transparent (c : RestConf) (o : RTOut) :
    roundTrip (buildMiddleware { c with enableLogging := true }) o
      = dropRespOnErr (roundTrip (buildMiddleware { c with enableLogging := false }) o) := by
  simp only [buildMiddleware, ↓reduceIte, Bool.false_eq_true, roundTrip, roundTrip_wrapAll]
  cases o <;> rfl

/-- the whole chain as a function of the base transport's answer -/
theorem C19_roundTrip (c : RestConf) (o : RTOut) :
    roundTrip (buildMiddleware c) o = specRoundTrip c o := by
  unfold buildMiddleware specRoundTrip
  by_cases hl : c.enableLogging
  · simp only [hl, ↓reduceIte, roundTrip, roundTrip_wrapAll]; cases o <;> rfl
  · simp only [hl, Bool.false_eq_true, ↓reduceIte, roundTrip_wrapAll, roundTrip]

/-- every history of With/setter/Use/BuildMiddleware/copy steps on one RestConf: each build yields the
    chain of the configuration at that moment — i.e. building has no memory and no effect -/
theorem C19_build_history (h : List COp) : runConf zeroConf h = specBuildsFrom [] h := by
  have gen : ∀ (h : List COp) (before : List Opt), runConf (newWith before) h = specBuildsFrom before h := by
    intro h
    induction h with
    | nil => intro before; rfl
    | cons op r ih =>
      intro before
      cases op with
      | apply o => simp only [runConf, specBuildsFrom]; rw [← C19_last_option]; exact ih _
      | build => simp only [runConf, specBuildsFrom, ih before]; rw [C19_last_wins before, C19_trace]
      | copy => simp only [runConf, specBuildsFrom]; exact ih before
  exact gen h []

/-- headline: for every history of `Register`/`NewRest` calls started on the empty registry, each
    under `recover()`: `Register T` panics iff T was registered earlier in the history; `NewRest T`
    panics iff it was not, and otherwise returns the constructor of T's (only successful)
    registration applied to the RestConf of the supplied options -/
theorem C19_registry (h : List Op) : runHist [] h = specHist h :=
  runHist_eq_spec h [] [] (fun _ => rfl)

/-- corollaries in the words of the property -/
theorem C19_register_twice (t : TypeId) (k1 k2 : CtorId) (mid : List Op) :
    (runHist [] ([.reg t k1] ++ mid ++ [.reg t k2])).getLast? = some (.panic (.duplicate t)) := by
  rw [C19_registry, specHist]
  have : ∀ (before a : List Op) (o : Op), (specHistFrom before (a ++ [o])).getLast? = some (specOutcome (before ++ a) o) := by
    intro before a
    induction a generalizing before with
    | nil => intro o; simp [specHistFrom]
    | cons x xs ih =>
      intro o
      have hne : specHistFrom (before ++ [x]) (xs ++ [o]) ≠ [] := by
        cases xs <;> simp [specHistFrom]
      simp only [List.cons_append, specHistFrom, List.getLast?_cons_of_ne_nil hne]
      rw [ih]; simp
  rw [this]
  simp [specOutcome, firstReg]

theorem C19_unregistered (t : TypeId) (opts : List Opt) :
    runHist [] [.new t opts] = [.panic (.unregistered t)] := by
  rw [C19_registry]; rfl

/-- the generated client's transport is the chain of the configuration NewRest built -/
theorem C19_init_transport (opts : List Opt) :
    trace (initClient (newWith opts)).transport = specTrace (specConf opts) := by
  rw [C19_last_wins]; exact C19_trace _

/-- the timeout clause as the code stands: the client's timeout equals the configured one ONLY for
    a configured timeout of zero (every int64 duration) — see F_timeout -/
theorem C19_timeout (c : RestConf) (h : inInt64 c.timeout) :
    (initClient c).timeout = specClientTimeout c ↔ c.timeout = 0 :=
  wrap64_mul_second_eq_iff c.timeout h

/-- finding witness: `Timeout(3 * time.Second)` gives a client timeout of 3·10¹⁸ ns (about 95 years) -/
theorem C19_F_timeout_witness :
    F_timeout (newWith [.timeout 3000000000]) = true ∧
    (initClient (newWith [.timeout 3000000000])).timeout ≠ specClientTimeout (newWith [.timeout 3000000000]) := by
  decide

/-- … and `Timeout(10 * time.Second)` wraps around int64 to a negative client timeout -/
theorem C19_F_timeout_overflow_witness :
    (initClient (newWith [.timeout 10000000000])).timeout = -8446744073709551616 := by decide

/-! non-vacuity -/
example : runConf zeroConf [.apply (.use 1), .build, .apply (.enableLogging true), .build, .copy,
      .apply (.enableLogging false), .apply (.use 2), .build] =
    [[.enter (.mw 1), .enter .base, .exit .base, .exit (.mw 1)],
     [.enter .log, .enter (.mw 1), .enter .base, .exit .base, .exit (.mw 1), .exit .log],
     [.enter (.mw 1), .enter (.mw 2), .enter .base, .exit .base, .exit (.mw 2), .exit (.mw 1)]] := by decide
example : inInt64 (newWith [.timeout 5, .baseURL "u", .timeout 0]).timeout ∧
    (initClient (newWith [.timeout 5, .baseURL "u", .timeout 0])).timeout = 0 := by
  refine ⟨⟨by decide, by decide⟩, by decide⟩
example : newWith [.use 1, .enableLogging true, .use 2, .baseURL "a", .enableLogging false, .baseURL "b", .use 1] =
    ⟨"b", 0, false, none, [1, 2, 1]⟩ := by decide
example : trace (buildMiddleware ⟨"", 0, true, none, [1, 2]⟩) =
    [.enter .log, .enter (.mw 1), .enter (.mw 2), .enter .base, .exit .base, .exit (.mw 2), .exit (.mw 1), .exit .log] := by decide
example : runHist [] [.new 0 [], .reg 0 7, .reg 0 8, .new 0 [.baseURL "x"], .new 1 []] =
    [.panic (.unregistered 0), .registered, .panic (.duplicate 0), .made 7 ⟨"x", 0, false, none, []⟩, .panic (.unregistered 1)] := by decide

/-! ## composition: two batches of options / two lists of middlewares are one -/

/-- chains compose: the chain of the middleware list `a ++ b` is the chain of `a` wrapped around the chain of `b`
    (`Use(a₁)…Use(aₙ)` followed by `Use(b₁)…Use(bₘ)` is one list) -/
theorem C19_chain_compose (a b : List Mw) (t : RT) :
    wrapAll (a ++ b).reverse t = wrapAll a.reverse (wrapAll b.reverse t) := by
  simp [wrapAll, List.reverse_append, List.foldl_append]

/-- options given in two batches are the options given at once: every field holds the last value of the whole sequence and
    the middleware list is the first batch's followed by the second's -/
theorem C19_options_compose (o1 o2 : List Opt) :
    newWith (o1 ++ o2) = applyAll (newWith o1) o2 ∧
    (newWith (o1 ++ o2)).mws = (newWith o1).mws ++ (newWith o2).mws := by
  constructor
  · simp [newWith, applyAll, List.foldl_append]
  · rw [newWith_eq, newWith_eq, newWith_eq, applyAll_mws, applyAll_mws, applyAll_mws]
    simp [zeroConf, List.filterMap_append]

/-- one round trip through the composed chain enters all of `a`, then all of `b`, then what is inside, and leaves in
    reverse -/
theorem C19_trace_compose (a b : List Mw) (t : RT) :
    trace (wrapAll (a ++ b).reverse t) =
      a.map (fun m => Event.enter (.mw m)) ++ trace (wrapAll b.reverse t) ++ a.reverse.map (fun m => Event.exit (.mw m)) := by
  rw [C19_chain_compose, trace_wrapAll]
  simp

/-! ## clients keep the RestConf they were built from

`NewRest` hands the constructor its RestConf BY VALUE and the generated client keeps it (`conf: &conf`). The middleware
list inside is a Go slice, so "a RestConf holding exactly the supplied options" is a statement about memory: the model
(`runClients`) keeps every `_middlewares` backing array on a heap — `Use` appends in place while the array has room —
and the property side (`specClients`) is stated over plain values. -/

/-- headline: for EVERY history of `NewRest[T](opts…)` calls (any types, any options), later `With(o)` calls by the
    owner of a client on the RestConf it keeps, and later looks at a client (getters, `BuildMiddleware()` built then):
    every RestConf that was handed out holds exactly the options it was built from and those its owner applied since —
    no later `NewRest`, and no option applied to another client's RestConf, changes it -/
theorem C19_clients_independent (ops : List KOp) :
    runClients Heap.init [] ops = specClients [] ops :=
  runClients_eq_spec ops Heap.init [] heapInv_init

/-- … in particular: a client made first, ANY number of further `NewRest` calls (any types, any options) after it, and only
    then a look at the RestConf the first client keeps (and the chain `BuildMiddleware()` makes of it at that moment):
    it holds exactly the first call's options -/
theorem C19_late_build (opts : List Opt) (between : List (TypeId × List Opt)) :
    runClients Heap.init [] (.new 0 opts :: between.map (fun x => KOp.new x.1 x.2) ++ [.again 0])
      = .made 0 (specConf opts) :: between.map (fun x => KOut.made x.1 (specConf x.2)) ++ [.seen (specConf opts)] := by
  rw [runClients_eq_spec _ Heap.init [] heapInv_init]
  simp only [absr, List.map_nil, List.cons_append, specClients, List.nil_append]
  rw [late_aux]

/-- why memory matters: the model's `append` DOES write in place, so two RestConf values whose slices share an array
    with room (a by-value copy, or a recycled scratch value) are not independent — appending through one overwrites
    what the other reads. The invariant `HeapInv` (fresh arrays per `NewWith`) is what rules this out. -/
theorem C19_shared_array_not_independent :
    let h : Heap := [[], [1, 0]]
    let s : Nat × Nat := (1, 1)            -- both headers: array 1, length 1, capacity 2
    let (h1, s1) := appendSl h s 7        -- owner A appends 7
    let (h2, _) := appendSl h1 s 8        -- owner B appends 8 through ITS copy of the header
    readSl h1 s1 = [1, 7] ∧ readSl h2 s1 = [1, 8] := by decide

example : runClients Heap.init [] [.new 0 [.use 1, .use 2, .use 3], .new 1 [.use 4, .enableLogging true], .again 0,
      .withOpt 0 (.use 5), .again 0, .again 1] =
    [.made 0 ⟨"", 0, false, none, [1, 2, 3]⟩, .made 1 ⟨"", 0, true, none, [4]⟩, .seen ⟨"", 0, false, none, [1, 2, 3]⟩,
     .done, .seen ⟨"", 0, false, none, [1, 2, 3, 5]⟩, .seen ⟨"", 0, true, none, [4]⟩] := by decide

end ShootVerif.Runtime
