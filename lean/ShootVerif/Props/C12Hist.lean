import ShootVerif.Proofs.EnumHist
/-!
C12 as a statement about running programs: shoot.ParseEnum / TryParseEnum / IsEnum and the decoders agree
with the generated ValueMap() and Values() "for every string and integer" — at every point of every
program, whatever was parsed, probed or decoded before (declared or not), with -bit and without.
-/
namespace ShootVerif.Enum

/-- the whole result list of EVERY history over a WF declaration (with -bit or without) is the list of the
    property's answers: the helpers and decoders never disturb a later call, their own or another's -/
theorem C12_history (i : Input) (h : WF i = true) (bit : Bool) (hist : List Call)
    (hok : ∀ c ∈ hist, c.ok = true) :
    (run (prog i bit) (fresh i) hist).2 = hist.map (specCall i.T i.kind bit i.decl) := by
  rw [run_results]
  apply List.map_congr_left
  intro c hc
  exact step_fresh_spec i h bit c (hok c hc)

/-- the runtime helpers are read-only on ANY tables (not only freshly initialized ones), for every
    argument: an undeclared value or name leaves the tables exactly as a declared one does -/
theorem C12_helpers_readonly (p : Prog) (st : Tables) (s : Name) (t v : Int) (kV : Kind) :
    (step p st (.parseEnum s)).1 = st ∧ (step p st (.tryParse s t)).1 = st ∧ (step p st (.isEnum kV v)).1 = st :=
  ⟨rfl, rfl, rfl⟩

/-! ### non-vacuity -/

example : WF truncWitness = true ∧
    (∀ c ∈ [Call.isEnum ⟨true, 64⟩ 300, .isEnum ⟨false, 8⟩ 44, .parseEnum ['A'], .unmarshalText ['a'] 7, .values], c.ok = true) ∧
    (run (prog truncWitness false) (fresh truncWitness)
      [.isEnum ⟨true, 64⟩ 300, .isEnum ⟨false, 8⟩ 44, .parseEnum ['A'], .unmarshalText ['a'] 7, .values]).2 =
      [.bool false, .bool true, .parsed (some 44), .decoded (false, 7), .ints [44]] := by decide

end ShootVerif.Enum
