import ShootVerif.Gen.Facts
import ShootVerif.Gen.EnumFacts
/-!
C04 — proof-side anchors on tables REGENERATED from /repo's current source on every run:
`Gen/Facts.lean` (harness/cmd/facts: the fields of every Generator and the functions assigning them) and
`Gen/EnumFacts.lean` (tools/vlib/enumgen.py: every selector on the receiver in every method of
enumer.Generator).  They justify the SHAPE of the model of internal/enumer (`gen k T blocks`, no flags, no
state between types, every file of the package); the correspondence run ties its content.
Kept apart from Props/C04.lean so that C12 / C14, which build on the C04 theorems, do not depend on the
regenerated tables.
-/
namespace ShootVerif.Enum

/-! ### the model generates one type at a time: nothing computed for one type can reach the next

The model (`gen`, `tables`) is a function of the type, its kind and the package alone.  That is sound
for a run that generates several types (`-type=A,B`, `-file=`, `-type=*`) as long as the state of
`enumer.Generator` that outlives a type is never written while a type is processed.  Checked on the
table of `Generator` fields and of the functions assigning them, REGENERATED from /repo on every run
(`Gen/Facts.lean`): the fields are exactly these four; `flags` is written by ParseFlags only, `pkg` by
addPackage only (both before the first type), and `data` is created afresh by MakeData for every
type and otherwise only filled in by the make* helpers. -/
theorem C04_state_per_type :
    ((Facts.genStateFields.filter (fun f => f.1 = "internal/enumer" && f.2.1 = "Generator")).map (·.2.2.1)
        = ["GeneratorBase", "flags", "data", "pkg"]) ∧
    (Facts.genStateWrites.filter (fun w => w.1 = "internal/enumer")).all (fun w =>
        (w.2.2.1 != "flags" || w.2.1 == "ParseFlags") && (w.2.2.1 != "pkg" || w.2.1 == "addPackage") &&
        (w.2.2.1 != "data" || w.2.1 == "MakeData" || w.2.2.2 == "update")) = true ∧
    Facts.genStateWrites.contains ("internal/enumer", "MakeData", "data", "set") = true := by
  decide

/-! ### the tables are a function of the type name and the package alone

The model's `gen` takes the kind, the type name and the const blocks of ALL files of the package —
no flag, no selection mode.  On the source: makeStr touches nothing of the generator but the package's
file list, the per-type template data and the template-function registry (so neither `-bit` … `-gorm`,
nor `-file` / `-type` can change what is collected, how it is sorted or trimmed); addPackage, which
builds that file list, touches nothing but it (no TestFile / -file filter, no flag); the five flags
are read only by ParseFlags and by the one-line helpers that copy them into the template data; and
TestFile is consulted by ListTypes alone. -/
theorem C04_makeStr_inputs :
    (EnumFacts.recvSelectors.filter (·.1 = "makeStr")).all (fun e =>
        [("pkg", "files"), ("data", "NameList"), ("data", "Enums"), ("data", "Max"), ("RegisterTransfer", "()")].contains e.2) = true ∧
    (EnumFacts.recvSelectors.filter (·.1 = "addPackage")).all (fun e => [("pkg", ""), ("pkg", "files")].contains e.2) = true ∧
    (EnumFacts.recvSelectors.filter (·.2.1 = "flags")).all (fun e =>
        ["ParseFlags", "makeBitwize", "makeJson", "makeText", "makeSQL"].contains e.1) = true ∧
    (EnumFacts.recvSelectors.filter (·.2.1 = "TestFile")).all (·.1 = "ListTypes") = true ∧
    EnumFacts.recvSelectors.contains ("makeStr", "pkg", "files") = true ∧
    EnumFacts.recvSelectors.contains ("MakeData", "makeStr", "()") = true := by
  decide

/-- addPackage turns EVERY syntax file of the package into a scanned file: its body has no branch at all
    (no `if`, `switch`, `continue`, `goto`), so no file can be left out — neither by name (`-file`), nor
    by a generated-code header, nor by anything else -/
theorem C04_every_file_scanned :
    (EnumFacts.controlCounts.filter (·.1 = "addPackage")).all (·.2.2 = 0) = true ∧
    (EnumFacts.controlCounts.filter (·.1 = "addPackage")).length = 4 := by
  decide

end ShootVerif.Enum
