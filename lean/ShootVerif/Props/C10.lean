import ShootVerif.Proofs.RestCall
import ShootVerif.Proofs.RestAst
import ShootVerif.Props.C20
/-!
C10 — rest: status codes and bodies map to results and errors as documented.

Every theorem is for EVERY status `s : Int` (no bound), every body class, every result shape and
every fault; the model is `RestCall.call` (the emitted switch + decode tail), the property is
`RestCall.spec` (Spec/RestCall.lean).
-/
namespace ShootVerif.RestCall

/-- headline: on the whole well-formed region (all faults; every status below 600) what the emitted
    code returns, seen through the property's observables, is what the property prescribes -/
theorem C10_model_eq_spec (shape : Shape) (t : Transport) (h : WF t = true) :
    obs (call shape t) = spec shape t := by
  cases t with
  | fault f => cases shape <;> simp [call, obs, spec, nilResult, Res.cls, quoteObs]
  | respErr s => simp [WF] at h
  | resp s b =>
    simp only [WF, decide_eq_true_eq] at h
    rcases status_bands s with h2 | h4 | h5 | hn
    · rw [call_2xx shape s b h2]
      have e2 : is2xx s = true := by simp [is2xx]; omega
      cases shape <;> cases b <;>
        simp [tail, decodeOf, zeroResult, obs, spec, specErr, specResult, e2, Res.cls, quoteObs]
    · rw [call_err shape s b _ (switchErr_client s h4.1 h4.2)]
      have e2 : is2xx s = false := by simp [is2xx]; omega
      have e4 : 400 ≤ s ∧ s ≤ 499 := by omega
      cases shape <;> simp [obs, spec, specErr, specResult, e2, e4, nilResult, Res.cls, quoteObs]
    · rw [call_err shape s b _ (switchErr_server s h5)]
      have e2 : is2xx s = false := by simp [is2xx]; omega
      have e4 : ¬ (400 ≤ s ∧ s ≤ 499) := by omega
      have e5 : 500 ≤ s ∧ s ≤ 599 := by omega
      cases shape <;> simp [obs, spec, specErr, specResult, e2, e4, e5, nilResult, Res.cls, quoteObs]
    · rw [call_err shape s b _ (switchErr_notSupported s hn)]
      have e2 : is2xx s = false := by simp [is2xx]; omega
      have e4 : ¬ (400 ≤ s ∧ s ≤ 499) := by omega
      have e5 : ¬ (500 ≤ s ∧ s ≤ 599) := by omega
      cases shape <;> simp [obs, spec, specErr, specResult, e2, e4, e5, nilResult, Res.cls, quoteObs]

/-- the error is nil exactly for a 2xx response whose body is decodable (or is not decoded at all) -/
theorem C10_nil_iff (shape : Shape) (s : Int) (b : Body) :
    (call shape (.resp s b)).err = none ↔
      (200 ≤ s ∧ s < 300) ∧ (shape = .none ∨ b = .empty ∨ b = .valid) := by
  by_cases h2 : 200 ≤ s ∧ s < 300
  · rw [call_2xx shape s b h2]
    cases shape <;> cases b <;> simp [tail, decodeOf, h2]
  · have hne : switchErr s ≠ none := fun h => h2 ((switchErr_none_iff s).1 h)
    cases hs : switchErr s with
    | none => exact absurd hs hne
    | some e => rw [call_err shape s b e hs]; simp [h2]

/-- 4xx ⇒ client error, ≥ 500 ⇒ server error, both quoting status and body; below 200 or 3xx ⇒
    not-supported error (quoting the status); for every status, body and shape -/
theorem C10_kinds (shape : Shape) (s : Int) (b : Body) :
    ((400 ≤ s ∧ s ≤ 499) → (call shape (.resp s b)).err = some ⟨.client, true, true⟩) ∧
    (500 ≤ s → (call shape (.resp s b)).err = some ⟨.server, true, true⟩) ∧
    ((s < 200 ∨ (300 ≤ s ∧ s ≤ 399)) → (call shape (.resp s b)).err = some ⟨.notSupported, true, false⟩) := by
  refine ⟨fun h => ?_, fun h => ?_, fun h => ?_⟩
  · rw [call_err shape s b _ (switchErr_client s h.1 (by omega))]
  · rw [call_err shape s b _ (switchErr_server s h)]
  · rw [call_err shape s b _ (switchErr_notSupported s (by omega))]

/-- the switch never yields a decode or transport error, and a decode error only comes with 2xx -/
theorem C10_decode_only_2xx (shape : Shape) (s : Int) (b : Body) (e : Err)
    (h : (call shape (.resp s b)).err = some e) (hk : e.kind = .decode) :
    (200 ≤ s ∧ s < 300) ∧ shape ≠ .none ∧ (b = .malformed ∨ b = .wrongtype ∨ b = .broken) := by
  by_cases h2 : 200 ≤ s ∧ s < 300
  · rw [call_2xx shape s b h2] at h
    cases shape <;> cases b <;> simp_all [tail, decodeOf]
  · rcases status_bands s with h' | h4 | h5 | hn
    · exact absurd h' h2
    · rw [call_err shape s b _ (switchErr_client s h4.1 h4.2)] at h
      simp at h; subst h; simp at hk
    · rw [call_err shape s b _ (switchErr_server s h5)] at h
      simp at h; subst h; simp at hk
    · rw [call_err shape s b _ (switchErr_notSupported s hn)] at h
      simp at h; subst h; simp at hk

/-- whenever a response was received it is returned, with or without an error;
    after a transport fault there is none -/
theorem C10_resp_returned (shape : Shape) (t : Transport) :
    (call shape t).resp = match t with | .resp _ _ => true | .fault _ => false | .respErr _ => false := by
  cases t with
  | fault f => rfl
  | respErr s => rfl
  | resp s b =>
    cases hs : switchErr s with
    | some e => simp [call, hs]
    | none =>
      simp only [call, hs]
      cases shape <;> cases b <;> simp [tail, decodeOf]

/-- on every error path the result is the `nil` literal (or there is no result) — never a decoded
    or partially decoded value -/
theorem C10_result_nil_on_error (shape : Shape) (t : Transport) (h : (call shape t).err ≠ none) :
    (call shape t).result = nilResult shape := by
  cases t with
  | fault f => rfl
  | respErr s => rfl
  | resp s b =>
    cases hs : switchErr s with
    | some e => simp [call, hs]
    | none =>
      simp only [call, hs] at h ⊢
      cases shape <;> cases b <;> simp_all [tail, decodeOf, nilResult]

/-- a transport failure is passed on unchanged: no response, nil result, the transport's own error -/
theorem C10_transport_unchanged (shape : Shape) (f : Fault) :
    call shape (.fault f) = ⟨nilResult shape, false, some ⟨.transport f, false, false⟩⟩ := rfl

/-- 2xx with an empty body: nil error and the zero value of the declared result -/
theorem C10_empty_zero (shape : Shape) (s : Int) (h : 200 ≤ s ∧ s < 300) :
    call shape (.resp s .empty) = ⟨zeroResult shape, true, none⟩ := by
  rw [call_2xx shape s .empty h]
  cases shape <;> simp [tail, decodeOf, zeroResult]

/-- 2xx with valid JSON of the result type: the decoded value, the response, nil error -/
theorem C10_valid_decoded (shape : Shape) (s : Int) (h : 200 ≤ s ∧ s < 300) (hs : shape ≠ .none) :
    call shape (.resp s .valid) = ⟨.decoded, true, none⟩ := by
  rw [call_2xx shape s .valid h]
  cases shape <;> simp_all [tail, decodeOf]

/-- 2xx whose body is lost in transit: never a clean (nil-error) outcome for a method with a result —
    the read error comes back next to the response, the result is nil -/
theorem C10_broken_not_clean (shape : Shape) (s : Int) (h : 200 ≤ s ∧ s < 300) (hs : shape ≠ .none) :
    call shape (.resp s .broken) = ⟨.nil, true, some ⟨.decode, false, false⟩⟩ ∧
    obs (call shape (.resp s .broken)) = spec shape (.resp s .broken) := by
  refine ⟨?_, C10_model_eq_spec shape (.resp s .broken) (by simp [WF]; omega)⟩
  rw [call_2xx shape s .broken h]
  cases shape <;> simp_all [tail, decodeOf]

/-- finding witness: a redirect refused by the client's CheckRedirect policy — `client.Do` returns the
    302 response AND the policy's error; the generated method returns the error but a nil response -/
theorem C10_F_respWithError_witness :
    F_respWithError (.respErr 302) = true ∧ WF (.respErr 302) = false ∧
    (obs (call .ptr (.respErr 302))).resp = false ∧ (spec .ptr (.respErr 302)).resp = true ∧
    (obs (call .ptr (.respErr 302))).err = (spec .ptr (.respErr 302)).err := by decide

/-- with RetryMiddleware(n) in the client's chain: when attempt k ≤ n is the first whose answer is a
    response below 500, that response (status, body) is what the generated code classifies — e.g. a
    503 followed by a 200 with valid JSON yields the decoded value and a nil error -/
theorem C10_retry_first_acceptable (sts : List (Retry.Outcome × Body)) (n k : Nat) (s : Nat) (b : Body)
    (hk : k ≤ n) (hget : sts[k]? = some (.resp s, b)) (hs : s < 500)
    (hmin : ∀ j, j < k → ((sts.map (fun x : Retry.Outcome × Body => x.1)).getD j Retry.Outcome.err).acceptable = false) :
    effective sts n = .resp (s : Int) b := by
  have hk' : k < sts.length := by
    cases h : sts[k]? with
    | none => rw [h] at hget; cases hget
    | some x => exact (List.getElem?_eq_some_iff.1 h).1
  have hsk : (sts.map (fun x : Retry.Outcome × Body => x.1)).getD k Retry.Outcome.err = .resp s := by
    simp [List.getD, List.getElem?_map, hget]
  have hacc : ((sts.map (fun x : Retry.Outcome × Body => x.1)).getD k Retry.Outcome.err).acceptable = true := by
    rw [hsk]; simp [Retry.Outcome.acceptable, hs]
  have := (Retry.C20_stop_first (fun i => (sts.map (fun x : Retry.Outcome × Body => x.1)).getD i Retry.Outcome.err) n k hk hacc hmin).2
  unfold effective
  simp only [this]
  have hg : sts.getD k (.err, .empty) = (.resp s, b) := by simp [List.getD, hget]
  rw [hg]

/-- … and through such a chain the generated code still meets the property on what it is handed -/
theorem C10_retry_chain (shape : Shape) (sts : List (Retry.Outcome × Body)) (n : Nat)
    (h : WF (effective sts n) = true) :
    obs (call shape (effective sts n)) = spec shape (effective sts n) := C10_model_eq_spec shape _ h

example : effective [(.resp 503, .malformed), (.err, .empty), (.resp 200, .valid)] 2 = .resp 200 .valid ∧
    call .slice (effective [(.resp 503, .malformed), (.err, .empty), (.resp 200, .valid)] 2) = ⟨.decoded, true, none⟩ := by
  decide

/-- outside the property's range (recorded, region `Out`): the code's first arm is `>= 500`, so a
    status of 600 or more is reported as a *server* error, not as "not supported" -/
theorem C10_Out_witness : WF (.resp 600 .empty) = false ∧
    obs (call .ptr (.resp 600 .empty)) ≠ spec .ptr (.resp 600 .empty) := by decide

/-! non-vacuity: concrete inputs for the hypotheses used above -/
example : WF (.resp 404 .valid) = true ∧ obs (call .slice (.resp 404 .valid)) = ⟨some .client, true, true, .zeroish⟩ := by decide
example : WF (.resp 299 .empty) = true ∧ call .ptr (.resp 299 .empty) = ⟨.zero, true, none⟩ := by decide
example : WF (.resp (-1) .empty) = true ∧ (call .map (.resp (-1) .empty)).err = some ⟨.notSupported, true, false⟩ := by decide
example : (call .ptr (.resp 200 .wrongtype)).err ≠ none ∧ (call .ptr (.resp 200 .wrongtype)).result = .nil := by decide
example : call .none (.resp 200 .malformed) = ⟨.absent, true, none⟩ := by decide

/-! ## which result lists become which shape (cook.go:136-171, `Rest.resultShape`) -/

/-- the classification of a method's result list is total and lands in the shapes the theorems above quantify over:
    a list is accepted exactly when it is `(*http.Response, error)` — no result — or `(R, *http.Response, error)` with an
    unnamed `R` that is `*T` (pointer shape), `[]T` (slice) or `map[K]V` (map); every other list (one result, four or
    more, a named first result, any other `R`, the last two not `*http.Response`/`error`) is a Fatal -/
theorem C10_result_shapes (rs : List Rest.ResGroup) (sh : Shape) :
    Rest.resultShape rs = some sh ↔
      (∃ r1 r2, rs = [r1, r2] ∧ r1.ty = .httpResp ∧ r2.ty = .error ∧ sh = .none) ∨
      (∃ r0 r1 r2, rs = [r0, r1, r2] ∧ r1.ty = .httpResp ∧ r2.ty = .error ∧ r0.nnames = 0 ∧
        ((r0.ty = .star ∨ r0.ty = .httpResp) ∧ sh = .ptr ∨ r0.ty = .slice ∧ sh = .slice ∨ r0.ty = .map ∧ sh = .map)) := by
  constructor
  · intro h
    rcases Rest.resultShape_length rs sh h with hl | hl
    · match rs, hl with
      | [r1, r2], _ => exact Or.inl ⟨r1, r2, rfl, (Rest.resultShape_two r1 r2 sh).1 h⟩
    · match rs, hl with
      | [r0, r1, r2], _ => exact Or.inr ⟨r0, r1, r2, rfl, (Rest.resultShape_three r0 r1 r2 sh).1 h⟩
  · rintro (⟨r1, r2, rfl, h⟩ | ⟨r0, r1, r2, rfl, h⟩)
    · exact (Rest.resultShape_two r1 r2 sh).2 h
    · exact (Rest.resultShape_three r0 r1 r2 sh).2 h

example : Rest.resultShape [⟨0, .slice⟩, ⟨0, .httpResp⟩, ⟨0, .error⟩] = some .slice ∧
    Rest.resultShape [⟨1, .star⟩, ⟨1, .httpResp⟩, ⟨1, .error⟩] = none ∧
    Rest.resultShape [⟨2, .httpResp⟩, ⟨1, .error⟩] = some .none ∧
    Rest.resultShape [⟨0, .other⟩, ⟨0, .httpResp⟩, ⟨0, .error⟩] = none := by decide

end ShootVerif.RestCall
