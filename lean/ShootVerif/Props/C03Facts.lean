import ShootVerif.Proofs.NewFacts
/-!
C03 — proof-side anchors on the tables `flagGuards` / `flagReads` REGENERATED from /repo's current source on every run
(harness/cmd/facts/flagguards.go); see Proofs/NewFacts.lean. Kept apart from Props/C03.lean so that the theorems about the
hand-written model do not depend on the regenerated tables.
-/
namespace ShootVerif.NewFacts
open ShootVerif

/-- C03: accessor directives are read exactly under -getset — the field-level reader and the type-level reader are each
    called once, under the bare condition `g.flags.getset`; makeGetSet reads no other flag -/
theorem C03_getset_guard :
    (ctorCalls.filter (fun g => g.2.2.1 == "parseGetSet")) =
        [("internal/constructor", "extractTopFiels", "parseGetSet", ["g.flags.getset"])] ∧
    (ctorCalls.filter (fun g => g.2.2.1 == "parseGetterSetter")) =
        [("internal/constructor", "parseFields", "parseGetterSetter", ["g.flags.getset"])] ∧
    (ctorReads.filter (·.1 == "makeGetSet")).map (·.2) = ["getset"] := by
  decide

end ShootVerif.NewFacts
