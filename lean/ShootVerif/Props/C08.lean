import ShootVerif.Proofs.Merge
import ShootVerif.Proofs.GenState
import ShootVerif.Proofs.Repair
import ShootVerif.Gen.Facts
/-!
C08 — a type's output is independent of the other types in the same run.

  "What shoot generates for a type does not depend on which other types are processed in the same
   invocation: the single file produced for `-file=` or `-type=*` contains exactly the declarations,
   doc comments and imports of the files obtained by generating the same types one at a time in the
   same order, under one header.  The order of names in a `-type=A,B` list changes only which files
   are written first, never their content."

Three groups of theorems (all for arbitrary type lists, states, files – nothing is bounded):

* reset      – the per-type output of a generator step does not depend on the incoming long-lived state.
               Stated for every value of the `Leaks` parameter (`C08_reset`) and, since the `fix:` commits 2659527
               and 002876f made `codeToday = noLeaks`, at full strength for the code at HEAD (`C08_reset_today`,
               `C08_run`): every state, every type list.  The model of the code BEFORE those commits
               (`codeBeforeFix`) stays available; the lemmas about it live in Proofs/GenState.lean.
* loop       – `Generate` over a type list yields, type by type, what separate processes yield
               (`oneAtATime`), and a permuted list yields the permuted outputs.
* merge      – `MergeSources`: declarations, own doc comments (no layout premise since 102a5c2), imports (first occurrence, no duplicates),
               header and package of the first file.
* facts      – every field of every Generator struct in the CURRENT source is classified, and the
               classification agrees with where the field is written; every per-type field (all maps, slices, sets) is
               re-made by an UNCONDITIONAL statement on the path every type takes (`C08_collections_reset`).
-/
namespace ShootVerif.C08
open ShootVerif ShootVerif.Merge ShootVerif.GenState

/-! ## reset -/

/-- headline, parameterised by what the code carries: with no leaking field the output of `MakeData` for a
    type is the output a fresh generator gives – for EVERY state, reachable or not (`new`, `map`) -/
theorem C08_reset (lk : Leaks) (h : lk = noLeaks) (fl : NFlags) (files : Disk) :
    (∀ (st : NSt) (t : NType), (newStep lk fl files st t).2 = (newStep lk fl files {} t).2) ∧
    (∀ (st : MSt) (t : MType), (mapStep lk files st t).2 = (mapStep lk files {} t).2) := by
  subst h
  exact ⟨fun st t => by rw [newStep_noLeaks], fun st t => mapStep_noLeaks files st t⟩

/-- `enum` and `rest` keep nothing but `data`, which MakeData re-creates: independent of the state today -/
theorem C08_reset_simple (files : Disk) (s : Unit) (t : SType) :
    (simpleMachine.step files s t).2 = (simpleMachine.step files simpleMachine.init t).2 := rfl

/-- the code at HEAD: full statement, for every state (reachable or not), every type, `new` and `map` -/
theorem C08_reset_today (fl : NFlags) (files : Disk) :
    (∀ (st : NSt) (t : NType), (newStep codeToday fl files st t).2 = (newStep codeToday fl files {} t).2) ∧
    (∀ (st : MSt) (t : MType), (mapStep codeToday files st t).2 = (mapStep codeToday files {} t).2) :=
  C08_reset codeToday rfl fl files

/-- `map:"…"` tags, for EVERY value of the `mapTag` parameter (`srcTagMap` re-made per type, as at HEAD, or kept and filled
    further): the output of a type is the output of a fresh generator unless the carried map holds an entry under a key that one of
    the type's OWN source members (fields, accessor pseudo-fields, constructor parameters) is looked up under and that the type does
    not tag itself.  So a tag can only ever reach another type through a SHARED member name - which is what the generated
    packages are built around (tagged and untagged fields of one name in different types of a run) -/
theorem C08_tag_leak_relevance (lk : Leaks) (hc : lk.mapCtor = false) (ha : lk.mapAcc = false) (files : Disk) (st : MSt) (t : MType)
    (h : ∀ k ∈ srcTagKeys t, (tagTable t.tags).lookup k = none → st.tagMap.lookup k = none) :
    (mapStep lk files st t).2 = (mapStep lk files {} t).2 :=
  mapStep_tag_irrelevant lk hc ha files st t h

/-- the hypothesis holds for a type that shares no untagged member name with the carried entries (Label / Rank against a carried
    `Name ↦ Title`), also when the type re-tags the shared name itself; it fails for an untagged `Name` -/
example :
    let carried : MSt := { tagMap := [("Name", "Title")] }
    let ok (t : MType) : Bool := (srcTagKeys t).all (fun k => ((tagTable t.tags).lookup k).isSome || (carried.tagMap.lookup k).isNone)
    ok { name := "P", src := { fields := ["Label", "Rank"] }, dest := none } = true ∧
    ok { name := "Q", src := { fields := ["ID", "Name"] }, dest := none, tags := [("Name", "Caption")] } = true ∧
    ok { name := "R", src := { fields := ["ID", "Name"] }, dest := none } = false := by decide

/-! concrete inputs (the shapes that leaked before the fixes; now asserted in `WF`) -/

def wA : NType :=
  { name := "A", file := "t.shootnew.a.go", gs := [],
    tree := .field { name := "id", newMark := true } (.field { name := "name", ptype := "string" } .nil) }
def wB : NType :=
  { name := "B", file := "t.shootnew.b.go", gs := [],
    tree := .field { name := "x" } (.field { name := "y", ptype := "string" } .nil) }
def wMA : MType :=
  { name := "A", src := { fields := ["ID", "Name"] },
    dest := some { fields := [], shootNew := true, ctor := ["id", "name"], getters := ["Id", "Name"], setters := ["SetId", "SetName"] } }
def wMB : MType :=
  { name := "B", src := { fields := ["ID", "Name", "Note"] }, dest := some { fields := ["ID", "Name", "Note"] } }

/-- the `-opt` part of `new` (option functions, SetDefault) is a function of the type and the flags only: it reads
    neither the long-lived state nor the directory; likewise the json tag VALUES (`tagOf` in the model).
    The remaining parts of the `new` output are: constructor parameters (state: `hasNew`, reset), accessor interfaces
    and JSON getter/setter lists (directory look-ups: C07) – all covered above. -/
theorem C08_config_only (lk lk' : Leaks) (fl : NFlags) (files files' : Disk) (st st' : NSt) (t : NType) :
    (newStep lk fl files st t).2.map (fun o => (o.opts, o.defaults)) =
    (newStep lk' fl files' st' t).2.map (fun o => (o.opts, o.defaults)) := by
  simp only [newStep, newCore, Option.map_some]

/-! ## the loop -/

/-- combined run = one process per type, in order, each seeing the files the earlier ones wrote
    (sub-commands whose every output is fed back through the overlay: `new -getset`) -/
theorem C08_generate_separate {σ τ ω : Type} (m : Machine σ τ ω) (hind : StateIndep m)
    (hst : ∀ o, m.stale o = true) (disk : Disk) (ts : List τ) :
    generate m disk ts = oneAtATime m disk ts := by
  have := loop_eq_oneAtATime m hst disk ts { st := m.init, overlay := [], outs := [] }
    (runIndep_of_stateIndep m hind disk ts _)
  simpa [generate, effective_nil] using this

/-- combined run = every type generated on its own (sub-commands that feed nothing back:
    `enum`, `rest`, `map`, `new` without `-getset`) -/
theorem C08_generate_solo {σ τ ω : Type} (m : Machine σ τ ω) (hind : StateIndep m)
    (hst : ∀ o, m.stale o = false) (disk : Disk) (ts : List τ) :
    generate m disk ts = ts.filterMap (fun t => (solo m disk t).map (fun o => (t, o))) := by
  have := loop_eq_solo m hst disk ts { st := m.init, overlay := [], outs := [] } rfl
    (runIndep_of_stateIndep m hind disk ts _)
  simpa [generate] using this

/-- the code at HEAD, whole runs: `shoot new` over ANY type list produces what separate processes produce
    (with `-getset`: each process sees the files the earlier ones wrote; without: nothing is read back) -/
theorem C08_run (fl : NFlags) (disk : Disk) (ts : List NType) :
    (fl.getset = true → generate (newMachine codeToday fl) disk ts = oneAtATime (newMachine codeToday fl) disk ts) ∧
    (fl.getset = false → generate (newMachine codeToday fl) disk ts
        = ts.filterMap (fun t => (solo (newMachine codeToday fl) disk t).map (fun o => (t, o)))) := by
  have hind : StateIndep (newMachine codeToday fl) := fun files s t => by
    simp only [newMachine]; exact (C08_reset_today fl files).1 s t
  exact ⟨fun hg => C08_generate_separate _ hind (fun _ => by simp [newMachine, hg]) disk ts,
         fun hg => C08_generate_solo _ hind (fun _ => by simp [newMachine, hg]) disk ts⟩

/-- the code at HEAD, `map`: likewise for any list of type pairs -/
theorem C08_run_map (disk : Disk) (ts : List MType) :
    generate (mapMachine codeToday) disk ts
      = ts.filterMap (fun t => (solo (mapMachine codeToday) disk t).map (fun o => (t, o))) :=
  C08_generate_solo _ (fun files s t => (C08_reset_today {} files).2 s t) (fun _ => rfl) disk ts

/-- permuting the `-type` list permutes the outputs (and so the file map), nothing else.
    Partial with respect to DESIGN §5: proved for the sub-commands that feed nothing back; for
    `new -getset` the order matters by design when one listed type embeds another (overlay), see C07. -/
theorem C08_perm {σ τ ω : Type} (m : Machine σ τ ω) (hind : StateIndep m)
    (hst : ∀ o, m.stale o = false) (disk : Disk) (ts ts' : List τ) (hp : ts.Perm ts') :
    (generate m disk ts).Perm (generate m disk ts') := by
  rw [C08_generate_solo m hind hst, C08_generate_solo m hind hst]
  exact hp.filterMap _

/-- `map`, `enum`, `rest` at full generality: since every long-lived field is re-initialised by `MakeData`
    (`C08_reset_sites`, `C08_leaks_fixed` over the regenerated facts), the generator is a machine whose step computes
    an ARBITRARY function `plan` of the type (and the configuration) – embedded structs, `map:"…"` tags, mapper
    functions and manual methods included – and keeps nothing; then the combined run is `plan` applied type by type,
    and a permuted list permutes the outputs -/
theorem C08_run_pure {τ ω : Type} (plan : τ → Option ω) (disk : Disk) (ts ts' : List τ) (hp : ts'.Perm ts)
    (gfile : τ → ω → GFile) :
    let m : Machine Unit τ ω := { init := (), step := fun _ _ t => ((), plan t), stale := fun _ => false, gfile := gfile }
    generate m disk ts = ts.filterMap (fun t => (plan t).map (fun o => (t, o))) ∧
    (generate m disk ts').Perm (generate m disk ts) := by
  intro m
  have hind : StateIndep m := fun _ _ _ => rfl
  have h1 := C08_generate_solo m hind (fun _ => rfl) disk ts
  refine ⟨h1, ?_⟩
  exact C08_perm m hind (fun _ => rfl) disk ts' ts hp

/-- `new -getset` (every output is fed back): two arrangements of the same types in each of which every type comes
    after the listed types it embeds give every type the same output – the code at HEAD, no repair needed.
    Hypotheses: distinct names / output files, a hygienic directory (the file of a listed type declares only that
    type's interfaces, which are declared nowhere else), and no interface of an unlisted type embeds one of a listed
    type.  This is region `WF` for permuted lists; a list with an embedder first is F_embedderFirst. -/
theorem C08_perm_new (fl : NFlags) (hg : fl.getset = true) (ts : List NType) (d : Disk)
    (hw : WFL ts) (hH : Hyg ts d) (hC : Clo ts d) (hd : DepsFirst ts)
    (ts' : List NType) (hp : ts'.Perm ts) (hd' : DepsFirst ts') :
    ∃ F : NType → NOut,
      generate (newMachine codeToday fl) d ts = ts.map (fun t => (t, F t)) ∧
      generate (newMachine codeToday fl) d ts' = ts'.map (fun t => (t, F t)) := by
  refine ⟨fun t => (soloOut noLeaks fl (runDisk noLeaks fl d ts) t).getD default, ?_, ?_⟩
  · show generate (newMachine noLeaks fl) d ts = _
    rw [generate_eq_seqRun fl hg]
    exact seqRun_perm noLeaks fl hw ts d (fun _ h => h) hw.names hH hC hd ts (List.Perm.refl _) hd
  · show generate (newMachine noLeaks fl) d ts' = _
    rw [generate_eq_seqRun fl hg]
    exact seqRun_perm noLeaks fl hw ts d (fun _ h => h) hw.names hH hC hd ts' hp hd'

/-- NOT A PROPERTY OF THE CODE AT HEAD (`codeRepair = noRepair`): a statement about the PROPOSED repair
    notes/proposed/deps-first-and-shadow-aio.patch, which was not applied.  With `Repair.depsFirst` (Generate
    processes embedded listed types first) the order of the `-type` list does not matter at all: every arrangement gives every type the same output, in list order.
    `SizeConsistent` (inside `RunOK`) only says that the descriptions of the types are consistent with each other. -/
theorem C08_proposed_repair_perm (fl : NFlags) (hg : fl.getset = true) (rp : Repair) (hrp : rp.depsFirst = true)
    (ts : List NType) (d : Disk) (h : RunOK ts d) (ts' : List NType) (hp : ts'.Perm ts) :
    generateR rp (newMachine codeToday fl) .sep d ts = ts.map (fun t => (t, canonOut fl d ts t)) ∧
    generateR rp (newMachine codeToday fl) .sep d ts' = ts'.map (fun t => (t, canonOut fl d ts t)) ∧
    (generateR rp (newMachine codeToday fl) .sep d ts').Perm (generateR rp (newMachine codeToday fl) .sep d ts) := by
  have h1 := generateR_sep fl hg rp hrp ts d h ts (List.Perm.refl _)
  have h2 := generateR_sep fl hg rp hrp ts d h ts' hp
  refine ⟨h1, h2, ?_⟩
  show (generateR rp (newMachine noLeaks fl) .sep d ts').Perm (generateR rp (newMachine noLeaks fl) .sep d ts)
  rw [h1, h2]
  exact hp.map _

/-- instances: the machines of this model meet the hypotheses once nothing leaks -/
theorem C08_indep_instances (fl : NFlags) :
    StateIndep (newMachine noLeaks fl) ∧ StateIndep (mapMachine noLeaks) ∧ StateIndep simpleMachine :=
  ⟨fun files s t => by simp only [newMachine]; rw [newStep_noLeaks],
   fun files s t => mapStep_noLeaks files s t, fun _ _ _ => rfl⟩

/-! ## merge -/

/-- headline: the merged file has exactly the non-import declarations of the files, in order -/
theorem C08_merge_decls (f : File) (fs : List File) (o : Out) (h : merge (f :: fs) = .ok o) :
    o.items.map (·.text) = (f :: fs).flatMap (fun f => (f.decls.filter (fun d => !d.isImport)).map (·.text)) := by
  simp only [merge] at h
  split at h
  · cases h
  · cases h; exact fileLoop_texts (f :: fs)

/-- each declaration carries its own comments (its doc comment group and the comments inside it) and nothing
    else.  Since fix 102a5c2 no assumption on the layout of the generated sources is needed; the premise is
    the go/parser invariant that a doc comment ends before its declaration. -/
theorem C08_merge_docs (f : File) (fs : List File) (o : Out) (h : merge (f :: fs) = .ok o)
    (hl : (f :: fs).all docBefore = true) : o.items = specItems (f :: fs) := by
  simp only [merge] at h
  split at h
  · cases h
  · cases h; exact fileLoop_eq_spec (f :: fs) hl

/-- the imports are the first occurrences of every (path, name), in order -/
theorem C08_merge_imports (f : File) (fs : List File) (o : Out) (h : merge (f :: fs) = .ok o) :
    o.imports = specImports (f :: fs) ∧ (o.imports.map Import.key).Nodup ∧
    (∀ k, k ∈ o.imports.map Import.key ↔ ∃ g ∈ f :: fs, k ∈ g.imports.map Import.key) := by
  simp only [merge] at h
  split at h
  · cases h
  · cases h
    refine ⟨mergeImports_eq _, ?_, ?_⟩
    · simp only [mergeImports_eq, specImports]; exact firstOcc_nodup _
    · intro k
      simp only [mergeImports_eq, specImports]
      rw [firstOcc_keys]
      simp only [List.mem_map, List.mem_flatMap]
      constructor
      · rintro ⟨i, ⟨g, hg, hi⟩, rfl⟩; exact ⟨g, hg, i, hi, rfl⟩
      · rintro ⟨g, hg, i, hi, rfl⟩; exact ⟨i, ⟨g, hg, hi⟩, rfl⟩

/-- the import SET of the merged file is the union of the (local name, path) PAIRS of the files: the same package imported
    under two different local names keeps both specs (the key `Path.Value + Name.Name` determines the pair when the
    specs are parser-shaped: quoted path, identifier name); no pair occurs twice -/
theorem C08_merge_imports_pairs (f : File) (fs : List File) (o : Out) (h : merge (f :: fs) = .ok o)
    (hq : ∀ g ∈ f :: fs, ∀ i ∈ g.imports, i.quoted) :
    (∀ i : Import, i ∈ o.imports ↔ ∃ g ∈ f :: fs, i ∈ g.imports) ∧ o.imports.Nodup := by
  have h1 := (C08_merge_imports f fs o h)
  have hq' : ∀ i ∈ (f :: fs).flatMap (·.imports), i.quoted := by
    intro i hi
    obtain ⟨g, hg, hig⟩ := List.mem_flatMap.mp hi
    exact hq g hg i hig
  constructor
  · intro i
    rw [h1.1, specImports, firstOcc_mem_iff _ hq' i, List.mem_flatMap]
  · exact nodup_of_nodup_map Import.key _ h1.2.1

/-- second tie: the key really is path + local name in the CURRENT source (source.go, MergeSources) -/
theorem C08_merge_key_fact : Facts.mergeImportKey = ["imp.Path.Value", "imp.Name.Name"] := by decide

/-- one header, one package clause: those of the first file -/
theorem C08_merge_header (f : File) (fs : List File) (o : Out) (h : merge (f :: fs) = .ok o) :
    o.header = f.comments.head?.map (·.text) ∧ o.pkg = f.pkg := by
  simp only [merge] at h
  split at h
  · cases h
  · cases h; exact ⟨rfl, rfl⟩

/-- model = spec on the whole well-formed region, and the merge never fails there -/
theorem C08_merge_eq_spec (fs : List File) (h : WF fs = true) (hne : fs ≠ []) :
    (merge fs).out? = specOut fs := by
  cases fs with
  | nil => exact absurd rfl hne
  | cons f fs =>
    simp only [WF, Bool.and_eq_true, samePkg, Bool.not_eq_eq_eq_not, Bool.not_true] at h
    simp only [merge, h.2, Bool.false_eq_true, ↓reduceIte, Res.out?, specOut, mergeImports_eq,
      fileLoop_eq_spec _ h.1]

/-- a type list whose files have pairwise different imports keeps all of them, in order -/
theorem C08_merge_imports_disjoint (fs : List File)
    (h : ((fs.flatMap (·.imports)).map Import.key).Nodup) : mergeImports fs = fs.flatMap (·.imports) := by
  rw [mergeImports_eq, specImports, firstOcc_of_nodup _ h]

def wStray : File :=
  { pkg := "rc", comments := [⟨0, 40, "Code generated"⟩, ⟨60, 80, "ShootRest exists"⟩, ⟨110, 118, "noop"⟩],
    imports := [], decls := [⟨false, 81, 120, "func (c *client) ShootRest()", some 60⟩, ⟨false, 122, 200, "func init()", none⟩] }

/-- fixed by 102a5c2 (was F_strayComment): the `/*noop*/` inside `ShootRest() { /*noop*/ }` ends 4 bytes before
    `func init()`; the old proximity rule attached it to `init` as well, the doc-group rule does not -/
theorem C08_strayComment_fixed :
    region [wStray] = "WF" ∧
    (merge [wStray]).out?.map (·.items) = some (specItems [wStray]) ∧
    specItems [wStray] = [⟨["ShootRest exists", "noop"], "func (c *client) ShootRest()"⟩, ⟨[], "func init()"⟩] ∧
    (wStray.comments.filter (attachedBefore ⟨false, 122, 200, "func init()", none⟩)).map (·.text) = ["noop"] := by
  decide

/-- composition: the all-in-one file of a combined run consists of the declarations (with their own doc
    comments) of the one-type files that separate processes write, in the same order -/
theorem C08_allinone {σ τ ω : Type} (m : Machine σ τ ω) (hind : StateIndep m) (hst : ∀ o, m.stale o = true)
    (render : τ × ω → File) (disk : Disk) (ts : List τ) (o : Out)
    (hl : ∀ x, docBefore (render x) = true)
    (h : merge ((generate m disk ts).map render) = .ok o) :
    o.items = specItems ((oneAtATime m disk ts).map render) ∧
    o.imports = specImports ((oneAtATime m disk ts).map render) := by
  rw [C08_generate_separate m hind hst] at h
  cases hx : (oneAtATime m disk ts).map render with
  | nil => rw [hx] at h; simp [merge] at h
  | cons f fs =>
    rw [hx] at h
    refine ⟨C08_merge_docs f fs o h ?_, (C08_merge_imports f fs o h).1⟩
    rw [← hx, List.all_map]
    simp [hl]

/-! ## facts: the classification covers the generator state of the CURRENT source -/

/-- every field of every Generator struct and of GeneratorBase is classified – a new field breaks this -/
theorem C08_fields_classified :
    Facts.genStateFields.all (fun f => (classify (f.1, f.2.1, f.2.2.1)).isSome) = true := by decide

/-- and every classified field still exists (a removed or renamed field breaks this) -/
theorem C08_fields_exist :
    classTable.all (fun c => Facts.genStateFields.any (fun f => (f.1, f.2.1, f.2.2.1) = c.1)) = true := by decide

/-- every field classified `reset` is re-initialised (plain assignment or hand-over by address) in one of
    the per-type entry points -/
theorem C08_reset_sites :
    classTable.all (fun c => c.2 ≠ Class.reset ||
      Facts.genStateWrites.any (fun w => w.1 = c.1.1 && w.2.2.1 = c.1.2.2 && resetSites.contains w.2.1
        && (w.2.2.2 = "set" || w.2.2.2 = "addr"))) = true := by decide

/-- `-file=F` only decides WHICH types are listed (`TestFile` in the four `ListTypes`) and how the output is named
    (`LoadPackage`, `confirmTypes`, `fileName`); no per-type step (`MakeData` and what it calls - e.g. the collection of an enum
    type's constants, which walks ALL files of the package) sees the flag in the CURRENT source.  That is what makes the
    all-in-one output the merge of the one-at-a-time outputs (`C08_allinone`): regenerated table `Facts.fileFlagSites` -/
theorem C08_file_flag_sites :
    Facts.fileFlagSites =
      [("internal/constructor", "(Generator).ListTypes", "TestFile"), ("internal/enumer", "(Generator).ListTypes", "TestFile"),
       ("internal/mapper", "(Generator).ListTypes", "TestFile"), ("internal/restclient", "(Generator).ListTypes", "TestFile"),
       ("internal/shoot", "(GeneratorBase).LoadPackage", "FileName"), ("internal/shoot", "(GeneratorBase).TestFile", "FileName"),
       ("internal/shoot", "(GeneratorBase).confirmTypes", "FileName"), ("internal/shoot", "(GeneratorBase).fileName", "FileName")] := by
  decide

/-- every field classified `config` is never written by a per-type entry point -/
theorem C08_config_sites :
    classTable.all (fun c => c.2 ≠ Class.config ||
      !Facts.genStateWrites.any (fun w => w.1 = c.1.1 && w.2.2.1 = c.1.2.2 && resetSites.contains w.2.1)) = true := by decide

/-- `codeToday = noLeaks` agrees with the CURRENT source: each of the six formerly carried fields is assigned by a
    plain assignment in `MakeData` (a removed reset breaks this theorem, and the correspondence) -/
theorem C08_leaks_fixed :
    codeToday = noLeaks ∧
    leakFields.all (fun l => Facts.genStateWrites.any (fun w => w.1 = l.1 && w.2.1 = "MakeData" && w.2.2.1 = l.2 && w.2.2.2 = "set")) = true ∧
    classTable.all (fun c => c.2 ≠ Class.carried || c.1 = ("internal/shoot", "GeneratorBase", "overlay")) = true := by
  decide

/-- per-type state is re-made UNCONDITIONALLY at the start of every type, in the CURRENT source (regenerated tables
    `Facts.genStateResets`: top-level `g.f = …` statements and top-level `*param = …` statements of a callee that gets `&g.f`;
    `Facts.genStateCalls`: top-level calls between the methods):
    (1) every map-, slice- or set-typed field of the four `Generator` structs (22 today) is classified `reset` - none of them
        is configuration or a cache that may outlive a type;
    (2) every field classified `reset` (collections, `data`, `hasNew`, `getter`, `setter`) has a reset that is a top-level
        statement of `MakeData` or of a method `MakeData` reaches through top-level calls only, not preceded by a conditional
        `return` of that method (three listed exceptions in constructor.parseFields, where the early return is fatal).
    A reset moved under a condition (`if *tagMap == nil { *tagMap = make(…) }`: made for the first type only), into a loop, or
    into a method that is called conditionally makes this theorem fail. -/
theorem C08_collections_reset :
    (Facts.genStateFields.filter (fun f => f.2.1 = "Generator" && isCollection f.2.2.2)).all
      (fun f => classify (f.1, f.2.1, f.2.2.1) = some Class.reset) = true ∧
    (Facts.genStateFields.filter (fun f => f.2.1 = "Generator" && isCollection f.2.2.2)).length = 22 ∧
    classTable.all (fun c => c.2 ≠ Class.reset ||
      hasUncondReset Facts.genStateResets Facts.genStateCalls c.1.1 c.1.2.2) = true := by
  decide

/-- the caches (`derived`: the loaded packages, the parsed template, the template-function map, the memoised `ShootNew`
    interface, the mapper's package) in the CURRENT source: each is assigned only by its designated method(s), and of the four
    `Generator` structs' caches only `mapper.mapperpkg` (set when the type embeds a mapper and read only then, by `parseMapper`)
    and `mapper.newShooter` (a constant) are assigned on the per-type path - `enumer.pkg` and `mapper.destPkg` are built when the
    package is loaded, not while a type is processed.  Regenerated tables `genStateWrites`, `genStateCalls`. -/
theorem C08_derived_sites :
    classTable.all (fun c => c.2 ≠ Class.derived ||
      match derivedSites.lookup (c.1.1, c.1.2.2) with
      | some fns => (Facts.genStateWrites.filter (fun w => w.1 = c.1.1 && w.2.2.1 = c.1.2.2)).all (fun w => fns.contains w.2.1)
      | none => false) = true ∧
    (classTable.filter (fun c => c.2 = Class.derived && c.1.2.1 = "Generator" &&
      Facts.genStateWrites.any (fun w => w.1 = c.1.1 && w.2.2.1 = c.1.2.2 &&
        (reachFrom Facts.genStateCalls c.1.1 4 ["MakeData"]).contains w.2.1))).map (fun c => (c.1.1, c.1.2.2)) = perTypeCaches := by
  decide

/-- there is no per-process state OUTSIDE the Generator structs that could carry something from one type to the next: the only
    package-level variables of cmd/shoot and internal/** in the CURRENT source are the four embedded template texts (`//go:embed`,
    handed to NewGeneratorBase once) and the usage table of `main` (read for the help text).  A cache or a map kept in a
    package-level variable (say the tags or the skipped names of the structs seen so far) makes this theorem fail.
    Regenerated table `Facts.genPkgVars`. -/
theorem C08_no_package_state :
    Facts.genPkgVars.map (fun v => (v.1, v.2.2.1, String.ofList (v.2.2.2.toList.take 20))) =
      [("cmd/shoot", "subCmdMap", "= map[string]string{"), ("internal/constructor", "tmplTxt", "string"),
       ("internal/enumer", "tmplTxt", "string"), ("internal/mapper", "tmplTxt", "string"),
       ("internal/restclient", "tmplTxt", "string")] := by decide

/-! ## non-vacuity: concrete inputs -/

/-- `C08_reset_today` / `C08_run` on the shape that used to lose its parameters: after A (marked) B keeps both -/
example : let st := (newStep codeToday {} [] {} wA).1
    ((newStep codeToday {} [] st wB).2.map (·.params.length)) = some 2 ∧
    (generate (newMachine codeToday {}) [] [wA, wB]).map (·.2.params.length) = [1, 2] := by decide

/-- and with the model of the code before the fix the same input loses them (what the fix repaired) -/
example : let st := (newStep codeBeforeFix {} [] {} wA).1
    ((newStep codeBeforeFix {} [] st wB).2.map (·.params.length)) = some 0 := by decide

def wE1 : NType :=
  { name := "E", file := "t.shootnew.e.go", gs := [("name", true, true)], tree := .field { name := "name", ptype := "string" } .nil }
def wA1 : NType :=
  { name := "A", file := "t.shootnew.a.go", gs := [("id", true, true)],
    tree := .embed "E" "E" false false (.field { name := "name", ptype := "string" } .nil) (.field { name := "id" } .nil) }

/-- `C08_proposed_repair_perm`: the embedder-first list [A, E] over a directory with stale output meets `RunOK` (decidable
    checks), and with the repair both arrangements give A the embedded EGetter; without it the list order shows -/
example : hygB [wA1, wE1] [{ name := "t.shootnew.e.go", defs := [("EGetter", {})] }] = true ∧ cloB [wA1, wE1] [] = true ∧
    (generateR fullRepair (newMachine codeToday { getset := true }) .sep [] [wA1, wE1]).map (·.2.getIfaces) = [["E"], []] ∧
    (generateR fullRepair (newMachine codeToday { getset := true }) .sep [] [wE1, wA1]).map (·.2.getIfaces) = [[], ["E"]] ∧
    (generateR noRepair (newMachine codeToday { getset := true }) .sep [] [wA1, wE1]).map (·.2.getIfaces) = [[], []] := by decide

/-- `C08_run_map`: shoot-new destination first, plain pair second: no constructor call is left over -/
example : (generate (mapMachine codeToday) [] [wMA, wMB]).map (·.2.toCtor) = [some ["ID", "Name"], none] ∧
    (generate (mapMachine codeBeforeFix) [] [wMA, wMB]).map (·.2.toCtor) = [some ["ID", "Name"], some ["ID", "Name"]] := by decide

def wTagA : MType :=
  { name := "Article", src := { fields := ["ID", "Name"] }, dest := some { fields := ["ID", "Title"] }, tags := [("Name", "Title")] }
def wTagB : MType :=
  { name := "Author", src := { fields := ["ID", "Name"] }, dest := some { fields := ["ID", "Name", "Title"] } }

/-- `C08_run_map` with `map:"…"` tags: `Article{Name string `map:"Title"`}` then `Author{Name string}` - the rename belongs to
    Article alone, Author copies Name to Name, in both orders.  With a tag map that is kept from type to type (`mapTag`: what a
    change that stops re-making `srcTagMap` for every type would do) Author.Name would be wired to Author.Title whenever Article
    comes first - and not when it comes last -/
example :
    (generate (mapMachine codeToday) [] [wTagA, wTagB]).map (·.2.toWrites)
      = [[("ID", "ID"), ("Title", "Name")], [("ID", "ID"), ("Name", "Name")]] ∧
    (generate (mapMachine codeToday) [] [wTagB, wTagA]).map (·.2.toWrites)
      = [[("ID", "ID"), ("Name", "Name")], [("ID", "ID"), ("Title", "Name")]] ∧
    (generate (mapMachine { codeToday with mapTag := true }) [] [wTagA, wTagB]).map (·.2.toWrites)
      = [[("ID", "ID"), ("Title", "Name")], [("ID", "ID"), ("Title", "Name")]] ∧
    (generate (mapMachine { codeToday with mapTag := true }) [] [wTagB, wTagA]).map (·.2.toWrites)
      = [[("ID", "ID"), ("Name", "Name")], [("ID", "ID"), ("Title", "Name")]] := by decide

def xf1 : File :=
  { pkg := "a", comments := [⟨0, 40, "Code generated"⟩, ⟨70, 90, "NewA constructs"⟩, ⟨150, 160, "noop"⟩],
    imports := [{ path := "\"time\"" }], decls := [⟨true, 52, 65, "import \"time\"", none⟩, ⟨false, 91, 120, "func NewA()", some 70⟩, ⟨false, 130, 170, "func (a A) ShootNew()", none⟩] }
def xf2 : File :=
  { pkg := "a", comments := [⟨0, 40, "Code generated"⟩, ⟨70, 90, "NewB constructs"⟩],
    imports := [{ path := "\"time\"" }, { path := "\"fmt\"" }], decls := [⟨true, 52, 65, "import", none⟩, ⟨false, 91, 120, "func NewB()", some 70⟩] }

/-- merge theorems: two generated-looking files (header, import, doc comment, inner comment) are `WF`, and
    the merge keeps three declarations, attaches each doc comment to its own declaration and drops the
    second header and the duplicate import -/
example : WF [xf1, xf2] = true ∧
    (merge [xf1, xf2]).out?.map (fun o => (o.items, o.imports.map (·.path), o.header)) =
      some ([⟨["NewA constructs"], "func NewA()"⟩, ⟨["noop"], "func (a A) ShootNew()"⟩, ⟨["NewB constructs"], "func NewB()"⟩],
            ["\"time\"", "\"fmt\""], some "Code generated") := by decide

end ShootVerif.C08
