import ShootVerif.Proofs.NewFacts
/-!
C02 — proof-side anchors on the tables `flagGuards` / `flagReads` REGENERATED from /repo's current source on every run
(harness/cmd/facts/flagguards.go); see Proofs/NewFacts.lean. Kept apart from Props/C02.lean so that the theorems about the
hand-written model do not depend on the regenerated tables.
-/
namespace ShootVerif.NewFacts
open ShootVerif

/-- C02: the readers of `shoot: new` marks, `new:"-"` tags and `def=` values, the field walk with its shadow marking and the
    builders of the parameter list and of the literal are reached under NO flag condition, and each of them is called
    (so none has been bypassed); none of them reads a flag except the two walkers that hand the -getset / -json switches
    to the accessor and tag readers -/
theorem C02_flags_do_not_reach_ctor :
    (ctorCalls.filter (fun g => ctorCore.contains g.2.2.1)).all (fun g => g.2.2.2 == []) = true ∧
    ctorCore.all (fun f => ctorCalls.any (fun g => g.2.2.1 == f)) = true ∧
    (ctorReads.filter (fun r => ctorCore.contains r.1)).all (fun r =>
        [("extractTopFiels", "getset"), ("extractTopFiels", "json"), ("parseFields", "getset")].contains r) = true ∧
    ctorCalls.contains ("internal/constructor", "extractTopFiels", "parseDef", []) = true ∧
    ctorCalls.contains ("internal/constructor", "extractTopFiels", "parseNewComment", []) = true ∧
    ctorCalls.contains ("internal/constructor", "extractTopFiels", "parseNewTag", []) = true ∧
    ctorCalls.contains ("internal/constructor", "extractStructFields", "parseNewTag", []) = true ∧
    ctorCalls.contains ("internal/constructor", "makeNew", "newParamsList", []) = true ∧
    ctorCalls.contains ("internal/constructor", "makeNew", "newBody", []) = true := by
  decide

end ShootVerif.NewFacts
