import ShootVerif.Proofs.EnumBit
import ShootVerif.Proofs.EnumBasic
/-!
C14 — with -bit, Has/Add/Remove implement set algebra on the flag bits: after Add(f) Has(f) is true,
after Remove(f) Has(f) is false for a non-zero f, and bits outside f are untouched.  String() of a
union of declared flags is their names joined by ", " in ascending flag order, the declared name
for a declared value, and the decimal form for anything else.

All theorems are for `BitVec w` with `w` arbitrary (so for int8 … uint64 alike), every value `x`,
every flag `f`, and every table `t` of the grammar (`WFt`: ascending distinct values, each zero / a
single bit / a union of declared single bits, any number of flags).  Nothing is bounded.
-/
namespace ShootVerif.Enum.Bit
variable {w : Nat}

/-- after Add(f), Has(f) -/
theorem C14_add_has (x f : BitVec w) : has (add x f) f = true := add_has x f

/-- after Remove(f), not Has(f) — for a non-zero f (Has(0) is always true) -/
theorem C14_remove_has (x f : BitVec w) (hf : f ≠ 0) : has (remove x f) f = false := remove_has x f hf

/-- Add and Remove leave every bit outside f untouched -/
theorem C14_frame (x f : BitVec w) :
    add x f &&& ~~~f = x &&& ~~~f ∧ remove x f &&& ~~~f = x &&& ~~~f := ⟨add_frame x f, remove_frame x f⟩

/-- set algebra, bit by bit: Has is ⊆, Add is ∪, Remove is \ -/
theorem C14_set_algebra (x f : BitVec w) :
    (has x f = true ↔ ∀ i, f.getLsbD i = true → x.getLsbD i = true) ∧
    (∀ i, (add x f).getLsbD i = (x.getLsbD i || f.getLsbD i)) ∧
    (∀ i, (remove x f).getLsbD i = (x.getLsbD i && !f.getLsbD i)) :=
  ⟨has_iff_bits x f, add_bits x f, remove_bits x f⟩

/-- the three methods are the bit-by-bit specification functions the check evaluates -/
theorem C14_ops_spec (x f : BitVec w) :
    has x f = specHas x f ∧ add x f = specAdd x f ∧ remove x f = specRemove x f :=
  ⟨(specHas_eq x f).symm, (specAdd_eq x f).symm, (specRemove_eq x f).symm⟩

/-- Add and Remove of the same flag undo each other on the flag's bits; both are idempotent -/
theorem C14_idempotent (x f : BitVec w) :
    add (add x f) f = add x f ∧ remove (remove x f) f = remove x f ∧ remove (add x f) f = remove x f := by
  refine ⟨?_, ?_, ?_⟩ <;>
  · simp only [add, remove]
    ext i hi
    simp only [BitVec.getElem_and, BitVec.getElem_or, BitVec.getElem_not]
    cases x[i] <;> cases f[i] <;> rfl

/-- the composite String loop of the template computes the specification, for EVERY value -/
theorem C14_string_spec (signed : Bool) (t : Table w) (h : WFt signed t = true) (x : BitVec w) :
    string signed t x = specString signed t x := string_eq_spec h x

/-- a declared value prints its (trimmed) name -/
theorem C14_string_declared (signed : Bool) (t : Table w) (h : WFt signed t = true)
    (e : BitVec w × Name) (he : e ∈ t) : string signed t e.1 = .name e.2 := by
  rw [string_eq_spec h]
  unfold specString
  rw [find?_of_mem t (WFt.facts h).sorted e he]

/-- a union of declared single-bit flags (any selection `sel` of them, not empty) that is not itself
    a declared value prints the names of exactly those flags, ascending, joined by ", " -/
theorem C14_string_union (signed : Bool) (t : Table w) (h : WFt signed t = true)
    (sel : BitVec w × Name → Bool)
    (hne : t.filter (fun e => isSingle e.1 && sel e) ≠ [])
    (hnd : ∀ e ∈ t, e.1 ≠ orAll (t.filter (fun e => isSingle e.1 && sel e))) :
    string signed t (orAll (t.filter (fun e => isSingle e.1 && sel e))) =
      .joined ((t.filter (fun e => isSingle e.1 && sel e)).map (·.2)) := by
  rw [string_eq_spec h]
  unfold specString
  have hfind : t.find? (fun e => e.1 = orAll (t.filter (fun e => isSingle e.1 && sel e))) = none := by
    rw [List.find?_eq_none]; intro e he; simpa using hnd e he
  rw [hfind]
  simp only [flagsIn_union (WFt.facts h).sorted sel]
  rw [if_pos ⟨hne, trivial⟩]

/-- anything else — not declared, and not the union of the declared flags it contains — prints in decimal -/
theorem C14_string_other (signed : Bool) (t : Table w) (h : WFt signed t = true) (x : BitVec w)
    (hnd : ∀ e ∈ t, e.1 ≠ x) (hnu : flagsIn t x = [] ∨ orAll (flagsIn t x) ≠ x) :
    string signed t x = .dec (decOf signed x) := by
  rw [string_eq_spec h]
  unfold specString
  have hfind : t.find? (fun e => e.1 = x) = none := by
    rw [List.find?_eq_none]; intro e he; simpa using hnd e he
  rw [hfind]
  have : ¬ (flagsIn t x ≠ [] ∧ orAll (flagsIn t x) = x) := by
    rintro ⟨h1, h2⟩
    rcases hnu with h | h
    · exact h1 h
    · exact h h2
  simp only []
  rw [if_neg this]

/-- a value with a bit that no declared constant has prints in decimal -/
theorem C14_string_foreign_bit (signed : Bool) (t : Table w) (h : WFt signed t = true) (x : BitVec w)
    (i : Nat) (hx : x.getLsbD i = true) (hi : ∀ e ∈ t, e.1.getLsbD i = false) :
    string signed t x = .dec (decOf signed x) := by
  apply C14_string_other signed t h x
  · intro e he hex
    rw [← hex, hi e he] at hx
    exact absurd hx (by simp)
  · right
    intro hu
    rw [← hu, orAll_bit, List.any_eq_true] at hx
    obtain ⟨e, he, hei⟩ := hx
    rw [hi e (List.mem_filter.mp he).1] at hei
    exact absurd hei (by simp)

/-! ### any table at all: flags that are not single bits, overlapping composites, a declared zero, a
flag on the sign bit.  No hypothesis on the table. -/

/-- the exact statement of what String() returns, for every table and every value: the declared
    name; decimal when `x < 0 || x > _max`; else the non-zero declared values PICKED in ascending
    table order (all bits in `x`, none shared with an earlier pick), joined by ", " when they are at
    least one and cover `x` exactly; decimal otherwise -/
theorem C14_string_general (signed : Bool) (t : Table w) (x : BitVec w) :
    string signed t x = specGeneral signed t x := string_eq_general signed t x

/-- whenever String() prints a joined list, the list is a partition of `x` into declared values:
    a sub-list of the table (so ascending), every member non-zero and contained in `x`, pairwise
    without a common bit, together exactly `x` -/
theorem C14_string_partition (signed : Bool) (t : Table w) (x : BitVec w) (ns : List Name)
    (h : string signed t x = .joined ns) :
    ∃ P : Table w, P.Sublist t ∧ P ≠ [] ∧ ns = P.map (·.2) ∧ orAll P = x ∧
      (∀ e ∈ P, e.1 ≠ 0 ∧ x &&& e.1 = e.1) ∧ P.Pairwise (fun a b => a.1 &&& b.1 = 0#w) := by
  rw [string_eq_general] at h
  unfold specGeneral at h
  cases hf : t.find? (fun e => e.1 = x) with
  | some e => rw [hf] at h; simp at h
  | none =>
    rw [hf] at h
    simp only [] at h
    by_cases hout : outside signed (orAll t) x = true
    · rw [if_pos hout] at h; simp at h
    · rw [if_neg hout] at h
      by_cases hc : picks x t 0#w ≠ [] ∧ orAll (picks x t 0#w) = x
      · rw [if_pos hc] at h
        have hp := picks_props x t 0#w
        refine ⟨picks x t 0#w, hp.2.2, hc.1, ?_, hc.2, fun e he => ⟨(hp.1 e he).2.1, (hp.1 e he).2.2.1⟩, hp.2.1⟩
        injection h with h; exact h.symm
      · rw [if_neg hc] at h; simp at h

/-- on the tables of the property's grammar the general statement is the property's own one
    (names of the declared single-bit flags contained in `x`) -/
theorem C14_general_eq_grammar (signed : Bool) (t : Table w) (h : WFt signed t = true) (x : BitVec w) :
    specGeneral signed t x = specString signed t x := by
  rw [← string_eq_general, string_eq_spec h]

/-- a flag on the sign bit of a signed type makes `_max` negative: every value that is not itself
    declared prints in decimal — no union is ever spelled out -/
theorem C14_string_signbit (t : Table w) (x : BitVec w) (e : BitVec w × Name) (he : e ∈ t) (hm : e.1.msb = true)
    (hnd : ∀ g ∈ t, g.1 ≠ x) : string true t x = .dec (decOf true x) := by
  rw [string_eq_general]
  unfold specGeneral
  have hfind : t.find? (fun g => g.1 = x) = none := by
    rw [List.find?_eq_none]; intro g hg; simpa using hnd g hg
  rw [hfind]
  have hmx : (orAll t).msb = true := by
    rw [orAll_msb, List.any_eq_true]; exact ⟨e, he, hm⟩
  simp only []
  rw [if_pos (outside_of_signbit (orAll t) x hmx)]

/-- the composite String() for a value with an UNDECLARED bit, for ANY table (flags that are not single bits,
    overlapping composites, a declared zero, a flag on the sign bit — no hypothesis on its shape): the
    decimal form; no part of such a value is ever spelled out -/
theorem C14_string_undeclared_bit (signed : Bool) (t : Table w) (x : BitVec w)
    (i : Nat) (hx : x.getLsbD i = true) (hi : ∀ e ∈ t, e.1.getLsbD i = false) :
    string signed t x = .dec (decOf signed x) := string_undeclared_bit signed t x i hx hi

/-- a declared zero prints its name; zero is never part of a joined list -/
theorem C14_string_zero (signed : Bool) (t : Table w) (x : BitVec w) (ns : List Name)
    (h : string signed t x = .joined ns) (n : Name) (hz : ((0 : BitVec w), n) ∈ t)
    (hnames : (t.map (·.2)).Nodup) : n ∉ ns := by
  obtain ⟨P, hsub, _, hns, _, hall, _⟩ := C14_string_partition signed t x ns h
  intro hn
  rw [hns, List.mem_map] at hn
  obtain ⟨e, he, hen⟩ := hn
  have het : e ∈ t := hsub.subset he
  -- names are distinct, so e is the zero entry, which is never picked
  have : e = ((0 : BitVec w), n) := by
    exact inj_of_nodup_names t hnames e het _ hz hen
  exact (hall e he).1 (by rw [this])


end ShootVerif.Enum.Bit

namespace ShootVerif.Enum

/-- the table the -bit methods run over is the ascending table of the declared constants (C04) -/
theorem C14_table (w : Nat) (i : Input) (h : WF i = true) :
    Bit.table (w := w) i.T (tables i) = Bit.table i.T (specSorted i.decl) := by
  rw [tables_eq h]

/-- the emitted -bit file reads a table it does not define: it never compiles
    (`enumer.tmpl:67`, pinned by the committed golden) -/
theorem C14_F_undefined_map_witness :
    F_undefined_map true = true ∧ (∀ T pkg cs, compiles true T pkg cs = false) ∧
    ("_map" ∈ usedSyms true ∧ "_map" ∉ definedSyms) := by
  refine ⟨by decide, ?_, by decide⟩
  intro T pkg cs
  have : (usedSyms true).all (definedSyms.contains ·) = false := by decide
  unfold compiles
  rw [this, Bool.and_false]

/-! ### non-vacuity: `None=0, A=1, B=2, AB=A|B, C=4` on uint8 -/

def bitExample : Bit.Table 8 :=
  [(0, ['N']), (1, ['A']), (2, ['B']), (3, ['A', 'B']), (4, ['C'])]

/-- overlapping flags `1, 2, 3, 5, 6` on uint8 (not the grammar): the exact picks; 7 is left with 4 and prints "7" -/
def overlapExample : Bit.Table 8 := [(1, ['a']), (2, ['b']), (3, ['c']), (5, ['d']), (6, ['e'])]

example : (∀ e ∈ overlapExample, e.1.getLsbD 3 = false) ∧ (11 : BitVec 8).getLsbD 3 = true ∧
    Bit.string false overlapExample 11 = .dec 11 := by decide

example : Bit.WFt false overlapExample = false ∧
    Bit.string false overlapExample 7 = .dec 7 ∧
    Bit.string false overlapExample 4 = .dec 4 ∧
    Bit.string false overlapExample 3 = .name ['c'] := by decide

/-- `-128, 1, 2` on int8: a flag on the sign bit; the union 3 prints "3" -/
def signbitExample : Bit.Table 8 := [(BitVec.ofInt 8 (-128), ['s']), (1, ['a']), (2, ['b'])]

example : Bit.string true signbitExample 3 = .dec 3 ∧ Bit.string true signbitExample (BitVec.ofInt 8 (-127)) = .dec (-127) ∧
    Bit.string true signbitExample 2 = .name ['b'] := by decide

example : Bit.WFt false bitExample = true ∧
    Bit.string false bitExample 3 = .name ['A', 'B'] ∧
    Bit.string false bitExample 6 = .joined [['B'], ['C']] ∧
    Bit.string false bitExample 7 = .joined [['A'], ['B'], ['C']] ∧
    Bit.string false bitExample 9 = .dec 9 ∧
    Bit.string false bitExample 0 = .name ['N'] := by decide

end ShootVerif.Enum
