import ShootVerif.Spec.Enum
namespace ShootVerif.Enum
theorem C14_placeholder : True := trivial
end ShootVerif.Enum
