import ShootVerif.Proofs.RestSend
import ShootVerif.Proofs.RestParse
import ShootVerif.Proofs.RestKV
import ShootVerif.Proofs.RestText
import ShootVerif.Proofs.RestAst
import ShootVerif.Gen.Facts
/-!
C06 — rest: each call sends exactly the request its directive describes.

Model: Model/Rest.lean (recognisers, classification, `send`); property: Spec/Rest.lean.
-/
namespace ShootVerif.Rest

/-- headline: reading back a rendered request directive. For each of the five verbs in ANY spelling
    `vt` (upper, lower, mixed case), quoted or not, with any tail of non-word characters after `)`
    (`;`, blanks), for every non-empty path without `"` and newline (and, when unquoted, without
    blanks at its ends), followed by any further doc lines:
    `parsePath` returns the verb, exactly the path, and its placeholders -/
theorem C06_parse_roundtrip (v : Verb) (vt p tail rest : List Char) (quoted : Bool)
    (hsp : vt.map lowerC = v.lowerChars) (hal : ∀ c ∈ vt, isAlpha c = true)
    (htail : ∀ c ∈ tail, isWord c = false ∧ c ≠ ')' ∧ c ≠ '\n')
    (hne : p ≠ []) (hq : noQuote p) (hnl : ∀ c ∈ p, c ≠ '\n')
    (htrim : quoted = false → trimSpace p = p) :
    parsePath (renderReq vt quoted p tail ++ '\n' :: rest) = .ok ⟨v, p, placeholders p⟩ := by
  have hcontent : ∀ c ∈ (if quoted then '"' :: (p ++ ['"']) else p) ++ [')'] ++ tail, c ≠ '\n' := by
    intro c hc
    simp only [List.mem_append, List.mem_singleton] at hc
    rcases hc with (hc | hc) | hc
    · cases quoted with
      | false => exact hnl c (by simpa using hc)
      | true =>
        simp only [↓reduceIte, List.mem_cons, List.mem_append, List.not_mem_nil, or_false] at hc
        rcases hc with h | h | h
        · subst h; decide
        · exact hnl c h
        · subst h; decide
    · subst hc; decide
    · exact (htail c hc).2.2
  unfold parsePath
  have hm : matchReqAt (renderReq vt quoted p tail ++ '\n' :: rest)
      = some (v, if quoted then '"' :: (p ++ ['"']) else p) := by
    unfold renderReq
    exact matchReqAt_render v vt _ tail rest hsp hal (fun c hc => ⟨(htail c hc).1, (htail c hc).2.1⟩) hcontent
  rw [firstAtLineStart_here _ _ _ hm]
  simp only
  cases quoted with
  | true =>
    simp only [↓reduceIte, trimSpace_quoted, pathFormatOk_quoted p hne hq, trimQuotes_quoted p hne hq]
  | false =>
    simp only [Bool.false_eq_true, ↓reduceIte, htrim rfl, pathFormatOk_plain p hne hq, trimQuotes_plain p hq]

/-- the placeholders are exactly the `{name}` tokens and cutting the path into tokens loses nothing -/
theorem C06_tokens_lossless (p : List Char) : renderToks (tokenize p) = p := renderToks_tokenize p

/-! ## The other recognisers: a directive written in the documented form means what it says

(`CleanKey`: non-empty, letters/digits/`_`/`-`/`|`; `CleanVal`: starts with a word character, no `}`,
no newline; the texts between groups are free of `{`.) -/

/-- `{k₁:v₁} j₁ {k₂:v₂} j₂ …` after any brace-free text reads as the pairs, in order -/
theorem C06_kv_roundtrip (pre : List Char) (gs : List ((List Char × List Char) × List Char))
    (hpre : NoOpenBrace pre) (hg : GroupsClean gs) :
    parseKV (pre ++ renderGroups gs) = gs.map (·.1) := parseKV_render pre gs hpre hg

/-- `shoot: alias={p₁:a₁},{p₂:a₂}` (optional `;…` tail) reads as the pairs (pᵢ, aᵢ) -/
theorem C06_alias_roundtrip (gs : List ((List Char × List Char) × List Char)) (tail rest : List Char)
    (hg : GroupsClean gs) (hne : gs ≠ [])
    (hsep : ∀ g ∈ gs, ∀ c ∈ g.2, c ≠ ';' ∧ c ≠ '\n') (hval : ∀ g ∈ gs, ∀ c ∈ g.1.2, c ≠ ';')
    (ht : tail = [] ∨ ∃ t, tail = ';' :: t) :
    parseAlias (shootColon ++ ' ' :: (aliasEq ++ renderGroups gs ++ tail ++ '\n' :: rest)) = some (gs.map (·.1)) :=
  parseAlias_render gs tail rest hg hne hsep hval ht

/-- … also below other doc lines: a line at which the alias pattern does not match is passed over -/
theorem C06_alias_skip_line (l d : List Char) (hl : ∀ c ∈ l, c ≠ '\n')
    (hf : matchAliasAt (l ++ '\n' :: d) = none) : parseAlias (l ++ '\n' :: d) = parseAlias d :=
  parseAlias_skip_line l d hl hf

/-- `shoot: headers={K₁:v₁},{K₂:v₂}` continued over any number of lines that start with `{` reads as
    all the pairs, in order, and ends where the next line does not continue it -/
theorem C06_headers_roundtrip (w0 : List Char) (gs : List ((List Char × List Char) × List Char)) (ls : HLines)
    (stop : List Char)
    (hw0 : Blanks w0) (hg : HLineOK gs) (hls : HLinesOK ls) (hstop : hdrIter ('\n' :: stop) = none) :
    parseHeaders (shootColon ++ ' ' :: (headersEq ++ (w0 ++ renderGroups gs ++ (contText ls ++ '\n' :: stop))))
      = gs.map (·.1) ++ linePairs ls := parseHeaders_render w0 gs ls stop hw0 hg hls hstop

/-- `alias=w` in the value of the `shoot` struct tag reads as `w` -/
theorem C06_field_alias_roundtrip (pre w rest : List Char) (hpre : ∀ c ∈ pre, c ≠ 'a')
    (hw : w ≠ [] ∧ ∀ c ∈ w, isWord c = true) (hrest : ∀ c ∈ rest.head?, isWord c = false) :
    parseFieldAlias (pre ++ aliasEq ++ w ++ rest) = w := parseFieldAlias_render pre w rest hpre hw hrest

/-- headline: the header set of a generated method. For every verb and every interface-level header
    list: the value under a key is the directive's (last) value for it, else the verb's default; and no
    key occurs twice (each header is `Add`ed once) -/
theorem C06_headers (hs : List (String × String)) (v : Verb) :
    (∀ k, getKV (headersFor hs v) k = specHeader hs v k) ∧ (keysOf (headersFor hs v)).Nodup := by
  constructor
  · intro k
    rw [headersFor, getKV_setAll, specHeader, lastOfKey]
    cases List.find? (fun kv => decide (kv.1 = k)) hs.reverse <;> rfl
  · apply keysOf_setAll_nodup
    cases v <;> decide

/-! ## The tables of cook.go, REGENERATED from the source on every run (harness/cmd/facts/restfacts.go)

`Facts.restDefaultHeaders` is the composite literal assigned to `g.data.DefaultHeaders`,
`Facts.restBodyVerbs` the slice assigned to `g.data.BodyHTTPMethods`. The model's `defaultHeaders` and
`Verb.hasBody` must BE those tables: an edit of either table in the source stops these two theorems
from checking. -/

theorem C06_facts_defaultHeaders :
    (∀ v : Verb, Facts.restDefaultHeaders.lookup v.upper = some (defaultHeaders v)) ∧
    Facts.restDefaultHeaders.length = 5 := by
  refine ⟨fun v => by cases v <;> decide, by decide⟩

theorem C06_facts_bodyVerbs : ∀ v : Verb, v.hasBody = Facts.restBodyVerbs.contains v.upper := by
  intro v; cases v <;> decide

/-- per-method independence, anchored in the source: internal/restclient keeps no package-level
    mutable state — its only package-level variable is the embedded template text — so nothing
    cooked for one method or one type can reach the next (a memo table added at package level stops
    this theorem from checking) -/
theorem C06_facts_no_package_state :
    Facts.restPkgVars = [("generator.go", "tmplTxt", "string")] := by decide

/-- C06_headers over the regenerated table: the value under a key is the directive's last value for
    it, else the entry of the source's DefaultHeaders literal for the method's verb -/
theorem C06_headers_facts (hs : List (String × String)) (v : Verb) (k : String) :
    getKV (headersFor hs v) k =
      match hs.reverse.find? (fun kv => kv.1 = k) with
      | some kv => some kv.2
      | none => getKV ((Facts.restDefaultHeaders.lookup v.upper).getD []) k := by
  rw [(C06_headers hs v).1 k, specHeader, C06_facts_defaultHeaders.1 v]
  rfl

/-!
## The request of one call

Setting of the theorems below: a method `m` as the user meant it (`MethodSpec`), the tables `c`, `d`,
`subs` the generator cooks for it once its directives are parsed to that meaning (`CookedFor`: the
code path `cookParsed` = reversMap, handleExpr on every parameter, the `$key`/`$alias` lookups of the
template), the plan the template sees (`planOf`, for any interface headers `hs`), and argument values
`args`. `MethodOK m` and `ArgsOK m args` are the clauses of region `WF` (C06_wf_methodOK / C06_wf_argsOK
derive them from the decidable region predicate the driver prints).
-/

/-- from doc text to the setting below: when the request directive reads back as meant
    (C06_parse_roundtrip) and the alias directive reads back as the written pairs, cooking the method
    from its doc text is cooking it from its meaning -/
theorem C06_cook_of_parse (md : Method) (m : MethodSpec)
    (hp : parsePath md.doc = .ok ⟨m.verb, m.path, placeholders m.path⟩)
    (ha : aliasMapOf md.doc = m.alias) (hps : md.params = m.params) :
    cookMethod md = cookParsed ⟨m.verb, m.path, placeholders m.path⟩ m.alias m.params := by
  simp [cookMethod, hp, ha, hps]

/-- two parameters with the same alias: the method is rejected (Fatal), whatever else it contains -/
theorem C06_dup_alias_rejected (d : PathDir) (asMap : List (String × String)) (params : List Param)
    (h : ¬ (asMap.map (·.2)).Nodup) : cookParsed d asMap params = .fatal := by
  simp [cookParsed, h]

/-- the whole property for one call: exactly one request, and it is the one the directive describes -/
theorem C06_request (hs : List (String × String)) (m : MethodSpec)
    (c : Cooked) (d : PathDir) (subs : List PathSub) (args : Args)
    (ok : MethodOK m) (aok : ArgsOK m args) (h : CookedFor m c d subs) :
    ∃ r, send (planOf hs m.name c d subs) args = .sent r ∧
      r.verb = m.verb.upper ∧ r.path = specPath m args ∧ r.query.getD [] = specQuery m args ∧
      r.body = specBody m ∧ (∀ k, getKV r.headers k = specHeader hs m.verb k) ∧ r.ctx = specCtx m args := by
  obtain ⟨r, h1, h2, h3, h4, h5, h6, h7⟩ := send_eq_spec hs m c d subs args ok aok h
  exact ⟨r, h1, h2, h3, h4, h5, fun k => by rw [h6]; exact (C06_headers hs m.verb).1 k, h7⟩

/-- headline: GET/DELETE — the query handed to `Encode` holds exactly the non-path scalar arguments,
    the struct fields and the map entries, under alias-or-name, nil pointers omitted, a key set twice
    keeping the later value; for every parameter list and every argument vector of region WF -/
theorem C06_query (hs : List (String × String)) (m : MethodSpec)
    (c : Cooked) (d : PathDir) (subs : List PathSub) (args : Args)
    (ok : MethodOK m) (aok : ArgsOK m args) (h : CookedFor m c d subs) (hv : m.verb.hasBody = false) :
    ∃ r, send (planOf hs m.name c d subs) args = .sent r ∧
      r.query.getD [] = setAll [] (plainBindings m args m.params ++ dictBindings args m.params) ∧
      r.body = none := by
  obtain ⟨r, h1, _, _, h4, h5, _, _⟩ := send_eq_spec hs m c d subs args ok aok h
  refine ⟨r, h1, ?_, ?_⟩
  · rw [h4]; simp [specQuery, hv]
  · rw [h5]; simp [specBody, hv]

/-- every `{name}` of the path is replaced by the text of the argument it stands for (through the
    alias directive), all other characters of the path are kept -/
theorem C06_placeholders (hs : List (String × String)) (m : MethodSpec)
    (c : Cooked) (d : PathDir) (subs : List PathSub) (args : Args)
    (ok : MethodOK m) (aok : ArgsOK m args) (h : CookedFor m c d subs) :
    ∃ r, send (planOf hs m.name c d subs) args = .sent r ∧
      r.path = fill (fun n => argText args (resolve m (String.ofList n))) (tokenize m.path) := by
  obtain ⟨r, h1, _, h3, _⟩ := send_eq_spec hs m c d subs args ok aok h
  exact ⟨r, h1, by rw [h3]; rfl⟩

/-- POST/PUT/PATCH: the body is `json.Marshal` of the struct argument and no query is written -/
theorem C06_body (hs : List (String × String)) (m : MethodSpec)
    (c : Cooked) (d : PathDir) (subs : List PathSub) (args : Args)
    (ok : MethodOK m) (aok : ArgsOK m args) (h : CookedFor m c d subs) (hv : m.verb.hasBody = true) :
    ∃ r, send (planOf hs m.name c d subs) args = .sent r ∧
      r.body = (m.params.find? isStructParam).map (·.name) ∧ r.query.getD [] = [] := by
  obtain ⟨r, h1, _, _, h4, h5, _, _⟩ := send_eq_spec hs m c d subs args ok aok h
  refine ⟨r, h1, ?_, ?_⟩
  · rw [h5]; simp [specBody, hv]
  · rw [h4]; simp [specQuery, hv]

/-- C06_body over the regenerated `BodyHTTPMethods`: exactly for the verbs listed there the struct
    argument is marshalled as the body and no query is written; for every other verb there is no body -/
theorem C06_body_facts (hs : List (String × String)) (m : MethodSpec)
    (c : Cooked) (d : PathDir) (subs : List PathSub) (args : Args)
    (ok : MethodOK m) (aok : ArgsOK m args) (h : CookedFor m c d subs) :
    ∃ r, send (planOf hs m.name c d subs) args = .sent r ∧
      r.body = (if Facts.restBodyVerbs.contains m.verb.upper then (m.params.find? isStructParam).map (·.name) else none) := by
  obtain ⟨r, h1, _, _, _, h5, _, _⟩ := send_eq_spec hs m c d subs args ok aok h
  refine ⟨r, h1, ?_⟩
  rw [h5, specBody, C06_facts_bodyVerbs m.verb]

/-- the context attached to the request is the caller's (the method's context argument), and the
    background context when the method has no context parameter -/
theorem C06_ctx (hs : List (String × String)) (m : MethodSpec)
    (c : Cooked) (d : PathDir) (subs : List PathSub) (args : Args)
    (ok : MethodOK m) (aok : ArgsOK m args) (h : CookedFor m c d subs) :
    ∃ r, send (planOf hs m.name c d subs) args = .sent r ∧ r.ctx = specCtx m args := by
  obtain ⟨r, h1, _, _, _, _, _, h7⟩ := send_eq_spec hs m c d subs args ok aok h
  exact ⟨r, h1, h7⟩

/-- exactly one request per call — for EVERY plan and EVERY argument vector the emitted method either
    reaches its single `c.client.Do(req_)` or panics, and it panics only while evaluating a query
    statement that reads a field through a nil struct pointer -/
theorem C06_one_request (pl : Plan) (args : Args) :
    (∃ r, send pl args = .sent r) ∨
    (send pl args = .panic ∧ pl.verb.hasBody = false ∧ runQueryOps args pl.queryOps = none) := by
  unfold send
  simp only
  by_cases h1 : (pl.verb.hasBody || (pl.queryOps.isEmpty && pl.dict.isEmpty)) = true
  · simp only [h1, ↓reduceIte]; exact Or.inl ⟨_, rfl⟩
  · simp only [h1, Bool.false_eq_true, ↓reduceIte]
    cases hr : runQueryOps args pl.queryOps with
    | some sets => exact Or.inl ⟨_, rfl⟩
    | none =>
      refine Or.inr ⟨rfl, ?_, rfl⟩
      cases hb : pl.verb.hasBody with
      | false => rfl
      | true => simp [hb] at h1

/-! ## From the decidable region predicate to the hypotheses above -/

/-- every method of an interface the driver puts in region WF satisfies `MethodOK` -/
theorem C06_wf_methodOK (i : IfaceSpec) (calls : List Call) (h : region i calls = "WF")
    (m : MethodSpec) (hm : m ∈ i.methods) : MethodOK m := by
  obtain ⟨hs, _, _⟩ := region_wf i calls h
  simp only [structOk, shapeOk, Bool.and_eq_true, List.all_eq_true] at hs
  exact methodOK_of_shape m (hs.1.1.1 m hm)

/-- every call of such an interface satisfies `ArgsOK` -/
theorem C06_wf_argsOK (i : IfaceSpec) (calls : List Call) (h : region i calls = "WF")
    (cl : Call) (hc : cl ∈ calls) (m : MethodSpec) (hm : findMethod i cl.method = some m) :
    ArgsOK m cl.args := by
  obtain ⟨_, _, hnil, _⟩ := region_wf i calls h
  exact argsOK_of_wf i calls hnil cl hc m hm

/-- inside the region cooking never fails: every method whose directives are read gets its tables
    (no "unsupported param type", no "ambiguous body binding", no duplicate alias) -/
theorem C06_cooked_total (i : IfaceSpec) (calls : List Call) (h : region i calls = "WF")
    (m : MethodSpec) (hm : m ∈ i.methods) :
    ∃ c subs, CookedFor m c ⟨m.verb, m.path, placeholders m.path⟩ subs := by
  obtain ⟨hs, _, _⟩ := region_wf i calls h
  simp only [structOk, shapeOk, Bool.and_eq_true, List.all_eq_true] at hs
  exact cookParsed_ok m (hs.1.1.1 m hm) (hs.2 m hm)

/-!
## From the TEXT of the doc comments

`methodDoc sp m` is `ast.CommentGroup.Text()` of a method's doc comment that spells the directives of `m`
the way `sp` says (`shoot: <verb as written>(<path, quoted or not>)<tail>` and, if there are alias pairs,
`shoot: alias={p:a},{q:b}<;tail>` on the next line); `SpellingOK` lists what is asked of the spelling
(the verb in any letter case, a tail of non-word characters, alias keys of key characters, alias values
without `}` `;` newline that do not start with a blank); that no path spells `alias=` literally is part of region WF
(see F_aliasInPath);
`HeaderDocFor hs doc`: the doc comment of the embedded `shoot.RestClient[T]` spells the header pairs.
-/

/-- the doc comment of a method, read by the recognisers `parsePath` and `parseAlias`/`parseKV`, is cooked
    exactly as its meaning says — for every verb spelling, quoted or not, any alias pairs -/
theorem C06_cook_text (sp : Spelling) (m : MethodSpec) (hsp : SpellingOK sp m)
    (hpath : pathClean m.path = true) (hnoal : containsAliasEq m.path = false) (hnd : (keysOf m.alias).Nodup) :
    cookMethod ⟨m.name, methodDoc sp m, m.params⟩ =
      cookParsed ⟨m.verb, m.path, placeholders m.path⟩ m.alias m.params := cookMethod_text sp m hsp hpath hnoal hnd

/-- the interface-level `headers=` directive, read by `parseHeaders`/`parseKV` from the doc text, is the written pairs -/
theorem C06_headers_text (hs : List (String × String)) (doc : List Char) (h : HeaderDocFor hs doc) :
    strKVs (parseHeaders doc) = hs := headers_text hs doc h

/-- the interface-level glue of cookClient, for EVERY interface: a Fatal in any method ends the run; otherwise the
    generated methods are — in declaration order — exactly the interface methods whose request directive is read, one
    generated method each, built from that method's own doc comment and parameters and the interface's header
    directive; the output compiles unless a pointer to a map is ranged over (Q5) or a method was skipped -/
theorem C06_generate_closed (i : Iface) :
    generate i =
      if i.methods.any isFatal then .fatal
      else
        .ok (i.methods.filterMap (planOfMethod (setAll [] (strKVs (parseHeaders i.headersDoc)))))
          (!(i.methods.filterMap (planOfMethod (setAll [] (strKVs (parseHeaders i.headersDoc))))).any
              (fun p => !p.dict.isEmpty && p.dictIsPtr) &&
            (i.methods.filterMap (planOfMethod (setAll [] (strKVs (parseHeaders i.headersDoc))))).length == i.methods.length) :=
  generate_closed i

/-- … so every method gets exactly one generated method: under distinct method names the generated method called
    `md.name` is the one cooked from `md` -/
theorem C06_method_one_plan (i : Iface) (plans : List Plan) (b : Bool) (h : generate i = .ok plans b)
    (hnd : (i.methods.map (·.name)).Nodup) (md : Method) (hmem : md ∈ i.methods)
    (c : Cooked) (d : PathDir) (s : List PathSub) (hc : cookMethod md = .ok c d s) :
    plans.find? (fun pl => pl.name == md.name)
      = some (planOf (setAll [] (strKVs (parseHeaders i.headersDoc))) md.name c d s) ∧
    (plans.filter (fun pl => pl.name == md.name)).length = 1 := by
  rw [generate_closed] at h
  cases hf : i.methods.any isFatal with
  | true => simp [hf] at h
  | false =>
    simp only [hf, Bool.false_eq_true, ↓reduceIte, GenRes.ok.injEq] at h
    obtain ⟨hp, _⟩ := h
    subst hp
    have hfind := find_filterMap_plan (setAll [] (strKVs (parseHeaders i.headersDoc))) i.methods hnd md hmem c d s hc
    refine ⟨hfind, ?_⟩
    -- names of the generated methods are distinct and md.name is among them
    have hnames := (rest_methods_nodup i _ _ (by rw [generate_closed, hf]; rfl)).2 hnd
    have hin : md.name ∈ (i.methods.filterMap (planOfMethod (setAll [] (strKVs (parseHeaders i.headersDoc))))).map (·.name) := by
      have := List.mem_of_find?_eq_some hfind
      exact List.mem_map.2 ⟨_, this, rfl⟩
    have hcount : ∀ (l : List Plan), (l.map (·.name)).Nodup → md.name ∈ l.map (·.name) →
        (l.filter (fun pl => pl.name == md.name)).length = 1 := by
      intro l
      induction l with
      | nil => intro _ hx; cases hx
      | cons x xs ih =>
        intro hnd hx
        simp only [List.map_cons, List.nodup_cons] at hnd
        by_cases e : x.name = md.name
        · have : xs.filter (fun pl => pl.name == md.name) = [] := by
            rw [List.filter_eq_nil_iff]
            intro y hy hey
            have : y.name = md.name := by simpa using hey
            exact hnd.1 (e ▸ this ▸ List.mem_map.2 ⟨y, hy, rfl⟩)
          simp [e, this]
        · have hx' : md.name ∈ xs.map (·.name) := by
            simp only [List.map_cons, List.mem_cons] at hx
            rcases hx with hx | hx
            · exact absurd hx.symm e
            · exact hx
          simp [e, ih hnd.2 hx']
    exact hcount _ hnames hin

/-- **the whole property from the TEXT of the doc comments.** For every interface of region WF whose doc comments
    spell its directives in the documented form: the generator, reading only the text, produces a client that
    compiles, and every call sends exactly one request — the directive's verb, the path with every placeholder
    replaced by its alias-resolved argument, the query the property lists, the struct argument as body, the verb's
    default headers overridden by the interface's `headers=` pairs, the caller's context. (C06_request is the same
    statement from pre-parsed directives.) -/
theorem C06_request_text (is : IfaceSpec) (calls : List Call) (hdoc : List Char) (spell : MethodSpec → Spelling)
    (hwf : region is calls = "WF") (hh : HeaderDocFor is.headers hdoc)
    (hsp : ∀ m ∈ is.methods, SpellingOK (spell m) m)
    (cl : Call) (hcl : cl ∈ calls) (m : MethodSpec) (hm : findMethod is cl.method = some m) :
    ∃ r, callModel (ifaceText hdoc spell is) cl.method cl.args = some (.sent r) ∧
      r.verb = m.verb.upper ∧ r.path = specPath m cl.args ∧ r.query.getD [] = specQuery m cl.args ∧
      r.body = specBody m ∧ (∀ k, getKV r.headers k = specHeader is.headers m.verb k) ∧ r.ctx = specCtx m cl.args :=
  call_text is calls hdoc spell hwf hh hsp cl hcl m hm

/-! ## the walk over the entries of the interface type (go/ast level) -/

/-- WHERE the embedded shoot.RestClient[T] (carrying the `headers=` comment) — or any other embedded interface — stands
    among the methods is irrelevant, for EVERY entry list: the output is that of the same interface written the README
    way, embedded entries first (the header tables are read by the template only after the whole walk) -/
theorem C06_embed_position (es : List Entry) : generateAst (embedsFirst es) = generateAst es :=
  generateAst_embedsFirst es

/-- a parameter group `a, b T` is the parameters `a T, b T`, in order, wherever it stands in the list;
    an unnamed parameter contributes nothing -/
theorem C06_param_groups (pre post : List ParamGroup) (a b : List String) (k : PKind) (p : Bool) :
    flattenParams (pre ++ ⟨a ++ b, k, p⟩ :: post) = flattenParams (pre ++ ⟨a, k, p⟩ :: ⟨b, k, p⟩ :: post) ∧
    (flattenParams (pre ++ ⟨a ++ b, k, p⟩ :: post)).map (·.name) = (pre ++ ⟨a ++ b, k, p⟩ :: post).flatMap (·.names) ∧
    flattenParams (pre ++ ⟨[], k, p⟩ :: post) = flattenParams (pre ++ post) :=
  ⟨flattenParams_split pre post a b k p, flattenParams_names _, by simp [flattenParams, List.flatMap_append]⟩

/-- the entry level meets the interface level: with one documented embedded entry — anywhere among the methods — the
    output is `generate` (to which C06_generate_closed and C06_request_text apply) on its doc text and the flattened
    methods, unless the result list of a cooked method is rejected (Fatal) -/
theorem C06_ast_iface (pre post : List Entry) (hdoc : List Char)
    (hpre : ∀ e ∈ pre, e.isMethod = true) (hpost : ∀ e ∈ post, e.isMethod = true) :
    generateAst (pre ++ Entry.embed (some hdoc) :: post) =
      (match generate ⟨hdoc, astMethods (pre ++ Entry.embed (some hdoc) :: post)⟩ with
        | .fatal => .fatal
        | .ok plans b => if badResults (pre ++ Entry.embed (some hdoc) :: post) then .fatal else .ok plans b) :=
  generateAst_eq_generate _ hdoc (astHeaders_single pre post hdoc hpre hpost)

example : generateAst [.method "A" (some "shoot: Get(/a)\n".toList) [⟨["ctx"], .ctx, false⟩, ⟨["x", "y"], .scalar, false⟩] [⟨0, .star⟩, ⟨0, .httpResp⟩, ⟨0, .error⟩],
      .embed (some "shoot: headers={K:v}\n".toList), .method "B" none [] []]
    = generate ⟨"shoot: headers={K:v}\n".toList, [⟨"A", "shoot: Get(/a)\n".toList, [⟨"ctx", .ctx, false⟩, ⟨"x", .scalar, false⟩, ⟨"y", .scalar, false⟩]⟩, ⟨"B", [], []⟩]⟩ := by decide

/-! ## Finding regions: concrete witnesses on which the unchanged code violates the property -/

section Witnesses

def pCtx : Param := ⟨"ctx", .ctx, false⟩
def pStr (n : String) : Param := ⟨n, .scalar, false⟩

/-- Q5: `A(ctx, m *map[string]string)` on GET -/
def wPtrDictI : Iface := ⟨[], [⟨"A", "shoot: Get(\"/a\")\n".toList, [pCtx, ⟨"m", .dict, true⟩]⟩]⟩
def wPtrDictS : IfaceSpec := ⟨[], [⟨"A", .get, "/a".toList, [], [pCtx, ⟨"m", .dict, true⟩]⟩]⟩

theorem C06_F_ptrDict_witness :
    region wPtrDictS [] = "F_ptrDict" ∧ (generate wPtrDictI).failsToCompile = true ∧
    (callSpec wPtrDictS "A" [("m", .dict [("k", ['v'])])]).isSome = true := by
  decide

/-! ### repaired in /repo: the former witnesses now satisfy the property (model = specification) -/

/-- was F_twoDicts (repaired by 9050c53): both maps reach the query -/
def wTwoI : Iface := ⟨[], [⟨"A", "shoot: Delete(\"/a\")\n".toList, [pCtx, ⟨"extra", .dict, false⟩, ⟨"more", .dict, false⟩]⟩]⟩
def wTwoS : IfaceSpec := ⟨[], [⟨"A", .delete, "/a".toList, [], [pCtx, ⟨"extra", .dict, false⟩, ⟨"more", .dict, false⟩]⟩]⟩
def wTwoArgs : Args := [("ctx", .ctx "t"), ("extra", .dict [("x", ['1'])]), ("more", .dict [("y", ['2'])])]

theorem C06_twoDicts_fixed :
    region wTwoS [⟨"A", wTwoArgs⟩] = "WF" ∧ callModel wTwoI "A" wTwoArgs = callSpec wTwoS "A" wTwoArgs ∧
    callModel wTwoI "A" wTwoArgs = some (.sent ⟨"DELETE", "/a".toList, some [("x", ['1']), ("y", ['2'])], none, [], some "t"⟩) := by
  decide

/-- was F_qualScalar (repaired by d8a8443): `wait time.Duration` travels as `wait=1.5s` -/
def wQualI : Iface := ⟨[], [⟨"A", "shoot: Get(\"/a\")\n".toList, [pCtx, ⟨"wait", .qualOther, false⟩]⟩]⟩
def wQualS : IfaceSpec := ⟨[], [⟨"A", .get, "/a".toList, [], [pCtx, ⟨"wait", .qualOther, false⟩]⟩]⟩
def wQualArgs : Args := [("ctx", .ctx "t"), ("wait", .scalar (.txt "1.5s".toList))]

theorem C06_qualScalar_fixed :
    region wQualS [⟨"A", wQualArgs⟩] = "WF" ∧ callModel wQualI "A" wQualArgs = callSpec wQualS "A" wQualArgs := by
  decide

/-- was F_headerValue (repaired by 98e0bbb): `{Accept: */*}` is sent as `Accept: */*` -/
def wHdrI : Iface := ⟨"shoot: headers={Accept: */*}\n".toList, [⟨"A", "shoot: Delete(\"/a\")\n".toList, []⟩]⟩
def wHdrS : IfaceSpec := ⟨[("Accept", "*/*")], [⟨"A", .delete, "/a".toList, [], []⟩]⟩

theorem C06_headerValue_fixed :
    region wHdrS [⟨"A", []⟩] = "WF" ∧
    callModel wHdrI "A" [] = some (.sent ⟨"DELETE", "/a".toList, none, none, [("Accept", "*/*")], none⟩) ∧
    (callSpec wHdrS "A" []).map (fun o => match o with | .sent r => r.headers | .panic => []) = some [("Accept", "*/*")] := by
  decide

/-- was F_pathArgBrace (repaired by 0b978c0): `A("{b}", "x")` on `/{a}/{b}` requests `/{b}/x` -/
def wBraceI : Iface := ⟨[], [⟨"A", "shoot: Get(\"/{a}/{b}\")\n".toList, [pCtx, pStr "a", pStr "b"]⟩]⟩
def wBraceS : IfaceSpec := ⟨[], [⟨"A", .get, "/{a}/{b}".toList, [], [pCtx, pStr "a", pStr "b"]⟩]⟩
def wBraceArgs : Args := [("ctx", .ctx "t"), ("a", .scalar (.txt "{b}".toList)), ("b", .scalar (.txt "x".toList))]

theorem C06_pathArgBrace_fixed :
    region wBraceS [⟨"A", wBraceArgs⟩] = "WF" ∧
    (callModel wBraceI "A" wBraceArgs).bind Outcome.path? = some "/{b}/x".toList ∧
    (callSpec wBraceS "A" wBraceArgs).bind Outcome.path? = some "/{b}/x".toList := by
  decide

/-- was F_structElsewhere (repaired by 05e7f66): a struct type is recognised through go/types wherever
    it is declared, so the grammar no longer tells the two apart — the same input as a same-file struct -/
theorem C06_structElsewhere_fixed :
    let p : Param := ⟨"req", .struct [⟨"Name", true, false, ""⟩, ⟨"N", true, false, ""⟩], false⟩
    let i : Iface := ⟨[], [⟨"A", "shoot: Get(\"/a\")\n".toList, [pCtx, p]⟩]⟩
    let s : IfaceSpec := ⟨[], [⟨"A", .get, "/a".toList, [], [pCtx, p]⟩]⟩
    let args : Args := [("ctx", .ctx "t"), ("req", .struct false [("Name", .txt ['x']), ("N", .txt ['7'])])]
    region s [⟨"A", args⟩] = "WF" ∧ callModel i "A" args = callSpec s "A" args := by
  decide

/-- Q3: `A(ctx, req *Req)` on GET called with `nil`: panic instead of a request without those fields -/
def wNilI : Iface := ⟨[], [⟨"A", "shoot: Get(\"/a\")\n".toList, [pCtx, ⟨"req", .struct [⟨"Name", true, false, ""⟩], true⟩]⟩]⟩
def wNilS : IfaceSpec := ⟨[], [⟨"A", .get, "/a".toList, [], [pCtx, ⟨"req", .struct [⟨"Name", true, false, ""⟩], true⟩]⟩]⟩
def wNilArgs : Args := [("ctx", .ctx "t"), ("req", .struct true [])]

theorem C06_F_nilStructDeref_witness :
    region wNilS [⟨"A", wNilArgs⟩] = "F_nilStructDeref" ∧
    callModel wNilI "A" wNilArgs = some .panic ∧
    callSpec wNilS "A" wNilArgs = some (.sent ⟨"GET", "/a".toList, some [], none, [("Accept", "application/json")], some "t"⟩) := by
  decide

/-- `parseAlias` takes the first `\Walias=` on any `shoot:` line: the segment `/alias=x` of the PATH is read as the alias
    directive (no pairs), the alias line below is ignored, and `pageSize` travels under its Go name instead of `size` -/
def wAliasI : Iface := ⟨[], [⟨"A", "shoot: Get(\"/a/alias=x\")\nshoot: alias={pageSize:size}\n".toList, [pCtx, pStr "pageSize"]⟩]⟩
def wAliasS : IfaceSpec := ⟨[], [⟨"A", .get, "/a/alias=x".toList, [("pageSize", "size")], [pCtx, pStr "pageSize"]⟩]⟩
def wAliasArgs : Args := [("ctx", .ctx "t"), ("pageSize", .scalar (.txt "5".toList))]

theorem C06_F_aliasInPath_witness :
    region wAliasS [⟨"A", wAliasArgs⟩] = "F_aliasInPath" ∧
    aliasMapOf "shoot: Get(\"/a/alias=x\")\nshoot: alias={pageSize:size}\n".toList = [] ∧
    callModel wAliasI "A" wAliasArgs
      = some (.sent ⟨"GET", "/a/alias=x".toList, some [("pageSize", "5".toList)], none, [("Accept", "application/json")], some "t"⟩) ∧
    callSpec wAliasS "A" wAliasArgs
      = some (.sent ⟨"GET", "/a/alias=x".toList, some [("size", "5".toList)], none, [("Accept", "application/json")], some "t"⟩) := by
  decide

/-- a POST with a struct body through a chain with RetryMiddleware: the request of the call, and what its
    second attempt puts on the wire -/
def wPostI : Iface := ⟨[], [⟨"Create", "shoot: Post(\"/u\")\n".toList, [pCtx, ⟨"u", .struct [⟨"Name", true, false, ""⟩], true⟩]⟩]⟩
def wPostArgs : Args := [("ctx", .ctx "t"), ("u", .struct false [("Name", .txt "n".toList)])]
def wPostReq : Request := ⟨"POST", "/u".toList, none, some "u", [("Accept", "application/json"), ("Content-Type", "application/json")], some "t"⟩

/-- fixed in 371dec3 (was F_retryBody: the second attempt went out with Content-Length N and no bytes):
    the re-sent POST carries the complete JSON body, as the property says -/
theorem C06_retryBody_fixed :
    callModel wPostI "Create" wPostArgs = some (.sent wPostReq) ∧
    (attempt wPostReq none 1).body = .whole "u" ∧
    attempt wPostReq none 1 = specAttempt wPostReq none 1 ∧
    attempt wPostReq (some 0) 2 = specAttempt wPostReq (some 0) 2 := by
  decide

end Witnesses

/-! ## every attempt of a retrying chain is the request of the call -/

/-- on every attempt what goes over the wire is what the property says: the call's verb, path, query,
    headers and complete body, under the caller's context -/
theorem C06_attempt (r : Request) (cancelAfter : Option Nat) (j : Nat) :
    attempt r cancelAfter j = specAttempt r cancelAfter j := rfl

/-- on every attempt everything is the call's: verb, path, query,
    headers, and the context the caller passed (its values; its end exactly once the caller has cancelled
    it, never for a call without a context parameter) -/
theorem C06_attempt_identity (r : Request) (cancelAfter : Option Nat) (j : Nat) :
    let a := attempt r cancelAfter j
    a.verb = r.verb ∧ a.path = r.path ∧ a.query = r.query ∧ a.headers = r.headers ∧ a.ctx = r.ctx ∧
    (a.ctxDone = true ↔ r.ctx.isSome = true ∧ ∃ k, cancelAfter = some k ∧ k < j) := by
  refine ⟨rfl, rfl, rfl, rfl, rfl, ?_⟩
  simp only [attempt, Bool.and_eq_true]
  cases cancelAfter with
  | none => simp [cancelledBefore]
  | some k => simp [cancelledBefore]

/-! ## Non-vacuity: a concrete method and call inside region WF, with the hypotheses of the theorems -/

def exM : MethodSpec :=
  ⟨"GetUser", .get, "/users/{id}/x".toList, [("userID", "id"), ("pageSize", "size")],
    [pCtx, pStr "userID", ⟨"pageSize", .scalar, true⟩,
     ⟨"req", .struct [⟨"Name", true, false, "alias=name"⟩, ⟨"PageIdx", true, true, ""⟩, ⟨"n", false, false, ""⟩], true⟩,
     ⟨"m", .dict, false⟩]⟩
def exI : IfaceSpec := ⟨[("X-Env", "test")], [exM]⟩
def exArgs : Args :=
  [("ctx", .ctx "t1"), ("userID", .scalar (.txt "a b".toList)), ("pageSize", .scalar .nilPtr),
   ("req", .struct false [("Name", .txt "x".toList), ("PageIdx", .nilPtr), ("n", .txt "5".toList)]),
   ("m", .dict [("k", "v".toList)])]

example : region exI [⟨"GetUser", exArgs⟩] = "WF" := by decide
example : ∃ c d subs, CookedFor exM c d subs := by
  unfold CookedFor
  cases h : cookParsed ⟨exM.verb, exM.path, placeholders exM.path⟩ exM.alias exM.params with
  | ok c d subs => exact ⟨c, d, subs, rfl⟩
  | skipped => exact absurd h (by decide)
  | fatal => exact absurd h (by decide)
example : callModel ⟨"shoot: headers={X-Env:test}\n".toList,
      [⟨"GetUser", "shoot: Get(\"/users/{id}/x\")\nshoot: alias={userID:id},{pageSize:size}\n".toList, exM.params⟩]⟩
      "GetUser" exArgs
    = some (.sent ⟨"GET", "/users/a b/x".toList,
        some [("name", "x".toList), ("n", "5".toList), ("k", "v".toList)], none,
        [("Accept", "application/json"), ("X-Env", "test")], some "t1"⟩) := by decide

/-! the two repaired shapes (formerly F_mixedCtx, F_bodyNoStruct) are ordinary WF inputs now -/
example :
    let i : Iface := ⟨[], [⟨"A", "shoot: Get(\"/a\")\n".toList, [pCtx]⟩, ⟨"B", "shoot: Post(\"/b/{id}\")\n".toList, [pStr "id"]⟩]⟩
    let s : IfaceSpec := ⟨[], [⟨"A", .get, "/a".toList, [], [pCtx]⟩, ⟨"B", .post, "/b/{id}".toList, [], [pStr "id"]⟩]⟩
    let args : Args := [("id", .scalar (.txt ['7']))]
    region s [⟨"B", args⟩] = "WF" ∧
    callModel i "B" args = some (.sent ⟨"POST", "/b/7".toList, none, none,
      [("Accept", "application/json"), ("Content-Type", "application/json")], none⟩) ∧
    (callSpec s "B" args).bind Outcome.path? = some "/b/7".toList := by decide

/-! non-vacuity of the recogniser theorems -/
example : parseAlias "shoot: Get(\"/u/{id}\")\nshoot: alias={userID:id},{pageSize:size}; note\n".toList
    = some [("userID".toList, "id".toList), ("pageSize".toList, "size".toList)] := by decide
example : matchAliasAt "shoot: Get(\"/u/{id}\")\nshoot: alias={userID:id}\n".toList = none := by decide
example : parseHeaders "shoot: headers={Authorization:Bearer abc},\n  {X-Env:test},{A:1}\n{B:2}\nshoot: Get(/x)\n".toList
    = [("Authorization".toList, "Bearer abc".toList), ("X-Env".toList, "test".toList), ("A".toList, ['1']), ("B".toList, ['2'])] := by decide
example : hdrIter "\nshoot: Get(/x)\n".toList = none := by decide
example : parseFieldAlias "x,alias=page_idx;y".toList = "page_idx".toList := by decide
example : parseKV "{k: */*}".toList = [(['k'], "*/*".toList)] ∧
    parseKV "x{a-b|c : v w },{k:}{q: }y}".toList = [("a-b|c".toList, "v w ".toList), (['q'], [' '])] := by decide
example : parsePath ("shoot: Get(\"/users/{id}\")\nshoot: alias={userID:id}\n".toList)
    = .ok ⟨.get, "/users/{id}".toList, ["id".toList]⟩ := by decide
example : parsePath ("shoot: pAtCh(/a b/{x}/{y_1}) ; \n".toList)
    = .ok ⟨.patch, "/a b/{x}/{y_1}".toList, ["x".toList, "y_1".toList]⟩ := by decide
example : getKV (headersFor [("Accept", "text/plain"), ("X-A", "1"), ("Accept", "text/xml")] .post) "Accept" = some "text/xml" := by decide

/-! non-vacuity of C06_request_text: the example interface as text -/
def exSpell : MethodSpec → Spelling := fun _ => ⟨"gEt".toList, true, " ;".toList, "; page".toList⟩
def exHdoc : List Char := "shoot: headers={X-Env:test}\n".toList

example : ifaceText exHdoc exSpell exI = ⟨"shoot: headers={X-Env:test}\n".toList,
    [⟨"GetUser", "shoot: gEt(\"/users/{id}/x\") ;\nshoot: alias={userID:id},{pageSize:size}; page\n".toList, exM.params⟩]⟩ := by decide
example : SpellingOK (exSpell exM) exM := by
  refine ⟨by decide, by decide, by decide, Or.inr ⟨_, rfl⟩, ?_⟩
  intro kv hkv
  simp only [exM, List.mem_cons, List.not_mem_nil, or_false] at hkv
  rcases hkv with rfl | rfl
  · exact ⟨⟨by decide, by decide⟩, ⟨⟨'i', ['d'], by decide, by decide⟩, by decide, by decide⟩, by decide⟩
  · exact ⟨⟨by decide, by decide⟩, ⟨⟨'s', "ize".toList, by decide, by decide⟩, by decide, by decide⟩, by decide⟩
example : HeaderDocFor exI.headers exHdoc := by
  refine Or.inr ⟨[], [(("X-Env".toList, "test".toList), [])], [], [], ?_, ?_, ?_, by decide, by decide, by decide⟩
  · intro c hc; cases hc
  · refine ⟨by decide, ?_, ?_, ?_⟩
    · intro g hg
      simp only [List.mem_singleton] at hg; subst hg
      exact ⟨⟨by decide, by decide⟩, ⟨⟨'t', "est".toList, by decide, by decide⟩, by decide, by decide⟩, by intro c hc; cases hc⟩
    · intro g hg; simp only [List.mem_singleton] at hg; subst hg; intro c hc; cases hc
    · intro g hg; simp only [List.getLast?_singleton, Option.some.injEq] at hg; subst hg; exact Or.inl rfl
  · intro l hl; cases hl

end ShootVerif.Rest
