import ShootVerif.Proofs.RestSend
import ShootVerif.Proofs.RestParse
/-!
C06 — rest: each call sends exactly the request its directive describes.

Model: Model/Rest.lean (recognisers, classification, `send`); property: Spec/Rest.lean.
-/
namespace ShootVerif.Rest

/-- headline: reading back a rendered request directive. For each of the five verbs in ANY spelling
    `vt` (upper, lower, mixed case), quoted or not, with any tail of non-word characters after `)`
    (`;`, blanks), for every non-empty path without `"` and newline (and, when unquoted, without
    blanks at its ends), followed by any further doc lines:
    `parsePath` returns the verb, exactly the path, and its placeholders -/
theorem C06_parse_roundtrip (v : Verb) (vt p tail rest : List Char) (quoted : Bool)
    (hsp : vt.map lowerC = v.lowerChars) (hal : ∀ c ∈ vt, isAlpha c = true)
    (htail : ∀ c ∈ tail, isWord c = false ∧ c ≠ ')' ∧ c ≠ '\n')
    (hne : p ≠ []) (hq : noQuote p) (hnl : ∀ c ∈ p, c ≠ '\n')
    (htrim : quoted = false → trimSpace p = p) :
    parsePath (renderReq vt quoted p tail ++ '\n' :: rest) = .ok ⟨v, p, placeholders p⟩ := by
  have hline : ∀ c ∈ renderReq vt quoted p tail, c ≠ '\n' := by
    intro c hc
    simp only [renderReq, List.mem_append, List.mem_singleton] at hc
    rcases hc with ((((hc | hc) | hc) | hc) | hc) | hc
    · rcases hc with hc | hc
      · simp only [shootColon, List.mem_cons, List.not_mem_nil, or_false] at hc
        rcases hc with h | h | h | h | h | h <;> subst h <;> decide
      · subst hc; decide
    · intro e; subst e
      have := hal _ hc
      simp [isAlpha] at this
    · subst hc; decide
    · cases quoted with
      | false => exact hnl c (by simpa using hc)
      | true =>
        simp only [↓reduceIte, List.mem_cons, List.mem_append, List.not_mem_nil, or_false] at hc
        rcases hc with h | h | h
        · subst h; decide
        · exact hnl c h
        · subst h; decide
    · subst hc; decide
    · exact (htail c hc).2.2
  unfold parsePath
  rw [splitLines_line _ _ hline]
  have hm : matchReqLine (renderReq vt quoted p tail)
      = some (v, if quoted then '"' :: (p ++ ['"']) else p) :=
    matchReqLine_render v vt _ tail hsp hal (fun c hc => ⟨(htail c hc).1, (htail c hc).2.1⟩)
  simp only [firstSome, hm]
  cases quoted with
  | true =>
    simp only [↓reduceIte, trimSpace_quoted, pathFormatOk_quoted p hne hq, trimQuotes_quoted p hne hq]
  | false =>
    simp only [Bool.false_eq_true, ↓reduceIte, htrim rfl, pathFormatOk_plain p hne hq, trimQuotes_plain p hq]

/-- the placeholders are exactly the `{name}` tokens and cutting the path into tokens loses nothing -/
theorem C06_tokens_lossless (p : List Char) : renderToks (tokenize p) = p := renderToks_tokenize p

/-- headline: the header set of a generated method. For every verb and every interface-level header
    list: the value under a key is the directive's (last) value for it, else the verb's default; and no
    key occurs twice (each header is `Add`ed once) -/
theorem C06_headers (hs : List (String × String)) (v : Verb) :
    (∀ k, getKV (headersFor hs v) k = specHeader hs v k) ∧ (keysOf (headersFor hs v)).Nodup := by
  constructor
  · intro k
    rw [headersFor, getKV_setAll, specHeader, lastOfKey]
    cases List.find? (fun kv => decide (kv.1 = k)) hs.reverse <;> rfl
  · apply keysOf_setAll_nodup
    cases v <;> decide

/-!
## The request of one call

Setting of the theorems below: a method `m` as the user meant it (`MethodSpec`), the tables `c`, `d`,
`subs` the generator cooks for it once its directives are parsed to that meaning (`CookedFor`: the
code path `cookParsed` = reversMap, handleExpr on every parameter, the `$key`/`$alias` lookups of the
template), the plan the template sees (`planOf`, for any interface headers `hs`), and argument values
`args`. `MethodOK m` and `ArgsOK m args` are the clauses of region `WF` (C06_wf_methodOK / C06_wf_argsOK
derive them from the decidable region predicate the driver prints).
-/

/-- the whole property for one call: exactly one request, and it is the one the directive describes -/
theorem C06_request (hs : List (String × String)) (anyCtx : Bool) (m : MethodSpec)
    (c : Cooked) (d : PathDir) (subs : List PathSub) (args : Args)
    (ok : MethodOK m) (aok : ArgsOK m args) (h : CookedFor m c d subs) :
    ∃ r, send (planOf hs anyCtx m.name c d subs) args = .sent r ∧
      r.verb = m.verb.upper ∧ r.path = specPath m args ∧ r.query.getD [] = specQuery m args ∧
      r.body = specBody m ∧ (∀ k, getKV r.headers k = specHeader hs m.verb k) ∧ r.ctx = specCtx m args := by
  obtain ⟨r, h1, h2, h3, h4, h5, h6, h7⟩ := send_eq_spec hs anyCtx m c d subs args ok aok h
  exact ⟨r, h1, h2, h3, h4, h5, fun k => by rw [h6]; exact (C06_headers hs m.verb).1 k, h7⟩

/-- headline: GET/DELETE — the query handed to `Encode` holds exactly the non-path scalar arguments,
    the struct fields and the map entries, under alias-or-name, nil pointers omitted, a key set twice
    keeping the later value; for every parameter list and every argument vector of region WF -/
theorem C06_query (hs : List (String × String)) (anyCtx : Bool) (m : MethodSpec)
    (c : Cooked) (d : PathDir) (subs : List PathSub) (args : Args)
    (ok : MethodOK m) (aok : ArgsOK m args) (h : CookedFor m c d subs) (hv : m.verb.hasBody = false) :
    ∃ r, send (planOf hs anyCtx m.name c d subs) args = .sent r ∧
      r.query.getD [] = setAll [] (plainBindings m args m.params ++ dictBindings args m.params) ∧
      r.body = none := by
  obtain ⟨r, h1, _, _, h4, h5, _, _⟩ := send_eq_spec hs anyCtx m c d subs args ok aok h
  refine ⟨r, h1, ?_, ?_⟩
  · rw [h4]; simp [specQuery, hv]
  · rw [h5]; simp [specBody, hv]

/-- every `{name}` of the path is replaced by the text of the argument it stands for (through the
    alias directive), all other characters of the path are kept -/
theorem C06_placeholders (hs : List (String × String)) (anyCtx : Bool) (m : MethodSpec)
    (c : Cooked) (d : PathDir) (subs : List PathSub) (args : Args)
    (ok : MethodOK m) (aok : ArgsOK m args) (h : CookedFor m c d subs) :
    ∃ r, send (planOf hs anyCtx m.name c d subs) args = .sent r ∧
      r.path = fill (fun n => argText args (resolve m (String.ofList n))) (tokenize m.path) := by
  obtain ⟨r, h1, _, h3, _⟩ := send_eq_spec hs anyCtx m c d subs args ok aok h
  exact ⟨r, h1, by rw [h3]; rfl⟩

/-- POST/PUT/PATCH: the body is `json.Marshal` of the struct argument and no query is written -/
theorem C06_body (hs : List (String × String)) (anyCtx : Bool) (m : MethodSpec)
    (c : Cooked) (d : PathDir) (subs : List PathSub) (args : Args)
    (ok : MethodOK m) (aok : ArgsOK m args) (h : CookedFor m c d subs) (hv : m.verb.hasBody = true) :
    ∃ r, send (planOf hs anyCtx m.name c d subs) args = .sent r ∧
      r.body = (m.params.find? isStructParam).map (·.name) ∧ r.query.getD [] = [] := by
  obtain ⟨r, h1, _, _, h4, h5, _, _⟩ := send_eq_spec hs anyCtx m c d subs args ok aok h
  refine ⟨r, h1, ?_, ?_⟩
  · rw [h5]; simp [specBody, hv]
  · rw [h4]; simp [specQuery, hv]

/-- the context attached to the request is the caller's (the method's context argument), and the
    background context when the method has no context parameter -/
theorem C06_ctx (hs : List (String × String)) (anyCtx : Bool) (m : MethodSpec)
    (c : Cooked) (d : PathDir) (subs : List PathSub) (args : Args)
    (ok : MethodOK m) (aok : ArgsOK m args) (h : CookedFor m c d subs) :
    ∃ r, send (planOf hs anyCtx m.name c d subs) args = .sent r ∧ r.ctx = specCtx m args := by
  obtain ⟨r, h1, _, _, _, _, _, h7⟩ := send_eq_spec hs anyCtx m c d subs args ok aok h
  exact ⟨r, h1, h7⟩

/-- exactly one request per call — for EVERY plan and EVERY argument vector the emitted method either
    reaches its single `c.client.Do(req_)` or panics, and it panics only while evaluating a query
    statement that reads a field through a nil struct pointer -/
theorem C06_one_request (pl : Plan) (args : Args) :
    (∃ r, send pl args = .sent r) ∨
    (send pl args = .panic ∧ pl.verb.hasBody = false ∧ runQueryOps args pl.queryOps = none) := by
  unfold send
  simp only
  by_cases h1 : (pl.verb.hasBody || (pl.queryOps.isEmpty && pl.dict.isNone)) = true
  · simp only [h1, ↓reduceIte]; exact Or.inl ⟨_, rfl⟩
  · simp only [h1, Bool.false_eq_true, ↓reduceIte]
    cases hr : runQueryOps args pl.queryOps with
    | some sets => exact Or.inl ⟨_, rfl⟩
    | none =>
      refine Or.inr ⟨rfl, ?_, rfl⟩
      cases hb : pl.verb.hasBody with
      | false => rfl
      | true => simp [hb] at h1

/-! ## From the decidable region predicate to the hypotheses above -/

theorem noBrace_of_contains (s : List Char) (h : s.contains '{' = false) : noBrace s := by
  intro c hc e
  subst e
  have : s.contains '{' = true := by simpa using hc
  rw [h] at this; cases this

theorem region_wf (i : IfaceSpec) (calls : List Call) (h : region i calls = "WF") :
    structOk i = true ∧ F_mixedCtx i = false ∧ F_bodyNoStruct i = false ∧ F_ptrDict i = false ∧
    F_twoDicts i = false ∧ F_qualScalar i = false ∧ F_nilStructDeref i calls = false ∧
    F_pathArgBrace i calls = false := by
  unfold region at h
  cases h0 : structOk i <;> simp only [h0, Bool.not_false, Bool.not_true, Bool.false_eq_true, ↓reduceIte] at h
  · exact absurd h (by decide)
  cases h1 : F_mixedCtx i <;> simp only [h1, Bool.false_eq_true, ↓reduceIte] at h
  case true => exact absurd h (by decide)
  cases h2 : F_bodyNoStruct i <;> simp only [h2, Bool.false_eq_true, ↓reduceIte] at h
  case true => exact absurd h (by decide)
  cases h3 : F_ptrDict i <;> simp only [h3, Bool.false_eq_true, ↓reduceIte] at h
  case true => exact absurd h (by decide)
  cases h4 : F_twoDicts i <;> simp only [h4, Bool.false_eq_true, ↓reduceIte] at h
  case true => exact absurd h (by decide)
  cases h5 : F_qualScalar i <;> simp only [h5, Bool.false_eq_true, ↓reduceIte] at h
  case true => exact absurd h (by decide)
  cases h6 : F_nilStructDeref i calls <;> simp only [h6, Bool.false_eq_true, ↓reduceIte] at h
  case true => exact absurd h (by decide)
  cases h7 : F_pathArgBrace i calls <;> simp only [h7, Bool.false_eq_true, ↓reduceIte] at h
  case true => exact absurd h (by decide)
  exact ⟨rfl, rfl, rfl, rfl, rfl, rfl, rfl, rfl⟩

/-- every method of an interface the driver puts in region WF satisfies `MethodOK` -/
theorem C06_wf_methodOK (i : IfaceSpec) (calls : List Call) (h : region i calls = "WF")
    (m : MethodSpec) (hm : m ∈ i.methods) : MethodOK m := by
  obtain ⟨hs, _, _, _, htwo, hqual, _, _⟩ := region_wf i calls h
  simp only [structOk, Bool.and_eq_true, List.all_eq_true] at hs
  have hmo := hs.1.1 m hm
  simp only [methodStructOk, Bool.and_eq_true, distinct, decide_eq_true_eq, List.all_eq_true,
    Bool.not_eq_true', bne_iff_ne, ne_eq] at hmo
  obtain ⟨⟨⟨⟨⟨⟨⟨⟨⟨⟨⟨hnames, hctx⟩, _⟩, _⟩, hak⟩, _⟩, _⟩, hav⟩, hclean⟩, hph⟩, hfields⟩, hqb⟩ := hmo
  refine ⟨hnames, hctx, hak, ?_, ?_, ?_, ?_, ?_, ?_, ?_⟩
  · intro kv hkv; simpa using hav kv hkv
  · -- pathClean gives token cleanliness
    simp only [pathClean, Bool.and_eq_true, List.all_eq_true] at hclean
    intro t ht
    have := hclean.2 t ht
    cases t with
    | lit c => simpa using this
    | ph n => trivial
  · intro n hn
    have := hph n hn
    simp only [placeholderOk, Bool.and_eq_true] at this
    exact this.1
  · intro p hp; exact (hfields p hp).1
  · intro p hp f hf; simpa using (hfields p hp).2 f hf
  · intro p hp hk
    cases hv : m.verb.hasBody with
    | true =>
      have : m.params.any isQualOther = true := by
        rw [List.any_eq_true]; exact ⟨p, hp, by simp [isQualOther, hk]⟩
      simp [hv, this] at hqb
    | false =>
      have : F_qualScalar i = true := by
        simp only [F_qualScalar, List.any_eq_true, Bool.and_eq_true, Bool.not_eq_true']
        exact ⟨m, hm, hv, p, hp, by simp [isQualOther, hk]⟩
      rw [hqual] at this; cases this
  · intro hv
    cases hl : decide ((m.params.filter isDictParam).length ≥ 2) with
    | false => simp only [decide_eq_false_iff_not] at hl; omega
    | true =>
      have : F_twoDicts i = true := by
        simp only [F_twoDicts, List.any_eq_true, Bool.and_eq_true, Bool.not_eq_true']
        exact ⟨m, hm, hv, hl⟩
      rw [htwo] at this; cases this

/-- every call of such an interface satisfies `ArgsOK` -/
theorem C06_wf_argsOK (i : IfaceSpec) (calls : List Call) (h : region i calls = "WF")
    (cl : Call) (hc : cl ∈ calls) (m : MethodSpec) (hm : findMethod i cl.method = some m) :
    ArgsOK m cl.args := by
  obtain ⟨_, _, _, _, _, _, hnil, hbr⟩ := region_wf i calls h
  constructor
  · intro hv p hp hsp hfs v ha
    have : F_nilStructDeref i calls = true := by
      simp only [F_nilStructDeref, List.any_eq_true]
      refine ⟨cl, hc, ?_⟩
      simp only [hm, hv, Bool.not_false, Bool.true_and, List.any_eq_true, Bool.and_eq_true]
      refine ⟨p, hp, ⟨hsp, ?_⟩, ?_⟩
      · cases hf : fieldsOf p with
        | nil => exact absurd hf hfs
        | cons a as => rfl
      · simp [ha]
    rw [hnil] at this; cases this
  · intro n hn
    apply noBrace_of_contains
    cases hcn : (argText cl.args (resolve m (String.ofList n))).contains '{' with
    | false => rfl
    | true =>
      have : F_pathArgBrace i calls = true := by
        simp only [F_pathArgBrace, List.any_eq_true]
        exact ⟨cl, hc, by simp only [hm, List.any_eq_true]; exact ⟨n, hn, hcn⟩⟩
      rw [hbr] at this; cases this

/-! non-vacuity -/
example : parsePath ("shoot: Get(\"/users/{id}\")\nshoot: alias={userID:id}\n".toList)
    = .ok ⟨.get, "/users/{id}".toList, ["id".toList]⟩ := by decide
example : parsePath ("shoot: pAtCh(/a b/{x}/{y_1}) ; \n".toList)
    = .ok ⟨.patch, "/a b/{x}/{y_1}".toList, ["x".toList, "y_1".toList]⟩ := by decide
example : getKV (headersFor [("Accept", "text/plain"), ("X-A", "1"), ("Accept", "text/xml")] .post) "Accept" = some "text/xml" := by decide

end ShootVerif.Rest
