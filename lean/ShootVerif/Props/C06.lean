import ShootVerif.Proofs.Rest
import ShootVerif.Proofs.RestParse
/-!
C06 — rest: each call sends exactly the request its directive describes.

Model: Model/Rest.lean (recognisers, classification, `send`); property: Spec/Rest.lean.
-/
namespace ShootVerif.Rest

/-- headline: reading back a rendered request directive. For each of the five verbs in ANY spelling
    `vt` (upper, lower, mixed case), quoted or not, with any tail of non-word characters after `)`
    (`;`, blanks), for every non-empty path without `"` and newline (and, when unquoted, without
    blanks at its ends), followed by any further doc lines:
    `parsePath` returns the verb, exactly the path, and its placeholders -/
theorem C06_parse_roundtrip (v : Verb) (vt p tail rest : List Char) (quoted : Bool)
    (hsp : vt.map lowerC = v.lowerChars) (hal : ∀ c ∈ vt, isAlpha c = true)
    (htail : ∀ c ∈ tail, isWord c = false ∧ c ≠ ')' ∧ c ≠ '\n')
    (hne : p ≠ []) (hq : noQuote p) (hnl : ∀ c ∈ p, c ≠ '\n')
    (htrim : quoted = false → trimSpace p = p) :
    parsePath (renderReq vt quoted p tail ++ '\n' :: rest) = .ok ⟨v, p, placeholders p⟩ := by
  have hline : ∀ c ∈ renderReq vt quoted p tail, c ≠ '\n' := by
    intro c hc
    simp only [renderReq, List.mem_append, List.mem_singleton] at hc
    rcases hc with ((((hc | hc) | hc) | hc) | hc) | hc
    · rcases hc with hc | hc
      · simp only [shootColon, List.mem_cons, List.not_mem_nil, or_false] at hc
        rcases hc with h | h | h | h | h | h <;> subst h <;> decide
      · subst hc; decide
    · intro e; subst e
      have := hal _ hc
      simp [isAlpha] at this
    · subst hc; decide
    · cases quoted with
      | false => exact hnl c (by simpa using hc)
      | true =>
        simp only [↓reduceIte, List.mem_cons, List.mem_append, List.not_mem_nil, or_false] at hc
        rcases hc with h | h | h
        · subst h; decide
        · exact hnl c h
        · subst h; decide
    · subst hc; decide
    · exact (htail c hc).2.2
  unfold parsePath
  rw [splitLines_line _ _ hline]
  have hm : matchReqLine (renderReq vt quoted p tail)
      = some (v, if quoted then '"' :: (p ++ ['"']) else p) :=
    matchReqLine_render v vt _ tail hsp hal (fun c hc => ⟨(htail c hc).1, (htail c hc).2.1⟩)
  simp only [firstSome, hm]
  cases quoted with
  | true =>
    simp only [↓reduceIte, trimSpace_quoted, pathFormatOk_quoted p hne hq, trimQuotes_quoted p hne hq]
  | false =>
    simp only [Bool.false_eq_true, ↓reduceIte, htrim rfl, pathFormatOk_plain p hne hq, trimQuotes_plain p hq]

/-- the placeholders are exactly the `{name}` tokens and cutting the path into tokens loses nothing -/
theorem C06_tokens_lossless (p : List Char) : renderToks (tokenize p) = p := renderToks_tokenize p

/-- headline: the header set of a generated method. For every verb and every interface-level header
    list: the value under a key is the directive's (last) value for it, else the verb's default; and no
    key occurs twice (each header is `Add`ed once) -/
theorem C06_headers (hs : List (String × String)) (v : Verb) :
    (∀ k, getKV (headersFor hs v) k = specHeader hs v k) ∧ (keysOf (headersFor hs v)).Nodup := by
  constructor
  · intro k
    rw [headersFor, getKV_setAll, specHeader, lastOfKey]
    cases List.find? (fun kv => decide (kv.1 = k)) hs.reverse <;> rfl
  · apply keysOf_setAll_nodup
    cases v <;> decide

/-! non-vacuity -/
example : parsePath ("shoot: Get(\"/users/{id}\")\nshoot: alias={userID:id}\n".toList)
    = .ok ⟨.get, "/users/{id}".toList, ["id".toList]⟩ := by decide
example : parsePath ("shoot: pAtCh(/a b/{x}/{y_1}) ; \n".toList)
    = .ok ⟨.patch, "/a b/{x}/{y_1}".toList, ["x".toList, "y_1".toList]⟩ := by decide
example : getKV (headersFor [("Accept", "text/plain"), ("X-A", "1"), ("Accept", "text/xml")] .post) "Accept" = some "text/xml" := by decide

end ShootVerif.Rest
