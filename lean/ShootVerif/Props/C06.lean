import ShootVerif.Spec.Rest
namespace ShootVerif.Rest
theorem C06_stub : tokenize "/a/{id}".toList = [.lit '/', .lit 'a', .lit '/', .ph "id".toList] := by decide
end ShootVerif.Rest
