import ShootVerif.Proofs.Fs
import ShootVerif.Proofs.Recog
import ShootVerif.Proofs.Cli
import ShootVerif.Gen.Facts
/-!
C17 — writes are confined, atomic and never delete hand-written files.

File-system model: Model/Fs.lean (paths ↦ inodes ↦ bytes; createTempExcl / write / close / rename / remove).
`runOps xs rms` is the op sequence of a run: one transaction (temp file in the target's directory, arbitrary
chunking of the content, close, rename) per output, then Clean's removals. A crash is ANY prefix
`(runOps xs rms).take k`; a reader opens a path at one prefix and reads the inode at a later one.

All theorems hold for every initial state, every list of transactions, every chunking, every k.
Side conditions: `Inv s` (inodes in use are below the allocation counter), `freshTemps s xs` (the temp paths are new
names, pairwise distinct, distinct from the targets: what O_EXCL plus the random suffix provide).
Assumed, not proved: rename(2) replaces a directory entry atomically; O_EXCL creation yields a fresh inode
(the `step` function says so).
-/
set_option linter.unusedSimpArgs false
set_option linter.unusedVariables false
namespace ShootVerif.Fs
open ShootVerif.Cli (Cmd)

/-- headline: at every crash point every target holds its complete old content or the complete new content
    (of a transaction writing to it); never anything else -/
theorem C17_atomic (s : State) (xs : List Txn) (rms : List Path) (k : Nat) (hinv : Inv s) (hfresh : freshTemps s xs)
    (x : Txn) (hx : x ∈ xs) (hrm : x.target ∉ rms) :
    read (exec s ((runOps xs rms).take k)) x.target = read s x.target ∨
      ∃ y ∈ xs, y.target = x.target ∧ read (exec s ((runOps xs rms).take k)) x.target = some y.content := by
  have hnt : x.target ∉ tmps xs := by
    intro h
    simp only [tmps, List.mem_map] at h
    obtain ⟨y, hy, hyt⟩ := h
    exact hfresh.2.2 y hy x hx hyt
  rcases run_read xs s rms k x.target hinv hfresh hnt with h | h | ⟨h, _⟩
  · exact Or.inl h
  · exact Or.inr h
  · exact absurd h hrm

/-- with distinct targets the new content is the one of the transaction itself -/
theorem C17_atomic_distinct (s : State) (xs : List Txn) (rms : List Path) (k : Nat) (hinv : Inv s) (hfresh : freshTemps s xs)
    (hd : (targets xs).Nodup) (x : Txn) (hx : x ∈ xs) (hrm : x.target ∉ rms) :
    read (exec s ((runOps xs rms).take k)) x.target = read s x.target ∨
      read (exec s ((runOps xs rms).take k)) x.target = some x.content := by
  rcases C17_atomic s xs rms k hinv hfresh x hx hrm with h | ⟨y, hy, hyt, hr⟩
  · exact Or.inl h
  · right
    -- two transactions of a duplicate-free target list with the same target are the same list position
    have key : ∀ (l : List Txn), (l.map (·.target)).Nodup → ∀ a ∈ l, ∀ b ∈ l, a.target = b.target → a.content = b.content := by
      intro l
      induction l with
      | nil => intro _ a ha; cases ha
      | cons c r ih =>
        intro hnd a ha b hb hab
        simp only [List.map_cons, List.nodup_cons] at hnd
        rcases List.mem_cons.mp ha with rfl | har <;> rcases List.mem_cons.mp hb with rfl | hbr
        · rfl
        · exact absurd (hab ▸ List.mem_map_of_mem (f := (·.target)) hbr) hnd.1
        · exact absurd (hab ▸ List.mem_map_of_mem (f := (·.target)) har) hnd.1
        · exact ih hnd.2 a har b hbr hab
    rw [hr, key xs hd y hy x hx hyt]

/-- every other file of the directory — hand-written sources, look-alike names Clean does not remove, hard links —
    keeps its content at every crash point and at the end -/
theorem C17_frame (s : State) (xs : List Txn) (rms : List Path) (k : Nat) (hinv : Inv s) (hfresh : freshTemps s xs)
    (n : Path) (h1 : n ∉ tmps xs) (h2 : n ∉ targets xs) (h3 : n ∉ rms) :
    read (exec s ((runOps xs rms).take k)) n = read s n := by
  rcases run_read xs s rms k n hinv hfresh h1 with h | ⟨y, hy, hyt, _⟩ | ⟨h, _⟩
  · exact h
  · exact absurd (hyt ▸ List.mem_map_of_mem (f := (·.target)) hy) h2
  · exact absurd h h3

/-- rename(2) replaces the directory ENTRY, it never follows it: when an output name pre-exists as a symbolic link (or a hard
    link), the path the link points to — inside the package directory, outside it, anywhere — is just another path `n` and just
    another inode `i` of the directory tree: its content is the same at every crash point and at the end, and its inode is never
    written. (In the model a symbolic link is an inode of its own whose bytes are the link text; `step (.rename a b)` re-binds `b`
    and touches nothing else.) -/
theorem C17_link_target_untouched (s : State) (xs : List Txn) (rms : List Path) (k : Nat) (hinv : Inv s) (hfd : s.fd = none)
    (hfresh : freshTemps s xs) (n : Path) (h1 : n ∉ tmps xs) (h2 : n ∉ targets xs) (h3 : n ∉ rms) (i : Nat) (hi : i < s.next) :
    read (exec s ((runOps xs rms).take k)) n = read s n ∧ (exec s ((runOps xs rms).take k)).data i = s.data i :=
  ⟨C17_frame s xs rms k hinv hfresh n h1 h2 h3, data_stable _ s i hi (by simp [hfd]) (by simp [hfd])⟩

/-- an inode that existed before the run is never written, whatever ops follow (O_EXCL gives every write a fresh
    inode): a hard link to an old output keeps the old content, and so does any file -/
theorem C17_hardlink (s : State) (ops : List Op) (i : Nat) (hi : i < s.next) (hfd : s.fd = none) :
    (exec s ops).data i = s.data i :=
  data_stable ops s i hi (by simp [hfd]) (by simp [hfd])

/-- a concurrent reader: it opens the (non-temp) path `n` at crash point k1 and reads at any later point k2.
    What it reads does not change after the open, and it is the complete old content or the complete new content -/
theorem C17_reader (s : State) (xs : List Txn) (rms : List Path) (k1 k2 : Nat) (hle : k1 ≤ k2)
    (hinv : Inv s) (hfd : s.fd = none) (hfresh : freshTemps s xs) (n : Path) (hn : n ∉ tmps xs) (i : Nat)
    (hopen : (exec s ((runOps xs rms).take k1)).dir n = some i) :
    (exec s ((runOps xs rms).take k2)).data i = (exec s ((runOps xs rms).take k1)).data i ∧
    (some ((exec s ((runOps xs rms).take k1)).data i) = read s n ∨
      ∃ x ∈ xs, x.target = n ∧ (exec s ((runOps xs rms).take k1)).data i = x.content) := by
  have hg := good_prefix xs s rms k1 (tmps xs) hinv hfd hfresh (fun t ht => ht)
  obtain ⟨g1, g2, g3⟩ := hg
  constructor
  · have hsplit : (runOps xs rms).take k2 = (runOps xs rms).take k1 ++ ((runOps xs rms).take k2).drop k1 := by
      have := List.take_append_drop k1 ((runOps xs rms).take k2)
      rw [List.take_take, Nat.min_eq_left hle] at this
      exact this.symm
    rw [hsplit, exec_append]
    apply data_stable
    · exact g1 n i hopen
    · intro hf; exact hn (g3 n i hopen hf)
    · exact g2
  · have hr : read (exec s ((runOps xs rms).take k1)) n = some ((exec s ((runOps xs rms).take k1)).data i) := by
      simp [read, hopen]
    rcases run_read xs s rms k1 n hinv hfresh hn with h | ⟨x, hx, hxt, hxr⟩ | ⟨_, h⟩
    · left; rw [← hr, h]
    · right; refine ⟨x, hx, hxt, ?_⟩
      rw [hr] at hxr; exact Option.some.inj hxr
    · rw [hr] at h; cases h

/-- I/O error while writing: notedownSrc closes the file and removes the temp file (then logx.Fatalf). Wherever that
    happens, the two extra ops change nothing but the temp entry, which is gone afterwards — so everything `C17_atomic`,
    `C17_frame` say about the crash prefix `k` still holds after the error exit. (A failed rename or a failed unlink
    stops the run AT a crash prefix: the crash theorems apply as they are; see `C17_no_temp_after_any_exit` for the temp files.) -/
theorem C17_write_error_cleanup (s : State) (ops : List Op) (t : Path) :
    (∀ n, n ≠ t → read (exec s (ops ++ [.close, .remove t])) n = read (exec s ops) n) ∧
    (exec s (ops ++ [.close, .remove t])).dir t = none := by
  rw [exec_append]
  simp only [exec, List.foldl, step]
  constructor
  · intro n hn
    simp [read, upd_other _ _ _ _ hn]
  · simp

/-- after EVERY run that terminates by itself — success, a failed os.CreateTemp, a failed Write (after any number of chunks),
    a failed os.Rename, a failed os.Remove inside Clean — the directory holds none of the run's temp files: neither those of the
    completed outputs nor the one of the output that failed -/
theorem C17_no_temp_after_any_exit (s : State) (xs : List Txn) (rms : List Path) (e : Ending)
    (hfresh : freshTemps s xs) (he : ∀ t ∈ e.tmp, t ∉ tmps xs) :
    ∀ t ∈ tmps xs ++ e.tmp, (exec s (selfRun xs rms e)).dir t = none := by
  intro t ht
  have hdone : ∀ t ∈ tmps xs, (exec s (txnsOps xs)).dir t = none := by
    intro t ht; rw [txnsOps_eq_runOps]; exact no_temp_left xs s [] hfresh t ht
  unfold selfRun
  rw [exec_append]
  cases e with
  | complete k =>
    simp only [Ending.tmp, List.append_nil] at ht
    exact exec_removes_dir_none _ _ t (hdone t ht)
  | createFailed =>
    simp only [Ending.tmp, List.append_nil] at ht
    simpa [endOps] using hdone t ht
  | writeFailed y j =>
    simp only [Ending.tmp, List.mem_append, List.mem_singleton] at ht
    have hrw : endOps rms (.writeFailed y j)
        = (.createTempExcl y.tmp :: ((y.chunks.take j).map .write ++ [.close])) ++ [.remove y.tmp] := by simp [endOps]
    rcases ht with ht | rfl
    · have hne : t ≠ y.tmp := fun h => he y.tmp (by simp [Ending.tmp]) (h ▸ ht)
      rw [dir_onlyAt y.tmp _ _ _ t hne]
      · exact hdone t ht
      · intro op hop
        simp only [endOps, List.mem_cons, List.mem_append, List.mem_map, List.mem_singleton] at hop
        rcases hop with rfl | ⟨c, _, rfl⟩ | rfl | rfl | h <;> first | trivial | rfl | cases h
    · rw [hrw]; exact dir_after_remove _ _ _
  | renameFailed y =>
    simp only [Ending.tmp, List.mem_append, List.mem_singleton] at ht
    have hrw : endOps rms (.renameFailed y)
        = (.createTempExcl y.tmp :: (y.chunks.map .write ++ [.close])) ++ [.remove y.tmp] := by simp [endOps]
    rcases ht with ht | rfl
    · have hne : t ≠ y.tmp := fun h => he y.tmp (by simp [Ending.tmp]) (h ▸ ht)
      rw [dir_onlyAt y.tmp _ _ _ t hne]
      · exact hdone t ht
      · intro op hop
        simp only [endOps, List.mem_cons, List.mem_append, List.mem_map, List.mem_singleton] at hop
        rcases hop with rfl | ⟨c, _, rfl⟩ | rfl | rfl | h <;> first | trivial | rfl | cases h
    · rw [hrw]; exact dir_after_remove _ _ _

/-- and a failing step leaves every entry but its own temp path as the completed outputs left it -/
theorem C17_failed_step_touches_only_temp (s : State) (xs : List Txn) (rms : List Path) (y : Txn) (j : Nat) (n : Path)
    (hn : n ≠ y.tmp) :
    (exec s (selfRun xs rms (.writeFailed y j))).dir n = (exec s (txnsOps xs)).dir n ∧
    (exec s (selfRun xs rms (.renameFailed y))).dir n = (exec s (txnsOps xs)).dir n := by
  unfold selfRun
  constructor <;>
  · rw [exec_append]
    apply dir_onlyAt y.tmp _ _ _ n hn
    intro op hop
    simp only [endOps, List.mem_cons, List.mem_append, List.mem_map, List.mem_singleton] at hop
    rcases hop with rfl | ⟨c, _, rfl⟩ | rfl | rfl | h <;> first | trivial | rfl | cases h

/-- on normal termination no temporary file is left -/
theorem C17_no_temp_left (s : State) (xs : List Txn) (rms : List Path) (hfresh : freshTemps s xs) :
    ∀ t ∈ tmps xs, (exec s (runOps xs rms)).dir t = none :=
  no_temp_left xs s rms hfresh

/-- which directory entries a run can create, replace or delete: outputs and their temp files, and glob matches —
    all of them in the package directory (`pkgPrefix`, the `[dir]` argument), whatever the current directory is -/
theorem C17_confined (c : Config) (op : Op) (h : op ∈ c.ops) :
    match op with
    | .createTempExcl t => ∃ o ∈ c.outs, t = c.pkgPrefix ++ tempName o.1 o.2.2
    | .rename a b => ∃ o ∈ c.outs, a = c.pkgPrefix ++ tempName o.1 o.2.2 ∧ b = c.pkgPrefix ++ o.1
    | .remove p => ∃ f ∈ c.listing, p = c.pkgPrefix ++ f.name ∧ globMatch c.cmd f.name = true
    | .write _ => True
    | .close => True := by
  have htx : ∀ (l : List Txn) (op : Op), op ∈ txnsOps l → ∃ x ∈ l, op ∈ txnOps x := by
    intro l
    induction l with
    | nil => intro op h; simp [txnsOps] at h
    | cons x r ih =>
      intro op h
      simp only [txnsOps, List.mem_append] at h
      rcases h with h | h
      · exact ⟨x, by simp, h⟩
      · obtain ⟨y, hy, hyo⟩ := ih op h
        exact ⟨y, by simp [hy], hyo⟩
  simp only [Config.ops, runOps, List.mem_append, List.mem_map] at h
  rcases h with h | ⟨p, hp, rfl⟩
  · obtain ⟨x, hx, hxo⟩ := htx _ op h
    simp only [Config.txns, List.mem_map] at hx
    obtain ⟨o, ho, rfl⟩ := hx
    simp only [txnOps, List.mem_cons, List.mem_append, List.mem_map, List.mem_singleton] at hxo
    rcases hxo with rfl | ⟨c', _, rfl⟩ | rfl | rfl | hnil
    · exact ⟨o, ho, rfl⟩
    · trivial
    · trivial
    · exact ⟨o, ho, rfl, rfl⟩
    · cases hnil
  · simp only [Config.clean, List.mem_map] at hp
    obtain ⟨n, hn, rfl⟩ := hp
    simp only [Config.cleanNames] at hn
    split at hn
    · obtain ⟨f, hf, hfn, hfg, _⟩ := cleanLoop_removable c.cmd c.genfile c.listing n hn
      exact ⟨f, hf, by rw [hfn], hfg⟩
    · simp at hn

/-- headline: Clean removes a file only if its first line says it was generated by the same sub-command and it is not
    an all-in-one file — for EVERY directory listing (hand-written look-alikes, files of other sub-commands and files
    without a newline included) -/
theorem C17_clean_only_generated (c : Config) :
    (∀ p ∈ c.clean, ∃ f ∈ c.listing, p = c.pkgPrefix ++ f.name ∧ removable c.cmd f = true) ∧ badRemoved c = [] := by
  have hrem : ∀ n ∈ c.cleanNames, ∃ f ∈ c.listing, f.name = n ∧ removable c.cmd f = true := by
    intro n hn
    simp only [Config.cleanNames] at hn
    split at hn
    · obtain ⟨f, hf, hfn, _, hfr⟩ := cleanLoop_removable c.cmd c.genfile c.listing n hn
      exact ⟨f, hf, hfn, hfr⟩
    · simp at hn
  constructor
  · intro p hp
    simp only [Config.clean, List.mem_map] at hp
    obtain ⟨n, hn, rfl⟩ := hp
    obtain ⟨f, hf, hfn, hfr⟩ := hrem n hn
    exact ⟨f, hf, by rw [hfn], hfr⟩
  · simp only [badRemoved, List.filter_eq_nil_iff, Bool.not_eq_true', Bool.not_eq_false, List.any_eq_true,
      Bool.and_eq_true, beq_iff_eq]
    intro n hn
    obtain ⟨f, hf, hfn, hfr⟩ := hrem n hn
    exact ⟨f, hf, hfn, hfr⟩

/-- per-type runs (`-type=A`, `-sep`) and runs without a matching go:generate line never remove anything -/
theorem C17_clean_inactive (c : Config) (h : (c.cleanActive && !c.outs.isEmpty) = false) : c.clean = [] := by
  simp [Config.clean, Config.cleanNames, h]

/-- the clean-up removes something only when THIS run regenerates the whole package into the all-in-one file: the command line
    is `-type=*` without `-file` and without `-sep` (`cleanActiveWith` is the driver model's `!Separate && allInOneFile != ""`).
    With `C17_clean_only_generated`: a removed file carries this sub-command's per-type header, so each of its declarations belongs
    to a type this run has just regenerated (or to one that no longer exists). `-file=f.go -type=*`, `-type=* -sep`, `-type=A,B`
    and every `-file` run remove nothing. -/
theorem C17_clean_only_superseded (fl : ShootVerif.Cli.Flags) (aiofile : String) (c : Config)
    (hc : c.cleanActive = ShootVerif.Cli.cleanActiveWith fl aiofile) (hrm : c.clean ≠ []) :
    ShootVerif.Cli.mode fl = some (.star false) := by
  apply ShootVerif.Cli.cleanActive_star fl aiofile
  rw [← hc]
  cases hca : c.cleanActive with
  | true => rfl
  | false => exact absurd (C17_clean_inactive c (by simp [hca])) hrm

/-! ### the clean-up follows the last rename; it judges a file by its first line -/

/-- model: at every crash point (and at the end) at which an entry that existed before the run and is neither an output nor a
    temp file is GONE, the whole write phase has been carried out - the op prefix is every output's complete transaction followed
    by some of the removals. A superseded file is never removed while the file that supersedes it is not in place -/
theorem C17_clean_follows_writes (s : State) (xs : List Txn) (rms : List Path) (k : Nat) (hinv : Inv s) (hfresh : freshTemps s xs)
    (p : Path) (hp1 : p ∉ tmps xs) (hp2 : p ∉ targets xs) (hex : s.dir p ≠ none)
    (hgone : (exec s ((runOps xs rms).take k)).dir p = none) :
    ∃ j, (runOps xs rms).take k = txnsOps xs ++ (rms.take j).map .remove :=
  clean_follows_writes s xs rms k hinv hfresh p hp1 hp2 hex hgone

/-- source (regenerated on every run): in main.main the one call of Clean stands after the write loop and outside any loop, no
    notedownSrc follows it, and neither function is called from anywhere else - the order `runOps` models -/
def cleanAfterWrites (l : List (String × Bool)) : Bool :=
  match l.dropWhile (fun p => p.1 != "Clean") with
  | [] => true
  | c :: rest => !c.2 && rest.all (fun p => p.1 != "notedownSrc")

theorem C17_clean_call_follows_write_loop :
    cleanAfterWrites Facts.mainPhases = true ∧ (Facts.mainPhases.filter (·.1 == "Clean")).length = 1 ∧
    Facts.phaseCallSites = [("main", "main", "Clean"), ("main", "main", "notedownSrc")] := by decide

/-- a file is removed only if its CONTENT starts with this sub-command's header prefix - for every directory and every file
    content: whatever stands on later lines (a header quoted in a comment, in a raw string, behind a licence block) plays no role -/
theorem C17_clean_content_header (cmd : Cmd) (gf : String) (files : List (String × String)) (n : String)
    (h : n ∈ cleanLoop cmd gf (files.map (fun p => FileInfo.ofContent p.1 p.2))) :
    ∃ p ∈ files, p.1 = n ∧ (genPrefix cmd).isPrefixOf p.2.toList = true :=
  clean_content_header cmd gf files n h

/-- the decision is a function of the first line alone: contents that agree up to the first newline are the same file to Clean -/
theorem C17_first_line_decides (name : String) (line rest1 rest2 : List Char) (h : '\n' ∉ line) :
    FileInfo.ofContent name (String.ofList (line ++ '\n' :: rest1)) = FileInfo.ofContent name (String.ofList (line ++ '\n' :: rest2)) :=
  clean_first_line_decides .new "" name line rest1 rest2 h

/-- source (regenerated on every run): the functions Clean reaches read file content in exactly one place - one ReadString in
    `firstLine`, outside any loop: the abstraction `FileInfo.firstLine` is what the code looks at -/
theorem C17_clean_reads_first_line_only : Facts.cleanReadSites = [("firstLine", "ReadString", false)] := by decide

example : (FileInfo.ofContent "user.shootnew_doc.go"
      "package p\n// Code generated by \"shoot new -type=User\"; DO NOT EDIT. (v0.7.0)\n").firstLine = "package p" := by decide

/-! ### formerly finding region F_glob_dir (repaired in /repo a3d970c): the `[dir]` argument is a literal path -/

/-- every path the clean-up removes is an entry OF the package directory, whatever characters the `[dir]` argument holds: Clean lists
    that one directory and matches the pattern against base names (glob metacharacters in the path - `/work/w?/mod/p` - used to make
    it delete the generated files of OTHER directories the pattern matched) -/
theorem C17_clean_removes_inside_pkgdir (c : Config) : removedInside c c.clean = true := by
  simp only [removedInside, Config.clean, List.all_eq_true, List.mem_map]
  rintro r ⟨n, _, rfl⟩
  rw [String.toList_append]
  exact List.isPrefixOf_iff_prefix.mpr (List.prefix_append _ _)

example :
    ({ cmd := .new, pkgPrefix := "w?/mod/p/", outs := [("a.shootnew.go", [[1]], "42")], cleanActive := true, genfile := "a.shootnew.go",
       listing := [ { name := "a.shootnew.user.go", firstLine := "// Code generated by \"shoot new -type=User\"; DO NOT EDIT. (v0.7.0)" } ] } : Config).clean
      = ["w?/mod/p/a.shootnew.user.go"] := by decide

/-! ### the recognisers Clean relies on, against declarative specifications (tied to filepath.Match / regexp by the
in-process differential of tools/props/c17.py through the verif hook `shoot.VerifClean`) -/

/-- the name filter is `*.shoot<cmd>*.go`: exactly the names `a ++ ".shoot<cmd>" ++ b ++ ".go"` -/
theorem C17_glob_spec (cmd : Cmd) (name : String) :
    globMatch cmd name = true ↔ ∃ a b, name.toList = a ++ (".shoot" ++ cmd.str).toList ++ b ++ dotGo :=
  globMatch_iff cmd name

/-- "generated by this sub-command": the first line is `// Code generated by "shoot <cmd> ` … `DO NOT EDIT` + one more character -/
theorem C17_genline_spec (cmd : Cmd) (l : String) :
    isGenLine cmd l = true ↔ ∃ y c z, l.toList = genPrefix cmd ++ y ++ dne ++ c :: z :=
  isGenLine_iff cmd l

/-- "all-in-one": `// Code generated by` … `-type=*` … `DO NOT EDIT` + one more character -/
theorem C17_aioline_spec (l : String) :
    isAIOLine l = true ↔ ∃ x y c z, l.toList = cgb ++ x ++ tyStar ++ y ++ dne ++ c :: z :=
  isAIOLine_iff l

/-! ### second tie: the op alphabet is complete -/

/-- call sites of file-mutating os functions the model accounts for, with the op each one is -/
def modelledCalls : List ((String × String × String) × String) :=
  [ (("main", "notedownSrc", "os.CreateTemp"), "createTempExcl"),
    (("main", "notedownSrc", "(*os.File).Write"), "write"),
    (("main", "notedownSrc", "(*os.File).Close"), "close"),
    (("main", "notedownSrc", "os.Rename"), "rename"),
    (("main", "notedownSrc", "os.Remove"), "remove (temp file, after a failed write or a failed rename: `Ending`)"),
    (("shoot", "Clean", "os.Remove"), "remove") ]

/-- every call of a file-mutating os function in cmd/ and internal/ (regenerated from the source on every run)
    is one of the modelled sites, and every modelled site still exists -/
theorem C17_ops_complete :
    Facts.fsCalls.all (fun c => modelledCalls.any (fun m => m.1 == c)) = true ∧
    modelledCalls.all (fun m => Facts.fsCalls.any (fun c => m.1 == c)) = true := by decide

/-! ### non-vacuity -/

def exState : State :=
  { dir := fun p => if p = "a.go" then some 0 else if p = "a.shootnew.go" then some 1 else if p = "link.go" then some 1 else none,
    data := fun i => if i = 0 then [1, 2] else if i = 1 then [7, 7, 7] else [], next := 2 }

def exTxn : Txn := { tmp := ".a.shootnew.go_1", target := "a.shootnew.go", chunks := [[8], [9, 9]] }

example : Inv exState := by
  intro p i h
  simp only [exState] at h ⊢
  split at h
  · cases h; omega
  · split at h
    · cases h; omega
    · split at h
      · cases h; omega
      · cases h

example : freshTemps exState [exTxn] := by
  refine ⟨?_, by simp [tmps], ?_⟩
  · intro x hx; simp at hx; subst hx; decide
  · intro x hx y hy; simp at hx hy; subst hx; subst hy; decide

/-- the hypotheses of `C17_clean_follows_writes`: an entry that exists before the run and is gone at the last crash point -/
example : exState.dir "link.go" ≠ none ∧ (exec exState ((runOps [exTxn] ["link.go"]).take 6)).dir "link.go" = none ∧
    "link.go" ∉ tmps [exTxn] ∧ "link.go" ∉ targets [exTxn] := by decide

/-- the hypothesis of `C17_clean_content_header`: a file given by its content that Clean removes -/
example : "b.shootnew.beta.go" ∈ cleanLoop .new "a.shootnew.go"
    ([("b.shootnew.beta.go", "// Code generated by \"shoot new -type=Beta\"; DO NOT EDIT. (v0.7.0)\n\npackage p\n")].map
      (fun p => FileInfo.ofContent p.1 p.2)) := by decide

/-- all five crash points of the example transaction, the hard link and the source file -/
example : (List.range 6).map (fun k =>
      let s := exec exState ((runOps [exTxn] []).take k)
      (read s "a.shootnew.go", read s "link.go", read s "a.go", s.dir ".a.shootnew.go_1"))
    = [ (some [7, 7, 7], some [7, 7, 7], some [1, 2], none),
        (some [7, 7, 7], some [7, 7, 7], some [1, 2], some 2),
        (some [7, 7, 7], some [7, 7, 7], some [1, 2], some 2),
        (some [7, 7, 7], some [7, 7, 7], some [1, 2], some 2),
        (some [7, 7, 7], some [7, 7, 7], some [1, 2], some 2),
        (some [8, 9, 9], some [7, 7, 7], some [1, 2], none) ] := by decide

/-! ### formerly finding regions, now asserted (repaired in /repo b1cca2e, dc951c2) -/

/-- `shoot new -type=User p` from the parent directory: temp file and output live in p/ -/
example :
    ({ cmd := .new, pkgPrefix := "p/", outs := [("a.shootnew.user.go", [[1]], "42")], cleanActive := false, genfile := "",
       listing := [] } : Config).ops
      = [.createTempExcl "p/.a.shootnew.user.go_42", .write [1], .close,
         .rename "p/.a.shootnew.user.go_42" "p/a.shootnew.user.go"] := by decide

/-- next to an all-in-one run: the superseded per-type file goes, the hand-written look-alike, the file of another
    sub-command that happens to match and the file without header stay -/
example :
    ({ cmd := .new, pkgPrefix := "", outs := [("a.shootnew.go", [[1]], "42")], cleanActive := true, genfile := "a.shootnew.go",
       listing := [ { name := "a.shootnew.go", firstLine := "// Code generated by \"shoot new -type=*\"; DO NOT EDIT. (v0.7.0)" },
                    { name := "b.shootnew.beta.go", firstLine := "// Code generated by \"shoot new -type=Beta\"; DO NOT EDIT. (v0.7.0)" },
                    { name := "c.shootnew.go", firstLine := "// Code generated by \"shoot new -getset -type=*\"; DO NOT EDIT. (v0.7.0)" },
                    { name := "d.shootnew.x.shootmap.go", firstLine := "// Code generated by \"shoot map -type=X\"; DO NOT EDIT. (v0.7.0)" },
                    { name := "notes.shootnewstuff.go", firstLine := "package p1" },
                    { name := "x.shootnew.go.bak", firstLine := "package p1" } ] } : Config).clean
      = ["b.shootnew.beta.go"] := by decide

end ShootVerif.Fs
