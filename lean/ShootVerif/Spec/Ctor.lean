import ShootVerif.Model.Ctor
/-
C02 — the property as an executable statement over the struct tree, written from the property
text, not from the code:

* the parameters are the *eligible* leaves in depth-first declaration order;
* a leaf is eligible iff it is not hidden by Go's selector rule (a member of the same name at a
  shallower depth), is not `_`-prefixed / `new:"-"`-tagged, and — when any field of the type is
  marked `shoot: new` — it (or the top-level embedded field it is promoted through) is marked;
* the value at an eligible leaf is its argument; a non-parameter leaf with `def=` holds the
  default; everything else is zero; every embedded struct on the way is present (pointer embeds
  allocated).
-/
namespace ShootVerif.Ctor

structure Leaf where
  path : List String       -- embedded-type names from the top
  depth : Nat
  info : FInfo
  marked : Bool            -- own mark (top level) or the mark of the top-level embedding field
  top : Bool
  deriving Repr, DecidableEq

/-- the leaves in depth-first declaration order (same recursion scheme as `walk`) -/
def leaves (top : Bool) (path : List String) (inh : Bool) (d : Nat) : Tree → List Leaf
  | .nil => []
  | .field f rest => ⟨path, d, f, if top then f.newMark else inh, top⟩ :: leaves top path inh d rest
  | .embed n _ _ nm body rest =>
    leaves false (path ++ [n]) (if top then nm else inh) (d + 1) body ++ leaves top path inh d rest

def leavesTop (t : Tree) : List Leaf := leaves true [] false 0 t

/-- every member name with its depth (fields and embedded-type names): Go's selector universe -/
def members (d : Nat) : Tree → List (String × Nat)
  | .nil => []
  | .field f rest => (f.name, d) :: members d rest
  | .embed n _ _ _ body rest => (n, d) :: (members (d + 1) body ++ members d rest)

/-- Go: a field at depth d is hidden when some member of the same name sits at a smaller depth -/
def goShadowed (t : Tree) (d : Nat) (name : String) : Bool :=
  (members 0 t).any (fun m => m.1 = name ∧ m.2 < d)

def eligible (t : Tree) (l : Leaf) : Bool :=
  !goShadowed t l.depth l.info.name && !l.info.skip && (!hasNewTop t || l.marked)

def specParams (t : Tree) : List Leaf := (leavesTop t).filter (eligible t)

def Leaf.key (l : Leaf) : List String × String := (l.path, l.info.name)

/-- expected content of a leaf: none = zero -/
def specLeaf (t : Tree) (l : Leaf) : Option Src :=
  if eligible t l then
    match idx ((specParams t).map Leaf.key) l.key with
    | some i => some (.arg i)
    | none => none
  else if l.top ∧ l.info.defv ≠ "" then some (.defx l.info.defv)
  else none

/-- all embed paths (pointer flag) -/
def embedsNested (path : List String) : Tree → List (List String × Bool)
  | .nil => []
  | .field _ rest => embedsNested path rest
  | .embed n _ p _ body rest =>
    (path ++ [n], p) :: (embedsNested (path ++ [n]) body ++ embedsNested path rest)

/-- Go selector `T.name`: the unique member of minimal depth, else none -/
def selectPath (t : Tree) (name : String) : Option (List String) :=
  let cands := (leavesTop t).filter (fun l => l.info.name = name)
  match cands with
  | [] => none
  | c :: cs =>
    let dmin := cs.foldl (fun m l => min m l.depth) c.depth
    -- an embedded type's own name at a shallower (or equal) depth hides / clashes
    if (members 0 t).any (fun m => m.1 = name ∧ m.2 < dmin) then none
    else match cands.filter (fun l => l.depth = dmin) with
      | [l] => if ((members 0 t).filter (fun m => m.1 = name ∧ m.2 = dmin)).length = 1 then some l.path else none
      | _ => none

/-! ## Regions -/

def levelNames : Tree → List String
  | .nil => []
  | .field f rest => f.name :: levelNames rest
  | .embed n _ _ _ _ rest => n :: levelNames rest

/-- Go's rule: member names of one struct are distinct (at every level) -/
def wfLevels : Tree → Bool
  | .nil => true
  | .field f rest => !(levelNames rest).contains f.name && wfLevels rest
  | .embed n _ _ _ body rest => !(levelNames rest).contains n && wfLevels body && wfLevels rest

/-- leaves that the model does not flag as shadowed -/
def visibleLeaves (t : Tree) : List Leaf :=
  (leavesTop t).filter (fun l => !goShadowed t l.depth l.info.name)

/-- parameter names are usable: pairwise distinct -/
def wfParamNames (t : Tree) : Bool :=
  ((visibleLeaves t).map (fun l => paramName l.info.name)).Nodup

/-- field names of the visible leaves are pairwise distinct (weaker than `wfParamNames`: `userID` next to `UserID`
    passes; the generator tells the two parameters apart with a `_` suffix) -/
def wfFieldNames (t : Tree) : Bool := ((visibleLeaves t).map (fun l => l.info.name)).Nodup

/-- no two members of the struct share a name at the same positive depth (Go: no ambiguous selector; since 556fe6f the
    generator leaves such fields out, `Proofs/CtorAmb.lean`) -/
def noAmbiguous (t : Tree) : Bool := ((members 0 t).filter (fun m => decide (0 < m.2))).Nodup

def skipWithDef (t : Tree) : Bool := (leavesTop t).any (fun l => l.top && l.info.skip && l.info.defv ≠ "")

def WF (t : Tree) : Bool :=
  wfLevels t && wfParamNames t && !skipWithDef t

def region (t : Tree) : String :=
  if !wfLevels t || !wfParamNames t || skipWithDef t || !noAmbiguous t then "Out"
  else "WF"

/-- the constructor's own region: parameter-name collisions are inside (C02_value_at_path_general) -/
def regionG (t : Tree) : String :=
  if !wfLevels t || !wfFieldNames t || !noAmbiguous t then "Out"
  else if skipWithDef t then "F_skipWithDef"   -- a left-out field that carries `def=`: the code drops the default
  else "WF"

end ShootVerif.Ctor
