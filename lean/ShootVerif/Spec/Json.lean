import ShootVerif.Model.Json
import ShootVerif.Spec.GetSet
/-
C11 — the property over the leaves of the struct: one key per exported field and per unexported
field with a getter or a setter (own — per the C03 table — or promoted from an embedded shoot
type), named by the explicit json tag or else the -tagcase transform of the field name.
-/
namespace ShootVerif.Json
open ShootVerif.Ctor ShootVerif.Transfer ShootVerif.GetSet

def specHasGet (getset : Bool) (doc : Option (Bool × Bool)) (promG : List String) (l : Leaf) : Bool :=
  (l.top && getset && wantsGet l.info && typeGetter doc) || promG.contains (pascalS l.info.name)

def specHasSet (getset : Bool) (doc : Option (Bool × Bool)) (promS : List String) (l : Leaf) : Bool :=
  (l.top && getset && wantsSet l.info && typeSetter doc) || promS.contains ("Set" ++ pascalS l.info.name)

def specKeys (getset : Bool) (tc : TagCase) (doc : Option (Bool × Bool)) (promG promS : List String) (t : Tree) :
    List JKey :=
  (leavesTop t).filterMap (fun l =>
    if goShadowed t l.depth l.info.name then none
    else
      let tag := if l.info.jsonTag ≠ "" then l.info.jsonTag else trans tc l.info.name
      -- "one key per exported field": also for an exported field that is left out of generation (`new:"-"`)
      if l.info.skip then
        (if isExportedName l.info.name then some ⟨tag, l.info.name, true, false, false, false, false⟩ else none)
      else
      if isExportedName l.info.name then some ⟨tag, l.info.name, true, false, false, false, false⟩
      else
        let g := specHasGet getset doc promG l
        let s := specHasSet getset doc promS l
        if g || s then some ⟨tag, l.info.name, false, g, s,
          l.top && getset && wantsGet l.info && typeGetter doc, l.top && getset && wantsSet l.info && typeSetter doc⟩
        else none)

/-- an EXPORTED field that is left out of generation: the generated MarshalJSON / UnmarshalJSON drop it, although the
    property asks for a key per exported field (finding region F_jsonSkipExported) -/
def skippedExported (t : Tree) : Bool :=
  (leavesTop t).any (fun l => l.info.skip && isExportedName l.info.name && !goShadowed t l.depth l.info.name)

/-! ## meaning: marshal / unmarshal through the shadow struct -/

abbrev St (V : Type) := String → V

def marshal {V : Type} (zero : V) (ks : List JKey) (s : St V) : List (String × V) :=
  ks.map (fun k => (k.key, if k.exported || k.hasGet then s k.name else zero))

/-- json.Unmarshal fills the shadow struct (absent key ⇒ zero), then every setter / exported
    assignment runs -/
def unmarshal {V : Type} (zero : V) (ks : List JKey) (doc : List (String × V)) (s0 : St V) : St V :=
  ks.foldl (fun s k => if k.exported || k.hasSet then setF s k.name ((doc.lookup k.key).getD zero) else s) s0


/-! ## `,omitempty` and the name part of a tag (encoding/json's reading of the shadow struct's tags)

The tag text of a key list entry is `name[,opts]`: encoding/json uses the part before the first comma as the key and leaves
an entry out of the document when the options hold `omitempty` and the value is "empty". Both are parameters here
(`name`, `om` on the tag text; `empty` on values). -/

def withNames (name : String → String) (ks : List JKey) : List JKey := ks.map (fun k => { k with key := name k.key })

def valOf {V : Type} (zero : V) (s : St V) (k : JKey) : V := if k.exported || k.hasGet then s k.name else zero

/-- Marshal with `omitempty`: an entry whose tag asks for it and whose value is empty is left out -/
def marshalO {V : Type} (zero : V) (empty : V → Bool) (name : String → String) (om : String → Bool)
    (ks : List JKey) (s : St V) : List (String × V) :=
  marshal zero (withNames name (ks.filter (fun k => !(om k.key && empty (valOf zero s k))))) s

/-- Unmarshal reads every listed field from the key NAME of its tag (absent ⇒ zero) -/
def unmarshalO {V : Type} (zero : V) (name : String → String) (ks : List JKey) (doc : List (String × V)) (s0 : St V) : St V :=
  unmarshal zero (withNames name ks) doc s0

end ShootVerif.Json
