import ShootVerif.Model.Phases
/-!
C18 as an executable statement: shoot terminates with exit code 0, 1 or 2 and never with a Go runtime panic;
when it exits non-zero it has not created, modified or deleted any file.
-/
namespace ShootVerif.Phases
open ShootVerif.Cli (Cmd)

/-- the property, evaluated on an outcome (exit, file-system effect) -/
def specOK (r : Exit × List FsOp) : Bool :=
  r.1 != .panic && decide (r.1.code ≤ 2) && (r.1 == .ok || r.2.isEmpty)

/-- no Go runtime panic in any phase, no I/O error while writing, Clean succeeds -/
def WF (i : Input) : Bool :=
  i.flags != .panic && i.load != .panic && i.gen != .panic && i.writeErr.isNone && i.cleanErr.isNone

inductive Region where
  | WF
  | F_panic_valuerecv     -- map: a value-receiver method with a reserved name hits panic("can never happen")
  | F_panic_unnamed       -- map: reserved method with an unnamed receiver/parameter: recv.Names[0] / param.Names[0]
  | F_panic_nobody        -- map: reserved method declared without a body: ast.Inspect(nil body)
  | F_panic_setteriface   -- new -getset: makeGetSet calls Underlying() on a nil type
  | F_panic_univ          -- rest: testNode dereferences the nil package of an embedded universe type
  deriving DecidableEq, Repr

def Region.str : Region → String
  | .WF => "WF" | .F_panic_valuerecv => "F_panic_valuerecv" | .F_panic_unnamed => "F_panic_unnamed"
  | .F_panic_nobody => "F_panic_nobody" | .F_panic_setteriface => "F_panic_setteriface"
  | .F_panic_univ => "F_panic_univ"

def region (d : Damage) : Region :=
  match d with
  | .valueRecv => .F_panic_valuerecv
  | .manualUnnamed => .F_panic_unnamed
  | .manualNoBody => .F_panic_nobody
  | .setterIface => .F_panic_setteriface
  | .univEmbed => .F_panic_univ
  | _ => .WF

end ShootVerif.Phases
