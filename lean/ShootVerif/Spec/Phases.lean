import ShootVerif.Model.Phases
/-!
C18 as an executable statement: shoot terminates with exit code 0, 1 or 2 and never with a Go runtime panic;
when it exits non-zero it has not created, modified or deleted any file.
-/
namespace ShootVerif.Phases
open ShootVerif.Cli (Cmd)

/-- the property, evaluated on an outcome (exit, file-system effect) -/
def specOK (r : Exit × List FsOp) : Bool :=
  r.1 != .panic && decide (r.1.code ≤ 2) && (r.1 == .ok || r.2.isEmpty)

/-- no Go runtime panic in any phase, no I/O error while writing, Clean succeeds -/
def WF (i : Input) : Bool :=
  i.flags != .panic && i.load != .panic && i.gen != .panic && i.writeErr.isNone && i.cleanErr.isNone

/-- no finding region is left for C18 (F_glob_dir was repaired in /repo a3d970c); the Clean error and the five panics found by the damaged-input runs were
    repaired in /repo (63484d4, 58408b2, a51cc44, 329275c, ffe72d1, 83db8cb); their inputs are ordinary cases now -/
inductive Region where
  | WF
  deriving DecidableEq, Repr

def Region.str : Region → String
  | .WF => "WF"

def region (_ : Damage) : Region := .WF

end ShootVerif.Phases
