import ShootVerif.Model.GenState
/-
C08, driver part — the property as an executable statement, written from the property text:

  "What shoot generates for a type does not depend on which other types are processed in the same
   invocation: … the files obtained by generating the same types one at a time in the same order."

`oneAtATime`: one fresh generator (= one process) per type, in list order; every process writes its
file into the package directory before the next one starts.  The property says the combined run
(`GenState.generate`) produces, type by type, what these separate runs produce.
-/
namespace ShootVerif.GenState

/-- a process writes (or replaces) a file -/
def writeFile (disk : Disk) (f : GFile) : Disk := f :: disk.filter (fun o => o.name ≠ f.name)

def oneAtATime {σ τ ω : Type} (m : Machine σ τ ω) : Disk → List τ → List (τ × ω)
  | _, [] => []
  | disk, t :: ts =>
    match solo m disk t with
    | none => oneAtATime m disk ts
    | some o => (t, o) :: oneAtATime m (writeFile disk (m.gfile t o)) ts

/-! ## Run histories (C07): what a run leaves in the directory -/

/-- `-type=A,B` / `-sep`: one file per type -/
def writtenSep {σ τ ω : Type} (m : Machine σ τ ω) (outs : List (τ × ω)) : Disk := outs.map (fun p => m.gfile p.1 p.2)

/-- `-file=` / `-type=*`: ONE file holds the declarations of all types -/
def writtenAio {σ τ ω : Type} (m : Machine σ τ ω) (aioName : String) (outs : List (τ × ω)) : Disk :=
  if outs.isEmpty then [] else [{ name := aioName, defs := outs.flatMap (fun p => (m.gfile p.1 p.2).defs) }]

/-- the directory after the writes (rename(2) replaces a file of the same name) -/
def afterRun (disk written : Disk) : Disk := written.foldl writeFile disk

/-! ## Classification of the generator state (checked against `Facts.genStateFields`) -/

inductive Class where
  | config | reset | derived | carried
  deriving DecidableEq, Repr

/-- (package, struct, field) ↦ class.  A field that is missing here makes `C08_fields_classified` fail. -/
def classTable : List ((String × String × String) × Class) := [
  -- constructor.Generator
  (("internal/constructor", "Generator", "GeneratorBase"), .config),
  (("internal/constructor", "Generator", "flags"), .config),
  (("internal/constructor", "Generator", "data"), .reset),          -- MakeData
  (("internal/constructor", "Generator", "typeParams"), .reset),    -- parseFields (assigned from a local)
  (("internal/constructor", "Generator", "typeParamsMap"), .reset), -- parseFields
  (("internal/constructor", "Generator", "fields"), .reset),        -- parseFields
  (("internal/constructor", "Generator", "hasNew"), .reset),        -- MakeData (since 2659527; was carried)
  (("internal/constructor", "Generator", "getsetMethods"), .reset), -- MakeData (since 2659527; was carried)
  (("internal/constructor", "Generator", "getter"), .reset),        -- MakeData
  (("internal/constructor", "Generator", "setter"), .reset),        -- MakeData
  -- enumer.Generator
  (("internal/enumer", "Generator", "GeneratorBase"), .config),
  (("internal/enumer", "Generator", "flags"), .config),
  (("internal/enumer", "Generator", "data"), .reset),
  (("internal/enumer", "Generator", "pkg"), .derived),              -- addPackage, from the loaded package
  -- mapper.Generator
  (("internal/mapper", "Generator", "GeneratorBase"), .config),
  (("internal/mapper", "Generator", "flags"), .config),
  (("internal/mapper", "Generator", "data"), .reset),               -- MakeData
  (("internal/mapper", "Generator", "destPkg"), .derived),          -- LoadPackage
  (("internal/mapper", "Generator", "mapperpkg"), .derived),        -- loadTypeMapperPkg; read only right after it was set
  (("internal/mapper", "Generator", "exportedFields"), .reset),     -- parseSrcFields
  (("internal/mapper", "Generator", "unexportedFields"), .reset),   -- parseSrcFields
  (("internal/mapper", "Generator", "destExportedFields"), .reset), -- parseDestFields
  (("internal/mapper", "Generator", "destUnexportedFields"), .reset), -- parseDestFields
  (("internal/mapper", "Generator", "getsetMethods"), .reset),      -- MakeData (since 002876f; was carried)
  (("internal/mapper", "Generator", "destGetSetMethods"), .reset),  -- MakeData (since 002876f; was carried)
  (("internal/mapper", "Generator", "srcPtrTypeMap"), .reset),      -- parseSrcFields
  (("internal/mapper", "Generator", "destPtrTypeMap"), .reset),     -- parseDestFields
  (("internal/mapper", "Generator", "srcPathsMap"), .reset),        -- makeReadCond
  (("internal/mapper", "Generator", "destPathsMap"), .reset),       -- makeReadCond
  (("internal/mapper", "Generator", "mappingFuncList"), .reset),    -- loadMorePkgs
  (("internal/mapper", "Generator", "writeSrcSet"), .reset),        -- parseManual
  (("internal/mapper", "Generator", "writeDestSet"), .reset),       -- parseManual
  (("internal/mapper", "Generator", "readSrcMap"), .reset),         -- makeTypeMismatch
  (("internal/mapper", "Generator", "writeSrcMap"), .reset),        -- makeTypeMismatch
  (("internal/mapper", "Generator", "srcTagMap"), .reset),          -- parseSrcFields
  (("internal/mapper", "Generator", "newShooter"), .derived),       -- memoised constant interface
  (("internal/mapper", "Generator", "srcCtorParams"), .reset),      -- MakeData (since 002876f; was carried)
  (("internal/mapper", "Generator", "destCtorParams"), .reset),     -- MakeData (since 002876f; was carried)
  -- restclient.Generator
  (("internal/restclient", "Generator", "GeneratorBase"), .config),
  (("internal/restclient", "Generator", "data"), .reset),
  -- shoot.GeneratorBase
  (("internal/shoot", "GeneratorBase", "commonFlags"), .config),    -- TypeNames is filled in once by confirmTypes
  (("internal/shoot", "GeneratorBase", "subCmd"), .config),
  (("internal/shoot", "GeneratorBase", "tmplTxt"), .config),
  (("internal/shoot", "GeneratorBase", "tmp"), .derived),           -- parsed template, dropped by RegisterTransfer
  (("internal/shoot", "GeneratorBase", "transfers"), .derived),     -- func map; the mapper re-registers closures over `g` per type
  (("internal/shoot", "GeneratorBase", "pkg"), .derived),           -- loaded package (hand-written ∪ disk ∪ overlay)
  (("internal/shoot", "GeneratorBase", "allInOneFile"), .derived),  -- LoadPackage, from the go:generate line
  (("internal/shoot", "GeneratorBase", "fileNameMap"), .derived),   -- confirmTypes, before the loop
  (("internal/shoot", "GeneratorBase", "isTypeSpecified"), .config),
  (("internal/shoot", "GeneratorBase", "overlay"), .carried)        -- by design: fresh -getset output for later types
]

def classify (k : String × String × String) : Option Class := classTable.lookup k

/-- where a `reset` field is re-initialised: a plain assignment (`set`) or a hand-over by address (`addr`)
    in one of these per-type entry points (all called unconditionally from MakeData) -/
def resetSites : List String :=
  ["MakeData", "parseFields", "parseSrcFields", "parseDestFields", "makeReadCond", "loadMorePkgs",
   "parseManual", "makeTypeMismatch"]

/-- the fields that the model exposes through `Leaks`: each must be assigned unconditionally in `MakeData` -/
def leakFields : List (String × String) := [
  ("internal/constructor", "hasNew"), ("internal/constructor", "getsetMethods"),
  ("internal/mapper", "srcCtorParams"), ("internal/mapper", "destCtorParams"),
  ("internal/mapper", "getsetMethods"), ("internal/mapper", "destGetSetMethods")]

/-! ## Unconditional per-type re-initialisation (checked against `Facts.genStateResets` / `Facts.genStateCalls`)

`C08_reset_sites` accepts any plain assignment or hand-over by address inside a per-type entry point - also one that sits
under a condition (`if *tagMap == nil { *tagMap = make(…) }` re-makes the map for the first type only).  The tables below are
stricter: a reset counts only when it is a statement at the TOP LEVEL of its method body, and the method is `MakeData` or is
reached from `MakeData` through top-level calls only. -/

/-- a map, slice or set type, by its printed form (`map[…]…`, `[]…`, `shoot.Set[…]`) -/
def isCollection (ty : String) : Bool :=
  "map[".toList.isPrefixOf ty.toList || "[]".toList.isPrefixOf ty.toList || "shoot.Set[".toList.isPrefixOf ty.toList

def calleesOf (calls : List (String × String × String)) (pkg fn : String) : List String :=
  (calls.filter (fun c => c.1 = pkg && c.2.1 = fn)).map (·.2.2)

/-- the methods reached from `fs` through at most `n` unconditional (top-level) calls -/
def reachFrom (calls : List (String × String × String)) (pkg : String) : Nat → List String → List String
  | 0, fs => fs
  | n + 1, fs => reachFrom calls pkg n (fs ++ (fs.flatMap (calleesOf calls pkg)).filter (fun f => !fs.contains f))

/-- resets that follow a conditional `return` of their method, with the reason they still count:
    constructor.parseFields returns nil early exactly when the type does not exist, which MakeData turns into a Fatal -/
def afterReturnOK : List (String × String × String) :=
  [("internal/constructor", "parseFields", "fields"), ("internal/constructor", "parseFields", "typeParams"),
   ("internal/constructor", "parseFields", "typeParamsMap")]

/-- the field is re-initialised by a top-level statement of `MakeData` or of a method that `MakeData` reaches through
    top-level calls only - for every type, whatever the field holds; no conditional `return` of that method comes first
    (except the listed ones) -/
def hasUncondReset (resets : List (String × String × String × String × Nat)) (calls : List (String × String × String))
    (pkg field : String) : Bool :=
  resets.any (fun r => r.1 = pkg && r.2.2.1 = field && (reachFrom calls pkg 4 ["MakeData"]).contains r.2.1
    && (r.2.2.2.2 = 0 || afterReturnOK.contains (pkg, r.2.1, field)))

/-- the caches (`derived` fields): the only methods that may assign each of them -/
def derivedSites : List ((String × String) × List String) := [
  (("internal/enumer", "pkg"), ["addPackage"]),                 -- the scanned files of the package, built by LoadPackage
  (("internal/mapper", "destPkg"), ["LoadPackage"]),
  (("internal/mapper", "mapperpkg"), ["loadTypeMapperPkg"]),    -- set when the type embeds a mapper; parseMapper reads it only then
  (("internal/mapper", "newShooter"), ["newShooterIface"]),     -- memoised constant interface
  (("internal/shoot", "tmp"), ["tmpl", "RegisterTransfer"]),    -- parsed template, dropped when a template function is registered
  (("internal/shoot", "transfers"), ["RegisterTransfer"]),
  (("internal/shoot", "pkg"), ["SetPkg"]),
  (("internal/shoot", "allInOneFile"), ["LoadPackage"]),
  (("internal/shoot", "fileNameMap"), ["confirmTypes"])]

/-- the caches of the four `Generator` structs that a per-type step (a method `MakeData` reaches through top-level calls) may assign -/
def perTypeCaches : List (String × String) := [("internal/mapper", "mapperpkg"), ("internal/mapper", "newShooter")]

/-! ## Regions: is the carried state *relevant* for a type? -/

/-- `hasNew` left true by an earlier type changes NewT's parameters exactly when this type has no mark
    of its own and has at least one parameter to lose -/
def hasNewRelevant (st : NSt) (t : NType) : Bool :=
  st.hasNew && !Ctor.hasNewTop t.tree && !(Ctor.gen t.tree false).params.isEmpty

/-- accessors left in `getsetMethods` by earlier types matter only with `-json`, and only when one of
    them is named like the getter / setter of a visible unexported field that lacks that flag -/
def accRelevantFor (get : Bool) (sw : Bool × Bool) (st : NSt) (t : NType) : Bool :=
  ((Ctor.flatten t.tree).filter (fun f => !f.isShadowed && !f.isEmbeded)).any (fun f =>
    !exported f.name && !flagOf get sw t f && (accNames st.accs get).contains (accKey get f.name))

def accRelevant (fl : NFlags) (st : NSt) (t : NType) : Bool :=
  fl.json && (accRelevantFor true (switchOf fl t) st t || accRelevantFor false (switchOf fl t) st t)

/-! ## Out: is `AssignableToIface` certain?

The model assumes that a type implements the generated accessor interface of every shoot type it embeds
(`AssignableToIface`, getsetiface.go:9-53).  That is a go/types fact (method sets with Go's promotion rule: a
promoted accessor is lost when another field or method of the same name sits at the same or a smaller depth).
It certainly holds when the backing field of every method of the interface is the ONLY member of that
(Pascal-cased) name in the whole flattened struct; otherwise the case is outside the model (advisory). -/

def memberNames (t : NType) : List String :=
  (Ctor.flatten t.tree).map (fun f => if f.isEmbeded then f.name else Transfer.pascalS f.name)

def accessorSure (t : NType) (m : String) : Bool :=
  ((memberNames t).filter (· == trimSet m)).length == 1

def assignableSure (files : Disk) (t : NType) : Bool :=
  ((Ctor.flatten t.tree).filter (·.isEmbeded)).all (fun e =>
    (((lookupIface files (e.name ++ "Getter")).getD []) ++ ((lookupIface files (e.name ++ "Setter")).getD [])).all (accessorSure t))

/-- two visible fields of one name (promoted ambiguously through two embedded structs, or colliding after the tool's
    bookkeeping): which of them the tool keeps is the constructor model's subject (C02), not this one's – advisory -/
def ambiguousNames (t : NType) : Bool :=
  let vis := ((Ctor.flatten t.tree).filter (fun f => !f.isShadowed && !f.isEmbeded)).map (·.name)
  vis.eraseDups.length != vis.length

def mapCtorRelevant (st : MSt) (t : MType) : Bool :=
  match t.dest with
  | none => false
  | some d => (!t.src.shootNew && !st.srcCtor.isEmpty) || (!d.shootNew && !st.destCtor.isEmpty)

def mapAccRelevant (st : MSt) (t : MType) : Bool :=
  match t.dest with
  | none => false
  | some d => (!t.src.shootNew && !st.srcAcc.isEmpty) || (!d.shootNew && !st.destAcc.isEmpty)

end ShootVerif.GenState
