import ShootVerif.Model.Enum
/-
Specifications of C04, C12, C14 written from the property texts (not from the code), as executable
functions on the same inputs as the model, and the region predicates WF / F_* / Out.
-/
namespace ShootVerif.Enum

/-- one enum declaration of the spec grammar: type name, underlying kind, the const blocks of all
    files in source order -/
structure Input where
  T : Name
  kind : Kind
  /-- the package-level const blocks -/
  blocks : List (List VSpec)
  /-- const blocks inside function bodies (legal Go, not declarations of the package) -/
  locals : List (List VSpec) := []
  /-- const declarations of GENERATED files that are already in the package when shoot runs again (a
      re-run over its own output): makeStr walks every file of the package, these included; they are
      not part of the hand-written declaration -/
  generated : List (List VSpec) := []
  deriving Repr

/-! ## the declared constants of T, by the Go language rule -/

/-- type of the constants of a ConstSpec: its explicit type; else the type of its expressions; an
    empty spec repeats the previous one textually, type included (Go spec, "Constant declarations") -/
def effTy (s : VSpec) (prev : Option Name) : Option Name :=
  match s.ty with
  | some t => some t
  | none => if s.hasVals then s.exprTy else prev

def declaredBlock (T : Name) : Option Name → List VSpec → List Const
  | _, [] => []
  | prev, s :: rest =>
    let t := effTy s prev
    (if t = some T then namesOf s else []) ++ declaredBlock T t rest

/-- every constant whose type is T, in declaration order (`_` is not a constant) -/
def declared (T : Name) (blocks : List (List VSpec)) : List Const :=
  blocks.flatMap (declaredBlock T none)

def Input.decl (i : Input) : List Const := declared i.T i.blocks

/-- every const declaration of the package, those inside function bodies included (only used to say
    that a case is a well-formed package; makeStr walks `blocks` alone) -/
def Input.allBlocks (i : Input) : List (List VSpec) := i.blocks ++ i.locals ++ i.generated

/-- the package-level const declarations makeStr walks: the hand-written ones and those of generated
    files left in the package -/
def Input.scanned (i : Input) : List (List VSpec) := i.blocks ++ i.generated

/-- the only const declaration the enum template emits is `const _<t>_max = A | B | …`: no type, a
    value (its constants have the enum type through their operands) -/
def templateConst (s : VSpec) : Bool := s.ty.isNone && s.hasVals

/-! ## C04 -/

/-- String(): a declared value gives its name with the type-name prefix trimmed, any other value
    its decimal form (without -bit) -/
def specString (T : Name) (decl : List Const) (x : Int) : Str :=
  match decl.find? (fun c => c.val = x) with
  | some c => .name (trim T c.name)
  | none => .dec x

/-- IsValid(): true exactly for declared values -/
def specValid (decl : List Const) (x : Int) : Bool := decl.any (fun c => c.val = x)

/-- Values()/Strings(): ordered by ascending value, index-aligned -/
def specSorted (decl : List Const) : List Const := sortBy (·.val) decl
def specValues (decl : List Const) : List Int := (specSorted decl).map (·.val)
def specStrings (T : Name) (decl : List Const) : List Name := (specSorted decl).map (fun c => trim T c.name)

/-- ValueMap(): trimmed name ↦ value of the constant so named; StringMap(): the way back -/
def specValueOf (T : Name) (decl : List Const) (s : Name) : Option Int :=
  (decl.find? (fun c => trim T c.name = s)).map (·.val)
def specNameOf (T : Name) (decl : List Const) (v : Int) : Option Name :=
  (decl.find? (fun c => c.val = v)).map (fun c => trim T c.name)

/-- the generated file keeps compiling iff no declared constant changed its value -/
def specGuard (decl : List Const) (cur : Name → Option Int) : Bool :=
  decl.all (fun c => cur c.name == some c.val)

/-! ### regions of C04 (also the enum-level part of C12 and C14)

* function-local const blocks and specs with a non-identifier type (`pkg.T`, `(T)`) are ordinary
  members of the grammar since /repo 17b8707 / b44c047 (former regions F_local_const, F_nonident_type).
* grammar (`grammarOK`): the type name is not empty; the kind has 1 to 64 bits; names and values are aligned; no spec gets type T through a typed expression (`X = T(5)`): the property's
  grammar has every constant of T introduced by an explicit `T` or carried down from one.
  Outside ⇒ `Out`.
* no constant of T at all ⇒ `Out` (nothing to generate; shoot writes nothing and exits 0).
* a constant named exactly like the type (empty trimmed name) ⇒ `Out`: not a Go package (redeclaration).
* duplicate values or duplicate trimmed names ⇒ `Out`: the property ("each declared constant maps to
  its name … and back") cannot be met by ANY implementation when two constants share a value or a
  trimmed name, so these declarations are outside its quantifier.  (The emitted map literals then
  have duplicate keys and do not compile; that failure belongs to C01.)
* negative values (signed kinds) and values above MaxInt64 (uint64/uint) are ordinary members of the
  grammar and of `WF` (since /repo 9f224b6 they generate: signed sort, `valueof` by signedness).
-/

def specOK (T : Name) (s : VSpec) : Bool :=
  s.names.length == s.vals.length && !(s.ty.isNone && s.hasVals && s.exprTy == some T)

/-- the syntactic grammar under which `C04_collect` shows that the loop of makeStr finds exactly the
    declared constants: the type name is an identifier, no spec gets the type through a typed expression -/
def grammarOK (i : Input) : Bool :=
  !i.T.isEmpty && !qualified i.T && decide (0 < i.kind.bits) && decide (i.kind.bits ≤ 64) &&
    i.blocks.all (fun b => b.all (specOK i.T)) && i.generated.all (fun b => b.all templateConst)

/-- the case is well formed at all (a real package) -/
def basicOK (i : Input) : Bool :=
  !i.T.isEmpty && !qualified i.T && decide (0 < i.kind.bits) && decide (i.kind.bits ≤ 64) &&
    i.allBlocks.all (fun b => b.all (fun s => s.names.length == s.vals.length))

def nodupOK (T : Name) (decl : List Const) : Bool :=
  decide (decl.map (·.val)).Nodup && decide (decl.map (fun c => trim T c.name)).Nodup &&
    decl.all (fun c => !(trim T c.name).isEmpty)

/-- every declared value is a value of the type (a Go rule: the constant would overflow otherwise) -/
def valuesInKind (k : Kind) (decl : List Const) : Bool := decl.all (fun c => k.has c.val)

/-- `WF`: the loop of makeStr finds exactly the declared constants (by `C04_collect` the syntactic
    grammar `grammarOK` is inside), there is at least one, values and trimmed names are distinct and
    the values are values of the type -/
def WF (i : Input) : Bool :=
  basicOK i && (collect i.T i.scanned == i.decl) && !i.decl.isEmpty && nodupOK i.T i.decl &&
    valuesInKind i.kind i.decl

def Out (i : Input) : Bool := !WF i

def region (i : Input) : String := if WF i then "WF" else "Out"

/-! ## C12 -/

/-- what a decoder is given, reduced to "the string it carries, if it is one" -/
def JsonIn.asName : JsonIn → Option Name
  | .str s => some s
  | _ => none
/-- the text a driver.Value carries: as bytes or as a string.  The property demands
    decode(encode(c)) == c for -sql as well, and encode (`Value()`) produces a string -/
def SqlIn.asName : SqlIn → Option Name
  | .bytes s => some s
  | .str s => some s
  | .other => none


/-- decode: a declared (trimmed) name yields its constant; anything else is an error and the
    target keeps its value.  (ok?, target afterwards) -/
def specDecode (T : Name) (decl : List Const) (inp : Option Name) (target : Int) : Bool × Int :=
  match inp.bind (specValueOf T decl) with
  | some v => (true, v)
  | none => (false, target)

/-- ParseEnum agrees with ValueMap() -/
def specParse (T : Name) (decl : List Const) (s : Name) : Option Int := specValueOf T decl s

/-- IsEnum agrees with Values(): `v`, as an integer, is one of the declared values -/
def specIsEnum (decl : List Const) (v : Int) : Bool := decl.any (fun c => c.val = v)

/-- observation of a decode method as the property sees it -/
def Dec.obs (d : Dec) : Bool × Int := (d.1.isNone, d.2)


/-- ParseEnum of a declared name from a package-level initializer that sorts before the generated
    file ⇒ `F_init_order`: the property has ParseEnum succeed on every declared name; at that moment it
    does not (see `parseEnumAtInit`) -/
def F_init_order (i : Input) : Bool := WF i

/-! IsEnum probes `(kV, p)`: `p` an integer of the type TV of kind `kV`.  Since /repo ffb3b3d the
    conversion must round-trip (no truncation) and since 2c3f80e the signs must agree (no
    reinterpretation of the bit pattern), so every probe of every integer type is asserted. -/

/-- a probe is a value of its own type -/
def probesOK (probes : List (Kind × Int)) : Bool :=
  probes.all (fun p => decide (0 < p.1.bits) && p.1.has p.2)

/-! ## C14 -/
namespace Bit
variable {w : Nat}

/-- bit i set -/
def bit (x : BitVec w) (i : Nat) : Bool := x.getLsbD i

/-- set algebra on the bit positions, written bit by bit -/
def ofBits (w : Nat) (p : Nat → Bool) : BitVec w :=
  (List.range w).foldl (fun a i => if p i then a ||| BitVec.twoPow w i else a) 0
def specHas (x f : BitVec w) : Bool := (List.range w).all (fun i => !bit f i || bit x i)    -- f ⊆ x
def specAdd (x f : BitVec w) : BitVec w := ofBits w (fun i => bit x i || bit f i)            -- x ∪ f
def specRemove (x f : BitVec w) : BitVec w := ofBits w (fun i => bit x i && !bit f i)        -- x \ f

def isSingle (v : BitVec w) : Bool := (List.range w).any (fun i => v == BitVec.twoPow w i)

def orAll (t : Table w) : BitVec w := t.foldr (fun e a => e.1 ||| a) 0

/-- the declared single-bit flags contained in x, in table (= ascending) order -/
def flagsIn (t : Table w) (x : BitVec w) : Table w :=
  t.filter (fun e => isSingle e.1 && (x &&& e.1 == e.1))

/-- String() with -bit: the declared name for a declared value; for a union of declared flags their
    names in ascending flag order; the decimal form for anything else.  `t` ascending. -/
def specString (signed : Bool) (t : Table w) (x : BitVec w) : Str :=
  match t.find? (fun e => e.1 = x) with
  | some e => .name e.2
  | none =>
    let S := flagsIn t x
    if S ≠ [] ∧ orAll S = x then .joined (S.map (·.2)) else .dec (decOf signed x)

/-! ### any table at all (flags that are not single bits, overlapping composites, a flag on the sign
bit): the exact statement of what String() returns

Walking the table in ascending order, a non-zero declared value is PICKED when all its bits are in
`x` and none of them belongs to a value picked before it.  String(x) is
  * the declared name when `x` is declared;
  * the decimal form when `x < 0` or `x > _max` (`_max` = OR of all declared values, in the type's
    own comparison; with a flag on the sign bit of a signed type `_max` is negative and EVERY
    undeclared value prints in decimal);
  * the names of the picked values joined by ", " when they are at least one and cover `x` exactly;
  * the decimal form otherwise (also when another choice of declared values would have covered `x`:
    with `1, 2, 3, 5` declared, 7 picks 1 and 2, is left with 4 and prints "7" although 7 = 2 | 5). -/

/-- the picked entries; `covered` = OR of what was picked so far -/
def picks (x : BitVec w) : Table w → BitVec w → Table w
  | [], _ => []
  | e :: rest, covered =>
    if e.1 ≠ 0 ∧ x &&& e.1 = e.1 ∧ covered &&& e.1 = 0 then e :: picks x rest (covered ||| e.1)
    else picks x rest covered

def specGeneral (signed : Bool) (t : Table w) (x : BitVec w) : Str :=
  match t.find? (fun e => e.1 = x) with
  | some e => .name e.2
  | none =>
    if outside signed (orAll t) x then .dec (decOf signed x)
    else
      let P := picks x t 0#w
      if P ≠ [] ∧ orAll P = x then .joined (P.map (·.2)) else .dec (decOf signed x)

/-- v is zero, a single bit, or a union of declared single-bit flags -/
def shapeOK (t : Table w) (v : BitVec w) : Bool :=
  v == 0 || isSingle v || orAll (flagsIn t v) == v

/-- the bit-flag enums of the property's grammar: ascending distinct values, distinct names,
    each value zero / a single bit / a union of declared single bits, and (signed types) no flag on
    the sign bit -/
def WFt (signed : Bool) (t : Table w) : Bool :=
  decide (t.Pairwise (fun a b => a.1 < b.1)) && decide (t.map (·.2)).Nodup &&
    t.all (fun e => shapeOK t e.1) && (!signed || t.all (fun e => !e.1.msb))

end Bit

/-- C14: the enum-level region is C04's (generation must succeed), then the flag shape.
    The emitted file itself never compiles (`F_undefined_map`, every -bit enum); the methods are
    observed on a copy in which the defined table name is substituted. -/
def F_undefined_map (bit : Bool) : Bool := bit && !(usedSyms bit).all (definedSyms.contains ·)

/-- is the flag table of the property's grammar (single bits, unions of them, optional zero)? -/
def grammarBit (i : Input) : Bool :=
  match i.kind.bits with
  | 8 => Bit.WFt i.kind.signed (Bit.table (w := 8) i.T (specSorted i.decl))
  | 16 => Bit.WFt i.kind.signed (Bit.table (w := 16) i.T (specSorted i.decl))
  | 32 => Bit.WFt i.kind.signed (Bit.table (w := 32) i.T (specSorted i.decl))
  | 64 => Bit.WFt i.kind.signed (Bit.table (w := 64) i.T (specSorted i.decl))
  | _ => false

/-- every -bit enum that generates is asserted: inside the grammar against the property's statement
    (`Bit.specString`), outside it (flags that are not single bits, overlapping composites, a flag on
    the sign bit) against the exact general statement (`Bit.specGeneral`) -/
def regionBit (i : Input) : String := if WF i then "WF" else "Out"

/-! ## C01 leg of the enum area: does a `shoot enum` run over a package yield compiling Go?

One case = one package (all const blocks), the flag set, and the types the run generates for
(named by `-type=A,B`, or listed by `-file=` / `-type=*`: `ListTypes` keeps only the kinds int, uint,
int32, uint32).  The classes are those of C04 / C14, read off what the generator collects:

* `-gorm` without `-sql` is a usage error ⇒ `Out`; a malformed case or a run that writes nothing
  (no selected type has a constant) ⇒ `Out`;
* `-bit` ⇒ `F_enumBitMap` (undefined `_<t>_map`);
* two generated types whose names ToCamelCaseGO maps to the same identifier ⇒ `F_enumTableClash` (redeclared tables);
* an identifier of the input package that collides with a name the template introduces (an import
  name such as `fmt` / `json`, a listed constant `x`, a one-letter lower-case type) ⇒ `F_enumIdentClash`;
* two constants with the same value or the same trimmed name ⇒ `F_enumDupKey` (duplicate map keys);
* otherwise `WF`: exit 0, header, gofmt-clean, same package, compiles.
-/

structure PkgCase where
  bit : Bool
  json : Bool := false
  text : Bool := false
  sql : Bool
  gorm : Bool
  /-- every package-level identifier of the input package (constants of any type, types, funcs, vars) -/
  idents : List Name := []
  /-- the types the run generates for, with their kinds -/
  types : List (Name × Kind)
  /-- package-level const blocks, and those inside function bodies -/
  blocks : List (List VSpec)
  locals : List (List VSpec) := []
  wellFormed : Bool

def PkgCase.tablesOf (p : PkgCase) : List (Name × List Const) :=
  (p.types.map (fun t => (t.1, sortC t.2 (collect t.1 p.blocks)))).filter (fun e => !e.2.isEmpty)

/-- the package names the emitted file imports under the given flags (`fmt` always: String() calls
    fmt.Sprintf).  A package-level identifier of the same name anywhere in the input package either
    collides with the import ("already declared through import of package") or, for the packages
    goimports adds, makes `fmt.Sprintf` / `errors.New` / `bytes.Buffer` resolve to that identifier. -/
def importNames (p : PkgCase) : List Name :=
  ["fmt".toList] ++ (if p.json then ["json".toList] else []) ++ (if p.sql then ["driver".toList, "errors".toList] else [])
    ++ (if p.json || p.text || p.sql then ["shoot".toList] else []) ++ (if p.bit then ["bytes".toList] else [])
    ++ (if p.gorm then ["gorm".toList, "schema".toList] else [])

/-- identifiers of the input that collide with names the template introduces: an import name; a
    listed constant called `x` (the guard function declares `var x [1]struct{}` and then reads
    `x[x-1]`); a type whose name is one lower-case letter (the receiver `func (x x) …` hides it) -/
def PkgCase.hasClash (p : PkgCase) : Bool :=
  p.idents.any (fun n => (importNames p).contains n) ||
    p.tablesOf.any (fun e => e.2.any (fun c => c.name == ['x']) ||
      (match e.1 with | [ch] => ch.isLower | _ => false))

/-- two of the types the run generates for get the same table identifiers `_<camelCase T>_max …`: their names differ
    only in what ToCamelCaseGO erases (`Color` / `color`, `HTTPState` / `HttpState`, `My_Type` / `MyType`).  The emitted
    declarations collide — in the all-in-one file and just as well across the per-type files of one package -/
def PkgCase.hasTableClash (p : PkgCase) : Bool :=
  let ts := p.tablesOf.map (·.1)
  ts.any (fun a => ts.any (fun b => a ≠ b && camelGO a == camelGO b))

def PkgCase.hasDup (p : PkgCase) : Bool :=
  p.tablesOf.any (fun e => !(decide (valuesT e.2).Nodup && decide (stringsT e.1 e.2).Nodup))

def c01Region (p : PkgCase) : String :=
  if !p.wellFormed || (p.gorm && !p.sql) || p.tablesOf.isEmpty then "Out"
  else if p.bit then "F_enumBitMap"
  else if p.hasTableClash then "F_enumTableClash"
  else if p.hasClash then "F_enumIdentClash"
  else if p.hasDup then "F_enumDupKey"
  else "WF"

/-- what the model of the generator predicts for the run: (exit code, something written, compiles) -/
def c01Model (p : PkgCase) : Nat × Bool × Bool :=
  if p.gorm && !p.sql then (1, false, false)
  else (0, !p.tablesOf.isEmpty,
        (!p.hasClash || p.tablesOf.isEmpty) && !p.hasTableClash && p.tablesOf.all (fun e => compiles p.bit e.1 (declared e.1 p.blocks) e.2))

/-! ## the property's answer to one call of a history, from the declaration alone

The specification is a function of the declaration and the call: no history appears in it. -/

def specStringAny (T : Name) (k : Kind) (bit : Bool) (decl : List Const) (x : Int) : Str :=
  if bit then Bit.specGeneral k.signed (Bit.table (w := k.bits) T (specSorted decl)) (BitVec.ofInt k.bits x)
  else specString T decl x

def specCall (T : Name) (k : Kind) (bit : Bool) (decl : List Const) : Call → Res
  | .string x => .str (specStringAny T k bit decl x)
  | .isValid x => .bool (specValid decl x)
  | .values => .ints (specValues decl)
  | .strings => .names (specStrings T decl)
  | .valueMap => .vmap ((specSorted decl).map (fun c => (trim T c.name, c.val)))
  | .stringMap => .smap ((specSorted decl).map (fun c => (c.val, trim T c.name)))
  | .parseEnum s => .parsed (specParse T decl s)
  | .tryParse s t => .tried (specDecode T decl (some s) t)
  | .isEnum _ v => .bool (specIsEnum decl v)
  | .unmarshalJSON d t => .decoded (specDecode T decl d.asName t)
  | .unmarshalText s t => .decoded (specDecode T decl (some s) t)
  | .scan d t => .decoded (specDecode T decl d.asName t)
  | .encode x => .str (specStringAny T k bit decl x)
  | .has x f => .bool (Bit.specHas (BitVec.ofInt k.bits x) (BitVec.ofInt k.bits f))
  | .add x f => .int (Bit.decOf k.signed (Bit.specAdd (BitVec.ofInt k.bits x) (BitVec.ofInt k.bits f)))
  | .remove x f => .int (Bit.decOf k.signed (Bit.specRemove (BitVec.ofInt k.bits x) (BitVec.ofInt k.bits f)))

/-- an IsEnum probe is a value of its own integer type (every other call is unconstrained) -/
def Call.ok : Call → Bool
  | .isEnum kV v => decide (0 < kV.bits) && kV.has v
  | _ => true

end ShootVerif.Enum
