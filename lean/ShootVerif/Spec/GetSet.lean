import ShootVerif.Model.GetSet
import ShootVerif.Spec.Ctor
/-
C03 — the property as a table over the struct's own (top-level) fields.
-/
namespace ShootVerif.GetSet
open ShootVerif.Ctor ShootVerif.Transfer

/-- field directive: undirected or both ⇒ both; only one ⇒ that one -/
def wantsGet (f : FInfo) : Bool := !f.hasDoc || f.get || !f.set
def wantsSet (f : FInfo) : Bool := !f.hasDoc || f.set || !f.get
/-- type-level directive, same reading -/
def typeGetter (doc : Option (Bool × Bool)) : Bool := match doc with | none => true | some (g, s) => g || !s
def typeSetter (doc : Option (Bool × Bool)) : Bool := match doc with | none => true | some (g, s) => s || !g

def specGetFields (doc : Option (Bool × Bool)) (t : Tree) : List String :=
  ((leavesTop t).filter (fun l => l.top && !l.info.skip && !isExportedName l.info.name &&
    wantsGet l.info && typeGetter doc)).map (·.info.name)

def specSetFields (doc : Option (Bool × Bool)) (t : Tree) : List String :=
  ((leavesTop t).filter (fun l => l.top && !l.info.skip && !isExportedName l.info.name &&
    wantsSet l.info && typeSetter doc)).map (·.info.name)

/-- top-level embedded types with an accessor interface in the package -/
def topEmbeds : Tree → List String
  | .nil => []
  | .field _ rest => topEmbeds rest
  | .embed n _ _ _ _ rest => n :: topEmbeds rest

/-- names of the entries makeGetSet can see are pairwise distinct (Go: otherwise the selector is
    ambiguous); then the once-per-name filter is the identity -/
def wfOnce (t : Tree) : Bool := (((flatten t).filter (fun f => !f.isShadowed)).map (·.name)).Nodup

def WF (t : Tree) : Bool := Ctor.WF t && wfOnce t

end ShootVerif.GetSet
