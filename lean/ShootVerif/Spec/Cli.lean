import ShootVerif.Model.Cli
/-!
C16 as an executable statement, written from the property text:

  `-type=A,B` generates for exactly the named types, `-file=f.go` for exactly the eligible types declared
  in f.go, `-type=*` for all eligible types of the package; ineligible types are skipped; naming a type that
  is missing or of the wrong kind yields a diagnostic and never an output file for it. Output for a type
  declared in src.go goes to src.shoot<cmd>.<lowercased type>.go (one file per type) or src.shoot<cmd>.go
  (all-in-one); every written file is listed in the success message.

Reading choices (each one is the weakest reading the text allows):
* "eligible" is a table over the kind of a package-level declaration (`eligible`), "of the right kind when
  named" is `acceptable` (for enum a named integer type of any width that has constants is accepted, for map
  a named unexported struct is accepted: the code generates for them and the text does not forbid it).
* `<lowercased type>` is `comp`: the lower-cased name, with a leading `_` for an unexported type (otherwise
  `Foo` and `foo` would share a file, contradicting "one file per type").
* the all-in-one file of `-type=*` belongs to the source file that carries the `//go:generate` line of this
  command line; with no such line the property only demands SOME source file of the package (`anySrc`).
* with a bad name in the list the text demands a diagnostic and no output for the bad name; it says nothing
  about the good names of the same list, so nothing is demanded for them (`SpecOut.rejected`).
-/
namespace ShootVerif.Cli

/-- package-level type declarations with their file -/
def declared : Pkg → List (String × TSpec)
  | [] => []
  | f :: r => (topSpecs f.decls).map (fun t => (f.name, t)) ++ declared r

def findDecl (pkg : Pkg) (n : String) : Option (String × TSpec) := (declared pkg).find? (·.2.name == n)

/-- the file a type is declared in -/
def fileOf (pkg : Pkg) (n : String) : Option String := (findDecl pkg n).map (·.1)

/-- Go's rule for const blocks: a spec without expression list repeats the preceding non-empty one
    *and its type*. `prev` is the type of the last spec that had values. -/
def goTyped (n : String) : (prev : Option String) → List CSpec → List String
  | _, [] => []
  | prev, s :: r =>
    let ty := if s.hasValues then s.typ else prev
    (if ty == some n then s.names.filter (· != "_") else []) ++ goTyped n ty r

def goConstsDecls (n : String) : List Decl → List String
  | [] => []
  | .consts ss :: r => goTyped n none ss ++ goConstsDecls n r
  | _ :: r => goConstsDecls n r

/-- the (non-blank) constants declared with type `n` -/
def goConsts (n : String) : Pkg → List String
  | [] => []
  | f :: r => goConstsDecls n f.decls ++ goConsts n r

def hasRestClient (es : List Embed) : Bool := es.contains .restClient

/-- picked up by `-file` / `-type=*` -/
def eligible (cmd : Cmd) (pkg : Pkg) (t : TSpec) : Bool :=
  match cmd with
  | .new => t.shape == .struct && !underscore t.name
  | .map => t.shape == .struct && exported t.name && t.hasDest
  | .rest => match t.shape with | .iface es => hasRestClient es | _ => false
  | .enum => !t.alias && (match t.under with | some k => k.listed | none => false) && !(goConsts t.name pkg).isEmpty

/-- of the right kind when named explicitly -/
def acceptable (cmd : Cmd) (pkg : Pkg) (t : TSpec) : Bool :=
  match cmd with
  | .new => t.shape == .struct && !underscore t.name
  | .map => t.shape == .struct && t.hasDest
  | .rest => match t.shape with | .iface es => hasRestClient es | _ => false
  | .enum => !t.alias && (match t.under with | some k => k.integer | none => false) && !(goConsts t.name pkg).isEmpty

inductive Mode where
  | named (ns : List String) (file : Option String)
  | file (f : String) (sep : Bool)
  | star (sep : Bool)
  deriving Repr

/-- how the property reads a command line; `none`: not one of the selection forms it talks about -/
def mode (fl : Flags) : Option Mode :=
  if fl.types.isEmpty then (if fl.file == "" then none else some (.file fl.file fl.sep))
  else if fl.types == ["*"] then (if fl.file == "" then some (.star fl.sep) else some (.file fl.file fl.sep))
  else if fl.types.contains "*" || fl.types.contains "" then none
  else some (.named fl.types (if fl.file == "" then none else some fl.file))

/-- a named type is fine: declared at package level, of the right kind, and in the named file if one is given -/
def good (cmd : Cmd) (pkg : Pkg) (file : Option String) (n : String) : Bool :=
  match findDecl pkg n with
  | none => false
  | some (f, t) => acceptable cmd pkg t && (match file with | none => true | some g => f == g)

inductive SpecOut where
  /-- exactly these files are written, each holding exactly these types, and exactly they are listed -/
  | files (l : List (OutName × List String))
  /-- a diagnostic is printed and no written file holds one of `bad` -/
  | rejected (bad : List String)
  deriving Repr, DecidableEq

/-- placeholder source of the all-in-one file when no go:generate line matches: any source file will do -/
def anySrc : String := "*"

def eligibleIn (cmd : Cmd) (pkg : Pkg) (inFile : Option String) : List String :=
  ((declared pkg).filter (fun ft => (match inFile with | none => true | some g => ft.1 == g) && eligible cmd pkg ft.2)).map (·.2.name)

def perType (pkg : Pkg) (n : String) : OutName × List String :=
  (⟨stem ((fileOf pkg n).getD ""), some (comp n)⟩, [n])

def spec (cmd : Cmd) (pkg : Pkg) (fl : Flags) : Option SpecOut :=
  match mode fl with
  | none => none
  | some (.named ns file) =>
    let bad := ns.filter (fun n => !good cmd pkg file n)
    if bad.isEmpty then some (.files (ns.map (perType pkg))) else some (.rejected bad)
  | some (.file f sep) =>
    let e := eligibleIn cmd pkg (some f)
    if sep then some (.files (e.map (fun n => (⟨stem f, some (comp n)⟩, [n]))))
    else if e.isEmpty then some (.files [])
    else some (.files [(⟨stem f, none⟩, e)])
  | some (.star sep) =>
    let e := eligibleIn cmd pkg none
    if sep then some (.files (e.map (perType pkg)))
    else if e.isEmpty then some (.files [])
    else
      let g := (pkg.find? (fun f => f.comments.any (isDirective fl.cmdline))).map (·.name)
      some (.files [(⟨match g with | some g => stem g | none => anySrc, none⟩, e)])

/-! ### what is compared -/

def holdsBad (bad : List String) (w : List (OutName × List String)) : List String :=
  bad.filter (fun b => w.any (fun f => f.2.contains b))

/-- does an outcome of the model meet the specification? (that the listed names are the written ones, sorted, is
    `C16_listed`, which holds for every input) -/
def meets : Outcome → SpecOut → Bool
  | .done w _ _, .files fs => w == fs
  | .stop _, .files _ => false
  | .done w _ warned, .rejected bad => warned && (holdsBad bad w).isEmpty
  | .stop s, .rejected _ => s == .fatal

/-! ### regions -/

inductive Region where
  | WF
  | Out
  | F_star_noline    -- `-type=*` without a matching go:generate line: `.shoot<cmd>.go`
  | F_nonpkg_type    -- a function-local type / a predeclared type with typed constants is listed or accepted by name: output for a type that is not a type of the package
  | F_star_sep       -- `-type=* -sep`: every type gets the go:generate file's prefix (or none)
  | F_case_collision -- two selected types whose names differ only in letter case share ONE per-type file: the earlier one's output is lost
  deriving DecidableEq, Repr

def Region.str : Region → String
  | .WF => "WF" | .Out => "Out" | .F_star_noline => "F_star_noline"
  | .F_star_sep => "F_star_sep" | .F_nonpkg_type => "F_nonpkg_type" | .F_case_collision => "F_case_collision"

def noLocals : List Decl → Bool
  | [] => true
  | .func _ ls :: r => ls.isEmpty && noLocals r
  | _ :: r => noLocals r

/-- const blocks are valid Go: an explicit type needs an expression list -/
def constsValid : List Decl → Bool
  | [] => true
  | .consts ss :: r => ss.all (fun s => s.typ.isNone || s.hasValues) && constsValid r
  | _ :: r => constsValid r

/-- explicit type identifiers of const specs -/
def constTypes : List Decl → List String
  | [] => []
  | .consts ss :: r => ss.filterMap (·.typ) ++ constTypes r
  | _ :: r => constTypes r

/-- every explicit const type is a package-level type of the package whose underlying type is basic
    (constants of predeclared types such as `int` are outside the enum feature set) -/
def constTypesOK (pkg : Pkg) : Bool :=
  pkg.all (fun f => (constTypes f.decls).all (fun ty =>
    match (declared pkg).find? (·.2.name == ty) with
    | some (_, t) => t.under.isSome
    | none => false))

/-- the package is a valid Go package inside the documented feature set -/
def validPkg (pkg : Pkg) : Bool :=
  (pkg.map File.name).Nodup && ((declared pkg).map (·.2.name)).Nodup
    && (((declared pkg).map (·.2.name)).map comp).Nodup     -- no two types collide after lower-casing
    && pkg.all (fun f => noLocals f.decls && constsValid f.decls && endsGo f.name)
    && constTypesOK pkg
    && !((declared pkg).map (·.2.name)).contains ""          -- identifiers are not empty

/-- `validPkg` without the clause "no two type names collide after lower-casing" (legal Go: `HTTPState` next to `HttpState`) -/
def validPkgNoComp (pkg : Pkg) : Bool :=
  (pkg.map File.name).Nodup && ((declared pkg).map (·.2.name)).Nodup
    && pkg.all (fun f => noLocals f.decls && constsValid f.decls && endsGo f.name)
    && constTypesOK pkg
    && !((declared pkg).map (·.2.name)).contains ""

/-- enum: MakeData stops with a diagnostic for this name -/
def enumFatal (pkg : Pkg) (n : String) : Bool :=
  match findDecl pkg n with
  | none => false
  | some (_, t) => t.alias || (!(goConsts n pkg).isEmpty && nonIntUnder t)

/-- `-file` names no file of the package -/
def fileMissing (pkg : Pkg) (file : Option String) : Bool :=
  match file with
  | some f => !(pkg.map File.name).contains f
  | none => false

/-- every named type is declared in the `-file` file (if one is given): confirmTypes passes -/
def allInFile (pkg : Pkg) (ns : List String) (file : Option String) : Bool :=
  match file with
  | none => true
  | some f => ns.all (fun n => fileOf pkg n == some f)

/-- valid Go package as far as file names, package-level names and const blocks go — function-local type declarations and
    constants of predeclared types (`const Max int = 3`) are allowed here -/
def validPkgL (pkg : Pkg) : Bool :=
  (pkg.map File.name).Nodup && ((declared pkg).map (·.2.name)).Nodup
    && (((declared pkg).map (·.2.name)).map comp).Nodup
    && pkg.all (fun f => constsValid f.decls && endsGo f.name)
    && !((declared pkg).map (·.2.name)).contains ""

/-- `-file=f.go -type=…` where f.go is a file of the package and some name is not a package-level type declared in f.go
    (missing, declared elsewhere, function-local, a type parameter, predeclared): confirmTypes stops the run -/
def namedNotInFile (pkg : Pkg) (fl : Flags) : Bool :=
  match mode fl with
  | some (.named ns (some f)) => (pkg.map File.name).contains f && ns.any (fun n => fileOf pkg n != some f)
  | _ => false

def regionValid (cmd : Cmd) (pkg : Pkg) (fl : Flags) : Region :=
  match mode fl with
  | none => .Out
  | some (.named ns file) =>
    if !ns.Nodup then .Out
    else if fileMissing pkg file then .Out
    else .WF
  | some (.file f _) => if (pkg.map File.name).contains f then .WF else .Out
  | some (.star sep) =>
    let e := eligibleIn cmd pkg none
    let g := (pkg.find? (fun f => f.comments.any (isDirective fl.cmdline))).map (·.name)
    if e.isEmpty then .WF
    else match g with
      | none => if sep then .F_star_sep else .F_star_noline
      | some g => if sep && !e.all (fun n => fileOf pkg n == some g) then .F_star_sep else .WF

/-- what `new` sees of a declaration (since /repo 1819261): function bodies are not entered, constants play no role -/
def stripDecl : Decl → Decl
  | .func tps _ => .func tps []
  | .consts _ => .other
  | d => d

/-- the package as `new` sees it; model and specification of `new` are invariant under it (`run_new_strip`, `spec_new_strip`) -/
def stripNew (pkg : Pkg) : Pkg := pkg.map (fun f => { f with decls := f.decls.map stripDecl })

/-- a function-local type declaration the walks of sub-command `cmd` (which, except for `new`, DO enter function bodies) pass by
    without any effect: `rest` only ever looks at interface types, `map` at struct types, `enum`'s ListTypes
    at types whose underlying type is one of the four listed integer kinds -/
def harmless (cmd : Cmd) (t : TSpec) : Bool :=
  match cmd with
  | .new => true
  | .rest => (match t.shape with | .iface _ => false | _ => true)
  | .map => t.shape != .struct
  | .enum => (match t.under with | some k => !k.listed | none => true)   -- (makeStr passes function bodies by since /repo 17b8707)

def localsHarmless (cmd : Cmd) : List Decl → Bool
  | [] => true
  | .func _ ls :: r => ls.all (harmless cmd) && localsHarmless cmd r
  | _ :: r => localsHarmless cmd r

def stripLocDecl : Decl → Decl
  | .func tps _ => .func tps []
  | d => d

/-- the package without its function-local type declarations (constants stay); the model of every sub-command is invariant
    under it when the locals are `harmless` (`run_stripLoc`), the specification always is (`spec_stripLoc`) -/
def stripLoc (pkg : Pkg) : Pkg := pkg.map (fun f => { f with decls := f.decls.map stripLocDecl })

def region (cmd : Cmd) (pkg : Pkg) (fl : Flags) : Region :=
  if validPkg pkg then regionValid cmd pkg fl
  else if pkg.all (fun f => endsGo f.name) && namedNotInFile pkg fl then .WF     -- whatever else the package contains
  else if cmd == .new && validPkgL pkg then
    -- `new` passes function-local types and constants by: the package without them is valid and decides the region
    regionValid .new (stripNew pkg) fl
  else if pkg.all (fun f => localsHarmless cmd f.decls) && validPkg (stripLoc pkg) then
    -- function-local types of a kind the sub-command's walk has no eye for (a local struct called like the RestClient interface,
    -- a local non-struct called like the mapped struct, a local struct called like the enum): the package without them is valid
    -- and decides the region
    regionValid cmd (stripLoc pkg) fl
  else if validPkgL pkg then
    -- only function-local types / constants of predeclared types keep the package out of `validPkg`: where the model
    -- (= the code) then misses the specification it is this finding, elsewhere the input stays advisory
    match spec cmd pkg fl with
    | some s => if meets (run cmd pkg fl) s then .Out else .F_nonpkg_type
    | none => .Out
  else if validPkgNoComp pkg then
    -- only type names that differ in letter case alone keep the package out of `validPkg`: where the per-type files of two
    -- selected types then coincide the model (= the code) misses the specification, elsewhere the input stays advisory
    match spec cmd pkg fl with
    | some s => if meets (run cmd pkg fl) s then .Out else .F_case_collision
    | none => .Out
  else .Out

/-- the string has no path separator: joined to a directory it names an entry OF that directory -/
def noSep (s : String) : Bool := !s.toList.contains '/'

end ShootVerif.Cli
