import ShootVerif.Model.Rest
/-
C06 — the property as an executable statement, written from its text:

  "Each generated client method sends exactly one HTTP request whose verb and path are those of its
   `shoot:` directive joined to the configured base URL, with every `{name}` placeholder replaced by
   the alias-resolved argument. For GET/DELETE the remaining scalar, struct-field and map arguments
   travel as query parameters under their alias or name with nil pointers omitted; for
   POST/PUT/PATCH the struct argument is the JSON body. The per-verb default headers and the
   interface-level `headers=` directive are set and the caller's context is attached to the request."

The specification reads the directive AS THE USER MEANT IT (verb, path, alias pairs, header pairs —
`MethodSpec`/`IfaceSpec`), not the doc text; the model reads the doc text. Both get the same
parameter list and the same argument values.
-/
namespace ShootVerif.Rest

structure MethodSpec where
  name : String
  verb : Verb
  path : List Char
  alias : List (String × String)      -- parameter ↦ alias, as written
  params : List Param
  deriving Repr, DecidableEq, Inhabited

structure IfaceSpec where
  headers : List (String × String)    -- the `headers=` pairs, as written
  methods : List MethodSpec
  deriving Repr, DecidableEq, Inhabited

/-- the name a parameter goes by on the wire (should the directive name it twice: the later pair) -/
def aliasOf (m : MethodSpec) (p : String) : String :=
  match m.alias.reverse.find? (fun kv => kv.1 = p) with
  | some kv => kv.2
  | none => p

/-- the parameter a placeholder / wire name stands for: the one aliased to it, else the one called so -/
def resolve (m : MethodSpec) (n : String) : String :=
  match m.alias.reverse.find? (fun kv => kv.2 = n) with
  | some kv => kv.1
  | none => n

/-- "every `{name}` placeholder replaced by the alias-resolved argument": all at once -/
def specPath (m : MethodSpec) (args : Args) : List Char :=
  ((tokenize m.path).map (fun t => match t with
    | .lit c => [c]
    | .ph n => argText args (resolve m (String.ofList n)))).flatten

def isPathParam (m : MethodSpec) (p : String) : Bool :=
  (placeholders m.path).any (fun n => resolve m (String.ofList n) == p)

/-- what one struct field contributes: its alias tag or its name (lower camel case for an exported
    field — the wire spelling), nil pointers omitted -/
def fieldBinding (vals : List (String × Val)) (f : Field) : Option (String × List Char) :=
  match getKV vals f.name with
  | some (.txt s) => some (fieldKey f, s)
  | _ => none

/-- query parameters contributed by everything but the maps, in parameter order -/
def plainBindings (m : MethodSpec) (args : Args) : List Param → List (String × List Char)
  | [] => []
  | p :: ps =>
    (match p.kind with
      | .scalar | .qualOther =>
        if isPathParam m p.name then []
        else match getKV args p.name with
          | some (.scalar (.txt s)) => [(aliasOf m p.name, s)]
          | _ => []                                       -- nil pointer: omitted
      | .struct fs =>
        match getKV args p.name with
        | some (.struct false vals) => fs.filterMap (fieldBinding vals)
        | _ => []                                         -- nil pointer to struct: nothing to send
      | _ => []) ++ plainBindings m args ps

/-- the entries of every map argument -/
def dictBindings (args : Args) : List Param → List (String × List Char)
  | [] => []
  | p :: ps =>
    (match p.kind with
      | .dict => match getKV args p.name with
        | some (.dict es) => es
        | _ => []
      | _ => []) ++ dictBindings args ps

/-- the query as a finite map (a key given twice keeps the later value; map entries come last) -/
def specQuery (m : MethodSpec) (args : Args) : List (String × List Char) :=
  if m.verb.hasBody then []
  else setAll [] (plainBindings m args m.params ++ dictBindings args m.params)

def isStructParam (p : Param) : Bool :=
  match p.kind with
  | .struct _ => true
  | _ => false

/-- "for POST/PUT/PATCH the struct argument is the JSON body" -/
def specBody (m : MethodSpec) : Option String :=
  if m.verb.hasBody then (m.params.find? isStructParam).map (·.name) else none

/-- "the per-verb default headers and the interface-level `headers=` directive are set":
    the directive's value for a key it names (the last one if named twice), else the verb's default -/
def specHeader (hs : List (String × String)) (v : Verb) (k : String) : Option String :=
  match (hs.reverse.find? (fun kv => kv.1 = k)) with
  | some kv => some kv.2
  | none => getKV (defaultHeaders v) k

/-- the header set as a list: directive keys (each once, last value), then the untouched defaults -/
def specHeaders (hs : List (String × String)) (v : Verb) : List (String × String) :=
  let keys := (hs.map (·.1)).eraseDups
  keys.filterMap (fun k => (specHeader hs v k).map (fun x => (k, x)))
    ++ (defaultHeaders v).filter (fun kv => !keys.contains kv.1)

def isCtxParam (p : Param) : Bool :=
  match p.kind with
  | .ctx => true
  | _ => false

/-- "the caller's context is attached": the tag of the context argument, none without one -/
def specCtx (m : MethodSpec) (args : Args) : Option String :=
  match m.params.find? isCtxParam with
  | none => none
  | some p =>
    match getKV args p.name with
    | some (.ctx t) => some t
    | _ => none

/-- the one request a call must send -/
def specRequest (i : IfaceSpec) (m : MethodSpec) (args : Args) : Request :=
  ⟨m.verb.upper, specPath m args, some (specQuery m args), specBody m, specHeaders i.headers m.verb, specCtx m args⟩

/-! ## Regions

Structural conditions under which the property's words have one meaning (`Out` otherwise):
parameter names distinct; at most one context parameter; no slice/func parameter ("unsupported
param type" is a clean Fatal); at most one struct parameter ("ambiguous body binding" is a clean
Fatal); alias keys distinct and naming scalar parameters; every placeholder stands for a non-pointer scalar
parameter (a placeholder naming an aliased parameter by its Go name has no agreed meaning); every
`{` of the path starts a placeholder; struct field names distinct. -/

def distinct (l : List String) : Bool := decide l.Nodup

def isScalarParam (p : Param) : Bool :=
  match p.kind with
  | .scalar => true
  | _ => false

def isDictParam (p : Param) : Bool :=
  match p.kind with
  | .dict => true
  | _ => false

def isQualOther (p : Param) : Bool :=
  match p.kind with
  | .qualOther => true
  | _ => false

def fieldsOf (p : Param) : List Field :=
  match p.kind with
  | .struct fs => fs
  | _ => []

/-- every `{` of the path opens a placeholder, and the path is one the directive can carry -/
def pathClean (p : List Char) : Bool :=
  !p.isEmpty && !p.contains '"' && !p.contains '\n' && trimSpace p == p &&
  (tokenize p).all (fun t => match t with | .lit c => c != '{' | .ph _ => true)

def placeholderOk (m : MethodSpec) (n : String) : Bool :=
  let p := resolve m n
  -- the placeholder is an alias, or the Go name of a parameter that has no alias
  (m.alias.any (fun kv => kv.2 == n) || !m.alias.any (fun kv => kv.1 == n)) &&
  m.params.any (fun q => q.name == p && (isScalarParam q || isQualOther q) && !q.ptr)

/-- two parameters with the same alias: the directive is rejected with a diagnostic (region `Rejected`:
    the property says nothing about requests, the check asserts the clean failure — exit 1, no file) -/
def aliasInjective (m : MethodSpec) : Bool := distinct (m.alias.map (·.2))

def methodShapeOk (m : MethodSpec) : Bool :=
  distinct (m.params.map (·.name)) &&
  (m.params.filter isCtxParam).length ≤ 1 &&
  m.params.all (fun p => p.kind != .unsupported) &&
  (m.params.filter isStructParam).length ≤ 1 &&
  distinct (m.alias.map (·.1)) &&
  m.alias.all (fun kv => m.params.any (fun p => p.name == kv.1 && (isScalarParam p || isQualOther p))) &&
  m.alias.all (fun kv => !kv.2.isEmpty) &&
  pathClean m.path &&
  (placeholders m.path).all (fun n => placeholderOk m (String.ofList n)) &&
  m.params.all (fun p => distinct ((fieldsOf p).map (·.name)) && (fieldsOf p).all (fun f => !(fieldKey f).isEmpty))

def methodStructOk (m : MethodSpec) : Bool := methodShapeOk m && aliasInjective m

/-- F_ptrDict (Q5): a `*map[…]…` parameter on GET/DELETE — inside the quantifier (pointer × map; the
    repo's own fixture has one); the generated `range` does not compile -/
def F_ptrDict (i : IfaceSpec) : Bool :=
  i.methods.any (fun m => !m.verb.hasBody && m.params.any (fun p => isDictParam p && p.ptr))

structure Call where
  method : String
  args : Args
  deriving Repr, DecidableEq, Inhabited

def findMethod (i : IfaceSpec) (name : String) : Option MethodSpec := i.methods.find? (fun m => m.name == name)

/-- F_nilStructDeref (Q3): a nil pointer-to-struct argument on GET/DELETE — inside the quantifier
    ("arbitrary argument values incl. nil pointers" × pointer-to-struct); the call panics -/
def F_nilStructDeref (i : IfaceSpec) (calls : List Call) : Bool :=
  calls.any (fun c => match findMethod i c.method with
    | none => false
    | some m => !m.verb.hasBody && m.params.any (fun p =>
        isStructParam p && !(fieldsOf p).isEmpty &&
        (match getKV c.args p.name with | some (.struct true _) => true | _ => false)))

/-- `alias=` occurs somewhere in the text -/
def containsAliasEq : List Char → Bool
  | [] => false
  | c :: cs => (stripPrefix aliasEq (c :: cs)).isSome || containsAliasEq cs

/-- some path of the interface spells `alias=` literally -/
def aliasInPath (i : IfaceSpec) : Bool := i.methods.any (fun m => containsAliasEq m.path)

/-- F_aliasInPath: `parseAlias` looks for `\Walias=` on EVERY line that starts with `shoot:` and takes the first hit, so a
    path segment such as `/alias=x` on the request line is read as the alias directive (with no pairs in it) and the real
    alias line below is never looked at: the method is generated without its aliases. Inside the quantifier (paths with
    literal segments × alias directives). The region is cut to the methods whose placeholders do not go through an alias
    (those that do lose the parameter the placeholder stands for and the output does not compile: `Out`, model-vs-code only). -/
def F_aliasInPath (i : IfaceSpec) : Bool :=
  i.methods.any (fun m => containsAliasEq m.path && !m.alias.isEmpty) &&
  i.methods.all (fun m => !containsAliasEq m.path ||
    (placeholders m.path).all (fun n => !m.alias.any (fun kv => kv.2 == String.ofList n)))

def shapeOk (i : IfaceSpec) : Bool :=
  i.methods.all methodShapeOk && distinct (i.methods.map (·.name)) && !i.methods.isEmpty

def structOk (i : IfaceSpec) : Bool := shapeOk i && i.methods.all aliasInjective

def region (i : IfaceSpec) (calls : List Call) : String :=
  if !shapeOk i then "Out"
  else if !i.methods.all aliasInjective then "Rejected"
  else if F_ptrDict i then "F_ptrDict"
  else if F_nilStructDeref i calls then "F_nilStructDeref"
  else if aliasInPath i then (if F_aliasInPath i then "F_aliasInPath" else "Out")
  else "WF"

/-- the model's answer for one call: generate the client from the doc texts, then run the method -/
def callModel (i : Iface) (method : String) (args : Args) : Option Outcome :=
  match generate i with
  | .ok plans true => (plans.find? (fun pl => pl.name == method)).map (fun pl => send pl args)
  | _ => none

def Outcome.path? : Outcome → Option (List Char)
  | .sent r => some r.path
  | .panic => none

def GenRes.failsToCompile : GenRes → Bool
  | .ok _ false => true
  | _ => false

/-- the specification's answer for the same call -/
def callSpec (i : IfaceSpec) (method : String) (args : Args) : Option Outcome :=
  (findMethod i method).map (fun m => .sent (specRequest i m args))

/-! ## a call through a retrying chain

The property speaks of THE request of a call ("whose verb, URL-escaped path, query, headers and body
are …, with the ctx attached"). A middleware that sends it again sends that request again: every
attempt carries the same verb, URL, headers and the complete JSON body, under the caller's context —
its values, and its end as soon as the caller has cancelled it. -/

def specAttempt (r : Request) (cancelAfter : Option Nat) (j : Nat) : Attempt :=
  { verb := r.verb, path := r.path, query := r.query, headers := r.headers,
    body := (match r.body with
      | none => .absent
      | some b => .whole b),
    ctx := r.ctx,
    ctxDone := r.ctx.isSome && cancelledBefore cancelAfter j }

end ShootVerif.Rest
