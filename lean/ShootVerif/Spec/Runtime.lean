import ShootVerif.Model.Runtime
/-
C19 — the property as executable statements, written from its text:

  "shoot.NewRest[T] returns the implementation registered for T, built from a RestConf holding
   exactly the supplied options (later options win); registering T twice or requesting an
   unregistered T panics. Middlewares added with Use wrap the transport so that the first added is
   outermost, with logging (if enabled) outside all of them, and the generated client's HTTP timeout
   equals the configured timeout."
-/
namespace ShootVerif.Runtime

def Opt.base? : Opt → Option String
  | .baseURL u => some u
  | _ => none
def Opt.timeout? : Opt → Option Int
  | .timeout d => some d
  | _ => none
def Opt.logging? : Opt → Option Bool
  | .enableLogging b => some b
  | _ => none
def Opt.headers? : Opt → Option Headers
  | .defaultHeaders h => some h
  | _ => none
def Opt.use? : Opt → Option Mw
  | .use m => some m
  | _ => none

/-- the value carried by the LAST option of one kind in the sequence (`none`: no such option) -/
def lastOf {α : Type} (f : Opt → Option α) : List Opt → Option α
  | [] => none
  | o :: os =>
    match lastOf f os with
    | some v => some v
    | none => f o

/-- "a RestConf holding exactly the supplied options (later options win)";
    the middlewares are all `Use` arguments in the order given -/
def specConf (opts : List Opt) : RestConf :=
  { baseURL := (lastOf Opt.base? opts).getD ""
    timeout := (lastOf Opt.timeout? opts).getD 0
    enableLogging := (lastOf Opt.logging? opts).getD false
    defaultHeaders := (lastOf Opt.headers? opts).getD none
    mws := opts.filterMap Opt.use? }

/-- "the first added is outermost, with logging (if enabled) outside all of them" -/
def specChain (c : RestConf) : List Layer :=
  (if c.enableLogging then [Layer.log] else []) ++ c.mws.map Layer.mw ++ [Layer.base]

/-- a round trip enters the layers from the outside in and leaves them in reverse -/
def specTrace (c : RestConf) : List Event :=
  (specChain c).map Event.enter ++ (specChain c).reverse.map Event.exit

/-- logging is an observer: the chain returns what it returns without logging — with ONE exception,
    a response that comes together with an error is not passed on (`return nil, err`).
    Neither C19 ("wrap the transport … logging outside all of them": order only) nor C10 is violated by
    that: a (response, error) pair breaks the RoundTripper contract, and `http.Client.Do` drops the
    response of such a pair itself before the generated code sees it — recorded, not a finding. -/
def dropRespOnErr : RTOut → RTOut
  | .both => .fail
  | o => o

def specRoundTrip (c : RestConf) (o : RTOut) : RTOut :=
  if c.enableLogging then dropRespOnErr o else o

/-- BuildMiddleware is a function of the CURRENT configuration: the chain built at any point of a
    history wraps in the order the property states for the options applied so far (whatever was built,
    copied or switched before) -/
def specBuildsFrom (before : List Opt) : List COp → List (List Event)
  | [] => []
  | .apply o :: r => specBuildsFrom (before ++ [o]) r
  | .build :: r => specTrace (specConf before) :: specBuildsFrom before r
  | .copy :: r => specBuildsFrom before r

/-- "the generated client's HTTP timeout equals the configured timeout" -/
def specClientTimeout (c : RestConf) : Int := c.timeout

/-! ## registry: stated over the history itself, no state -/

/-- the constructor of the first `Register T` in a history -/
def firstReg (t : TypeId) : List Op → Option CtorId
  | [] => none
  | .reg t' k :: rest => if t' = t then some k else firstReg t rest
  | .new _ _ :: rest => firstReg t rest

/-- outcome of one call given everything that was called before it -/
def specOutcome (before : List Op) : Op → Outcome
  | .reg t _ => if (firstReg t before).isSome then .panic (.duplicate t) else .registered
  | .new t opts =>
    match firstReg t before with
    | none => .panic (.unregistered t)
    | some k => .made k (specConf opts)

def specHistFrom (before : List Op) : List Op → List Outcome
  | [] => []
  | o :: rest => specOutcome before o :: specHistFrom (before ++ [o]) rest

def specHist (h : List Op) : List Outcome := specHistFrom [] h

/-! ## Regions of the generated-`init()` check

`WF_timeout`: a configured timeout of zero (the only value on which `d * time.Second = d`).
`F_timeout`: every other timeout — the generated `init()` multiplies a value that already is a
time.Duration by `time.Second`, so the client's timeout is 10⁹ times the configured one (and wraps
around int64 from about 9.2 s on, going negative for e.g. 10 s). Inside the property's quantifier:
`Timeout` is one of the five options it enumerates. Pinned by cmd/testdata/rest.shootrest.client.go.golden. -/
def inInt64 (d : Int) : Prop := -9223372036854775808 ≤ d ∧ d < 9223372036854775808   -- [-2^63, 2^63)
def F_timeout (c : RestConf) : Bool := c.timeout != 0

/-! ## clients keep their configuration: stated over values, no memory

"NewRest[T] returns the implementation registered for T, built from a RestConf holding exactly the supplied options":
the RestConf a client was built from holds exactly ITS options (and what its owner applied to it since), whatever other
clients were created and configured in between. -/

def specClients : List (CtorId × RestConf) → List KOp → List KOut
  | _, [] => []
  | cs, .new t opts :: r => .made t (specConf opts) :: specClients (cs ++ [(t, specConf opts)]) r
  | cs, .withOpt j o :: r =>
    match cs[j]? with
    | none => .noSuch :: specClients cs r
    | some (t, c) => .done :: specClients (cs.set j (t, o.apply c)) r
  | cs, .again j :: r =>
    match cs[j]? with
    | none => .noSuch :: specClients cs r
    | some (_, c) => .seen c :: specClients cs r

end ShootVerif.Runtime
