import ShootVerif.Model.DetOrder
/-
C07, iteration-order part — specification side.

* `siteTable`: every map-range site of the source (key = package, enclosing function, ranged expression – the key
  of the regenerated `Facts.mapRangeSites`) with the kind of argument that makes it harmless, or the finding it causes.
* `run`: the sites composed into one function of the input facts and an *oracle* that decides, for every
  iteration, the order in which Go hands out the entries.  The property (`C07_order_indep`): on well-formed
  inputs the result does not depend on the oracle.
-/
namespace ShootVerif.DetOrder

inductive Kind where
  | distinctKeys   -- `dst[k] = v` for the distinct keys of the ranged map            (putAll_perm)
  | eachTable      -- the same update applied to every element                         (eachTable_perm)
  | existential    -- `if p(k) { found = true; break }`                                (covered_perm)
  | collectSort    -- guarded append + `sort.Strings` afterwards                       (passes_equiv, sortStrings_perm)
  | singleSource   -- append what each entry contributes; ≤ 1 entry contributes       (gather_perm; otherwise F_structTwice)
  | checkedReverse -- `if dup → Fatal; rev[v] = k`: Fatal in every order, else injective (reverseMapChecked_perm, all inputs)
  | message        -- the order only reaches the `-v` debug line                        (recorded, not file bytes)
  deriving DecidableEq, Repr

def siteTable : List ((String × String × String) × Kind) := [
  (("cmd/shoot", "main", "srcMap"), .distinctKeys),                                        -- files; the success message is sorted afterwards (successMessage_perm)
  (("internal/mapper", "(*Generator).neverWriteCheck", "g.writeDestSet"), .existential),
  (("internal/mapper", "(*Generator).neverWriteCheck", "g.writeSrcSet"), .existential),
  (("internal/mapper", "(*Generator).nilCheckWrite", "g.destPtrTypeMap"), .collectSort),
  (("internal/mapper", "(*Generator).nilCheckWrite", "g.srcPtrTypeMap"), .collectSort),
  (("internal/mapper", "(*Generator).nilCheckWrite", "g.writeDestMap()"), .collectSort),   -- outer loop: one guarded pass per matching value
  (("internal/restclient", "(*Generator).cookClient", "asMap"), .checkedReverse),
  (("internal/restclient", "(*Generator).cookClient", "g.data.DefaultHeaders"), .eachTable),
  (("internal/restclient", "(*Generator).cookClient", "headers"), .distinctKeys),
  (("internal/restclient", "extractStructFields", "pkg.Files"), .singleSource),
  (("internal/restclient", "extractStructFields", "pkgs"), .singleSource),
  (("internal/restclient", "parseHeaders", "kvMap"), .distinctKeys),
  (("internal/shoot", "(*GeneratorBase).LoadPackage", "g.overlay"), .message)              -- `-v` debug line only
]

/-- sites whose order-independence needs a condition on the input; the condition's failure is a finding region
    (the unchanged code is non-deterministic there) or lies outside the input domain -/
def conditional : Kind → Bool
  | .singleSource | .message => true
  | _ => false

/-! ## The composed run -/

/-- this execution's iteration orders: for every site (and iteration) a rearrangement of the entries -/
structure Oracle where
  order : {α : Type} → String → List α → List α
  perm : ∀ {α : Type} (site : String) (l : List α), (order site l).Perm l

/-- the facts the sites iterate over (each a Go map, so with distinct keys) -/
structure Input where
  defs : List Def                                   -- the definitions of the package (scope look-up, not iterated)
  typeNames : List String                           -- the `-type` list
  alias : Entries String String                     -- rest: parameter ↦ placeholder
  pathParams : List String
  headers : Entries String String                   -- rest: interface-level `headers=`
  kv : Entries String String                        -- rest: parseKV result
  tables : Entries String (Entries String String)   -- rest: DefaultHeaders (verb ↦ table)
  structFiles : Entries String (List String)        -- rest: file ↦ fields it declares for the struct parameter
  writeSet : Entries String Unit                    -- map: a write-set
  coverTest : String → Bool
  passes : List (String × (String → Bool) × Entries String String)   -- map: nilCheckWrite passes (label, cover test, pointer-type map)
  outputs : Entries String String                   -- srcMap: file name ↦ bytes
  dir : Entries String String                       -- the directory before the writes

/-- everything the written bytes are computed from, plus the directory afterwards -/
structure Output where
  goFiles : List String
  pathParams : Option (List String)                 -- none: the run stopped on a duplicate alias
  message : List String                             -- the success message
  parsedHeader : String → Option String
  header : String → String → Option String
  structFields : List String
  neverWritten : Bool
  ptrPaths : List String
  ptrType : String → Option String
  file : String → Option String

def hdrTables (o : Oracle) (i : Input) : Entries String (Entries String String) :=
  (o.order "cookClient/headers" i.headers).foldl (fun tabs e => eachTable tabs e.1 e.2) (o.order "cookClient/DefaultHeaders" i.tables)

def run (o : Oracle) (i : Input) : Output :=
  { goFiles := i.typeNames.map (fun t => getGoFile i.defs t),
    pathParams := realPathParamsChecked (o.order "cookClient/asMap" i.alias) i.pathParams,
    message := successMessage (o.order "main/srcMap" i.outputs),
    parsedHeader := fun k => get (putAll (o.order "parseHeaders/kvMap" i.kv) []) k,
    header := fun verb key => (get (hdrTables o i) verb).bind (fun tab => get tab key),
    structFields := gather (o.order "extractStructFields" i.structFiles),
    neverWritten := !covered (o.order "neverWriteCheck" i.writeSet) i.coverTest,
    ptrPaths := (ptrPaths (i.passes.map (fun p => (p.2.1, o.order ("nilCheckWrite/" ++ p.1) p.2.2)))).1,
    ptrType := fun k => get (ptrPaths (i.passes.map (fun p => (p.2.1, o.order ("nilCheckWrite/" ++ p.1) p.2.2)))).2 k,
    file := fun n => get (writeAll (o.order "main/srcMap" i.outputs) i.dir) n }

/-- the `-v` debug line of LoadPackage lists the overlay keys in iteration order: not part of `Output` -/
def debugLine (o : Oracle) (i : Input) : List String := messageOf (o.order "LoadPackage/overlay" i.outputs)

/-! ## Well-formed inputs -/

/-- the inputs are maps -/
def isMaps (i : Input) : Prop :=
  (keys i.alias).Nodup ∧ (keys i.headers).Nodup ∧ (keys i.kv).Nodup ∧ (keys i.tables).Nodup ∧
  (keys i.outputs).Nodup ∧ (∀ p ∈ i.passes, (keys p.2.2).Nodup)

/-- the struct of a query parameter is declared in one file of one package -/
def singleDecl (i : Input) : Prop := (i.structFiles.filter (fun e => !e.2.isEmpty)).length ≤ 1

def WF (i : Input) : Prop := isMaps i ∧ singleDecl i

/-! decidable versions for the driver -/

/-- what `getGoFileBefore` could return over all iteration orders -/
def goFileCandidates (defs : List Def) (t : String) : List String :=
  ((defs.filter (fun d => d.isTypeName && d.name = t)).map (·.file)).eraseDups

end ShootVerif.DetOrder
