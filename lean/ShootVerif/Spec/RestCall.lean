import ShootVerif.Model.RestCall
import ShootVerif.Model.Retry
/-
C10 — the property as an executable statement, written from its text:

  "A generated client method returns a nil error exactly for 2xx responses, decoding the JSON body
   into the declared result (an empty body gives the zero value); 4xx yields a `client error`, 5xx a
   `server error`, both quoting status and body, any other status a `not supported` error, and a
   transport failure is returned unchanged. Whenever a response was received it is returned next to
   the error, and the result is nil or zero on every error path."

Observables (what the property talks about, nothing else): the error's kind (or nil), whether a
client/server message quotes status and body, whether the transport's response object is returned,
and the class of the result value (absent / nil-or-zero / decoded).
-/
namespace ShootVerif.RestCall

/-- class of the first result: the property does not tell a nil pointer from a pointer to the zero
    value ("nil or zero", "the zero value"), so both are `zeroish` -/
inductive ResClass where
  | absent | zeroish | decoded
  deriving Repr, DecidableEq, Inhabited

structure Obs where
  err : Option ErrKind
  quote : Bool          -- client/server error whose message carries status and body; false otherwise
  resp : Bool
  result : ResClass
  deriving Repr, DecidableEq, Inhabited

def Res.cls : Res → ResClass
  | .absent => .absent
  | .nil => .zeroish
  | .zero => .zeroish
  | .decoded => .decoded

def quoteObs : Option Err → Bool
  | some ⟨.client, qs, qb⟩ => qs && qb
  | some ⟨.server, qs, qb⟩ => qs && qb
  | _ => false

/-- property-level observation of a model run -/
def obs (r : Ret) : Obs :=
  ⟨r.err.map (·.kind), quoteObs r.err, r.resp, r.result.cls⟩

/-- "2xx" -/
def is2xx (s : Int) : Bool := 200 ≤ s && s < 300

/-- the error the property prescribes for a received response -/
def specErr (shape : Shape) (s : Int) (b : Body) : Option ErrKind :=
  if is2xx s then
    -- nil error, the body decoded into the declared result; a body that is not JSON of the result
    -- type — or that never arrives completely (`broken`) — cannot be decoded: the decoder's error
    -- (no result ⇒ nothing is decoded)
    if shape = .none ∨ b = .empty ∨ b = .valid then none else some .decode
  else if 400 ≤ s ∧ s ≤ 499 then some .client
  else if 500 ≤ s ∧ s ≤ 599 then some .server
  else some .notSupported

def specResult (shape : Shape) (s : Int) (b : Body) : ResClass :=
  if shape = .none then .absent
  else if specErr shape s b = none ∧ b = .valid then .decoded
  else .zeroish     -- empty body: the zero value; every error path: nil or zero

def spec (shape : Shape) : Transport → Obs
  | .fault f => ⟨some (.transport f), false, false, if shape = .none then .absent else .zeroish⟩
  -- "whenever a response was received it is returned next to the error"
  | .respErr _ => ⟨some .redirect, false, true, if shape = .none then .absent else .zeroish⟩
  | .resp s b =>
    let e := specErr shape s b
    ⟨e, e = some .client ∨ e = some .server, true, specResult shape s b⟩

/-! ## Regions

`WF`: every fault and every response whose status is below 600 (the property's 200..599 and, under
"any other status", everything below 200, including the non-codes -1, 0, 99 a custom RoundTripper
may produce). `Out`: status ≥ 600 — not an HTTP status class; the property's "5xx" does not say
whether 600 is a server error (the code's `>= 500` says yes, "any other status" read literally says
not-supported). Advisory there: implementation and model are still compared. -/
def WF : Transport → Bool
  | .fault _ => true
  | .resp s _ => s < 600
  | .respErr _ => false

/-- F_respWithError: `client.Do` hands back a response together with an error (a CheckRedirect policy
    refusing a 3xx redirect). The property's sentence "whenever a response was received it is returned
    next to the error" is universal and 3xx is inside the status range, so this is inside the property;
    the emitted `if err != nil { return nil…, err }` right after `Do` drops the response. -/
def F_respWithError : Transport → Bool
  | .respErr _ => true
  | _ => false

/-! ## a client whose middleware chain contains RetryMiddleware(n, 0)

The base transport answers a script (per round trip: an error, or a response with a status and a
body class). What `client.Do` hands to the generated code is the result of the retry loop (model:
`Retry.retry`, property C20); `http.Client.Do` ignores a response that comes with an error. -/

def effective (sts : List (Retry.Outcome × Body)) (n : Nat) : Transport :=
  let script : Nat → Retry.Outcome := fun i => (sts.map (·.1)).getD i .err
  let ret := (Retry.retry script (n : Int)).2
  match ret.err, ret.resp with
  | some _, _ => .fault .refused
  | none, some i =>
    (match sts.getD i (.err, .empty) with
      | (.resp s, b) => .resp (s : Int) b
      | (.errResp s, b) => .resp (s : Int) b
      | (.err, _) => .fault .refused)
  | none, none => .fault .refused

end ShootVerif.RestCall
