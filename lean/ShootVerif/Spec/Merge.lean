import ShootVerif.Model.Merge
/-
C08, merge part — the property as an executable statement, written from the property text:

  "the single file produced for `-file=` or `-type=*` contains exactly the declarations, doc comments
   and imports of the files obtained by generating the same types one at a time in the same order,
   under one header."

* declarations: every non-import declaration of every file, files in order, declarations in order;
* doc comments: each declaration carries its *own* comments – the doc comment (the comment group that
  ends on the line directly above it) and the comments inside it – and nothing else;
* imports: the union of the files' imports: one entry per distinct (path, name), in order of first
  occurrence;
* header and package clause: those of the first file.
-/
namespace ShootVerif.Merge

def inside (d : Decl) (c : Comment) : Bool := d.pos ≤ c.pos && c.pos ≤ d.endp

/-- the declaration's doc comment, as the parser associated it -/
def isDoc (d : Decl) (c : Comment) : Bool := d.docPos = some c.pos

def own (d : Decl) (c : Comment) : Bool := inside d c || isDoc d c

def specItem (f : File) (d : Decl) : Item :=
  { comments := (f.comments.filter (own d)).map (·.text), text := d.text }

def specItemsOf (f : File) : List Item := (f.decls.filter (fun d => !d.isImport)).map (specItem f)

def specItems (fs : List File) : List Item := fs.flatMap specItemsOf

/-- first occurrences, by removing the later duplicates (right fold; the code folds left with a seen-set) -/
def firstOcc (is : List Import) : List Import :=
  is.foldr (fun i acc => i :: acc.filter (fun j => j.key ≠ i.key)) []

def specImports (fs : List File) : List Import := firstOcc (fs.flatMap (·.imports))

def specOut : List File → Option Out
  | [] => none
  | f :: fs => some { header := f.comments.head?.map (·.text), pkg := f.pkg,
                      imports := specImports (f :: fs), items := specItems (f :: fs) }

/-! ## Regions -/

/-- go/parser invariant: a doc comment group ends before its declaration starts (`Doc` is the lead comment).
    This is the only premise left for the doc-comment theorem; it says nothing about the templates' layout. -/
def docBefore (f : File) : Bool :=
  f.decls.all (fun d => f.comments.all (fun c => !isDoc d c || c.endp ≤ d.pos))

/-- all files that contribute a declaration belong to the first file's package -/
def samePkg : List File → Bool
  | [] => true
  | f :: fs => !pkgClash f.pkg (f :: fs)

def WF (fs : List File) : Bool := fs.all docBefore && samePkg fs

def region (fs : List File) : String :=
  if fs.isEmpty || !WF fs then "Out" else "WF"

end ShootVerif.Merge
