import ShootVerif.Model.Merge
/-
C08, merge part — the property as an executable statement, written from the property text:

  "the single file produced for `-file=` or `-type=*` contains exactly the declarations, doc comments
   and imports of the files obtained by generating the same types one at a time in the same order,
   under one header."

* declarations: every non-import declaration of every file, files in order, declarations in order;
* doc comments: each declaration carries its *own* comments – the doc comment (the comment group that
  ends on the line directly above it) and the comments inside it – and nothing else;
* imports: the union of the files' imports: one entry per distinct (path, name), in order of first
  occurrence;
* header and package clause: those of the first file.
-/
namespace ShootVerif.Merge

def inside (d : Decl) (c : Comment) : Bool := d.pos ≤ c.pos && c.pos ≤ d.endp

/-- doc comment: ends exactly one byte (the newline) before the declaration starts -/
def isDoc (d : Decl) (c : Comment) : Bool := c.endp + 1 == d.pos

def own (d : Decl) (c : Comment) : Bool := inside d c || isDoc d c

def specItem (f : File) (d : Decl) : Item :=
  { comments := (f.comments.filter (own d)).map (·.text), text := d.text }

def specItemsOf (f : File) : List Item := (f.decls.filter (fun d => !d.isImport)).map (specItem f)

def specItems (fs : List File) : List Item := fs.flatMap specItemsOf

/-- first occurrences, by removing the later duplicates (right fold; the code folds left with a seen-set) -/
def firstOcc (is : List Import) : List Import :=
  is.foldr (fun i acc => i :: acc.filter (fun j => j.key ≠ i.key)) []

def specImports (fs : List File) : List Import := firstOcc (fs.flatMap (·.imports))

def specOut : List File → Option Out
  | [] => none
  | f :: fs => some { header := f.comments.head?.map (·.text), pkg := f.pkg,
                      imports := specImports (f :: fs), items := specItems (f :: fs) }

/-! ## Regions -/

/-- layout of generated sources (gofmt output of the four templates): a comment group that ends fewer
    than 10 bytes before a declaration is that declaration's doc comment.  The templates only emit doc
    comments, comments inside bodies and the file header, which is followed by `\n\npackage x\n\n`
    (≥ 13 bytes) – so every generated file satisfies this. -/
def layoutOK (f : File) : Bool :=
  f.decls.all (fun d => d.isImport ||
    f.comments.all (fun c => !(c.endp ≤ d.pos && d.pos - c.endp < 10) || isDoc d c))

/-- all files that contribute a declaration belong to the first file's package -/
def samePkg : List File → Bool
  | [] => true
  | f :: fs => !pkgClash f.pkg (f :: fs)

def WF (fs : List File) : Bool := fs.all layoutOK && samePkg fs

/-- the layout condition fails only because a comment INSIDE one declaration ends fewer than 10 bytes before the
    next declaration of the same file (`func (c *client) ShootRest() { /*noop*/ }` followed by `func init()` in
    the output of `shoot rest`): the code then prints that comment a second time, in front of the next declaration -/
def strayOnly (f : File) : Bool :=
  f.decls.all (fun d => d.isImport ||
    f.comments.all (fun c => !(c.endp ≤ d.pos && d.pos - c.endp < 10) || isDoc d c ||
      f.decls.any (fun e => !e.isImport && inside e c)))

def region (fs : List File) : String :=
  if fs.isEmpty || !samePkg fs then "Out"
  else if fs.all layoutOK then "WF"
  else if fs.all strayOnly then "F_strayComment"
  else "Out"

end ShootVerif.Merge
