import ShootVerif.Model.Mapper
/-
C05 / C09 / C15 — the properties as executable statements over the two struct trees, written from
the property text (not from the generator's algorithm), plus the region predicates.

C05. A destination leaf `d` receives the value of the source leaf `s` iff both are selectable
exported fields, neither is tagged `map:"-"`, the names match (identical, equal up to acronym
casing = same words, through the `map:"Name"` tag of `s`, or case-insensitively with -i) and a
strategy exists for the two types; the strategy is the user's mapper method when one with exactly
those types exists, else recursive mapping for struct types of the two packages (value, pointer,
slice), else assignment for identical types, else a conversion unless it is string<->fixed-width
integer. Everything else stays zero. There is no write-set in this statement.

C09. Executing the same statements never panics; a statement whose reading path crosses a nil
pointer is skipped, nil slices and nil elements are skipped; FromX does not depend on the receiver.

C15. With accessors: a field is readable if exported or it has a getter, writable if exported, a
constructor parameter or it has a setter; the values that arrive are those of C05 on the exported twin.
-/
namespace ShootVerif.Mapper
open ShootVerif.Transfer

/-! ## Name matching, from the text -/

/-- a word starts at an upper-case letter that follows a lower-case letter or precedes one
    (`UserID` = User·ID, `HTTPServer` = HTTP·Server, `ID2Name` = ID2·Name) -/
def wordStartsAux : Char → List Char → List Bool
  | _, [] => []
  | prev, c :: cs =>
    let nextLower := match cs with | n :: _ => isLower n | [] => false
    (isUpper c && (isLower prev || nextLower)) :: wordStartsAux c cs

def wordStarts : List Char → List Bool
  | [] => []
  | c :: cs => wordStartsAux c cs

/-- equal up to acronym casing: the same letters ignoring case, split into the same words; the case
    of the very first letter is immaterial (accessor names are Pascal-cased field names) -/
def sameWords (a b : List Char) : Bool :=
  a.length == b.length && equalFoldL a b && wordStarts (upFirst a) == wordStarts (upFirst b)

def specNameMatch (ic : Bool) (a b : String) : Bool :=
  if ic then equalFold a b else (a == b || sameWords a.toList b.toList)

/-! ## Strategy, from the text -/

/-- struct types of the two packages held by value or pointer: (reading is pointer, written is pointer) -/
def structPair (rdPkg wrPkg : Pkg) (a b : Ty) : Option (Bool × Bool) :=
  let (p1, e1) := a.strip
  let (p2, e2) := b.strip
  if e1.isStructNamed && e1.isNamedIn rdPkg && e2.isStructNamed && e2.isNamedIn wrPkg then some (p1, p2) else none

/-- assignment for identical types, else a Go conversion other than string<->fixed-width integer -/
def specScalar (inp : Input) (a b : Ty) : Option Strat :=
  if a == b then some .assign
  else if rawConv inp.conv a b && !mayMisConv a b then some .conv
  else none

def specStrategy (inp : Input) (rdPkg wrPkg : Pkg) (a b : Ty) : Option Strat :=
  match (indexed inp.fns).find? (fun kf => kf.2.param == a && kf.2.result == b) with
  | some kf => some (.func kf.1)
  | none =>
    match structPair rdPkg wrPkg a b with
    | some (r, w) => some (.sub r w)
    | none =>
      match a, b with
      | .slice ea, .slice eb =>
        (match structPair rdPkg wrPkg ea eb with
         | some (r, w) => some (.each r w)
         | none => specScalar inp a b)
      | _, _ => specScalar inp a b

/-! ## The per-pair decision in closed form (what the write-set loop computes for one pair) -/

def firstFn (fns : List (Nat × Fn)) (a b : Ty) : Option Nat :=
  (fns.find? (fun kf => kf.2.param == a && kf.2.result == b)).map (·.1)

/-- mismatch pass for reading type `a`, written type `b`: method, else recursive mapping of named
    types of the two packages, else the same for slice elements -/
def misStrat (fns : List (Nat × Fn)) (rdPkg wrPkg : Pkg) (a b : Ty) : Option Strat :=
  match firstFn fns a b with
  | some k => some (.func k)
  | none =>
    if a.strip.2.isNamedIn rdPkg && b.strip.2.isNamedIn wrPkg then some (.sub a.strip.1 b.strip.1)
    else match a, b with
      | .slice e1, .slice e2 =>
        if e1.strip.2.isNamedIn rdPkg && e2.strip.2.isNamedIn wrPkg then some (.each e1.strip.1 e2.strip.1) else none
      | _, _ => none

/-- match pass: assignment for identical types, else conversion (minus string<->fixed-width int) -/
def matStrat (conv : List (Ty × Ty)) (a b : Ty) : Option Strat :=
  if a == b then some .assign else if (matchType conv a b).2 then some .conv else none

/-- the strategy of a name-matched pair: mismatch pass first -/
def pairStrat (conv : List (Ty × Ty)) (fns : List (Nat × Fn)) (rdPkg wrPkg : Pkg) (a b : Ty) : Option Strat :=
  (misStrat fns rdPkg wrPkg a b).orElse (fun _ => matStrat conv a b)

/-! ## Which leaves take part -/

/-- Go can select the leaf by its bare name -/
def visible (t : Tree) (l : Leaf) : Bool :=
  match goResolve t l.decl.name with
  | some r => r.path == l.path
  | none => false

/-- accessor mode: the exported twin of a field name -/
def twinName (isNew : Bool) (n : String) : String := if isNew && !isExported n then pascalS n else n

def readable (isNew : Bool) (l : Leaf) : Bool :=
  isExported l.decl.name || (isNew && l.decl.hasGet)

/-- constructor parameters of an accessor-mode type: the `new`-marked fields, or all of them -/
def isCtorParam (t : Tree) (l : Leaf) : Bool :=
  (l.depth == 0 && l.decl.newMark) || !(flatDecls t).any (·.newMark)

def writable (t : Tree) (isNew : Bool) (l : Leaf) : Bool :=
  isExported l.decl.name || (isNew && (l.decl.hasSet || isCtorParam t l))

/-- the name a source leaf is matched under: its `map:"Name"` tag (Pascal-cased like the tool does) or its own -/
def effName (isNew : Bool) (l : Leaf) : String :=
  match l.decl.tag with
  | .name t => pascalS t
  | _ => twinName isNew l.decl.name

/-- the leaf lies inside an embedded struct that is tagged `map:"-"` -/
def underSkipped (sk : List (List String)) (l : Leaf) : Bool := sk.any (fun p => p.isPrefixOf l.path)

/-- a leaf takes part when Go selects it by its bare name and neither it nor an embedded struct it lies in is tagged
    `map:"-"` (a left-out field or embedded struct still hides deeper fields of the same name: `visible` is Go's rule) -/
def takesPart (t : Tree) (sk : List (List String)) (l : Leaf) : Bool :=
  visible t l && l.decl.tag != .skip && !underSkipped sk l

/-- candidates for a destination leaf in ToX -/
def candsTo (inp : Input) (d : Leaf) : List (Leaf × Strat) :=
  -- a field the user's manual write hook assigns is the hook's business
  if !(takesPart inp.dest inp.destSkipEmbeds d && writable inp.dest inp.destNew d) || inp.manualW.contains d.decl.name then [] else
  (leavesOf inp.src).filterMap (fun s =>
    if takesPart inp.src inp.srcSkipEmbeds s && readable inp.srcNew s &&
       specNameMatch inp.ic (effName inp.srcNew s) (twinName inp.destNew d.decl.name) then
      (specStrategy inp .src .dest s.decl.ty d.decl.ty).map (fun st => (s, st))
    else none)

/-- candidates for a source leaf in FromX -/
def candsFrom (inp : Input) (s : Leaf) : List (Leaf × Strat) :=
  if !(takesPart inp.src inp.srcSkipEmbeds s && writable inp.src inp.srcNew s) || inp.manualR.contains s.decl.name then [] else
  (leavesOf inp.dest).filterMap (fun d =>
    if takesPart inp.dest inp.destSkipEmbeds d && readable inp.destNew d &&
       specNameMatch inp.ic (effName inp.srcNew s) (twinName inp.destNew d.decl.name) then
      (specStrategy inp .dest .src d.decl.ty s.decl.ty).map (fun st => (d, st))
    else none)

def provenance (N : List String) (c : Leaf × Strat) : V :=
  match c.2 with
  | .func k => applyFn k (readLeaf N c.1)
  | _ => readLeaf N c.1

/-- C05: the value of destination leaf `d` after `s.ToX()` on a fully populated source (`none`: the
    text does not single out one source — several match) -/
def specTo (inp : Input) (d : Leaf) : Option V :=
  match candsTo inp d with
  | [] => some .zero
  | [c] => some (provenance [] c)
  | _ => none

def specFrom (inp : Input) (s : Leaf) : Option V :=
  match candsFrom inp s with
  | [] => some .zero
  | [c] => some (provenance [] c)
  | _ => none

/-! ## Model-side observation of the same thing -/

/-- value of a written leaf after executing the method on a fully populated reading side -/
def obsLeaf (o : Outcome) (l : Leaf) : String :=
  match o with
  | .value w => (w.get (joinPath l.path)).show
  | .panic => "panic"
  | .nil => "nil"

/-! ## Observables of C05 (model side, spec side) -/

/-- among the partners a field could claim (written side not a getter) there is at most one — what
    accessor mode still has when `uniquePairs` fails (a getter and a setter pseudo-field of one field
    both match the partner) -/
def uniqueClaimable (inp : Input) : Bool :=
  let p := plan inp
  let ps := pairs inp.nm p.srcFields p.destFields
  ps.all (fun a => ps.all (fun b => !(a.1 == b.1) || a.2.isGet || b.2.isGet || a.2 == b.2)) &&
  ps.all (fun a => ps.all (fun b => !(a.2 == b.2) || a.1.isGet || b.1.isGet || a.1 == b.1))

/-- `{{if not .IsFromOnly}}` / `{{if not .IsToOnly}}`: which methods are emitted -/
def toGen (inp : Input) : Bool := inp.way != .fromOnly
def fromGen (inp : Input) : Bool := inp.way != .toOnly

/-- does the generated file type-check, as far as the model can tell -/
def modelCompiles (inp : Input) : Bool :=
  let p := plan inp
  (!toGen inp || (p.toStmts.all (stmtCompiles inp.src inp.dest) &&
    (match p.destCtor with | some as => as.all (argCompiles inp.src) | none => true))) &&
  (!fromGen inp || (p.fromStmts.all (stmtCompiles inp.dest inp.src) &&
    (match p.srcCtor with | some as => as.all (argCompiles inp.dest) | none => true)))

def optV : Option V → Option String
  | some v => some v.show
  | none => none

/-- the mismatch pass comes first, so struct types of the two packages get a recursive ToX / FromX even when they are
    convertible as Go types (identical layouts): no statement converts one into the other -/
def nestedMapped (inp : Input) : Bool :=
  ((plan inp).toStmts ++ (plan inp).fromStmts).all (fun c =>
    !(c.strat == .conv && (elemOf c.rd.ty).isStructNamed && (elemOf c.wr.ty).isStructNamed))

/-- C05 observables: presence of the two methods, and per written leaf where its value came from -/
def obs05 (inp : Input) : List (String × String) :=
  if !modelCompiles inp then [("compile", "error")] else
  [("compile", "ok"), ("to:present", toString (toGen inp)), ("from:present", toString (fromGen inp))]
    ++ (if toGen inp then
          let o := execTo inp []
          match o with
          | .value _ => (leavesOf inp.dest).map (fun l => ("to:" ++ joinPath l.path, obsLeaf o l)) ++
              [("to:nested", if nestedMapped inp then "ok" else "copied")]
          | _ => [("to:panic", "true")]
        else [])
    ++ (if fromGen inp then
          let o := execFrom inp []
          match o with
          | .value _ => (leavesOf inp.src).map (fun l => ("from:" ++ joinPath l.path, obsLeaf o l)) ++
              [("from:nested", if nestedMapped inp then "ok" else "copied"),
               ("from:recv", if fromWritesReceiver inp then "receiver" else "returned-another-pointer"),
               ("from:reuse", if fromWritesReceiver inp then "receiver" else "returned-another-pointer")]
          | _ => [("from:panic", "true"), ("from:recv", "panic"), ("from:reuse", "panic")]
        else [])

def spec05 (inp : Input) : List (String × String) :=
  [("compile", "ok"), ("to:present", toString (toGen inp)), ("from:present", toString (fromGen inp))]
    ++ (if toGen inp then (leavesOf inp.dest).filterMap (fun l => (optV (specTo inp l)).map (fun v => ("to:" ++ joinPath l.path, v)))
          -- nested structs of the two packages are MAPPED (their own tags apply, a pointer gets a fresh target), never copied wholesale
          ++ [("to:nested", "ok")] else [])
    ++ (if fromGen inp then (leavesOf inp.src).filterMap (fun l => (optV (specFrom inp l)).map (fun v => ("from:" ++ joinPath l.path, v)))
          ++ [("from:nested", "ok")]
          -- "reads from X, then writes back to receiver and returns it": for a fresh and for a reused receiver
          ++ [("from:recv", "receiver"), ("from:reuse", "receiver")] else [])

/-! ## Round trip: FromX (ToX v) -/

/-- what FromX statement `c` stores when it runs on the result `wTo` of ToX (fully populated source):
    (source leaf, value). Mapper methods on the way back are left out of the observation. -/
def rtValue (inp : Input) (wTo : WSt) (c : Claim) : Option (String × V) :=
  match resolveField inp.dest c.rd, resolveField inp.src c.wr with
  | some dl, some sl =>
    (match c.strat with
     | .func _ => none
     | _ => some (joinPath sl.path, wTo.get (joinPath dl.path)))
  | _, _ => none

def fromFuncLeaves (inp : Input) : List String :=
  (plan inp).fromStmts.filterMap (fun c => match c.strat, resolveField inp.src c.wr with
    | .func _, some sl => some (joinPath sl.path)
    | _, _ => none)

/-- model: the source leaves after `new(S).FromX(s.ToX())` -/
def obsRT (inp : Input) : List (String × String) :=
  if !(toGen inp && fromGen inp) || !modelCompiles inp || inp.srcNew || inp.destNew then [] else
  match execTo inp [], execFrom inp [] with
  | .value w, .value _ =>
    let vals := (plan inp).fromStmts.filterMap (rtValue inp w)
    let skip := fromFuncLeaves inp
    (leavesOf inp.src).filterMap (fun l =>
      let p := joinPath l.path
      if skip.contains p then none
      else
        let v : V := match vals.reverse.find? (fun (e : String × V) => e.1 == p) with
          | some e => e.2
          | none => .zero
        some ("rt:" ++ p, v.show))
  | _, _ => []

/-- spec: a source leaf that is paired with a destination leaf of IDENTICAL type (assignment both
    ways, the only candidates of each other) holds its own value again -/
def specRT (inp : Input) : List (String × String) :=
  if !(toGen inp && fromGen inp) || inp.srcNew || inp.destNew then [] else
  (leavesOf inp.src).filterMap (fun s =>
    match candsFrom inp s with
    | [(d, .assign)] =>
      (match candsTo inp d with
       | [(s', .assign)] => if s'.path == s.path then some ("rt:" ++ joinPath s.path, (readLeaf [] s).show) else none
       | _ => none)
    | _ => none)

/-! ## Regions -/

def levelNames : Tree → List String
  | .nil => []
  | .field f rest => f.name :: levelNames rest
  | .embed n _ _ rest => n :: levelNames rest

/-- Go: member names of one struct are distinct, at every level -/
def wfLevels : Tree → Bool
  | .nil => true
  | .field f rest => !(levelNames rest).contains f.name && wfLevels rest
  | .embed n _ body rest => !(levelNames rest).contains n && wfLevels body && wfLevels rest

def embedNames : Tree → List String
  | .nil => []
  | .field _ rest => embedNames rest
  | .embed n _ body rest => n :: (embedNames body ++ embedNames rest)

def reservedNames : List String := ["ShootMap", "ShootNew", "Mapper"]

/-- every exported field name selects exactly one leaf or is hidden by a shallower FIELD (not by an
    embedded type name, not ambiguous: `goResolve` counts embedded type names as members), and no field is called like a
    generated method. A field may be called like an embedded type that lies deeper -/
def wfSelectors (t : Tree) : Bool :=
  (leavesOf t).all (fun l =>
    (goResolve t l.decl.name).isSome && !reservedNames.contains l.decl.name)

def noUnderscore (n : String) : Bool := !n.toList.contains '_'

def allNames (t : Tree) : List String := (leavesOf t).map (·.decl.name)

/-- embedded structs of an accessor-mode type (themselves accessor-mode types, by value or by pointer,
    to any depth): no `new` marks or tags inside -/
def newEmbedsOk : Tree → Bool
  | .nil => true
  | .field _ rest => newEmbedsOk rest
  | .embed _ _ body rest => (allDecls body).all (fun d => !d.newMark && d.tag == .none) && newEmbedsOk rest

/-- the accessor-mode shape of C15: fields plus embedded accessor-mode structs (one level), distinct twins,
    directives only on unexported fields -/
def wfNewSide (t : Tree) (isNew : Bool) : Bool :=
  !isNew || (newEmbedsOk t &&
    ((leavesOf t).map (fun l => pascalS l.decl.name)).Nodup &&
    ((leavesOf t).map (fun l => camelS l.decl.name)).Nodup &&
    (leavesOf t).all (fun l => !(isExported l.decl.name && (l.decl.get || l.decl.set))))

def dupFns (fns : List Fn) : Bool := !(fns.map (fun f => (f.param, f.result))).Nodup

/-- a recursive mapping is only meaningful between the helper types that are mapped to each other
    (`src.Sub` ↔ `dest.Sub`): the same type name on both sides -/
def subNamesAgree (a b : Ty) : Bool :=
  let e := fun (t : Ty) => match t with | .slice x => x.strip.2 | x => x.strip.2
  match e a, e b with
  | .named .src n1 _, .named .dest n2 _ => n1 == n2
  | _, _ => true

def grammarOk (inp : Input) : Bool :=
  wfLevels inp.src && wfLevels inp.dest && wfSelectors inp.src && wfSelectors inp.dest &&
  !dupFns inp.fns && inp.fns.all (fun f => !f.param.isStructSlice && !f.result.isStructSlice &&
    f.param.strip.2 != .basic "bool" && f.result.strip.2 != .basic "bool") &&   -- the oracle cannot trace a bool through a method
  wfNewSide inp.src inp.srcNew && wfNewSide inp.dest inp.destNew &&
  (plan inp).st.toC.all (fun c => !isSubStrat c.strat || subNamesAgree c.rd.ty c.wr.ty) &&
  (plan inp).st.fromC.all (fun c => !isSubStrat c.strat || subNamesAgree c.wr.ty c.rd.ty) &&
  (leavesOf inp.dest).all (fun d => match d.decl.tag with | .name _ => false | _ => true) &&
  -- the oracle decodes an `any` leaf as ONE value: a whole slice of structs stored in it cannot be traced element by element
  ((plan inp).st.toC ++ (plan inp).st.fromC).all (fun c => !(c.wr.ty == .basic "any" && (match c.rd.ty with | .slice _ => true | _ => false)))

/-- the generator's pair loop visits every reading field with at most one partner, and vice versa -/
def uniquePairs (inp : Input) : Bool :=
  let p := plan inp
  let ps := pairs inp.nm p.srcFields p.destFields
  (ps.map (·.1.name)).Nodup && (ps.map (·.2.name)).Nodup


/-- F_multiMatch: some reading field has two claims in a generated direction — `Target` keeps only the last -/
def F_multiMatch (inp : Input) : Bool :=
  let p := plan inp
  (toGen inp && p.srcFields.any (fun f => (p.st.toC.filter (fun c => c.rd == f)).length ≥ 2)) ||
  (fromGen inp && p.destFields.any (fun f => (p.st.fromC.filter (fun c => c.rd == f)).length ≥ 2))

/-- two fields of the source type (at any depth, exported or not) whose Pascal-cased names coincide, one
    of them renamed by a `map:"Name"` tag: the tag map is keyed by the Pascal-cased name alone, so the text
    does not say which of the two the tag renames -/
def tagAmbiguous (t : Tree) : Bool :=
  (allDecls t).any (fun f => (match f.tag with | .name _ => true | _ => false) &&
    ((allDecls t).filter (fun g => pascalS g.name == pascalS f.name)).length ≥ 2)

/-- F_skipShadow: a PROMOTED `map:"-"` field hides a deeper promoted field of the same name from Go but
    not from the generator, which then copies the tagged field (at the top level the name is hidden from both) -/
def F_skipShadow (inp : Input) : Bool :=
  let f := fun (t : Tree) => (leavesOf t).any (fun l => l.depth > 0 && l.decl.tag == .skip &&
    (leavesOf t).any (fun m => m.depth > l.depth && m.decl.name == l.decl.name))
  f inp.src || f inp.dest

/-- F_embedSkip: `map:"-"` on an EMBEDDED struct is not read — its promoted fields are mapped all the same
    (only the embedded Mapper type honours the tag, loadTypeMapperPkg) -/
def F_embedSkip (inp : Input) : Bool :=
  (leavesOf inp.src).any (fun l => underSkipped inp.srcSkipEmbeds l && visible inp.src l && isExported l.decl.name && l.decl.tag != .skip) ||
  (leavesOf inp.dest).any (fun l => underSkipped inp.destSkipEmbeds l && visible inp.dest l && isExported l.decl.name && l.decl.tag != .skip)

def namesOk (inp : Input) : Bool :=
  (allNames inp.src ++ allNames inp.dest).all noUnderscore

/-- plain mode: a source leaf renamed by a tag is matched under the tag — its own spelling does not matter -/
def namesOk05 (inp : Input) : Bool :=
  (((leavesOf inp.src).filter (fun l => match l.decl.tag with | .name _ => false | _ => true)).map (·.decl.name)
    ++ allNames inp.dest).all noUnderscore

def region05 (inp : Input) : String :=
  if !grammarOk inp || inp.srcNew || inp.destNew || inp.mapperPtr == some true then "Out"
  else if !namesOk05 inp || tagAmbiguous inp.src then "Out"
  else if F_skipShadow inp then "F_skipShadow"
  else if F_embedSkip inp then "F_embedSkip"
  else if F_multiMatch inp then "F_multiMatch"
  else if !uniquePairs inp then "WFa"
  else "WF"

def WF05 (inp : Input) : Bool := region05 inp == "WF"


/-! ## C09 — the same statements, executed ideally

Every statement either runs completely or is skipped: it is skipped when an embedded pointer on
its reading path is nil, when it maps a nil pointer into a struct value or a nil slice; nil elements of
a slice give zero elements; nothing panics; the written side always has room. -/

def idealValue : Strat → V → Option V
  | .assign, v | .conv, v => some v
  | .func k, v => some (applyFn k v)
  | .sub r w, v => if v.isZero then (if r && !w then none else some .zero) else some v
  | .each _ _, v => match v with
    | .zero => none
    | v => some v

def idealStmt (rs ws : SideSem) (N : List String) (w : WSt) (c : Claim) : WSt :=
  match resolveField rs.tree c.rd, resolveField ws.tree c.wr with
  | some rl, some wl =>
    if (hops rs.ptrs rl.path).all (nonNil N) then
      match idealValue c.strat (readVal N c rl) with
      | some v => { w with vals := w.vals ++ [(joinPath wl.path, v)] }
      | none => w
    else w
  | _, _ => w

/-- the constructor call, ideally: an argument whose read crosses a nil embedded pointer is the zero value (like a
    skipped statement), every other one the value read; the constructor allocates every embedded pointer -/
def idealArgs (rs ws : SideSem) (N : List String) (args : List CtorArg) : WSt :=
  args.foldl (fun w a =>
    match a.rd with
    | none => w
    | some rd =>
      match resolveField rs.tree rd with
      | some rl =>
        if (hops rs.ptrs rl.path).all (nonNil N) then
          { w with vals := w.vals ++ [(joinPath a.p.path, match a.strat with
                                                          | .func k => applyFn k (readLeaf N rl)
                                                          | _ => readLeaf N rl)] }
        else w
      | none => w) { alloc := ws.ptrs }

/-- the written value before the statements run: built by the constructor, or allocated along the written paths -/
def idealStart (rs ws : SideSem) (N : List String) (ctor : Option (List CtorArg)) (alloc : List (List String)) : WSt :=
  match ctor with
  | none => { alloc := alloc }
  | some args => idealArgs rs ws N args

def idealTo (inp : Input) (p : Plan) (t : Tables) (N : List String) : WSt :=
  p.toStmts.foldl (idealStmt inp.srcSem inp.destSem N) (idealStart inp.srcSem inp.destSem N p.destCtor t.destAlloc)

def idealFrom (inp : Input) (p : Plan) (t : Tables) (N : List String) : WSt :=
  p.fromStmts.foldl (idealStmt inp.destSem inp.srcSem N) (idealStart inp.destSem inp.srcSem N p.srcCtor t.srcAlloc)

/-- a path list in which the embedded pointers crossed by every entry come earlier in the list -/
def chainOk (pp : List (List String)) : List (List String) → List (List String) → Bool
  | _, [] => true
  | seen, g :: gs => (hops pp g).all seen.contains && chainOk pp (seen ++ [g]) gs

/-- the guard of the statement tests every embedded pointer its read crosses, outermost first; the
    allocation list holds every embedded pointer its write crosses -/
def stmtTablesOk (rs ws : SideSem) (alloc : List (List String)) (c : Claim) : Bool :=
  match resolveField rs.tree c.rd, resolveField ws.tree c.wr with
  | some rl, some wl =>
    chainOk rs.ptrs [] (readGuard rs.ptrs c.rd) &&
    (hops rs.ptrs rl.path).all (readGuard rs.ptrs c.rd).contains &&
    (readGuard rs.ptrs c.rd).all (hops rs.ptrs rl.path).contains &&
    (hops ws.ptrs wl.path).all alloc.contains
  | _, _ => false

def hasFunc (cs : List Claim) : Bool := cs.any (fun c => match c.strat with | .func _ => true | _ => false)

/-- the emitted path tables are closed under "outer pointer first" (what the execution lemmas need;
    DERIVED from `WF09` in Proofs/MapperTables.lean, not a clause of it) -/
def TablesOk (inp : Input) : Bool :=
  let p := plan inp
  let t := tables inp p
  chainOk inp.destSem.ptrs [] t.destAlloc && chainOk inp.srcSem.ptrs [] t.srcAlloc &&
  p.toStmts.all (stmtTablesOk inp.srcSem inp.destSem t.destAlloc) &&
  p.fromStmts.all (stmtTablesOk inp.destSem inp.srcSem t.srcAlloc)

/-- the generator's `Path` of the field is the path Go resolves the emitted selector to -/
def pathAgrees (tree : Tree) (f : Field) : Bool :=
  match resolveField tree f with
  | some l => l.path == f.path
  | none => false

/-- C09 is asserted where: plain exported structs (C05's pairs), the mapper type not embedded by
    pointer (or unused), every emitted selector resolves to the field the generator means.
    No clause about the emitted tables, none about names. -/
def WF09 (inp : Input) : Bool :=
  let p := plan inp
  !inp.srcNew && !inp.destNew &&
  (inp.mapperPtr != some true || (!hasFunc p.toStmts && !hasFunc p.fromStmts)) &&
  p.toStmts.all (fun c => pathAgrees inp.src c.rd && pathAgrees inp.dest c.wr) &&
  p.fromStmts.all (fun c => pathAgrees inp.dest c.rd && pathAgrees inp.src c.wr)

/-- F_ptrMapper: the mapper type is embedded BY POINTER and a generated method calls one of its
    (value-receiver) methods: ToX panics when the pointer is nil, FromX always — it has just reset the receiver -/
def F_ptrMapper (inp : Input) : Bool :=
  let p := plan inp
  inp.mapperPtr == some true && ((toGen inp && hasFunc p.toStmts) || (fromGen inp && hasFunc p.fromStmts))

def region09 (inp : Input) : String :=
  if !grammarOk inp || inp.srcNew || inp.destNew || !namesOk inp || !modelCompiles inp then "Out"
  else if F_ptrMapper inp then "F_ptrMapper"
  else if WF09 inp then "WF"
  else "F_pathTable"

def nilsOf (mask : String) (slots : List String) : List String :=
  ((mask.toList.zip slots).filter (fun cs => cs.1 == '1')).map (·.2)

def showReset (clean dirty nilr : String) : String :=
  if dirty == clean && nilr == clean then "same" else "dirty:" ++ dirty ++ "|nil:" ++ nilr

/-- C09 observables of the model: per nil mask the outcome of ToX / FromX, and whether FromX depends on the receiver -/
def obs09 (inp : Input) (srcSlots destSlots masks fmasks : List String) : List (String × String) :=
  if !modelCompiles inp then [("compile", "error")] else
  let p := plan inp
  let t := tables inp p
  let sl := leavesOf inp.src
  let dl := leavesOf inp.dest
  [("compile", "ok")]
    ++ (if toGen inp then
          [("to:nilrecv", (execToP inp p t [] true).show dl)] ++
          masks.map (fun m => ("toN:" ++ m, (execToP inp p t (nilsOf m srcSlots)).show dl))
        else [])
    ++ (if fromGen inp then
          [("from:nilarg", (execFromP inp p t [] .clean true).show sl)] ++
          fmasks.flatMap (fun m =>
            let N := nilsOf m destSlots
            let c := (execFromP inp p t N .clean).show sl
            [("fromN:" ++ m, c),
             ("reset:" ++ m, showReset c ((execFromP inp p t N .dirty).show sl) ((execFromP inp p t N .nil).show sl))])
        else [])

/-- C05, partially nil chains: the same pairs observed with each embedded pointer nil in turn (the rest
    populated) — the value arrives iff the real path (Go's promotion rule: shallowest wins) is intact -/
def obsPart (inp : Input) (srcSlots destSlots masks fmasks : List String) : List (String × String) :=
  if !modelCompiles inp then [] else
  let p := plan inp
  let t := tables inp p
  (if toGen inp then masks.map (fun m => ("toN:" ++ m, (execToP inp p t (nilsOf m srcSlots)).show (leavesOf inp.dest))) else []) ++
  (if fromGen inp then fmasks.map (fun m => ("fromN:" ++ m, (execFromP inp p t (nilsOf m destSlots) .clean).show (leavesOf inp.src))) else [])

def specPart (inp : Input) (srcSlots destSlots masks fmasks : List String) : List (String × String) :=
  let p := plan inp
  let t := tables inp p
  (if toGen inp then masks.map (fun m => ("toN:" ++ m, (Outcome.value (idealTo inp p t (nilsOf m srcSlots))).show (leavesOf inp.dest))) else []) ++
  (if fromGen inp then fmasks.map (fun m => ("fromN:" ++ m, (Outcome.value (idealFrom inp p t (nilsOf m destSlots))).show (leavesOf inp.src))) else [])

def spec09 (inp : Input) (srcSlots destSlots masks fmasks : List String) : List (String × String) :=
  let p := plan inp
  let t := tables inp p
  let sl := leavesOf inp.src
  let dl := leavesOf inp.dest
  [("compile", "ok")]
    ++ (if toGen inp then
          [("to:nilrecv", "nil")] ++
          masks.map (fun m => ("toN:" ++ m, (Outcome.value (idealTo inp p t (nilsOf m srcSlots))).show dl))
        else [])
    ++ (if fromGen inp then
          [("from:nilarg", "nil")] ++
          fmasks.flatMap (fun m =>
            [("fromN:" ++ m, (Outcome.value (idealFrom inp p t (nilsOf m destSlots))).show sl), ("reset:" ++ m, "same")])
        else [])


/-! ## C15 — accessor mode -/

/-- how often a written leaf is written by the method: non-zero constructor argument + statements -/
def writesOf (tree : Tree) (ctor : Option (List CtorArg)) (stmts : List Claim) (l : Leaf) : Nat :=
  (match ctor with
   | some as => (as.filter (fun a => a.rd.isSome && a.p.path == l.path)).length
   | none => 0) +
  (stmts.filter (fun c => match resolveField tree c.wr with | some wl => wl.path == l.path | none => false)).length

def obs15 (inp : Input) : List (String × String) :=
  if !modelCompiles inp then [("compile", "error")] else
  let p := plan inp
  obs05 inp
    ++ (if toGen inp then (leavesOf inp.dest).map (fun l =>
          ("writes:to:" ++ joinPath l.path, toString (writesOf inp.dest p.destCtor p.toStmts l))) else [])
    ++ (if fromGen inp then (leavesOf inp.src).map (fun l =>
          ("writes:from:" ++ joinPath l.path, toString (writesOf inp.src p.srcCtor p.fromStmts l))) else [])

/-- C15: every mapped writable leaf is written exactly once (as a constructor argument or through
    its setter / by assignment), every other leaf never -/
def spec15 (inp : Input) : List (String × String) :=
  spec05 inp
    ++ (if toGen inp then (leavesOf inp.dest).filterMap (fun l => match candsTo inp l with
          | [] => some ("writes:to:" ++ joinPath l.path, "0")
          | [_] => some ("writes:to:" ++ joinPath l.path, "1")
          | _ => none) else [])
    ++ (if fromGen inp then (leavesOf inp.src).filterMap (fun l => match candsFrom inp l with
          | [] => some ("writes:from:" ++ joinPath l.path, "0")
          | [_] => some ("writes:from:" ++ joinPath l.path, "1")
          | _ => none) else [])

/-- the assumption the constructor path of ToX / FromX rests on (mapper.tmpl emits no allocations there), as an observable:
    the generated constructor of an accessor-mode side allocates every embedded pointer struct, to any depth — whether or not a
    constructor parameter or a field written afterwards lies below it -/
def ctorAlloc (inp : Input) : List (String × String) :=
  (if inp.srcNew then (ptrPaths [] inp.src).map (fun p => ("ctoralloc:src:" ++ joinPath p, "true")) else []) ++
  (if inp.destNew then (ptrPaths [] inp.dest).map (fun p => ("ctoralloc:dest:" ++ joinPath p, "true")) else [])

def genArgs (inp : Input) : List CtorArg :=
  let p := plan inp
  (if toGen inp then p.destCtor.getD [] else []) ++ (if fromGen inp then p.srcCtor.getD [] else [])

def genStmts (inp : Input) : List Claim :=
  let p := plan inp
  (if toGen inp then p.toStmts else []) ++ (if fromGen inp then p.fromStmts else [])

/-- F_skipTagNew: `map:"-"` on a field of an accessor-mode type is ignored — its getter, setter and
    constructor parameter come from the generated interfaces / the constructor, not from the field list -/
def F_skipTagNew (inp : Input) : Bool :=
  (inp.srcNew && (leavesOf inp.src).any (fun l => l.decl.tag == .skip)) ||
  (inp.destNew && (leavesOf inp.dest).any (fun l => l.decl.tag == .skip))

/-- the only way to write the leaf is its constructor parameter -/
def ctorOnly (l : Leaf) : Bool := !isExported l.decl.name && !l.decl.hasSet

/-- F_ctorNoSub: a constructor-only (get-only) field whose value needs a recursive ToX/FromX call stays
    zero: makeCtorMatch knows assignment, conversion and mapper methods only -/
def F_ctorNoSub (inp : Input) : Bool :=
  (toGen inp && inp.destNew && (leavesOf inp.dest).any (fun l => ctorOnly l && match candsTo inp l with
    | [c] => isSubStrat c.2
    | _ => false)) ||
  (fromGen inp && inp.srcNew && (leavesOf inp.src).any (fun l => ctorOnly l && match candsFrom inp l with
    | [c] => isSubStrat c.2
    | _ => false))

/-- F_ctorArgNil: the arguments of the constructor call are evaluated UNGUARDED (`NewT(d_.Zone, …)`): an argument read through
    an embedded pointer of the other side panics when that pointer is nil, where the same field mapped by a statement is
    skipped behind `if d_.Base != nil` -/
def F_ctorArgNil (inp : Input) : Bool :=
  (toGen inp && ((plan inp).destCtor.getD []).any (fun a => match a.rd with
    | some rd => (match resolveField inp.src rd with | some rl => !(hops inp.srcSem.ptrs rl.path).isEmpty | none => false)
    | none => false)) ||
  (fromGen inp && ((plan inp).srcCtor.getD []).any (fun a => match a.rd with
    | some rd => (match resolveField inp.dest rd with | some rl => !(hops inp.destSem.ptrs rl.path).isEmpty | none => false)
    | none => false))

def isPanic : Outcome → Bool
  | .panic => true
  | _ => false

/-- F_ptrEmbedSetter: an accessor-mode type embeds another one BY POINTER and the constructor is not
    used (no parameter found a value): the method calls a promoted setter through the nil embedded
    pointer of the fresh / reset value and panics -/
def F_ptrEmbedSetter (inp : Input) : Bool :=
  (inp.srcNew || inp.destNew) &&
  ((toGen inp && isPanic (execTo inp [])) || (fromGen inp && isPanic (execFrom inp [])))

def region15 (inp : Input) : String :=
  if !grammarOk inp || !(inp.srcNew || inp.destNew) || !namesOk inp then "Out"
  else if tagAmbiguous inp.src || F_skipShadow inp || F_embedSkip inp then "Out"
  else if !modelCompiles inp then "Out"
  else if F_ptrEmbedSetter inp then "F_ptrEmbedSetter"
  else if F_skipTagNew inp then "F_skipTagNew"
  else if F_ctorNoSub inp then "F_ctorNoSub"
  else if F_ctorArgNil inp then "F_ctorArgNil"
  else if F_multiMatch inp then "Out"
  else "WF"


/-- C09 over accessor-mode sides (constructor path, promoted getters / setters): only where C15 has nothing to report — its
    finding regions stay C15's. The theorems of Props/C09 are about plain sides; these inputs are tied to the code by the
    correspondence run alone (no panic for nil / dirty / fresh receivers and a partially nil plain side) -/
def region09n (inp : Input) : String :=
  if inp.srcNew || inp.destNew then (if region15 inp == "WF" then "WFn" else "Out") else region09 inp

/-! ## C01 leg: does the output compile -/

def allOk : List (String × String) :=
  [("exit", "0"), ("compile", "ok"), ("header", "ok"), ("gofmt", "ok"), ("package", "ok")]

def obs01 (inp : Input) : List (String × String) :=
  [("exit", "0"), ("compile", if modelCompiles inp then "ok" else "error"), ("header", "ok"), ("gofmt", "ok"), ("package", "ok")]

/-- WF: a well-typed pair inside the grammar whose output type-checks -/
def region01 (inp : Input) : String :=
  if !grammarOk inp || !namesOk inp then "Out"
  else if modelCompiles inp then "WF"
  else "Out"

end ShootVerif.Mapper
