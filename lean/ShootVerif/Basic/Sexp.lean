/-
S-expressions: the wire format between the Go/Python harness and the Lean model driver.
One case per line. Atoms are bare tokens (no whitespace, parens or quotes) or
double-quoted strings with \" \\ \n \t escapes.
-/
namespace ShootVerif

inductive Sexp where
  | atom : String → Sexp
  | list : List Sexp → Sexp
  deriving Repr, Inhabited, BEq

namespace Sexp

private def isBare (c : Char) : Bool :=
  !(c == ' ' || c == '\t' || c == '\n' || c == '\r' || c == '(' || c == ')' || c == '"')

/-- tokens: "(" ")" or atom (tagged) -/
inductive Tok where
  | lp | rp
  | at : String → Tok
  deriving Repr

partial def tokenize (cs : List Char) (acc : Array Tok) : Option (Array Tok) :=
  match cs with
  | [] => some acc
  | c :: rest =>
    if c == ' ' || c == '\t' || c == '\n' || c == '\r' then tokenize rest acc
    else if c == '(' then tokenize rest (acc.push .lp)
    else if c == ')' then tokenize rest (acc.push .rp)
    else if c == '"' then
      let rec str (cs : List Char) (s : String) : Option (String × List Char) :=
        match cs with
        | [] => none
        | '"' :: r => some (s, r)
        | '\\' :: 'n' :: r => str r (s.push '\n')
        | '\\' :: 't' :: r => str r (s.push '\t')
        | '\\' :: 'r' :: r => str r (s.push '\r')
        | '\\' :: c :: r => str r (s.push c)
        | c :: r => str r (s.push c)
      match str rest "" with
      | none => none
      | some (s, r) => tokenize r (acc.push (.at s))
    else
      let w := cs.takeWhile isBare
      tokenize (cs.dropWhile isBare) (acc.push (.at (String.ofList w)))

/-- parse a token stream; stack of partially built lists -/
def parseToks (ts : List Tok) : Option Sexp :=
  let rec go (ts : List Tok) (stack : List (List Sexp)) : Option Sexp :=
    match ts, stack with
    | [], [[x]] => some x
    | [], _ => none
    | .lp :: r, st => go r ([] :: st)
    | .rp :: r, cur :: par :: st => go r ((Sexp.list cur.reverse :: par) :: st)
    | .rp :: _, _ => none
    | .at s :: r, cur :: st => go r ((Sexp.atom s :: cur) :: st)
    | .at _ :: _, [] => none
  go ts [[]]

def parse (s : String) : Option Sexp :=
  match tokenize s.toList #[] with
  | none => none
  | some ts => parseToks ts.toList

def quoteStr (s : String) : String :=
  let body := s.toList.foldl (fun acc c =>
    if c == '"' then acc ++ "\\\"" else if c == '\\' then acc ++ "\\\\"
    else if c == '\n' then acc ++ "\\n" else if c == '\t' then acc ++ "\\t"
    else if c == '\r' then acc ++ "\\r" else acc.push c) ""
  "\"" ++ body ++ "\""

def atomStr (s : String) : String :=
  if s.isEmpty || s.toList.any (fun c => !isBare c || c == '\\') then quoteStr s else s

partial def toString : Sexp → String
  | .atom s => atomStr s
  | .list xs => "(" ++ " ".intercalate (xs.map toString) ++ ")"

instance : ToString Sexp := ⟨Sexp.toString⟩

def asAtom? : Sexp → Option String
  | .atom s => some s
  | _ => none

def asList? : Sexp → Option (List Sexp)
  | .list xs => some xs
  | _ => none

def asNat? (s : Sexp) : Option Nat := s.asAtom?.bind String.toNat?
def asInt? (s : Sexp) : Option Int := s.asAtom?.bind String.toInt?

/-- head symbol of a list form `(head ...)` -/
def head? : Sexp → Option String
  | .list (.atom h :: _) => some h
  | _ => none

def args : Sexp → List Sexp
  | .list (_ :: r) => r
  | _ => []

/-- find the first sub-form `(key ...)` among the arguments of a form -/
def field? (s : Sexp) (key : String) : Option Sexp :=
  s.args.find? (fun x => x.head? == some key)

def hasFlag (s : Sexp) (key : String) : Bool :=
  s.args.any (fun x => x == .atom key || x.head? == some key)

end Sexp
end ShootVerif
