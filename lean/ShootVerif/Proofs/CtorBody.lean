import ShootVerif.Proofs.CtorFlatten
/-! `newBodyRec` applied to the pre-order walk re-parses it into the nested literal `lit`. -/
namespace ShootVerif.Ctor

/-- the literal the property expects: one nested `(&)E{…}` per embed, in declaration order -/
def lit (nm : String → Option String) (sh : Shadow) (top inh : Bool) (d : Nat) : Tree → Lit
  | .nil => .nil
  | .field f rest =>
    if f.skip then lit nm sh top inh d rest
    else entry nm (mkField sh d (if top then f.newMark else inh) f top) (lit nm sh top inh d rest)
  | .embed n ty p nm' body rest =>
    .sub n ty p (lit nm sh false (if top then nm' else inh) (d + 1) body) (lit nm sh top inh d rest)

def stopsAt (bound : Int) (rest : List Field) : Prop :=
  ∀ f, rest.head? = some f → (f.depth : Int) ≤ bound

theorem walk_head_depth (sh : Shadow) (t : Tree) : ∀ (top inh : Bool) (d : Nat) (f : Field),
    (walk sh top inh d t).head? = some f → f.depth = d := by
  induction t with
  | nil => intro _ _ _ f h; simp [walk] at h
  | field g r ih =>
    intro top inh d f h
    by_cases hs : g.skip
    · simp [walk, hs] at h; exact ih top inh d f h
    · simp [walk, hs] at h; subst h; simp [mkField]
  | embed n ty p nm b r _ _ =>
    intro top inh d f h
    simp [walk] at h; subst h; simp [mkEmbed]

theorem bodyRec_stop (nm : String → Option String) (fuel : Nat) (rest : List Field) (bound : Int)
    (h : stopsAt bound rest) : bodyRec nm fuel rest bound = (.nil, rest) := by
  cases fuel with
  | zero => simp [bodyRec]
  | succ n =>
    cases rest with
    | nil => simp [bodyRec]
    | cons f fs =>
      have := h f (by simp)
      simp [bodyRec, this]

theorem bodyRec_walk (nm : String → Option String) (sh : Shadow) (t : Tree) :
    ∀ (top inh : Bool) (d : Nat) (rest : List Field) (fuel : Nat),
      (walk sh top inh d t).length + rest.length ≤ fuel →
      stopsAt ((d : Int) - 1) rest →
      bodyRec nm fuel (walk sh top inh d t ++ rest) ((d : Int) - 1) = (lit nm sh top inh d t, rest) := by
  induction t with
  | nil =>
    intro top inh d rest fuel _ hs
    simpa [walk, lit] using bodyRec_stop nm fuel rest _ hs
  | field f r ih =>
    intro top inh d rest fuel hf hs
    by_cases hsk : f.skip
    · simp only [walk, hsk, ↓reduceIte, List.nil_append, lit] at hf ⊢
      exact ih top inh d rest fuel hf hs
    · simp only [walk, hsk, Bool.false_eq_true, ↓reduceIte, List.cons_append, List.nil_append, lit,
        List.length_cons, List.length_append, List.length_nil] at hf ⊢
      cases fuel with
      | zero => omega
      | succ n =>
        have hd : ¬ (((mkField sh d (if top then f.newMark else inh) f top).depth : Int) ≤ (d : Int) - 1) := by
          simp [mkField]; omega
        have he : (mkField sh d (if top then f.newMark else inh) f top).isEmbeded = false := by simp [mkField]
        have := ih top inh d rest n (by omega) hs
        simp [bodyRec, hd, he, this]
  | embed nme ty p nm' b r ihb ihr =>
    intro top inh d rest fuel hf hs
    simp only [walk, List.cons_append, List.append_assoc, List.length_cons, List.length_append, lit] at hf ⊢
    cases fuel with
    | zero => omega
    | succ n =>
      have he : (mkEmbed sh d nme ty p).isEmbeded = true := by simp [mkEmbed]
      have hdep : (mkEmbed sh d nme ty p).depth = d := by simp [mkEmbed]
      have hs1 : stopsAt (((d + 1 : Nat) : Int) - 1) (walk sh top inh d r ++ rest) := by
        intro g hg
        cases hfr : walk sh top inh d r with
        | nil => simp [hfr] at hg; have := hs g hg; omega
        | cons x xs =>
          simp [hfr] at hg; subst hg
          have := walk_head_depth sh r top inh d x (by simp [hfr]); omega
      have h1 := ihb false (if top then nm' else inh) (d + 1) (walk sh top inh d r ++ rest) n
        (by simp only [List.length_append]; omega) hs1
      have h2 := ihr top inh d rest n (by omega) hs
      have e1 : (((d + 1 : Nat) : Int) - 1) = (d : Int) := by omega
      rw [e1] at h1
      have hd' : ¬ ((d : Int) ≤ (d : Int) - 1) := by omega
      simp only [bodyRec, hdep, hd', ↓reduceIte, he, h1, h2]
      simp [mkEmbed]

/-- the body of the generated constructor is the nested literal -/
theorem bodyRec_walkTop (nm : String → Option String) (sh : Shadow) (t : Tree) :
    (bodyRec nm (walkTop sh t).length (walkTop sh t) (-1)).1 = lit nm sh true false 0 t := by
  have := bodyRec_walk nm sh t true false 0 [] (walkTop sh t).length (by simp [walkTop])
    (by intro f h; simp at h)
  simp only [List.append_nil] at this
  have e : ((0 : Nat) : Int) - 1 = -1 := by omega
  rw [e] at this
  unfold walkTop at *
  rw [this]

end ShootVerif.Ctor
