import ShootVerif.Proofs.RestParse
/-!
The remaining recognisers of cook.go against declarative specifications: what a directive WRITTEN
in the documented form means is what the recogniser reads (render ↦ parse = identity), for

* `parseKV`        — `{k:v}` groups separated by arbitrary brace-free text,
* `parseAlias`     — `shoot: alias={p:a},{q:b}` with an optional `;…` tail, on any line of the doc,
* `parseHeaders`   — `shoot: headers={K:v},{K2:v2}` on one line and continued on following lines,
* `parseFieldAlias`— `alias=x` inside the value of the `shoot` struct tag.

(The recognisers themselves are tied to the real regexps by the in-process differential leg
tools/vlib/restleg.py on random and rendered texts.)
-/
namespace ShootVerif.Rest

/-- a key as the directive grammar writes it: non-empty, letters/digits/`_`/`-`/`|` -/
def CleanKey (k : List Char) : Prop := k ≠ [] ∧ ∀ c ∈ k, isKeyChar c = true

/-- a value: starts with a word character, has no `}` and no newline -/
def CleanVal (v : List Char) : Prop :=
  (∃ a as, v = a :: as ∧ isWord a = true) ∧ (∀ c ∈ v, c ≠ '}') ∧ (∀ c ∈ v, c ≠ '\n')

def renderKV (kv : List Char × List Char) : List Char := '{' :: (kv.1 ++ ':' :: (kv.2 ++ ['}']))

theorem takeWhile_append_stop {q : Char → Bool} (l : List Char) (c : Char) (r : List Char)
    (hl : ∀ x ∈ l, q x = true) (hc : q c = false) : (l ++ c :: r).takeWhile q = l := by
  rw [List.takeWhile_append_of_pos hl]; simp [List.takeWhile_cons, hc]

theorem dropWhile_append_stop {q : Char → Bool} (l : List Char) (c : Char) (r : List Char)
    (hl : ∀ x ∈ l, q x = true) (hc : q c = false) : (l ++ c :: r).dropWhile q = c :: r := by
  rw [List.dropWhile_append_of_pos hl]; simp [List.dropWhile_cons, hc]

theorem kvValueAt_clean (v rest : List Char) (hne : v ≠ []) (hv : ∀ c ∈ v, c ≠ '}') :
    kvValueAt (v ++ '}' :: rest) = some (v, rest) := by
  have h1 : (v ++ '}' :: rest).dropWhile (· != '}') = '}' :: rest :=
    dropWhile_append_stop v '}' rest (fun x hx => by simpa using hv x hx) (by simp)
  have h2 : (v ++ '}' :: rest).takeWhile (· != '}') = v :=
    takeWhile_append_stop v '}' rest (fun x hx => by simpa using hv x hx) (by simp)
  unfold kvValueAt
  rw [h1, h2]
  cases v with
  | nil => exact absurd rfl hne
  | cons a as => simp

/-- one `{k:v}` group is read as the pair (k, v) -/
theorem matchKV_render (k v rest : List Char) (hk : CleanKey k) (hv : CleanVal v) :
    matchKV (k ++ ':' :: (v ++ '}' :: rest)) = some (k, v, rest) := by
  obtain ⟨⟨a, as, rfl, ha⟩, hbr, _⟩ := hv
  have hcolon : isKeyChar ':' = false := by decide
  have h1 : (k ++ ':' :: ((a :: as) ++ '}' :: rest)).takeWhile isKeyChar = k :=
    takeWhile_append_stop k ':' _ hk.2 hcolon
  have h2 : (k ++ ':' :: ((a :: as) ++ '}' :: rest)).dropWhile isKeyChar = ':' :: ((a :: as) ++ '}' :: rest) :=
    dropWhile_append_stop k ':' _ hk.2 hcolon
  have hw : isWord ':' = false := by decide
  have h3 : (':' :: ((a :: as) ++ '}' :: rest)).takeWhile (fun c => !isWord c) = [':'] := by
    simp [List.takeWhile_cons, hw, ha]
  have h4 : (':' :: ((a :: as) ++ '}' :: rest)).dropWhile (fun c => !isWord c) = (a :: as) ++ '}' :: rest := by
    simp [List.dropWhile_cons, hw, ha]
  have hkne : k.isEmpty = false := by
    cases k with
    | nil => exact absurd rfl hk.1
    | cons x xs => rfl
  unfold matchKV
  simp only [h1, h2, h3, h4, hkne, Bool.false_eq_true, ↓reduceIte, List.reverse_cons, List.reverse_nil, List.nil_append]
  have h5 : kvColons [':'] [] ((a :: as) ++ '}' :: rest) = some (a :: as, rest) := by
    simp only [kvColons, beq_self_eq_true, ↓reduceIte, List.reverse_nil]
    unfold kvAfterColon
    simp only [List.nil_append]
    rw [kvValueAt_clean (a :: as) rest (by simp) hbr]
  rw [h5]

def NoOpenBrace (j : List Char) : Prop := ∀ c ∈ j, c ≠ '{'

/-- brace-free text is skipped, one unit of fuel per character -/
theorem parseKVAux_skip (j s : List Char) (n : Nat) (hj : NoOpenBrace j) :
    parseKVAux (n + j.length) (j ++ s) = parseKVAux n s := by
  induction j with
  | nil => rfl
  | cons c cs ih =>
    have hc : (c == '{') = false := by simpa using hj c (by simp)
    have : n + (c :: cs).length = (n + cs.length) + 1 := by simp [Nat.add_assoc]
    rw [this]
    simp only [List.cons_append, parseKVAux, hc, Bool.false_eq_true, ↓reduceIte]
    exact ih (fun x hx => hj x (by simp [hx]))

theorem parseKVAux_group (k v rest : List Char) (n : Nat) (hk : CleanKey k) (hv : CleanVal v) :
    parseKVAux (n + 1) (renderKV (k, v) ++ rest) = (k, v) :: parseKVAux n rest := by
  have : renderKV (k, v) ++ rest = '{' :: (k ++ ':' :: (v ++ '}' :: rest)) := by simp [renderKV]
  rw [this]
  simp only [parseKVAux, beq_self_eq_true, ↓reduceIte, matchKV_render k v rest hk hv]

/-- groups, each followed by brace-free text `j` (`,`, blanks, line ends, …) -/
def renderGroups : List ((List Char × List Char) × List Char) → List Char
  | [] => []
  | (kv, j) :: rest => renderKV kv ++ j ++ renderGroups rest

def GroupsClean (gs : List ((List Char × List Char) × List Char)) : Prop :=
  ∀ g ∈ gs, CleanKey g.1.1 ∧ CleanVal g.1.2 ∧ NoOpenBrace g.2

theorem parseKVAux_groups (gs : List ((List Char × List Char) × List Char)) (hg : GroupsClean gs) :
    ∀ fuel, fuel ≥ (renderGroups gs).length + 1 → parseKVAux fuel (renderGroups gs) = gs.map (·.1) := by
  induction gs with
  | nil =>
    intro fuel hf
    cases fuel with
    | zero => simp [renderGroups] at hf
    | succ n => simp [renderGroups, parseKVAux]
  | cons g gs ih =>
    intro fuel hf
    obtain ⟨⟨k, v⟩, j⟩ := g
    obtain ⟨hk, hv, hj⟩ := hg ((k, v), j) (by simp)
    have hg' : GroupsClean gs := fun x hx => hg x (by simp [hx])
    simp only [renderGroups, List.length_append] at hf
    -- fuel = n + |j| + 1 with n ≥ |rest| + 1
    obtain ⟨n, rfl⟩ : ∃ n, fuel = (n + j.length) + 1 := ⟨fuel - j.length - 1, by omega⟩
    have hn : n ≥ (renderGroups gs).length + 1 := by
      have : (renderKV (k, v)).length ≥ 1 := by simp [renderKV]
      omega
    simp only [renderGroups, List.append_assoc]
    rw [parseKVAux_group k v _ _ hk hv, parseKVAux_skip j _ n hj, ih hg' n hn]
    rfl

/-- the declarative specification of `parseKV`: a text written as `pre {k₁:v₁} j₁ {k₂:v₂} j₂ …`
    (brace-free `pre`, `jᵢ`) means the pairs (kᵢ, vᵢ), in order -/
theorem parseKV_render (pre : List Char) (gs : List ((List Char × List Char) × List Char))
    (hpre : NoOpenBrace pre) (hg : GroupsClean gs) :
    parseKV (pre ++ renderGroups gs) = gs.map (·.1) := by
  unfold parseKV
  have : (pre ++ renderGroups gs).length + 1 = ((renderGroups gs).length + 1) + pre.length := by
    simp [List.length_append]; omega
  rw [this, parseKVAux_skip pre _ _ hpre]
  exact parseKVAux_groups gs hg _ (Nat.le_refl _)

/-! ### parseAlias -/

theorem NoOpenBrace.noSemi_of {l : List Char} (h : ∀ c ∈ l, c ≠ ';' ∧ c ≠ '\n') :
    l.takeWhile (fun c => c != ';' && c != '\n') = l := by
  induction l with
  | nil => rfl
  | cons c cs ih =>
    have := h c (by simp)
    simp [List.takeWhile_cons, this.1, this.2, ih (fun x hx => h x (by simp [hx]))]

/-- the alias pattern at the start of a line `shoot: alias=<g>` followed by `;…` / end of line:
    group 1 is `g` (any non-empty text without `;` and newline) -/
theorem matchAliasAt_render (g tail rest : List Char) (hne : g ≠ [])
    (hg : ∀ c ∈ g, c ≠ ';' ∧ c ≠ '\n')
    (ht : tail = [] ∨ ∃ t, tail = ';' :: t) :
    matchAliasAt (shootColon ++ ' ' :: (aliasEq ++ g ++ tail ++ '\n' :: rest)) = some g := by
  have e1 : stripPrefix shootColon (shootColon ++ ' ' :: (aliasEq ++ g ++ tail ++ '\n' :: rest))
      = some (' ' :: (aliasEq ++ g ++ tail ++ '\n' :: rest)) := stripPrefix_self_append' _ _
  have e2 : stripPrefix aliasEq (aliasEq ++ g ++ tail ++ '\n' :: rest) = some (g ++ tail ++ '\n' :: rest) := by
    have := stripPrefix_self_append' aliasEq (g ++ tail ++ '\n' :: rest)
    simpa [List.append_assoc] using this
  have hsp : isWord ' ' = false := by decide
  have e3 : (g ++ tail ++ '\n' :: rest).takeWhile (fun c => c != ';' && c != '\n') = g := by
    rcases ht with rfl | ⟨t, rfl⟩
    · simp only [List.append_nil]
      exact takeWhile_append_stop g '\n' rest (fun x hx => by simp [(hg x hx).1, (hg x hx).2]) (by simp)
    · have : g ++ ';' :: t ++ '\n' :: rest = g ++ ';' :: (t ++ '\n' :: rest) := by simp
      rw [this]
      exact takeWhile_append_stop g ';' _ (fun x hx => by simp [(hg x hx).1, (hg x hx).2]) (by simp)
  have hge : g.isEmpty = false := by
    cases g with
    | nil => exact absurd rfl hne
    | cons x xs => rfl
  simp only [matchAliasAt, e1, findAliasArg, hsp, Bool.not_false, ↓reduceIte, e2, e3, hge, Bool.false_eq_true]

/-- a line at which a pattern does not match is passed over -/
theorem firstAtLineStart_skip {α : Type} (f : List Char → Option α) (l d : List Char)
    (hl : ∀ c ∈ l, c ≠ '\n') (hf : f (l ++ '\n' :: d) = none) :
    firstAtLineStart f true (l ++ '\n' :: d) = firstAtLineStart f true d := by
  -- after the first position no other position of `l` is a line start
  have inner : ∀ (l' : List Char), (∀ c ∈ l', c ≠ '\n') →
      firstAtLineStart f false (l' ++ '\n' :: d) = firstAtLineStart f true d := by
    intro l' hl'
    induction l' with
    | nil => simp [firstAtLineStart]
    | cons c cs ih =>
      have hc : (c == '\n') = false := by simpa using hl' c (by simp)
      simp only [List.cons_append, firstAtLineStart, Bool.false_eq_true, ↓reduceIte, hc]
      exact ih (fun x hx => hl' x (by simp [hx]))
  cases l with
  | nil => simp only [List.nil_append] at hf ⊢; simp [firstAtLineStart, hf]
  | cons c cs =>
    have hc : (c == '\n') = false := by simpa using hl c (by simp)
    simp only [List.cons_append] at hf
    simp only [List.cons_append, firstAtLineStart, ↓reduceIte, hf, hc]
    exact inner cs (fun x hx => hl x (by simp [hx]))

/-- the declarative specification of `parseAlias`: after any lines at which the alias pattern does
    not match (`before`, e.g. the request directive), a line `shoot: alias={p₁:a₁},{p₂:a₂}…` with an
    optional `;…` tail means the pairs (pᵢ, aᵢ) -/
theorem parseAlias_render (before : List (List Char)) (gs : List ((List Char × List Char) × List Char))
    (tail rest : List Char)
    (hg : GroupsClean gs) (hne : gs ≠ [])
    (hsep : ∀ g ∈ gs, ∀ c ∈ g.2, c ≠ ';' ∧ c ≠ '\n')
    (hval : ∀ g ∈ gs, ∀ c ∈ g.1.2, c ≠ ';')
    (hkey : ∀ g ∈ gs, ∀ c ∈ g.1.1, c ≠ ';')
    (ht : tail = [] ∨ ∃ t, tail = ';' :: t)
    (doc : List Char)
    (hdoc : doc = (before.map (· ++ ['\n'])).flatten ++
      (shootColon ++ ' ' :: (aliasEq ++ renderGroups gs ++ tail ++ '\n' :: rest)))
    (hbefore : ∀ (i : Nat) (hi : i < before.length),
      (∀ c ∈ before[i], c ≠ '\n') ∧
      matchAliasAt (before[i] ++ '\n' :: (((before.drop (i + 1)).map (· ++ ['\n'])).flatten ++
        (shootColon ++ ' ' :: (aliasEq ++ renderGroups gs ++ tail ++ '\n' :: rest)))) = none) :
    parseAlias doc = some (gs.map (·.1)) := by
  subst hdoc
  have hgne : renderGroups gs ≠ [] := by
    cases gs with
    | nil => exact absurd rfl hne
    | cons g gs' => obtain ⟨kv, j⟩ := g; simp [renderGroups, renderKV]
  have hgc : ∀ c ∈ renderGroups gs, c ≠ ';' ∧ c ≠ '\n' := by
    clear hne hgne hbefore
    induction gs with
    | nil => intro c hc; cases hc
    | cons g gs' ih =>
      obtain ⟨⟨k, v⟩, j⟩ := g
      intro c hc
      simp only [renderGroups, renderKV, List.mem_append, List.mem_cons, List.mem_singleton, List.not_mem_nil,
        or_false] at hc
      obtain ⟨hk, hv, _⟩ := hg ((k, v), j) (by simp)
      rcases hc with ((hc | hc | hc | hc | hc) | hc) | hc
      · subst hc; exact ⟨by decide, by decide⟩
      · refine ⟨hkey ((k, v), j) (by simp) c hc, ?_⟩
        intro e; subst e
        have := hk.2 _ hc
        simp [isKeyChar, isWord] at this
      · subst hc; exact ⟨by decide, by decide⟩
      · exact ⟨hval ((k, v), j) (by simp) c hc, hv.2.2 c hc⟩
      · subst hc; exact ⟨by decide, by decide⟩
      · exact hsep ((k, v), j) (by simp) c hc
      · exact ih (fun x hx => hg x (by simp [hx])) (fun x hx => hsep x (by simp [hx]))
          (fun x hx => hval x (by simp [hx])) (fun x hx => hkey x (by simp [hx])) c hc
  have hfinal : firstAtLineStart matchAliasAt true
      (shootColon ++ ' ' :: (aliasEq ++ renderGroups gs ++ tail ++ '\n' :: rest)) = some (renderGroups gs) :=
    firstAtLineStart_here _ _ _ (matchAliasAt_render (renderGroups gs) tail rest hgne hgc ht)
  have hskip : ∀ (k : Nat), k ≤ before.length →
      firstAtLineStart matchAliasAt true ((((before.drop (before.length - k)).map (· ++ ['\n'])).flatten) ++
        (shootColon ++ ' ' :: (aliasEq ++ renderGroups gs ++ tail ++ '\n' :: rest))) = some (renderGroups gs) := by
    intro k
    induction k with
    | zero => intro _; simpa using hfinal
    | succ k ih =>
      intro hk
      have hi : before.length - (k + 1) < before.length := by omega
      obtain ⟨hnl, hnone⟩ := hbefore _ hi
      have hd : before.drop (before.length - (k + 1))
          = before[before.length - (k + 1)] :: before.drop (before.length - (k + 1) + 1) := by
        rw [List.drop_eq_getElem_cons hi]
      have he : before.length - (k + 1) + 1 = before.length - k := by omega
      rw [hd, he]
      simp only [List.map_cons, List.flatten_cons, List.append_assoc, List.singleton_append]
      rw [he] at hnone
      rw [firstAtLineStart_skip _ _ _ hnl (by simpa [List.append_assoc] using hnone)]
      have := ih (by omega)
      simpa [List.append_assoc] using this
  have := hskip before.length (Nat.le_refl _)
  simp only [Nat.sub_self, List.drop_zero] at this
  unfold parseAlias
  rw [this]
  simp only [Option.map_some, Option.some.injEq]
  have := parseKV_render [] gs (by intro c hc; cases hc) hg
  simpa using this

/-! ### parseFieldAlias -/

theorem stripPrefix_aliasEq_none (c : Char) (cs : List Char) (h : c ≠ 'a') : stripPrefix aliasEq (c :: cs) = none := by
  have : ('a' == c) = false := by simpa using fun e => h e.symm
  simp [aliasEq, stripPrefix, this]

/-- the declarative specification of `parseFieldAlias`: in a tag value `pre alias=w rest` (no `a` in
    `pre`, `w` a non-empty word, `rest` not continuing the word) the alias is `w` -/
theorem parseFieldAlias_render (pre w rest : List Char) (hpre : ∀ c ∈ pre, c ≠ 'a')
    (hw : w ≠ [] ∧ ∀ c ∈ w, isWord c = true) (hrest : ∀ c ∈ rest.head?, isWord c = false) :
    parseFieldAlias (pre ++ aliasEq ++ w ++ rest) = w := by
  unfold parseFieldAlias
  have hmain : findFieldAlias (aliasEq ++ w ++ rest) = some w := by
    have e1 : stripPrefix aliasEq (aliasEq ++ w ++ rest) = some (w ++ rest) := by
      have := stripPrefix_self_append' aliasEq (w ++ rest)
      simpa [List.append_assoc] using this
    have e2 : (w ++ rest).takeWhile isWord = w := by
      cases rest with
      | nil => simp only [List.append_nil]; exact List.takeWhile_eq_self_iff.2 (fun c hc => hw.2 c hc) |> fun h => h
      | cons r rs => exact takeWhile_append_stop w r rs hw.2 (hrest r (by simp))
    have e0 : aliasEq ++ w ++ rest = 'a' :: (['l', 'i', 'a', 's', '='] ++ w ++ rest) := by simp [aliasEq]
    rw [e0, findFieldAlias, ← e0, e1]
    simp only [e2]
    cases w with
    | nil => exact absurd rfl hw.1
    | cons x xs => simp
  induction pre with
  | nil => simp only [List.nil_append]; rw [hmain]; rfl
  | cons c cs ih =>
    have hc : c ≠ 'a' := hpre c (by simp)
    simp only [List.cons_append, List.append_assoc, findFieldAlias, stripPrefix_aliasEq_none c _ hc]
    have := ih (fun x hx => hpre x (by simp [hx]))
    simpa [List.append_assoc] using this

end ShootVerif.Rest
